#!/bin/bash
# MANIFEST.setup_cmd: build the Lean library (models, proofs, driver front-ends) offline.
set -e
cd "$(dirname "$0")/lean"
lake build 2>&1 | tail -5
cd ..
/venv/bin/python -c "import numpy, scipy; print('python ok')"
