#!/bin/bash
# MANIFEST.setup_cmd: build the Lean library (models, proofs, driver front-ends) offline.
set -e
cd "$(dirname "$0")/lean"
# the generated modules (regenerated from /repo by every check; rebuilt only when their text changes) are built here too, so
# that the kernel-heavy obligations (Butcher order conditions: ~3 min) are not paid inside a check
gen=$(ls Qv/Gen/*.lean 2>/dev/null | sed 's|/|.|g; s|\.lean$||' | tr '\n' ' ')
lake build Qv $gen 2>&1 | tail -5
cd ..
/venv/bin/python -c "import numpy, scipy; print('python ok')"
