import Qv.Model.C14
import Qv.Proofs.C14
import Qv.Props.C14
import Qv.Drv.C14
import Qv.Model.C15
import Qv.Drv.C15
import Qv.Proofs.C15
import Qv.Props.C15
