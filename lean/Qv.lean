import Qv.Model.C14
import Qv.Proofs.C14
import Qv.Props.C14
import Qv.Drv.C14
