import Qv.Model.C15
import Mathlib.Tactic.Ring
import Mathlib.Tactic.FieldSimp
import Mathlib.Tactic.Linarith
import Mathlib.Algebra.BigOperators.Group.List.Basic
import Mathlib.Algebra.Field.Basic
import Mathlib.Algebra.CharZero.Defs
import Mathlib.Data.Nat.Cast.Basic
/-! Helper lemmas for C15: the running sums of `MultiTrajResult` equal the weighted sums of a log
of the trajectories added, for every history of add / add_deterministic / read / merge. -/
set_option linter.unusedSectionVars false
namespace Qv.C15

variable {R : Type} [Field R] [DecidableEq R]

/-- weighted first moment of a log of (weight, value) pairs -/
def m1 (l : List (R × R)) : R := (l.map (fun q => q.1 * q.2)).sum
/-- weighted second moment -/
def m2 (l : List (R × R)) : R := (l.map (fun q => q.1 * (q.2 * q.2))).sum

@[simp] theorem m1_nil : m1 ([] : List (R × R)) = 0 := rfl
@[simp] theorem m2_nil : m2 ([] : List (R × R)) = 0 := rfl
theorem m1_append (a b : List (R × R)) : m1 (a ++ b) = m1 a + m1 b := by simp [m1]
theorem m2_append (a b : List (R × R)) : m2 (a ++ b) = m2 a + m2 b := by simp [m2]
theorem m1_single (w x : R) : m1 [(w, x)] = w * x := by simp [m1]
theorem m2_single (w x : R) : m2 [(w, x)] = w * (x * x) := by simp [m2]

theorem m1_scale (l : List (R × R)) (c : R) : m1 (l.map (fun q => (q.1 * c, q.2))) = c * m1 l := by
  induction l with
  | nil => simp
  | cons a t ih =>
    simp only [m1, List.map_cons, List.sum_cons] at ih ⊢
    rw [ih]; ring

theorem m2_scale (l : List (R × R)) (c : R) : m2 (l.map (fun q => (q.1 * c, q.2))) = c * m2 l := by
  induction l with
  | nil => simp
  | cons a t ih =>
    simp only [m2, List.map_cons, List.sum_cons] at ih ⊢
    rw [ih]; ring

theorem m1_perm {a b : List (R × R)} (h : a.Perm b) : m1 a = m1 b := (h.map _).sum_eq
theorem m2_perm {a b : List (R × R)} (h : a.Perm b) : m2 a = m2 b := (h.map _).sum_eq

/-- what a `_TrajectorySum` must hold for a log -/
def SumOK (u : Option (TSum R)) (l : List (R × R)) : Prop :=
  match u with
  | none => l = []
  | some u => u.s1 = m1 l ∧ u.s2 = m2 l

/-- The invariant: the object's bookkeeping describes the logs `rel` (sampled) and `det`
(deterministic) of (weight, value) pairs. -/
structure Inv (m : MT R) (rel det : List (R × R)) : Prop where
  expect : m.p.expect = true
  eops : m.o.hasEops = true
  num_eq : m.num = rel.length
  relW_eq : m.relW = rel.map Prod.fst
  detW_eq : m.detW = det.map Prod.fst
  rel_sum : SumOK m.sumRel rel
  det_sum : SumOK m.sumDet det
  cache : ∀ c, m.avgCache = some c → c = createE m

/-- the value every reader of the averages must return for the logs -/
def specAvg (n : Nat) (rel det : List (R × R)) : R × R :=
  (m1 det + m1 rel / (n : R), m2 det + m2 rel / (n : R))

theorem createE_eq {m : MT R} {rel det : List (R × R)} (h : Inv m rel det) :
    createE m = specAvg m.num rel det := by
  unfold createE specAvg
  have hr := h.rel_sum
  have hd := h.det_sum
  unfold SumOK at hr hd
  cases hsd : m.sumDet with
  | none =>
    rw [hsd] at hd
    cases hsr : m.sumRel with
    | none => rw [hsr] at hr; simp [hd, hr]
    | some u => rw [hsr] at hr; simp [hd, hr.1, hr.2]
  | some v =>
    rw [hsd] at hd
    cases hsr : m.sumRel with
    | none => rw [hsr] at hr; simp [hd.1, hd.2, hr]
    | some u => rw [hsr] at hr; simp [hd.1, hd.2, hr.1, hr.2]

theorem reduceFinal_keeps {t : Traj R} {w : R} {u v : TSum R} (h : reduceFinal t w u = some v) :
    v.s1 = u.s1 ∧ v.s2 = u.s2 ∧ v.st = u.st := by
  unfold reduceFinal at h
  split at h
  · cases h; exact ⟨rfl, rfl, rfl⟩
  · cases h; exact ⟨rfl, rfl, rfl⟩
  · cases h

theorem process_sums {p : Procs} {t : Traj R} {w : R} {u u' : TSum R}
    (h : process p t w u = .ok u') (he : p.expect = true) :
    u'.s1 = u.s1 + w * t.x ∧ u'.s2 = u.s2 + w * (t.x * t.x) := by
  unfold process at h
  simp only [he, if_true] at h
  by_cases hf : p.final = true
  · simp only [hf, if_true] at h
    cases hr : reduceFinal t w (if p.states = true then reduceStates t w u else u) with
    | none => simp [hr, bind, Except.bind, throw, throwThe, MonadExceptOf.throw] at h
    | some v =>
      simp only [hr, bind, Except.bind, pure, Except.pure] at h
      cases h
      obtain ⟨k1, k2, _⟩ := reduceFinal_keeps hr
      simp only [reduceExpect, k1, k2]
      by_cases hs : p.states = true <;> simp [hs, reduceStates]
  · simp only [hf] at h
    simp only [bind, Except.bind, pure, Except.pure, Bool.false_eq_true, if_false] at h
    cases h
    by_cases hs : p.states = true <;> simp [hs, reduceExpect, reduceStates]

theorem invalidate_fields (m : MT R) :
    (invalidate m).p = m.p ∧ (invalidate m).num = m.num ∧ (invalidate m).relW = m.relW ∧
    (invalidate m).detW = m.detW ∧ (invalidate m).avgCache = none ∧ (invalidate m).o = m.o ∧
    (invalidate m).seeds = m.seeds := by
  simp [invalidate]

theorem sumOK_invalidate_rel (m : MT R) (l : List (R × R)) (h : SumOK m.sumRel l) :
    SumOK (invalidate m).sumRel l := by
  unfold SumOK invalidate at *
  cases hs : m.sumRel with
  | none => simpa [hs] using h
  | some u =>
    rw [hs] at h
    simp only [Option.map_some]
    split <;> exact h

theorem sumOK_invalidate_det (m : MT R) (l : List (R × R)) (h : SumOK m.sumDet l) :
    SumOK (invalidate m).sumDet l := by
  unfold SumOK invalidate at *
  cases hs : m.sumDet with
  | none => simpa [hs] using h
  | some u =>
    rw [hs] at h
    simp only [Option.map_some]
    split <;> exact h

theorem sumOK_sumFor_step {m : MT R} {cur : Option (TSum R)} {l : List (R × R)} {t : Traj R} {w : R}
    {p : Procs} {u' : TSum R} (hc : SumOK cur l) (he : p.expect = true)
    (hp : process p t w (sumFor m cur t) = .ok u') : SumOK (some u') (l ++ [(w, t.x)]) := by
  obtain ⟨h1, h2⟩ := process_sums hp he
  unfold SumOK at *
  rw [m1_append, m2_append, m1_single, m2_single]
  cases cur with
  | none =>
    subst hc
    simp only [sumFor, newSum] at h1 h2
    simp [h1, h2]
  | some u =>
    simp only [sumFor] at h1 h2
    simp only at hc ⊢
    rw [h1, h2, hc.1, hc.2]
    exact ⟨rfl, rfl⟩

theorem add_inv {m m' : MT R} {rel det : List (R × R)} {seed : Nat} {t : Traj R} {w : R}
    (h : Inv m rel det) (ha : add m seed t w = .ok m') : Inv m' (rel ++ [(w, t.x)]) det := by
  unfold add at ha
  split at ha
  · rename_i sr hp
    cases ha
    obtain ⟨f1, f2, f3, f4, f5, f6, f7⟩ := invalidate_fields m
    refine ⟨?_, ?_, ?_, ?_, ?_, ?_, ?_, ?_⟩
    · simp [addPre, f1, h.expect]
    · simp [addPre, f6, h.eops]
    · simp [addPre, f2, h.num_eq]
    · simp [addPre, f3, h.relW_eq]
    · simp [addPre, f4, h.detW_eq]
    · exact sumOK_sumFor_step (sumOK_invalidate_rel m rel h.rel_sum) h.expect hp
    · simpa [addPre] using sumOK_invalidate_det m det h.det_sum
    · intro c hc; simp [addPre, f5] at hc
  · cases ha

theorem addDet_inv {m m' : MT R} {rel det : List (R × R)} {t : Traj R} {w : R}
    (h : Inv m rel det) (ha : addDet m t w = .ok m') : Inv m' rel (det ++ [(w, t.x)]) := by
  unfold addDet at ha
  split at ha
  · rename_i sd hp
    cases ha
    obtain ⟨f1, f2, f3, f4, f5, f6, f7⟩ := invalidate_fields m
    refine ⟨?_, ?_, ?_, ?_, ?_, ?_, ?_, ?_⟩
    · simp [addDetPre, f1, h.expect]
    · simp [addDetPre, f6, h.eops]
    · simp [addDetPre, f2, h.num_eq]
    · simp [addDetPre, f3, h.relW_eq]
    · simp [addDetPre, f4, h.detW_eq]
    · simpa [addDetPre] using sumOK_invalidate_rel m rel h.rel_sum
    · exact sumOK_sumFor_step (sumOK_invalidate_det m det h.det_sum) h.expect hp
    · intro c hc; simp [addDetPre, f5] at hc
  · cases ha

theorem readAvg_inv {m : MT R} {rel det : List (R × R)} (h : Inv m rel det) :
    Inv (readAvg m).1 rel det := by
  unfold readAvg
  split
  · exact h
  · split
    · exact h
    · refine ⟨h.expect, h.eops, h.num_eq, h.relW_eq, h.detW_eq, h.rel_sum, h.det_sum, ?_⟩
      intro c hc
      simp only [Option.some.injEq] at hc
      subst hc
      simp [createE]

/-- the averages read are the weighted statistics of the logs — whatever was read before -/
theorem readAvg_val {m : MT R} {rel det : List (R × R)} (h : Inv m rel det) (he : m.o.hasEops = true) :
    (readAvg m).2 = some (specAvg m.num rel det) := by
  unfold readAvg
  simp only [he, Bool.not_true, Bool.false_eq_true, if_false]
  cases hc : m.avgCache with
  | none => simp [createE_eq h]
  | some c => simp [h.cache c hc, createE_eq h]

/-- a transformation of a sum that leaves the expectation moments alone -/
def KeepsMoments (f : TSum R → TSum R) : Prop := ∀ u, (f u).s1 = u.s1 ∧ (f u).s2 = u.s2

theorem sumOK_map {f : TSum R → TSum R} (hf : KeepsMoments f) {u : Option (TSum R)} {l : List (R × R)}
    (h : SumOK u l) : SumOK (u.map f) l := by
  unfold SumOK at *
  cases u with
  | none => simpa using h
  | some v => simp only [Option.map_some]; rw [(hf v).1, (hf v).2]; exact h

theorem redoStates_keeps (ts : List (Traj R)) (ws : List R) (u : TSum R) :
    (redoStates u ts ws).s1 = u.s1 ∧ (redoStates u ts ws).s2 = u.s2 := by
  unfold redoStates
  generalize ts.zip ws = l
  induction l generalizing u with
  | nil => exact ⟨rfl, rfl⟩
  | cons a t ih =>
    simp only [List.foldl_cons]
    obtain ⟨h1, h2⟩ := ih (reduceStates a.1 a.2 u)
    exact ⟨h1, h2⟩

theorem createE_mapSums (m : MT R) {fD fR : TSum R → TSum R} (hD : KeepsMoments fD)
    (hR : KeepsMoments fR) : createE (mapSums m fD fR) = createE m := by
  unfold createE mapSums
  cases hd : m.sumDet <;> cases hr : m.sumRel <;>
    simp [(hD _).1, (hD _).2, (hR _).1, (hR _).2]

theorem inv_mapSums {m : MT R} {rel det : List (R × R)} {fD fR : TSum R → TSum R}
    (hD : KeepsMoments fD) (hR : KeepsMoments fR) (h : Inv m rel det) :
    Inv (mapSums m fD fR) rel det := by
  refine ⟨h.expect, h.eops, h.num_eq, h.relW_eq, h.detW_eq, sumOK_map hR h.rel_sum, sumOK_map hD h.det_sum, ?_⟩
  intro c hc
  rw [createE_mapSums m hD hR]
  exact h.cache c hc

theorem initSt_keeps (first : List R) (need : Bool) : KeepsMoments (initSt first need : TSum R → TSum R) := by
  intro u; unfold initSt; split <;> exact ⟨rfl, rfl⟩

theorem rebuildSt_keeps (first : List R) (need : Bool) (ts : List (Traj R)) (ws : List R) :
    KeepsMoments (rebuildSt first need ts ws : TSum R → TSum R) := by
  intro u
  unfold rebuildSt
  split
  · obtain ⟨a, b⟩ := redoStates_keeps ts ws (initSt first true u)
    rw [a, b]; exact initSt_keeps _ _ u
  · exact ⟨rfl, rfl⟩

theorem statesPrep_inv {m m' : MT R} {rel det : List (R × R)} (h : Inv m rel det)
    (hp : statesPrep m = some m') : Inv m' rel det ∧ m'.num = m.num ∧ m'.o = m.o := by
  unfold statesPrep at hp
  simp only at hp
  split at hp
  · cases hp
  · cases hp
    exact ⟨inv_mapSums (rebuildSt_keeps _ _ _ _) (rebuildSt_keeps _ _ _ _) h, rfl, rfl⟩

theorem readStates_inv {m : MT R} {rel det : List (R × R)} (h : Inv m rel det) :
    Inv (readStates m).1 rel det ∧ (readStates m).1.num = m.num ∧ (readStates m).1.o = m.o := by
  unfold readStates
  cases hp : statesPrep m with
  | none => exact ⟨h, rfl, rfl⟩
  | some m' => exact statesPrep_inv h hp

theorem redoFinal_keeps (ts : List (Traj R)) (ws : List R) {u v : TSum R}
    (h : redoFinal u ts ws = some v) : v.s1 = u.s1 ∧ v.s2 = u.s2 := by
  unfold redoFinal at h
  generalize ts.zip ws = l at h
  have key : ∀ (l : List (Traj R × R)) (o : Option (TSum R)) (v : TSum R),
      l.foldl (fun u (tw : Traj R × R) => u.bind (reduceFinal tw.1 tw.2)) o = some v →
      ∃ u0, o = some u0 ∧ v.s1 = u0.s1 ∧ v.s2 = u0.s2 := by
    intro l
    induction l with
    | nil => intro o v h; exact ⟨v, h, rfl, rfl⟩
    | cons a t ih =>
      intro o v h
      simp only [List.foldl_cons] at h
      obtain ⟨u1, h1, e1, e2⟩ := ih _ v h
      cases o with
      | none => simp at h1
      | some u0 =>
        simp only [Option.bind_some] at h1
        obtain ⟨k1, k2, _⟩ := reduceFinal_keeps h1
        exact ⟨u0, rfl, by rw [e1, k1], by rw [e2, k2]⟩
  obtain ⟨u0, h0, e1, e2⟩ := key l (some u) v h
  cases h0
  exact ⟨e1, e2⟩

theorem sumOK_redoFinal {cur : Option (TSum R)} {l : List (R × R)} {ts : List (Traj R)} {ws : List R}
    {d : TSum R} (h : SumOK cur l)
    (hm : cur.map (fun u => redoFinal { u with fs := some 0 } ts ws) = some (some d)) :
    SumOK (some d) l := by
  cases cur with
  | none => simp at hm
  | some u =>
    simp only [Option.map_some, Option.some.injEq] at hm
    obtain ⟨a, b⟩ := redoFinal_keeps ts ws hm
    unfold SumOK at *
    simp only at h ⊢
    rw [a, b]; exact h

theorem createE_congr {m m' : MT R} (hn : m'.num = m.num)
    (hd : ∀ l, SumOK m.sumDet l → SumOK m'.sumDet l) (hr : ∀ l, SumOK m.sumRel l → SumOK m'.sumRel l)
    {rel det : List (R × R)} (h : Inv m rel det) (h' : Inv m' rel det) : createE m' = createE m := by
  rw [createE_eq h, createE_eq h', hn]

theorem inv_setSums {m : MT R} {rel det : List (R × R)} (h : Inv m rel det)
    (sd sr : Option (TSum R)) (hd : SumOK sd det) (hr : SumOK sr rel) :
    Inv { m with sumDet := sd, sumRel := sr } rel det := by
  have h0 : Inv { m with sumDet := sd, sumRel := sr, avgCache := none } rel det :=
    ⟨h.expect, h.eops, h.num_eq, h.relW_eq, h.detW_eq, hr, hd, fun c hc => by simp at hc⟩
  refine ⟨h.expect, h.eops, h.num_eq, h.relW_eq, h.detW_eq, hr, hd, fun c hc => ?_⟩
  have e1 : createE { m with sumDet := sd, sumRel := sr } =
      createE { m with sumDet := sd, sumRel := sr, avgCache := none } := rfl
  rw [e1, createE_eq h0, h.cache c hc, createE_eq h]

theorem rebuildFinal_inv {m m' : MT R} {rel det : List (R × R)} (h : Inv m rel det)
    (hp : rebuildFinal m = .sums m') : Inv m' rel det ∧ m'.num = m.num := by
  unfold rebuildFinal at hp
  split at hp
  · cases hp
  · cases hp
  · rename_i d r hsd hsr
    cases hp
    exact ⟨inv_setSums h _ _ (sumOK_redoFinal h.det_sum hsd) (sumOK_redoFinal h.rel_sum hsr), rfl⟩
  · rename_i r hsd hsr
    cases hp
    exact ⟨inv_setSums h m.sumDet (some r) h.det_sum (sumOK_redoFinal h.rel_sum hsr), rfl⟩
  · rename_i d hsd hsr
    cases hp
    exact ⟨inv_setSums h (some d) m.sumRel (sumOK_redoFinal h.det_sum hsd) h.rel_sum, rfl⟩
  · cases hp
    exact ⟨h, rfl⟩

theorem finalPrep_inv {m m' : MT R} {st : Option (List R)} {rel det : List (R × R)} (h : Inv m rel det)
    (hp : finalPrep m st = .sums m') : Inv m' rel det ∧ m'.num = m.num := by
  unfold finalPrep at hp
  simp only at hp
  split at hp
  · cases hp
  · split at hp
    · cases hp
    · split at hp
      · exact rebuildFinal_inv h hp
      · cases hp
        exact ⟨h, rfl⟩

theorem readFinal_inv {m : MT R} {rel det : List (R × R)} (h : Inv m rel det) :
    Inv (readFinal m).1 rel det ∧ (readFinal m).1.num = m.num := by
  obtain ⟨hs, hn, _⟩ := readStates_inv h
  unfold readFinal
  simp only
  split
  · exact ⟨hs, hn⟩
  · exact ⟨hs, hn⟩
  · rename_i m' hp
    obtain ⟨a, b⟩ := finalPrep_inv hs hp
    exact ⟨a, b.trans hn⟩
  · exact ⟨hs, hn⟩

theorem sumOK_mergeSum {ua ub : Option (TSum R)} {la lb : List (R × R)} (w1 w2 : R)
    (ha : SumOK ua la) (hb : SumOK ub lb) :
    SumOK (mergeSum ua w1 ub w2)
      (la.map (fun q => (q.1 * w1, q.2)) ++ lb.map (fun q => (q.1 * w2, q.2))) := by
  unfold SumOK mergeSum at *
  cases ua with
  | none =>
    cases ub with
    | none => simp at ha hb; simp [ha, hb]
    | some v =>
      simp only at ha hb ⊢
      subst ha
      simp [m1_scale, m2_scale, hb.1, hb.2]
  | some u =>
    cases ub with
    | none =>
      simp only at ha hb ⊢
      subst hb
      simp [m1_scale, m2_scale, ha.1, ha.2]
    | some v =>
      simp only at ha hb ⊢
      rw [m1_append, m2_append, m1_scale, m2_scale, m1_scale, m2_scale, ha.1, ha.2, hb.1, hb.2]
      exact ⟨rfl, rfl⟩

theorem pyDiv_ok {a b c : R} (h : pyDiv a b = .ok c) : b ≠ 0 ∧ c = a / b := by
  unfold pyDiv at h
  split at h
  · cases h
  · cases h; exact ⟨‹_›, rfl⟩

/-- logs of the merged object: every weight rescaled as `merge` reports it -/
def mergedRel (ra rb : List (R × R)) (pp pe : R) : List (R × R) :=
  ra.map (fun q => (q.1 * (pp / pe), q.2)) ++ rb.map (fun q => (q.1 * ((1 - pp) / (1 - pe)), q.2))

def mergedDet (da db : List (R × R)) (pp : R) : List (R × R) :=
  da.map (fun q => (q.1 * pp, q.2)) ++ db.map (fun q => (q.1 * (1 - pp), q.2))

theorem mergeOperands_inv {a b : MT R} {ra da rb db : List (R × R)}
    (ha : Inv a ra da) (hb : Inv b rb db) :
    Inv (mergeOperands a b).1 ra da ∧ (mergeOperands a b).1.num = a.num ∧
    Inv (mergeOperands a b).2 rb db ∧ (mergeOperands a b).2.num = b.num := by
  unfold mergeOperands
  split
  · split
    · obtain ⟨i1, n1, _⟩ := readStates_inv ha
      obtain ⟨i2, n2⟩ := readFinal_inv i1
      exact ⟨i2, n2.trans n1, hb, rfl⟩
    · obtain ⟨i1, n1, _⟩ := readStates_inv hb
      obtain ⟨i2, n2⟩ := readFinal_inv i1
      exact ⟨ha, rfl, i2, n2.trans n1⟩
  · exact ⟨ha, rfl, hb, rfl⟩

theorem mergeCore_inv {a b n : MT R} {p : Option R} {ra da rb db : List (R × R)}
    (ia : Inv a ra da) (ib : Inv b rb db) (hm : mergeCore a b p = .ok n) :
    let pe : R := (a.num : R) / ((a.num + b.num : Nat) : R)
    let pp : R := p.getD pe
    Inv n (mergedRel ra rb pp pe) (mergedDet da db pp) ∧
    n.num = a.num + b.num ∧ pe ≠ 0 ∧ 1 - pe ≠ 0 ∧ ((a.num + b.num : Nat) : R) ≠ 0 := by
  unfold mergeCore at hm
  simp only at hm
  split at hm
  · cases hm
  · rename_i pe hpe
    obtain ⟨hn0, hpe'⟩ := pyDiv_ok hpe
    subst hpe'
    split at hm
    · cases hm
    · cases hm
    · rename_i rra rrb hra hrb
      cases hm
      obtain ⟨hpe0, hra'⟩ := pyDiv_ok hra
      obtain ⟨hpe1, hrb'⟩ := pyDiv_ok hrb
      refine ⟨?_, rfl, hpe0, hpe1, hn0⟩
      refine ⟨?_, ?_, ?_, ?_, ?_, ?_, ?_, ?_⟩
      · simp [procsOf, ia.eops]
      · exact ia.eops
      · simp [mergedRel, ia.num_eq, ib.num_eq]
      · simp only [mergedRel, List.map_append, List.map_map, ia.relW_eq, ib.relW_eq]
        congr 1 <;> apply List.map_congr_left <;> intro q _ <;> simp [mul_div_assoc]
      · simp only [mergedDet, List.map_append, List.map_map, ia.detW_eq, ib.detW_eq]
        congr 1
      · subst hra' hrb'
        exact sumOK_mergeSum _ _ ia.rel_sum ib.rel_sum
      · exact sumOK_mergeSum _ _ ia.det_sum ib.det_sum
      · intro c hc; simp at hc

theorem merge_inv {a b n a' b' : MT R} {p : Option R} {ra da rb db : List (R × R)}
    (ha : Inv a ra da) (hb : Inv b rb db) (hm : merge a b p = .ok (n, a', b')) :
    let pe : R := (a.num : R) / ((a.num + b.num : Nat) : R)
    let pp : R := p.getD pe
    Inv n (mergedRel ra rb pp pe) (mergedDet da db pp) ∧ Inv a' ra da ∧ Inv b' rb db ∧
    n.num = a.num + b.num ∧ pe ≠ 0 ∧ 1 - pe ≠ 0 ∧ ((a.num + b.num : Nat) : R) ≠ 0 := by
  unfold merge at hm
  split at hm
  · cases hm
  · obtain ⟨i1, n1, i2, n2⟩ := mergeOperands_inv ha hb
    simp only at hm
    split at hm
    · rename_i n0 hc
      cases hm
      have := mergeCore_inv i1 i2 hc
      simp only [n1, n2] at this
      exact ⟨this.1, i1, i2, this.2⟩
    · cases hm

end Qv.C15
