import Qv.Model.C14
/-! Helper lemmas for C14: invariants of the `_generic_pmap` machine. -/
namespace Qv.C14

/-- Invariant on the data fields, preserved by every primitive of the machine. -/
structure Core (c : Cfg) (s : St) : Prop where
  wlen : s.waiting.length ≤ c.workers
  wlt : ∀ j ∈ s.waiting, j < s.i
  wnd : s.waiting.Nodup
  clt : ∀ j ∈ s.comp, j < s.i
  cnd : s.comp.Nodup
  ile : s.i ≤ c.n
  err : s.errors = s.comp.filter (raisesB c)
  red : c.reducer = true → s.reduced = s.comp.filter (fun j => !raisesB c j)
  res : c.reducer = false → s.results.length = c.n ∧
        ∀ j, j < c.n → s.results[j]? = some (if j ∈ s.comp ∧ raisesB c j = false then some j else none)
  cover : ∀ j, j < s.i → j ∈ s.comp ∨ j ∈ s.waiting
  fin : s.finished = true → c.reducer = true ∧ c.stopAfter.isSome = true

theorem core_init (c : Cfg) (sched : List Step) : Core c (init0 c sched) := by
  constructor <;> simp [init0]
  intro _ j hj
  simp [hj]

theorem completeOne_fields (c : Cfg) (s : St) (j : Nat) :
    (completeOne c s j).waiting = s.waiting ∧ (completeOne c s j).i = s.i ∧
    (completeOne c s j).comp = s.comp ++ [j] ∧ (completeOne c s j).pc = s.pc ∧
    (completeOne c s j).clock = s.clock ∧ (completeOne c s j).sched = s.sched ∧
    (completeOne c s j).aborted = s.aborted ∧ (completeOne c s j).iAtStop = s.iAtStop ∧
    (completeOne c s j).cancelled = s.cancelled := by
  unfold completeOne
  split
  · simp
  · split <;> simp

theorem completeOne_errors (c : Cfg) (s : St) (j : Nat) :
    (completeOne c s j).errors = if raisesB c j then s.errors ++ [j] else s.errors := by
  unfold completeOne
  split
  · simp
  · split <;> simp

theorem completeOne_reduced (c : Cfg) (s : St) (j : Nat) :
    (completeOne c s j).reduced =
      if raisesB c j = false ∧ c.reducer = true then s.reduced ++ [j] else s.reduced := by
  unfold completeOne
  split
  · simp_all
  · split <;> simp_all

theorem completeOne_results (c : Cfg) (s : St) (j : Nat) :
    (completeOne c s j).results =
      if raisesB c j = false ∧ c.reducer = false then s.results.set j (some j) else s.results := by
  unfold completeOne
  split
  · simp_all
  · split <;> simp_all

theorem completeOne_finished (c : Cfg) (s : St) (j : Nat) :
    s.finished = true → (completeOne c s j).finished = true := by
  intro h
  unfold completeOne
  split
  · simpa using h
  · split
    · cases c.stopAfter <;> simp [h]
    · simpa using h

theorem core_completeOne (c : Cfg) (s : St) (j : Nat) (h : Core c s)
    (hw : j ∈ s.waiting) (hc : j ∉ s.comp) : Core c (completeOne c s j) := by
  obtain ⟨f1, f2, f3, -⟩ := completeOne_fields c s j
  have hji : j < s.i := h.wlt j hw
  constructor
  · rw [f1]; exact h.wlen
  · rw [f1, f2]; exact h.wlt
  · rw [f1]; exact h.wnd
  · rw [f2, f3]; intro k hk
    rcases List.mem_append.mp hk with hk | hk
    · exact h.clt k hk
    · simp at hk; omega
  · rw [f3]
    refine List.nodup_append.mpr ⟨h.cnd, by simp, ?_⟩
    intro a ha b hb
    simp at hb
    subst hb
    exact fun e => hc (e ▸ ha)
  · rw [f2]; exact h.ile
  · rw [f3, completeOne_errors, h.err, List.filter_append]
    by_cases hr : raisesB c j <;> simp [hr]
  · intro hrd
    rw [f3, completeOne_reduced, h.red hrd, List.filter_append]
    by_cases hr : raisesB c j <;> simp [hr, hrd]
  · intro hrd
    obtain ⟨hl, hres⟩ := h.res hrd
    rw [f3, completeOne_results]
    by_cases hr : raisesB c j
    · simp only [hr, hrd, Bool.true_eq_false, false_and, if_false]
      refine ⟨hl, fun k hk => ?_⟩
      rw [hres k hk]
      by_cases hkj : k = j
      · subst hkj; simp [hr]
      · simp [hkj]
    · simp only [hr, hrd, and_self, if_true]
      refine ⟨by simpa using hl, fun k hk => ?_⟩
      rw [List.getElem?_set]
      by_cases hkj : j = k
      · subst hkj; simp [hl, hk, hr]
      · have : k ≠ j := fun e => hkj e.symm
        simp [hkj, hres k hk, this]
  · rw [f1, f2, f3]; intro k hk
    rcases h.cover k hk with h1 | h1
    · exact Or.inl (List.mem_append_left _ h1)
    · exact Or.inr h1
  · unfold completeOne
    split
    · simpa using h.fin
    · split
      · rename_i hrd
        cases hs : c.stopAfter with
        | none =>
          simp only
          intro hf
          have := (h.fin hf).2
          simp [hs] at this
        | some k => simp [hrd]
      · simpa using h.fin

theorem mem_running {s : St} {j : Nat} : j ∈ running s ↔ j ∈ s.waiting ∧ j ∉ s.comp := by
  simp [running]

theorem pick_mem (l : List Nat) (r : Nat) (h : l ≠ []) : pick l r h ∈ l := by
  unfold pick; exact List.getElem_mem _

end Qv.C14

namespace Qv.C14

/-- Fields that no completion / clock primitive touches. -/
def SameCtl (s t : St) : Prop :=
  t.waiting = s.waiting ∧ t.i = s.i ∧ t.pc = s.pc ∧ t.aborted = s.aborted ∧
  t.iAtStop = s.iAtStop ∧ t.cancelled = s.cancelled

theorem SameCtl.refl (s : St) : SameCtl s s := ⟨rfl, rfl, rfl, rfl, rfl, rfl⟩
theorem SameCtl.trans {s t u : St} (a : SameCtl s t) (b : SameCtl t u) : SameCtl s u := by
  obtain ⟨a1, a2, a3, a4, a5, a6⟩ := a
  obtain ⟨b1, b2, b3, b4, b5, b6⟩ := b
  exact ⟨b1.trans a1, b2.trans a2, b3.trans a3, b4.trans a4, b5.trans a5, b6.trans a6⟩

theorem sameCtl_completeOne (c : Cfg) (s : St) (j : Nat) : SameCtl s (completeOne c s j) := by
  obtain ⟨f1, f2, _, f4, _, _, f7, f8, f9⟩ := completeOne_fields c s j
  exact ⟨f1, f2, f4, f7, f8, f9⟩

/-- Monotone quantities: completions only grow, the clock only advances, flags only rise. -/
structure Mono (c : Cfg) (s t : St) : Prop where
  comp : ∀ j ∈ s.comp, j ∈ t.comp
  clock : s.clock ≤ t.clock
  fin : s.finished = true → t.finished = true
  errs : s.errors ≠ [] → t.errors ≠ []

theorem Mono.refl (c : Cfg) (s : St) : Mono c s s := ⟨fun _ h => h, Nat.le_refl _, id, id⟩
theorem Mono.trans {c : Cfg} {s t u : St} (a : Mono c s t) (b : Mono c t u) : Mono c s u :=
  ⟨fun j h => b.comp j (a.comp j h), Nat.le_trans a.clock b.clock, fun h => b.fin (a.fin h),
   fun h => b.errs (a.errs h)⟩

theorem mono_completeOne (c : Cfg) (s : St) (j : Nat) : Mono c s (completeOne c s j) := by
  obtain ⟨_, _, f3, _, f5, _⟩ := completeOne_fields c s j
  refine ⟨fun k hk => by rw [f3]; exact List.mem_append_left _ hk, by omega,
    completeOne_finished c s j, ?_⟩
  intro h
  rw [completeOne_errors]
  split
  · simp
  · exact h

theorem stopCond_mono {c : Cfg} {s t : St} (m : Mono c s t) :
    stopCond c s = true → stopCond c t = true := by
  unfold stopCond expired
  intro h
  simp only [Bool.or_eq_true, Bool.and_eq_true, Bool.not_eq_true'] at h ⊢
  rcases h with (h | h) | h
  · left; left
    cases hT : c.timeout with
    | none => simp [hT] at h
    | some T => simp only [hT] at h ⊢; simp at h ⊢; have := m.clock; omega
  · left; right
    refine ⟨?_, h.2⟩
    have := m.errs (by intro e; simp [e] at h)
    cases ht : t.errors with
    | nil => exact absurd ht this
    | cons _ _ => rfl
  · right; exact m.fin h

/-- the bundle carried through every environment primitive -/
structure Good (c : Cfg) (s t : St) : Prop where
  core : Core c t
  ctl : SameCtl s t
  mono : Mono c s t

theorem good_refl {c : Cfg} {s : St} (h : Core c s) : Good c s s := ⟨h, .refl s, .refl c s⟩

theorem good_completeOne {c : Cfg} {s0 s : St} (g : Good c s0 s) (j : Nat)
    (hj : j ∈ running s) : Good c s0 (completeOne c s j) := by
  obtain ⟨hw, hc⟩ := mem_running.mp hj
  exact ⟨core_completeOne c s j g.core hw hc, g.ctl.trans (sameCtl_completeOne c s j),
    g.mono.trans (mono_completeOne c s j)⟩

theorem good_applyComps {c : Cfg} (rs : List Nat) : ∀ {s0 s : St}, Good c s0 s →
    Good c s0 (applyComps c s rs) := by
  induction rs with
  | nil => intro s0 s g; exact g
  | cons r rs ih =>
    intro s0 s g
    unfold applyComps
    split
    · exact ih g
    · rename_i hne
      exact ih (good_completeOne g _ (pick_mem _ r hne))

theorem good_completeAll {c : Cfg} (l : List Nat) : ∀ {s0 s : St}, Good c s0 s →
    (∀ j ∈ l, j ∈ running s) → l.Nodup → Good c s0 (completeAll c s l) := by
  induction l with
  | nil => intro s0 s g _ _; exact g
  | cons j js ih =>
    intro s0 s g hl hnd
    unfold completeAll
    have hj := hl j (List.mem_cons_self)
    refine ih (good_completeOne g j hj) ?_ (List.nodup_cons.mp hnd).2
    intro k hk
    have hk' := hl k (List.mem_cons_of_mem _ hk)
    obtain ⟨f1, _, f3, _⟩ := completeOne_fields c s j
    rw [mem_running] at hk' ⊢
    rw [f1, f3]
    refine ⟨hk'.1, ?_⟩
    intro hmem
    rcases List.mem_append.mp hmem with h | h
    · exact hk'.2 h
    · simp at h; subst h; exact (List.nodup_cons.mp hnd).1 hk

theorem running_nodup {c : Cfg} {s : St} (h : Core c s) : (running s).Nodup :=
  h.wnd.filter _

/-- after `completeAll` over the running tasks nothing is running -/
theorem completeAll_comp (c : Cfg) (l : List Nat) : ∀ (s : St),
    (completeAll c s l).comp = s.comp ++ l := by
  induction l with
  | nil => intro s; simp [completeAll]
  | cons j js ih =>
    intro s
    unfold completeAll
    rw [ih, (completeOne_fields c s j).2.2.1]
    simp

end Qv.C14

namespace Qv.C14

theorem core_congr {c : Cfg} {s t : St} (h : Core c s) (h1 : t.waiting = s.waiting) (h2 : t.i = s.i)
    (h3 : t.comp = s.comp) (h4 : t.errors = s.errors) (h5 : t.reduced = s.reduced)
    (h6 : t.results = s.results) (h7 : t.finished = s.finished) : Core c t := by
  constructor
  · rw [h1]; exact h.wlen
  · rw [h1, h2]; exact h.wlt
  · rw [h1]; exact h.wnd
  · rw [h2, h3]; exact h.clt
  · rw [h3]; exact h.cnd
  · rw [h2]; exact h.ile
  · rw [h3, h4]; exact h.err
  · rw [h3, h5]; exact h.red
  · rw [h3, h6]; exact h.res
  · rw [h1, h2, h3]; exact h.cover
  · rw [h7]; exact h.fin

theorem good_pop {c : Cfg} {s0 s : St} (g : Good c s0 s) (d : Step) : Good c s0 (popStep s d).2 := by
  unfold popStep
  split
  · exact g
  · exact ⟨core_congr g.core rfl rfl rfl rfl rfl rfl rfl, g.ctl,
      ⟨g.mono.comp, g.mono.clock, g.mono.fin, g.mono.errs⟩⟩

theorem good_tick {c : Cfg} {s0 s : St} (g : Good c s0 s) (k : Nat) : Good c s0 (tickBy s k) :=
  ⟨core_congr g.core rfl rfl rfl rfl rfl rfl rfl, g.ctl,
   ⟨g.mono.comp, Nat.le_trans g.mono.clock (Nat.le_add_right _ _), g.mono.fin, g.mono.errs⟩⟩

theorem good_yieldStep {c : Cfg} {s0 s : St} (g : Good c s0 s) (d : Step) :
    Good c s0 (yieldStep c s d) :=
  good_tick (good_applyComps _ (good_pop g d)) _

theorem running_sub_waiting (s : St) : ∀ j ∈ running s, j ∈ s.waiting :=
  fun _ hj => (mem_running.mp hj).1

theorem core_reap {c : Cfg} {s : St} (h : Core c s) : Core c (reap s) := by
  unfold reap
  constructor
  · exact Nat.le_trans (List.length_filter_le _ _) h.wlen
  · intro j hj; exact h.wlt j (running_sub_waiting s j hj)
  · exact running_nodup h
  · exact h.clt
  · exact h.cnd
  · exact h.ile
  · exact h.err
  · exact h.red
  · exact h.res
  · intro j hj
    rcases h.cover j hj with h1 | h1
    · exact Or.inl h1
    · by_cases hc : j ∈ s.comp
      · exact Or.inl hc
      · exact Or.inr (mem_running.mpr ⟨h1, hc⟩)
  · exact h.fin

theorem running_reap (s : St) : running (reap s) = running s := by
  simp [reap, running, List.filter_filter]

theorem reap_length_lt {s : St} (h : ∃ j ∈ s.waiting, j ∈ s.comp) :
    (reap s).waiting.length < s.waiting.length := by
  obtain ⟨j, hw, hc⟩ := h
  simp only [reap, running]
  apply List.length_filter_lt_length_iff_exists.mpr
  exact ⟨j, hw, by simp [hc]⟩

end Qv.C14

namespace Qv.C14

structure WaitPost (c : Cfg) (s t : St) : Prop where
  core : Core c t
  mono : Mono c s t
  i_eq : t.i = s.i
  pc_eq : t.pc = s.pc
  ab_eq : t.aborted = s.aborted
  stop_eq : t.iAtStop = s.iAtStop
  wlen : t.waiting.length ≤ s.waiting.length
  progress : t.waiting.length < c.workers ∨ stopCond c t = true

theorem stopCond_of_clock {c : Cfg} {s : St} {T : Nat} (hT : c.timeout = some T) (h : T ≤ s.clock) :
    stopCond c s = true := by
  simp [stopCond, expired, hT, h]

theorem waitFirst_post {c : Cfg} {s : St} (h : Core c s) (hW : 1 ≤ c.workers) :
    WaitPost c s (waitFirst c s) := by
  have g1 : Good c s { s with trace := Ev.waitFirst :: s.trace } :=
    ⟨core_congr h rfl rfl rfl rfl rfl rfl rfl, ⟨rfl, rfl, rfl, rfl, rfl, rfl⟩,
     ⟨fun _ x => x, Nat.le_refl _, id, id⟩⟩
  have g2 := good_yieldStep g1 ⟨[0], 0⟩
  generalize hs2 : yieldStep c { s with trace := Ev.waitFirst :: s.trace } ⟨[0], 0⟩ = s2 at g2
  have key : ∀ s3 : St, Good c s s3 →
      ((reap s3).waiting.length < c.workers ∨ stopCond c (reap s3) = true) →
      WaitPost c s (reap s3) := by
    intro s3 g3 hp
    obtain ⟨e1, e2, e3, e4, e5, _⟩ := g3.ctl
    refine ⟨core_reap g3.core, ⟨g3.mono.comp, g3.mono.clock, g3.mono.fin, g3.mono.errs⟩,
      e2, e3, e4, e5, ?_, hp⟩
    simp only [reap]
    rw [← e1]
    exact List.length_filter_le _ _
  unfold waitFirst
  simp only [hs2]
  split
  · rename_i hany
    apply key s2 g2
    left
    have : ∃ j ∈ s2.waiting, j ∈ s2.comp := by
      simpa using hany
    exact Nat.lt_of_lt_of_le (reap_length_lt this) g2.core.wlen
  · rename_i hany
    have hnone : ∀ j ∈ s2.waiting, j ∉ s2.comp := by
      simpa using hany
    split
    · rename_i T hT
      apply key
      · exact ⟨core_congr g2.core rfl rfl rfl rfl rfl rfl rfl, g2.ctl,
          ⟨g2.mono.comp, Nat.le_trans g2.mono.clock (Nat.le_max_left _ _), g2.mono.fin, g2.mono.errs⟩⟩
      · right
        apply stopCond_of_clock hT
        simp only [reap]
        exact Nat.le_max_right _ _
    · split
      · rename_i hrun
        apply key s2 g2
        left
        have : s2.waiting = [] := by
          have : running s2 = s2.waiting := by
            simp only [running]
            apply List.filter_eq_self.mpr
            intro j hj; simpa using hnone j hj
          rw [← this]; exact hrun
        simp only [reap, hrun, List.length_nil]
        omega
      · rename_i j js hrun
        have hj : j ∈ running s2 := by rw [hrun]; exact List.mem_cons_self
        apply key _ (good_completeOne g2 j hj)
        left
        obtain ⟨f1, _, f3, _⟩ := completeOne_fields c s2 j
        have hlt := @reap_length_lt (completeOne c s2 j)
          ⟨j, by rw [f1]; exact (mem_running.mp hj).1, by rw [f3]; simp⟩
        rw [f1] at hlt
        exact Nat.lt_of_lt_of_le hlt g2.core.wlen

end Qv.C14

namespace Qv.C14

/-- The full invariant of reachable states. -/
structure Inv (c : Cfg) (s : St) : Prop where
  core : Core c s
  stopNone : s.iAtStop = none → stopCond c s = false
  stopSome : ∀ i0, s.iAtStop = some i0 → stopCond c s = true ∧
    (s.pc = .fill → s.i + (c.workers - s.waiting.length) ≤ i0 + c.workers) ∧
    (s.pc ≠ .fill → s.i ≤ i0 + c.workers)
  pcCheck : s.pc = .check → s.i < c.n ∧ (s.waiting.length < c.workers ∨ stopCond c s = true)
  pcFinal : s.pc = .final → s.i = c.n
  pcShut : s.pc = .shut → s.aborted = false → s.i = c.n ∧ (running s = [] ∨ expired c s = true)
  pcDone : s.pc = .done → s.aborted = false →
    s.i = c.n ∧ (running s = [] ∨ (expired c s = true ∧ c.drain = false))
  abStop : s.aborted = true → stopCond c s = true ∧ (s.pc = .shut ∨ s.pc = .done)

/-- What each branch of `step` must establish about the state *before* `noteStop`. -/
structure Pre (c : Cfg) (s t : St) : Prop where
  core : Core c t
  mono : Mono c s t
  stop_eq : t.iAtStop = s.iAtStop
  stopSome : ∀ i0, s.iAtStop = some i0 →
    (t.pc = .fill → t.i + (c.workers - t.waiting.length) ≤ i0 + c.workers) ∧
    (t.pc ≠ .fill → t.i ≤ i0 + c.workers)
  pcCheck : t.pc = .check → t.i < c.n ∧ (t.waiting.length < c.workers ∨ stopCond c t = true)
  pcFinal : t.pc = .final → t.i = c.n
  pcShut : t.pc = .shut → t.aborted = false → t.i = c.n ∧ (running t = [] ∨ expired c t = true)
  pcDone : t.pc = .done → t.aborted = false →
    t.i = c.n ∧ (running t = [] ∨ (expired c t = true ∧ c.drain = false))
  abStop : t.aborted = true → stopCond c t = true ∧ (t.pc = .shut ∨ t.pc = .done)

theorem noteStop_inv {c : Cfg} {s t : St} (hs : Inv c s) (p : Pre c s t) : Inv c (noteStop c t) := by
  unfold noteStop
  cases hst : s.iAtStop with
  | some i0 =>
    have ht : t.iAtStop = some i0 := by rw [p.stop_eq, hst]
    simp only [ht]
    have hstop : stopCond c t = true := stopCond_mono p.mono (hs.stopSome i0 hst).1
    refine ⟨p.core, by simp [ht], ?_, p.pcCheck, p.pcFinal, p.pcShut, p.pcDone, p.abStop⟩
    intro i1 h1
    have : i1 = i0 := by rw [ht] at h1; exact (Option.some.inj h1).symm
    subst this
    exact ⟨hstop, p.stopSome i1 hst⟩
  | none =>
    have ht : t.iAtStop = none := by rw [p.stop_eq, hst]
    simp only [ht]
    by_cases hc : stopCond c t = true
    · simp only [hc, if_true]
      refine ⟨core_congr p.core rfl rfl rfl rfl rfl rfl rfl, by simp, ?_, p.pcCheck, p.pcFinal,
        p.pcShut, p.pcDone, p.abStop⟩
      intro i1 h1
      simp only [Option.some.injEq] at h1
      subst h1
      exact ⟨hc, fun _ => by simp only; omega, fun _ => by simp only; omega⟩
    · simp only [hc]
      refine ⟨p.core, fun _ => by simpa using hc, ?_, p.pcCheck, p.pcFinal, p.pcShut, p.pcDone,
        p.abStop⟩
      intro i1 h1
      simp [ht] at h1

end Qv.C14

namespace Qv.C14

theorem running_completeAll_self (c : Cfg) (s : St) : running (completeAll c s (running s)) = [] := by
  have hw : ∀ (l : List Nat) (s : St), (completeAll c s l).waiting = s.waiting := by
    intro l
    induction l with
    | nil => intro s; rfl
    | cons j js ih => intro s; unfold completeAll; rw [ih, (completeOne_fields c s j).1]
  simp only [running, hw, completeAll_comp]
  apply List.filter_eq_nil_iff.mpr
  intro j hj
  by_cases hc : j ∈ s.comp
  · simp [hc]
  · have : j ∈ running s := mem_running.mpr ⟨hj, hc⟩
    simp [hj, hc]

theorem completeAll_clock (c : Cfg) (l : List Nat) : ∀ s : St, (completeAll c s l).clock = s.clock := by
  induction l with
  | nil => intro s; rfl
  | cons j js ih => intro s; unfold completeAll; rw [ih, (completeOne_fields c s j).2.2.2.2.1]

theorem body_pre {c : Cfg} {s : St} (hW : 1 ≤ c.workers) (h : Inv c s) : Pre c s (body c s) := by
  have hc := h.core
  have notAb : s.pc ≠ .shut → s.pc ≠ .done → s.aborted = false := by
    intro h1 h2
    cases ha : s.aborted with
    | false => rfl
    | true => rcases (h.abStop ha).2 with e | e <;> contradiction
  unfold body
  cases hpc : s.pc with
  | head =>
    have hab := notAb (by simp [hpc]) (by simp [hpc])
    simp only
    by_cases hin : s.i < c.n
    · simp only [hin, if_true]
      by_cases hlen : c.workers ≤ s.waiting.length
      · simp only [hlen, if_true]
        have w := waitFirst_post hc hW
        refine ⟨core_congr w.core rfl rfl rfl rfl rfl rfl rfl,
          ⟨w.mono.comp, w.mono.clock, w.mono.fin, w.mono.errs⟩, w.stop_eq, ?_, ?_, by simp, by simp,
          by simp, ?_⟩
        · intro i0 hi0
          have := (h.stopSome i0 hi0).2.2 (by simp [hpc])
          simp only [w.i_eq]
          exact ⟨by simp, fun _ => this⟩
        · intro _
          simp only [w.i_eq]
          refine ⟨hin, ?_⟩
          rcases w.progress with p | p
          · exact Or.inl p
          · right
            simpa [stopCond, expired] using p
        · simp only [w.ab_eq, hab]; simp
      · simp only [hlen, if_false]
        refine ⟨core_congr hc rfl rfl rfl rfl rfl rfl rfl, ⟨fun _ x => x, Nat.le_refl _, id, id⟩, rfl,
          ?_, ?_, by simp, by simp, by simp, by simp [hab]⟩
        · intro i0 hi0
          have := (h.stopSome i0 hi0).2.2 (by simp [hpc])
          exact ⟨by simp, fun _ => this⟩
        · intro _; exact ⟨hin, Or.inl (by simp only; omega)⟩
    · simp only [hin, if_false]
      refine ⟨core_congr hc rfl rfl rfl rfl rfl rfl rfl, ⟨fun _ x => x, Nat.le_refl _, id, id⟩, rfl,
        ?_, by simp, ?_, by simp, by simp, by simp [hab]⟩
      · intro i0 hi0
        have := (h.stopSome i0 hi0).2.2 (by simp [hpc])
        exact ⟨by simp, fun _ => this⟩
      · intro _; have := hc.ile; simp only; omega
  | check =>
    have hab := notAb (by simp [hpc]) (by simp [hpc])
    simp only
    by_cases hst : stopCond c s = true
    · simp only [hst, if_true]
      refine ⟨core_congr hc rfl rfl rfl rfl rfl rfl rfl, ⟨fun _ x => x, Nat.le_refl _, id, id⟩, rfl,
        ?_, by simp, by simp, by simp, by simp, ?_⟩
      · intro i0 hi0
        have := (h.stopSome i0 hi0).2.2 (by simp [hpc])
        exact ⟨by simp, fun _ => this⟩
      · intro _; exact ⟨by simpa [stopCond, expired] using hst, Or.inl rfl⟩
    · simp only [hst]
      have hck := h.pcCheck hpc
      refine ⟨core_congr hc rfl rfl rfl rfl rfl rfl rfl, ⟨fun _ x => x, Nat.le_refl _, id, id⟩, rfl,
        ?_, by simp, by simp, by simp, by simp, by simp [hab]⟩
      intro i0 hi0
      exact absurd (h.stopSome i0 hi0).1 hst
  | fill =>
    have hab := notAb (by simp [hpc]) (by simp [hpc])
    simp only
    by_cases hcan : s.waiting.length < c.workers ∧ s.i < c.n
    · simp only [hcan, and_self, if_true]
      have core1 : Core c (submit s) := by
        unfold submit
        constructor
        · simp only [List.length_append, List.length_singleton]; omega
        · intro j hj
          simp only [List.mem_append, List.mem_singleton] at hj
          rcases hj with hj | hj
          · have := hc.wlt j hj; simp only; omega
          · simp only; omega
        · refine List.nodup_append.mpr ⟨hc.wnd, by simp, ?_⟩
          intro a ha b hb
          simp only [List.mem_singleton] at hb
          subst hb
          intro e; subst e
          exact Nat.lt_irrefl _ (hc.wlt _ ha)
        · intro j hj; have := hc.clt j hj; simp only; omega
        · exact hc.cnd
        · simp only; omega
        · exact hc.err
        · exact hc.red
        · exact hc.res
        · intro j hj
          simp only at hj
          by_cases hji : j < s.i
          · rcases hc.cover j hji with h1 | h1
            · exact Or.inl h1
            · exact Or.inr (List.mem_append_left _ h1)
          · right
            have : j = s.i := by omega
            simp [this]
        · exact hc.fin
      have g := good_yieldStep (good_refl core1) ⟨[], 0⟩
      generalize yieldStep c _ _ = t at g ⊢
      obtain ⟨e1, e2, e3, e4, e5, _⟩ := g.ctl
      simp only [submit] at e1 e2 e3 e4 e5
      refine ⟨g.core, ⟨g.mono.comp, g.mono.clock, g.mono.fin, g.mono.errs⟩, e5, ?_, ?_, ?_, ?_, ?_, ?_⟩
      · intro i0 hi0
        have := (h.stopSome i0 hi0).2.1 hpc
        rw [e1, e2]
        refine ⟨fun _ => ?_, fun hne => absurd (e3.trans hpc) hne⟩
        simp only [List.length_append, List.length_singleton]
        omega
      · intro hp; rw [e3, hpc] at hp; cases hp
      · intro hp; rw [e3, hpc] at hp; cases hp
      · intro hp; rw [e3, hpc] at hp; cases hp
      · intro hp; rw [e3, hpc] at hp; cases hp
      · intro ha; rw [e4, hab] at ha; cases ha
    · simp only [hcan, if_false]
      refine ⟨core_congr hc rfl rfl rfl rfl rfl rfl rfl, ⟨fun _ x => x, Nat.le_refl _, id, id⟩, rfl,
        ?_, by simp, by simp, by simp, by simp, by simp [hab]⟩
      intro i0 hi0
      have := (h.stopSome i0 hi0).2.1 hpc
      refine ⟨by simp, fun _ => ?_⟩
      simp only; omega
  | final =>
    have hab := notAb (by simp [hpc]) (by simp [hpc])
    have hin := h.pcFinal hpc
    simp only
    have g1 : Good c s { s with trace := Ev.waitAll :: s.trace, pc := PC.final } :=
      ⟨core_congr hc rfl rfl rfl rfl rfl rfl rfl, ⟨rfl, rfl, hpc.symm, rfl, rfl, rfl⟩,
       ⟨fun _ x => x, Nat.le_refl _, id, id⟩⟩
    have g2 := good_yieldStep g1 ⟨[], 0⟩
    generalize yieldStep c _ _ = s2 at g2 ⊢
    have fin : ∀ s3 : St, Good c s s3 → (running s3 = [] ∨ expired c s3 = true) →
        Pre c s { reap s3 with pc := .shut } := by
      intro s3 g3 hr
      obtain ⟨e1, e2, e3, e4, e5, _⟩ := g3.ctl
      refine ⟨core_congr (core_reap g3.core) rfl rfl rfl rfl rfl rfl rfl,
        ⟨g3.mono.comp, g3.mono.clock, g3.mono.fin, g3.mono.errs⟩, e5, ?_, by simp, by simp, ?_, by simp,
        ?_⟩
      · intro i0 hi0
        have := (h.stopSome i0 hi0).2.2 (by simp [hpc])
        refine ⟨by simp, fun _ => ?_⟩
        simp only [reap]; omega
      · intro _ _
        refine ⟨by simp only [reap]; omega, ?_⟩
        rcases hr with hr | hr
        · left
          have := running_reap s3
          simp only [running, reap] at this ⊢
          rw [this]; exact hr
        · right; exact hr
      · intro ha
        simp only [reap] at ha
        rw [e4, hab] at ha; cases ha
    split
    · rename_i hex
      exact fin s2 g2 (Or.inr hex)
    · refine fin _ (good_completeAll _ g2 (fun _ x => x) (running_nodup g2.core)) (Or.inl ?_)
      exact running_completeAll_self c s2
  | shut =>
    simp only
    by_cases hd : c.drain = true
    · simp only [hd, if_true]
      have g := good_completeAll (running s) (good_refl hc) (fun _ x => x) (running_nodup hc)
      obtain ⟨e1, e2, e3, e4, e5, _⟩ := g.ctl
      refine ⟨core_congr g.core rfl rfl rfl rfl rfl rfl rfl,
        ⟨g.mono.comp, g.mono.clock, g.mono.fin, g.mono.errs⟩, e5, ?_, by simp, by simp, by simp, ?_, ?_⟩
      · intro i0 hi0
        have := (h.stopSome i0 hi0).2.2 (by simp [hpc])
        refine ⟨by simp, fun _ => ?_⟩
        simp only; omega
      · intro _ ha
        simp only at ha
        rw [e4] at ha
        refine ⟨by simp only; rw [e2]; exact (h.pcShut hpc ha).1, Or.inl ?_⟩
        have := running_completeAll_self c s
        simpa [running] using this
      · intro ha
        simp only at ha
        rw [e4] at ha
        refine ⟨?_, Or.inr rfl⟩
        have := stopCond_mono g.mono (h.abStop ha).1
        simpa [stopCond, expired] using this
    · simp only [hd]
      refine ⟨core_congr hc rfl rfl rfl rfl rfl rfl rfl, ⟨fun _ x => x, Nat.le_refl _, id, id⟩, rfl,
        ?_, by simp, by simp, by simp, ?_, ?_⟩
      · intro i0 hi0
        have := (h.stopSome i0 hi0).2.2 (by simp [hpc])
        exact ⟨by simp, fun _ => this⟩
      · intro _ ha
        have := h.pcShut hpc ha
        refine ⟨this.1, ?_⟩
        rcases this.2 with r | r
        · left; simpa [running] using r
        · right; exact ⟨by simpa [expired] using r, by simpa using hd⟩
      · intro ha
        exact ⟨by simpa [stopCond, expired] using (h.abStop ha).1, Or.inr rfl⟩
  | done =>
    simp only
    refine ⟨hc, ⟨fun _ x => x, Nat.le_refl _, id, id⟩, rfl, ?_, ?_, ?_, ?_, h.pcDone, h.abStop⟩
    · intro i0 hi0
      exact (h.stopSome i0 hi0).2
    · intro hp; rw [hpc] at hp; cases hp
    · intro hp; rw [hpc] at hp; cases hp
    · intro hp; rw [hpc] at hp; cases hp

end Qv.C14

namespace Qv.C14

theorem inv_init (c : Cfg) (sched : List Step) : Inv c (init c sched) := by
  have hc := core_init c sched
  unfold init noteStop
  have h0 : (init0 c sched).iAtStop = none := rfl
  have hp : (init0 c sched).pc = .head := rfl
  have ha : (init0 c sched).aborted = false := rfl
  simp only [h0]
  by_cases hst : stopCond c (init0 c sched) = true
  · simp only [hst, if_true]
    refine ⟨core_congr hc rfl rfl rfl rfl rfl rfl rfl, by simp, ?_, by simp [hp], by simp [hp],
      by simp [hp], by simp [hp], by simp [ha]⟩
    intro i1 h1
    simp only [Option.some.injEq] at h1
    subst h1
    exact ⟨hst, fun _ => by simp only; omega, fun _ => by simp only; omega⟩
  · simp only [hst]
    refine ⟨hc, fun _ => by simpa using hst, ?_, by simp [hp], by simp [hp], by simp [hp], by simp [hp],
      by simp [ha]⟩
    intro i1 h1
    simp [h0] at h1

theorem inv_step {c : Cfg} {s : St} (hW : 1 ≤ c.workers) (h : Inv c s) : Inv c (step c s) :=
  noteStop_inv h (body_pre hW h)

theorem inv_iter {c : Cfg} (hW : 1 ≤ c.workers) (k : Nat) : ∀ {s : St}, Inv c s → Inv c (iter c k s) := by
  induction k with
  | zero => intro s h; exact h
  | succ k ih => intro s h; exact ih (inv_step hW h)

/-- every reachable state satisfies the invariant -/
theorem inv_reachable (c : Cfg) (hW : 1 ≤ c.workers) (sched : List Step) (k : Nat) :
    Inv c (iter c k (init c sched)) :=
  inv_iter hW k (inv_init c sched)

end Qv.C14

namespace Qv.C14

/-- termination measure -/
def phi (c : Cfg) (s : St) : Nat :=
  4 * (c.n - s.i) +
    match s.pc with
    | .head => 3
    | .check => 2
    | .fill => if s.waiting.length < c.workers ∧ s.i < c.n then 1 else 4
    | .final => 2
    | .shut => 1
    | .done => 0

theorem noteStop_ctl (c : Cfg) (t : St) :
    (noteStop c t).pc = t.pc ∧ (noteStop c t).i = t.i ∧ (noteStop c t).waiting = t.waiting ∧
    (noteStop c t).comp = t.comp ∧ (noteStop c t).errors = t.errors ∧
    (noteStop c t).results = t.results ∧ (noteStop c t).reduced = t.reduced ∧
    (noteStop c t).aborted = t.aborted ∧ (noteStop c t).clock = t.clock ∧
    (noteStop c t).finished = t.finished := by
  unfold noteStop
  split
  · simp
  · split <;> simp

theorem phi_noteStop (c : Cfg) (t : St) : phi c (noteStop c t) = phi c t := by
  obtain ⟨h1, h2, h3, _⟩ := noteStop_ctl c t
  simp only [phi, h1, h2, h3]

theorem yieldStep_ctl (c : Cfg) (s : St) (d : Step) :
    (yieldStep c s d).pc = s.pc ∧ (yieldStep c s d).i = s.i ∧ (yieldStep c s d).waiting = s.waiting := by
  have ac : ∀ (rs : List Nat) (s : St), (applyComps c s rs).pc = s.pc ∧ (applyComps c s rs).i = s.i ∧
      (applyComps c s rs).waiting = s.waiting := by
    intro rs
    induction rs with
    | nil => intro s; exact ⟨rfl, rfl, rfl⟩
    | cons r rs ih =>
      intro s
      unfold applyComps
      split
      · exact ih s
      · obtain ⟨a, b, d⟩ := ih (completeOne c s (pick (running s) r ‹_›))
        obtain ⟨f1, f2, _, f4, _⟩ := completeOne_fields c s (pick (running s) r ‹_›)
        exact ⟨a.trans f4, b.trans f2, d.trans f1⟩
  have pp : (popStep s d).2.pc = s.pc ∧ (popStep s d).2.i = s.i ∧ (popStep s d).2.waiting = s.waiting := by
    unfold popStep; split <;> simp
  obtain ⟨a, b, e⟩ := ac (popStep s d).1.comp (popStep s d).2
  unfold yieldStep tickBy
  exact ⟨a.trans pp.1, b.trans pp.2.1, e.trans pp.2.2⟩

theorem completeAll_i (c : Cfg) (l : List Nat) : ∀ (s : St), (completeAll c s l).i = s.i := by
  induction l with
  | nil => intro s; rfl
  | cons j js ih => intro s; unfold completeAll; rw [ih, (completeOne_fields c s j).2.1]

theorem phi_step {c : Cfg} {s : St} (hW : 1 ≤ c.workers) (h : Inv c s) (hnd : s.pc ≠ .done) :
    phi c (step c s) < phi c s := by
  unfold step
  rw [phi_noteStop]
  unfold body
  cases hpc : s.pc with
  | head =>
    simp only
    by_cases hin : s.i < c.n
    · simp only [hin, if_true]
      by_cases hlen : c.workers ≤ s.waiting.length
      · simp only [hlen, if_true]
        have w := waitFirst_post h.core hW
        simp only [phi, w.i_eq, hpc]; omega
      · simp only [hlen, if_false, phi, hpc]; omega
    · simp only [hin, if_false, phi, hpc]; omega
  | check =>
    simp only
    by_cases hst : stopCond c s = true
    · simp only [hst, if_true, phi, hpc]; omega
    · have hck := h.pcCheck hpc
      have : s.waiting.length < c.workers := by
        rcases hck.2 with x | x
        · exact x
        · exact absurd x hst
      have hst' : stopCond c s = false := by simpa using hst
      simp only [hst', Bool.false_eq_true, if_false, phi, hpc, this, hck.1, and_self, if_true]; omega
  | fill =>
    simp only
    by_cases hcan : s.waiting.length < c.workers ∧ s.i < c.n
    · simp only [hcan, and_self, if_true]
      obtain ⟨a, b, _⟩ := yieldStep_ctl c (submit s) ⟨[], 0⟩
      have a' : (yieldStep c (submit s) ⟨[], 0⟩).pc = .fill := a.trans (by simp [submit, hpc])
      have b' : (yieldStep c (submit s) ⟨[], 0⟩).i = s.i + 1 := b.trans (by simp [submit])
      simp only [phi, a', b', hpc, hcan, and_self, if_true]
      split <;> omega
    · simp only [hcan, if_false, phi, hpc]; omega
  | final =>
    have := h.pcFinal hpc
    obtain ⟨_, b, _⟩ := yieldStep_ctl c { s with trace := Ev.waitAll :: s.trace, pc := PC.final } ⟨[], 0⟩
    simp only at b
    simp only
    split
    · simp only [phi, reap, hpc, b]; omega
    · simp only [phi, reap, hpc, completeAll_i, b]; omega
  | shut =>
    simp only
    split
    · simp only [phi, hpc, completeAll_i]; omega
    · simp only [phi, hpc]; omega
  | done => exact absurd hpc hnd

end Qv.C14

namespace Qv.C14

theorem step_done {c : Cfg} {s : St} (h : s.pc = .done) : (step c s).pc = .done := by
  unfold step
  rw [(noteStop_ctl c _).1]
  unfold body
  simp [h]

theorem iter_done {c : Cfg} (k : Nat) : ∀ {s : St}, s.pc = .done → (iter c k s).pc = .done := by
  induction k with
  | zero => intro s h; exact h
  | succ k ih => intro s h; exact ih (step_done h)

theorem phi_iter {c : Cfg} (hW : 1 ≤ c.workers) (k : Nat) : ∀ {s : St}, Inv c s →
    (iter c k s).pc = .done ∨ phi c (iter c k s) + k ≤ phi c s := by
  induction k with
  | zero => intro s _; right; simp [iter]
  | succ k ih =>
    intro s h
    by_cases hd : s.pc = .done
    · left; exact iter_done _ hd
    · rcases ih (inv_step hW h) with r | r
      · left; exact r
      · right
        have := phi_step hW h hd
        simp only [iter]; omega

theorem phi_init (c : Cfg) (sched : List Step) : phi c (init c sched) = 4 * c.n + 3 := by
  unfold init
  rw [phi_noteStop]
  simp [phi, init0]

theorem phi_pos_of_not_done {c : Cfg} {s : St} (h : s.pc ≠ .done) : 0 < phi c s := by
  unfold phi
  cases hpc : s.pc <;> simp_all
  split <;> omega

theorem count_of_nodup {l : List Nat} (h : l.Nodup) (j : Nat) :
    l.count j = if j ∈ l then 1 else 0 := by
  induction l with
  | nil => simp
  | cons a t ih =>
    obtain ⟨ha, ht⟩ := List.nodup_cons.mp h
    rw [List.count_cons, ih ht]
    by_cases e : a = j
    · subst e; simp [ha]
    · have : j ≠ a := fun x => e x.symm
      simp [e, this]

/-- nothing can stop the map: no time limit, no fail-fast error, reducer never signals -/
def NeverStops (c : Cfg) : Prop :=
  c.timeout = none ∧ (c.failFast = false ∨ c.raises = []) ∧ (c.stopAfter = none ∨ c.reducer = false)

theorem neverStops_stopCond {c : Cfg} {s : St} (hn : NeverStops c) (h : Core c s) :
    stopCond c s = false := by
  obtain ⟨h1, h2, h3⟩ := hn
  have hf : s.finished = false := by
    cases hfin : s.finished with
    | false => rfl
    | true =>
      have := h.fin hfin
      rcases h3 with x | x
      · simp [x] at this
      · simp [x] at this
  have he : (!s.errors.isEmpty && c.failFast) = false := by
    rcases h2 with x | x
    · simp [x]
    · have : s.errors = [] := by
        rw [h.err]
        apply List.filter_eq_nil_iff.mpr
        intro j _
        simp [raisesB, x]
      simp [this]
  simp [stopCond, expired, h1, hf, he]

end Qv.C14

namespace Qv.C14

/-- invariant of `serial_map` when nothing stops it -/
structure SInv (c : Cfg) (s : SSt) : Prop where
  kle : s.k ≤ c.n
  ran : s.ran = List.range s.k
  err : s.errors = (List.range s.k).filter (raisesB c)
  red : c.reducer = true → s.reduced = (List.range s.k).filter (fun j => !raisesB c j)
  res : c.reducer = false → s.results.length = c.n ∧
    ∀ j, j < c.n → s.results[j]? = some (if j < s.k ∧ raisesB c j = false then some j else none)
  stopped : s.stopped = false
  raised : s.raised = none

theorem serialLoop_inv {c : Cfg} (hn : NeverStops c) (f : Nat) : ∀ (s : SSt), SInv c s →
    s.k + f = c.n → SInv c (serialLoop c f s) ∧ (serialLoop c f s).k = c.n := by
  obtain ⟨h1, h2, h3⟩ := hn
  induction f with
  | zero => intro s h hk; unfold serialLoop; exact ⟨h, by simpa using hk⟩
  | succ f ih =>
    intro s h hk
    unfold serialLoop
    have hlt : s.k < c.n := by omega
    have hexp : sExpired c s = false := by simp [sExpired, h.stopped, h1]
    simp only [hlt, if_true, hexp, Bool.false_eq_true, if_false]
    generalize hsd : (match s.sched with | [] => (0, []) | st :: r => (st.tick, r)) = p
    obtain ⟨tick, sched'⟩ := p
    by_cases hr : raisesB c s.k = true
    · have hff : c.failFast = false := by
        rcases h2 with x | x
        · exact x
        · simp [raisesB, x] at hr
      simp only [hr, if_true, hff, Bool.false_eq_true, if_false]
      apply ih
      · refine ⟨by simp only; omega, by simp [h.ran, List.range_succ], ?_, ?_, ?_, h.stopped, h.raised⟩
        · simp [h.err, List.range_succ, List.filter_append, hr]
        · intro hrd; simp [h.red hrd, List.range_succ, List.filter_append, hr]
        · intro hrd
          obtain ⟨hl, hres⟩ := h.res hrd
          refine ⟨hl, fun j hj => ?_⟩
          simp only
          rw [hres j hj]
          by_cases e : j = s.k
          · subst e; simp [hr]
          · have : j < s.k + 1 ↔ j < s.k := by omega
            simp [this]
      · simp only; omega
    · have hr' : raisesB c s.k = false := by simpa using hr
      simp only [hr', Bool.false_eq_true, if_false]
      by_cases hrd : c.reducer = true
      · have hstop : (match c.stopAfter with
            | some k => decide (k ≤ (s.reduced ++ [s.k]).length) | none => false) = false := by
          rcases h3 with x | x
          · simp [x]
          · rw [x] at hrd; cases hrd
        simp only [hrd, if_true]
        apply ih
        · refine ⟨by simp only; omega, by simp [h.ran, List.range_succ], ?_, ?_, ?_,
            by (rcases h3 with x | x
                · simp [h.stopped, x]
                · rw [x] at hrd; cases hrd), h.raised⟩
          · simp [h.err, List.range_succ, List.filter_append, hr']
          · intro _; simp [h.red hrd, List.range_succ, List.filter_append, hr']
          · intro x; rw [x] at hrd; cases hrd
        · simp only; omega
      · have hrd' : c.reducer = false := by simpa using hrd
        simp only [hrd', Bool.false_eq_true, if_false]
        apply ih
        · refine ⟨by simp only; omega, by simp [h.ran, List.range_succ], ?_, ?_, ?_, h.stopped, h.raised⟩
          · simp [h.err, List.range_succ, List.filter_append, hr']
          · intro x; rw [x] at hrd'; cases hrd'
          · intro _
            obtain ⟨hl, hres⟩ := h.res hrd'
            refine ⟨by simpa using hl, fun j hj => ?_⟩
            simp only
            rw [List.getElem?_set]
            by_cases e : s.k = j
            · subst e; simp [hl, hj, hr']
            · have e' : j ≠ s.k := fun x => e x.symm
              have : j < s.k + 1 ↔ j < s.k := by omega
              simp [e, hres j hj, this]
        · simp only; omega

theorem sinv_init (c : Cfg) (sched : List Step) :
    SInv c { results := List.replicate c.n none, sched := sched } := by
  refine ⟨by simp, by simp, by simp, by simp, ?_, rfl, rfl⟩
  intro _
  refine ⟨by simp, fun j hj => by simp [hj]⟩

end Qv.C14
