import Qv.Model.C03
import Mathlib.LinearAlgebra.Matrix.Hermitian
import Mathlib.LinearAlgebra.UnitaryGroup
import Mathlib.LinearAlgebra.Matrix.Kronecker
import Mathlib.Data.Complex.Basic
import Mathlib.Tactic.Linarith
/-! Soundness of the maximal flag rules of C03 against the mathematics (Mathlib `IsHermitian`,
`unitaryGroup`, `kronecker`), for complex matrices of every size. -/
set_option linter.unusedSectionVars false
namespace Qv.C03

open Matrix

variable {n m : Type} [Fintype n] [DecidableEq n] [Fintype m] [DecidableEq m]

/-- a cache is sound for a proposition: whatever it claims is true -/
def Sound (c : Tri) (P : Prop) : Prop := ∀ b, c = some b → (b = true ↔ P)

theorem sound_none (P : Prop) : Sound none P := by intro b h; cases h

theorem sound_true {P : Prop} (h : P) : Sound (some true) P := by
  intro b hb; cases hb; exact ⟨fun _ => h, fun _ => rfl⟩

theorem sound_false {P : Prop} (h : ¬P) : Sound (some false) P := by
  intro b hb; cases hb; exact ⟨fun e => (by cases e), fun p => absurd p h⟩

theorem Sound.of_true {P : Prop} (h : Sound (some true) P) : P := (h true rfl).mp rfl
theorem Sound.of_false {P : Prop} (h : Sound (some false) P) : ¬P := fun p => by
  have := (h false rfl).mpr p; cases this

theorem sound_iff {a : Tri} {P Q : Prop} (h : P ↔ Q) (ha : Sound a P) : Sound a Q := by
  intro b hb; rw [← h]; exact ha b hb

abbrev U (A : Matrix n n ℂ) : Prop := A ∈ unitaryGroup n ℂ

/-! #### Hermitian flag -/

theorem addH_sound (A B : Matrix n n ℂ) (a b : Tri) (ha : Sound a A.IsHermitian)
    (hb : Sound b B.IsHermitian) : Sound (maxRule .addH a b) (A + B).IsHermitian := by
  rcases a with _ | _ | _ <;> rcases b with _ | _ | _ <;> simp only [maxRule] <;>
    first
    | exact sound_none _
    | exact sound_true (ha.of_true.add hb.of_true)
    | (apply sound_false; intro h
       first
       | exact hb.of_false (by simpa using h.sub ha.of_true)
       | exact ha.of_false (by simpa using h.sub hb.of_true))

theorem subH_sound (A B : Matrix n n ℂ) (a b : Tri) (ha : Sound a A.IsHermitian)
    (hb : Sound b B.IsHermitian) : Sound (maxRule .subH a b) (A - B).IsHermitian := by
  rcases a with _ | _ | _ <;> rcases b with _ | _ | _ <;> simp only [maxRule] <;>
    first
    | exact sound_none _
    | exact sound_true (ha.of_true.sub hb.of_true)
    | (apply sound_false; intro h
       first
       | exact hb.of_false (by simpa using ha.of_true.sub h)
       | exact ha.of_false (by simpa using h.add hb.of_true))

theorem negH_iff (A : Matrix n n ℂ) : A.IsHermitian ↔ (-A).IsHermitian :=
  ⟨fun h => h.neg, fun h => by simpa using h.neg⟩

theorem negH_sound (A : Matrix n n ℂ) (a b : Tri) (ha : Sound a A.IsHermitian) :
    Sound (maxRule .negH a b) (-A).IsHermitian := sound_iff (negH_iff A) ha

theorem dagH_iff (A : Matrix n n ℂ) : A.IsHermitian ↔ Aᴴ.IsHermitian :=
  ⟨fun h => by rw [h.eq]; exact h, fun h => by
    have := congrArg conjTranspose h.eq
    simpa [IsHermitian] using this⟩

theorem dagH_sound (A : Matrix n n ℂ) (a b : Tri) (ha : Sound a A.IsHermitian) :
    Sound (maxRule .dagH a b) Aᴴ.IsHermitian := sound_iff (dagH_iff A) ha

theorem transH_iff (A : Matrix n n ℂ) : A.IsHermitian ↔ Aᵀ.IsHermitian :=
  ⟨fun h => h.transpose, fun h => by simpa using h.transpose⟩

theorem transH_sound (A : Matrix n n ℂ) (a b : Tri) (ha : Sound a A.IsHermitian) :
    Sound (maxRule .transH a b) Aᵀ.IsHermitian := sound_iff (transH_iff A) ha

theorem conjH_iff (A : Matrix n n ℂ) : A.IsHermitian ↔ (A.map star).IsHermitian := by
  have : A.map star = Aᴴᵀ := by ext i j; simp [conjTranspose]
  rw [this, ← transH_iff, ← dagH_iff]

theorem conjH_sound (A : Matrix n n ℂ) (a b : Tri) (ha : Sound a A.IsHermitian) :
    Sound (maxRule .conjH a b) (A.map star).IsHermitian := sound_iff (conjH_iff A) ha

theorem mulRealH_iff (A : Matrix n n ℂ) (r : ℝ) (hr : r ≠ 0) :
    A.IsHermitian ↔ ((r : ℂ) • A).IsHermitian := by
  constructor
  · intro h
    unfold IsHermitian
    rw [conjTranspose_smul, h.eq]; simp
  · intro h
    unfold IsHermitian at h ⊢
    rw [conjTranspose_smul] at h
    have hr' : (r : ℂ) ≠ 0 := by exact_mod_cast hr
    have h2 : (r : ℂ) • Aᴴ = (r : ℂ) • A := by simpa using h
    exact smul_right_injective _ hr' h2

theorem mulRealH_sound (A : Matrix n n ℂ) (r : ℝ) (hr : r ≠ 0) (a b : Tri)
    (ha : Sound a A.IsHermitian) : Sound (maxRule .mulRealH a b) ((r : ℂ) • A).IsHermitian :=
  sound_iff (mulRealH_iff A r hr) ha

/-- a real multiple of the identity is Hermitian -/
theorem real_smul_one_isHermitian (r : ℝ) : ((r : ℂ) • (1 : Matrix n n ℂ)).IsHermitian := by
  unfold IsHermitian
  rw [conjTranspose_smul, conjTranspose_one]; simp

theorem saddRealH_iff (A : Matrix n n ℂ) (r : ℝ) :
    A.IsHermitian ↔ (A + (r : ℂ) • (1 : Matrix n n ℂ)).IsHermitian :=
  ⟨fun h => h.add (real_smul_one_isHermitian r),
   fun h => by simpa using h.sub (real_smul_one_isHermitian (n := n) r)⟩

theorem saddRealH_sound (A : Matrix n n ℂ) (r : ℝ) (a b : Tri) (ha : Sound a A.IsHermitian) :
    Sound (maxRule .saddRealH a b) (A + (r : ℂ) • (1 : Matrix n n ℂ)).IsHermitian :=
  sound_iff (saddRealH_iff A r) ha

/-- a multiple of the identity by a number that is not real is not Hermitian (on a space of
dimension at least one) -/
theorem imag_smul_one_not_isHermitian [Nonempty n] (z : ℂ) (hz : z.im ≠ 0) :
    ¬ (z • (1 : Matrix n n ℂ)).IsHermitian := by
  intro h
  obtain ⟨i⟩ := ‹Nonempty n›
  have := congrFun (congrFun h.eq i) i
  have h2 := congrArg Complex.im this
  simp [Matrix.smul_apply] at h2
  exact hz (by linarith)

theorem saddImagH_sound [Nonempty n] (A : Matrix n n ℂ) (z : ℂ) (hz : z.im ≠ 0) (a b : Tri)
    (ha : Sound a A.IsHermitian) :
    Sound (maxRule .saddImagH a b) (A + z • (1 : Matrix n n ℂ)).IsHermitian := by
  rcases a with _ | _ | _ <;> simp only [maxRule] <;>
    first
    | exact sound_none _
    | (apply sound_false; intro h
       exact imag_smul_one_not_isHermitian z hz (by simpa using h.sub ha.of_true))

theorem powH_sound (A : Matrix n n ℂ) (k : ℕ) (a b : Tri) (ha : Sound a A.IsHermitian) :
    Sound (maxRule .powH a b) (A ^ k).IsHermitian := by
  rcases a with _ | _ | _ <;> simp only [maxRule] <;>
    first
    | exact sound_none _
    | exact sound_true (ha.of_true.pow k)

theorem pow0H_sound (A : Matrix n n ℂ) (a b : Tri) : Sound (maxRule .pow0H a b) (A ^ 0).IsHermitian := by
  simp only [maxRule, pow_zero]; exact sound_true isHermitian_one

theorem kronH_sound (A : Matrix n n ℂ) (B : Matrix m m ℂ) (a b : Tri) (ha : Sound a A.IsHermitian)
    (hb : Sound b B.IsHermitian) : Sound (maxRule .kronH a b) (kroneckerMap (· * ·) A B).IsHermitian := by
  rcases a with _ | _ | _ <;> rcases b with _ | _ | _ <;> simp only [maxRule] <;>
    first
    | exact sound_none _
    | (apply sound_true
       unfold IsHermitian
       rw [conjTranspose_kronecker, ha.of_true.eq, hb.of_true.eq])

theorem invH_iff (A : Matrix n n ℂ) (hA : IsUnit A.det) : A.IsHermitian ↔ A⁻¹.IsHermitian :=
  ⟨fun h => h.inv, fun h => by
    have := h.inv
    rwa [nonsing_inv_nonsing_inv A hA] at this⟩

theorem invH_sound (A : Matrix n n ℂ) (hA : IsUnit A.det) (a b : Tri) (ha : Sound a A.IsHermitian) :
    Sound (maxRule .invH a b) A⁻¹.IsHermitian := sound_iff (invH_iff A hA) ha

/-! #### unitary flag -/

theorem matmulU_sound (A B : Matrix n n ℂ) (a b : Tri) (ha : Sound a (U A)) (hb : Sound b (U B)) :
    Sound (maxRule .matmulU a b) (U (A * B)) := by
  rcases a with _ | _ | _ <;> rcases b with _ | _ | _ <;> simp only [maxRule] <;>
    first
    | exact sound_none _
    | exact sound_true (mul_mem ha.of_true hb.of_true)
    | (apply sound_false; intro h
       first
       | (apply hb.of_false
          have hA := ha.of_true
          have : B = star A * (A * B) := by
            rw [← mul_assoc, (mem_unitaryGroup_iff').mp hA, one_mul]
          rw [this]; exact mul_mem (Unitary.star_mem hA) h)
       | (apply ha.of_false
          have hB := hb.of_true
          have : A = (A * B) * star B := by
            rw [mul_assoc, (mem_unitaryGroup_iff).mp hB, mul_one]
          rw [this]; exact mul_mem h (Unitary.star_mem hB)))

theorem negU_iff (A : Matrix n n ℂ) : U A ↔ U (-A) := by
  simp only [U, mem_unitaryGroup_iff, star_neg, neg_mul_neg]

theorem negU_sound (A : Matrix n n ℂ) (a b : Tri) (ha : Sound a (U A)) :
    Sound (maxRule .negU a b) (U (-A)) := sound_iff (negU_iff A) ha

theorem dagU_iff (A : Matrix n n ℂ) : U A ↔ U Aᴴ :=
  ⟨fun h => Unitary.star_mem h, fun h => by
    have := Unitary.star_mem h
    rwa [star_eq_conjTranspose, conjTranspose_conjTranspose] at this⟩

theorem dagU_sound (A : Matrix n n ℂ) (a b : Tri) (ha : Sound a (U A)) :
    Sound (maxRule .dagU a b) (U Aᴴ) := sound_iff (dagU_iff A) ha

theorem powU_sound (A : Matrix n n ℂ) (k : ℕ) (a b : Tri) (ha : Sound a (U A)) :
    Sound (maxRule .powU a b) (U (A ^ k)) := by
  rcases a with _ | _ | _ <;> simp only [maxRule] <;>
    first
    | exact sound_none _
    | exact sound_true (pow_mem ha.of_true k)

theorem pow0U_sound (A : Matrix n n ℂ) (a b : Tri) : Sound (maxRule .pow0U a b) (U (A ^ 0)) := by
  simp only [maxRule, pow_zero]; exact sound_true (one_mem _)

theorem mulUnitU_iff (A : Matrix n n ℂ) (z : ℂ) (hz : star z * z = 1) : U A ↔ U (z • A) := by
  have hz' : z * star z = 1 := by rw [mul_comm]; exact hz
  simp only [U, mem_unitaryGroup_iff, star_smul, smul_mul_smul_comm, hz', one_smul]

theorem mulUnitU_sound (A : Matrix n n ℂ) (z : ℂ) (hz : star z * z = 1) (a b : Tri)
    (ha : Sound a (U A)) : Sound (maxRule .mulUnitU a b) (U (z • A)) :=
  sound_iff (mulUnitU_iff A z hz) ha

theorem mulNonUnitU_sound [Nonempty n] (A : Matrix n n ℂ) (z : ℂ) (hz : z * star z ≠ 1) (a b : Tri)
    (ha : Sound a (U A)) : Sound (maxRule .mulNonUnitU a b) (U (z • A)) := by
  rcases a with _ | _ | _ <;> simp only [maxRule] <;>
    first
    | exact sound_none _
    | (apply sound_false
       intro h
       have hA := (mem_unitaryGroup_iff).mp ha.of_true
       have h2 := (mem_unitaryGroup_iff).mp h
       rw [star_smul, smul_mul_smul_comm, hA] at h2
       apply hz
       obtain ⟨i⟩ := ‹Nonempty n›
       have := congrFun (congrFun h2 i) i
       simpa using this)

theorem kronU_sound (A : Matrix n n ℂ) (B : Matrix m m ℂ) (a b : Tri) (ha : Sound a (U A))
    (hb : Sound b (U B)) :
    Sound (maxRule .kronU a b) (kroneckerMap (· * ·) A B ∈ unitaryGroup (n × m) ℂ) := by
  rcases a with _ | _ | _ <;> rcases b with _ | _ | _ <;> simp only [maxRule] <;>
    first
    | exact sound_none _
    | (apply sound_true
       rw [mem_unitaryGroup_iff]
       have hA := (mem_unitaryGroup_iff).mp ha.of_true
       have hB := (mem_unitaryGroup_iff).mp hb.of_true
       rw [star_eq_conjTranspose, conjTranspose_kronecker, ← mul_kronecker_mul,
         ← star_eq_conjTranspose, ← star_eq_conjTranspose, hA, hB, one_kronecker_one])

theorem transU_sound (A : Matrix n n ℂ) (a b : Tri) (ha : Sound a (U A)) :
    Sound (maxRule .transU a b) (U Aᵀ) := sound_iff (transpose_mem_unitaryGroup_iff).symm ha

theorem conjU_iff (A : Matrix n n ℂ) : U A ↔ U (A.map star) := by
  have : A.map star = Aᴴᵀ := by ext i j; simp [conjTranspose]
  rw [this]
  exact (dagU_iff A).trans (transpose_mem_unitaryGroup_iff).symm

theorem conjU_sound (A : Matrix n n ℂ) (a b : Tri) (ha : Sound a (U A)) :
    Sound (maxRule .conjU a b) (U (A.map star)) := sound_iff (conjU_iff A) ha

theorem invU_iff (A : Matrix n n ℂ) (hA : IsUnit A.det) : U A ↔ U A⁻¹ := by
  constructor
  · intro h
    have hs : A⁻¹ = star A := by
      apply inv_eq_left_inv
      exact (mem_unitaryGroup_iff').mp h
    rw [hs]; exact Unitary.star_mem h
  · intro h
    have hs : A⁻¹⁻¹ = star A⁻¹ := by
      apply inv_eq_left_inv
      exact (mem_unitaryGroup_iff').mp h
    have := Unitary.star_mem h
    rwa [← hs, nonsing_inv_nonsing_inv A hA] at this

theorem invU_sound (A : Matrix n n ℂ) (hA : IsUnit A.det) (a b : Tri) (ha : Sound a (U A)) :
    Sound (maxRule .invU a b) (U A⁻¹) := sound_iff (invU_iff A hA) ha

/-- any acceptable rule is sound as soon as the maximal rule is -/
theorem allowed_sound {op : Op} {r : Tri → Tri → Tri} (hr : ruleAllowed op r = true) (a b : Tri)
    {P : Prop} (hmax : Sound (maxRule op a b) P) : Sound (r a b) P := by
  have key : r a b = none ∨ r a b = maxRule op a b := by
    unfold ruleAllowed triAll at hr
    simp only [List.all_cons, List.all_nil, Bool.and_true, Bool.and_eq_true, Bool.or_eq_true,
      beq_iff_eq] at hr
    rcases a with _ | _ | _ <;> rcases b with _ | _ | _ <;> simp_all
  rcases key with h | h
  · rw [h]; exact sound_none _
  · rw [h]; exact hmax

end Qv.C03
