import Qv.Model.C12
/-! Helper lemmas for C12. -/
namespace Qv.C12

variable {S V : Type}

/-- invariant of the loop -/
structure LoopInv (o : Opts) (cs cf : Bool) (eops : List (Int → S → V)) (traj : List (Int × S))
    (r : Res S V) : Prop where
  times : r.times = traj.map Prod.fst
  edata_len : r.eData.length = o.nEops
  edata : ∀ i (f : Int → S → V), eops[i]? = some f → i < o.nEops →
    r.eData[i]? = some (traj.map (fun tx => f tx.1 tx.2))
  states_len : r.states.length = if storesStates o then traj.length else 0
  states_val : requiresCopy o cs cf = true → storesStates o = true →
    r.states = traj.map (fun tx => Cell.val tx.2)
  final_none : finalProc o = false → r.final = none
  final_some : finalProc o = true → requiresCopy o cs cf = true →
    r.final = (traj.getLast?).map (fun tx => Cell.val tx.2)

theorem loopInv_nil (o : Opts) (cs cf : Bool) (eops : List (Int → S → V)) :
    LoopInv o cs cf eops [] (Res.init o : Res S V) := by
  refine ⟨rfl, by simp [Res.init], ?_, by simp [Res.init], by simp [Res.init], fun _ => rfl, fun _ _ => rfl⟩
  intro i f hf hi
  simp [Res.init, hi]

theorem loopInv_step {o : Opts} {cs cf : Bool} {eops : List (Int → S → V)} {traj : List (Int × S)}
    {r : Res S V} (he : eops.length = o.nEops) (h : LoopInv o cs cf eops traj r) (t : Int) (x : S) :
    LoopInv o cs cf eops (traj ++ [(t, x)]) (r.add o cs cf eops t x) := by
  refine ⟨?_, ?_, ?_, ?_, ?_, ?_, ?_⟩
  · simp [Res.add, h.times]
  · simp [Res.add, h.edata_len, he]
  · intro i f hf hi
    have hl := h.edata i f hf hi
    simp only [Res.add, List.getElem?_zipWith, hl, hf, Option.map_some, List.map_append, List.map_cons,
      List.map_nil]
  · simp only [Res.add]
    split <;> simp [h.states_len, *]
  · intro hc hs
    simp only [Res.add, hs, hc, if_true, h.states_val hc hs, List.map_append, List.map_cons, List.map_nil]
  · intro hf
    simp only [Res.add, hf, Bool.false_eq_true, if_false]
    exact h.final_none hf
  · intro hf hc
    simp [Res.add, hf, hc]

theorem loopInv_fold (o : Opts) (cs cf : Bool) (eops : List (Int → S → V)) (he : eops.length = o.nEops)
    (traj : List (Int × S)) : ∀ (traj0 : List (Int × S)) (r : Res S V), LoopInv o cs cf eops traj0 r →
    LoopInv o cs cf eops (traj0 ++ traj) (traj.foldl (fun r tx => r.add o cs cf eops tx.1 tx.2) r) := by
  induction traj with
  | nil => intro traj0 r h; simpa using h
  | cons tx traj ih =>
    intro traj0 r h
    obtain ⟨t, x⟩ := tx
    have := ih (traj0 ++ [(t, x)]) _ (loopInv_step he h t x)
    simpa [List.append_assoc] using this

theorem loopInv_run (o : Opts) (cs cf : Bool) (eops : List (Int → S → V)) (he : eops.length = o.nEops)
    (traj : List (Int × S)) : LoopInv o cs cf eops traj (runLoop o cs cf eops traj) := by
  have := loopInv_fold o cs cf eops he traj [] _ (loopInv_nil o cs cf eops)
  simpa [runLoop] using this

end Qv.C12
