import Qv.Model.C04
/-! Soundness of the alias analysis of C04 (core Lean only). -/
namespace Qv.C04

/-- every variable in `own` refers to an object allocated after the call started (`base` = number of
objects that existed at entry: the caller's) -/
def Inv (base : Nat) (own : List Nat) (s : St) : Prop :=
  (∀ x, x ∈ own → base ≤ s.env x) ∧ base ≤ s.heap.length

/-- the caller's objects hold what they held -/
def Frame (base : Nat) (s s' : St) : Prop := ∀ i, i < base → s'.heap[i]? = s.heap[i]?

theorem Frame.refl (base : Nat) (s : St) : Frame base s s := fun _ _ => rfl

theorem Frame.trans {base : Nat} {s s1 s2 : St} (h1 : Frame base s s1) (h2 : Frame base s1 s2) :
    Frame base s s2 := fun i hi => (h2 i hi).trans (h1 i hi)

theorem mem_inter {a b : List Nat} {x : Nat} : x ∈ inter a b ↔ x ∈ a ∧ x ∈ b := by
  simp [inter, List.mem_filter]

theorem mem_without {a : List Nat} {x y : Nat} : y ∈ without a x ↔ y ∈ a ∧ y ≠ x := by
  simp [without, List.mem_filter]

theorem Inv.mono {base : Nat} {a b : List Nat} {s : St} (h : ∀ x, x ∈ a → x ∈ b) (hb : Inv base b s) :
    Inv base a s := ⟨fun x hx => hb.1 x (h x hx), hb.2⟩

theorem inter_len_sub {a b : List Nat} (h : (inter a b).length = a.length) : ∀ x, x ∈ a → x ∈ b := by
  intro x hx
  have : inter a b = a := by
    unfold inter at *
    exact List.filter_eq_self.mpr (List.length_filter_eq_length_iff.mp h)
  rw [← this] at hx
  exact (mem_inter.mp hx).2

theorem loopInv_spec (f : List Nat → Option (List Nat)) :
    ∀ (fuel : Nat) (own inv : List Nat), loopInv f fuel own = some inv →
      (∀ x, x ∈ inv → x ∈ own) ∧ ∃ o1, f inv = some o1 ∧ ∀ x, x ∈ inv → x ∈ o1 := by
  intro fuel
  induction fuel with
  | zero => intro own inv h; simp [loopInv] at h
  | succ fuel ih =>
    intro own inv h
    simp only [loopInv] at h
    cases hf : f own with
    | none => rw [hf] at h; simp at h
    | some o1 =>
      rw [hf] at h
      simp only at h
      by_cases hl : (inter own o1).length = own.length
      · rw [if_pos hl] at h
        cases h
        exact ⟨fun _ hx => hx, o1, hf, inter_len_sub hl⟩
      · rw [if_neg hl] at h
        have := ih _ _ h
        exact ⟨fun x hx => (mem_inter.mp (this.1 x hx)).1, this.2⟩

theorem loop_sound (base : Nat) (body : Stmt) (inv : List Nat)
    (hbody : ∀ s s1, Inv base inv s → Exec body s s1 → Inv base inv s1 ∧ Frame base s s1) :
    ∀ st s s', Exec st s s' → st = .loop body → Inv base inv s → Inv base inv s' ∧ Frame base s s' := by
  intro st s s' h
  induction h with
  | loopDone b s => intro _ hi; exact ⟨hi, Frame.refl _ _⟩
  | loopStep hb _ _ ih2 =>
    intro e hi
    cases e
    have h1 := hbody _ _ hi hb
    have h2 := ih2 rfl h1.1
    exact ⟨h2.1, h1.2.trans h2.2⟩
  | _ => intro e; cases e

theorem sound (base : Nat) : ∀ (st : Stmt) (own own' : List Nat) (s s' : St),
    analyze st own = some own' → Inv base own s → Exec st s s' →
      Inv base own' s' ∧ Frame base s s' := by
  intro st
  induction st with
  | fresh x =>
    intro own own' s s' ha hi he
    cases he
    simp only [analyze, Option.some.injEq] at ha
    subst ha
    refine ⟨⟨?_, ?_⟩, ?_⟩
    · intro y hy
      simp only [upd]
      split
      · exact hi.2
      · rename_i hne
        rcases List.mem_cons.mp hy with e | e
        · exact absurd e hne
        · exact hi.1 y e
    · simp only [List.length_append, List.length_cons, List.length_nil]; have := hi.2; omega
    · intro i hib
      exact List.getElem?_append_left (by have := hi.2; omega)
  | alias x y =>
    intro own own' s s' ha hi he
    cases he
    simp only [analyze] at ha
    refine ⟨⟨?_, hi.2⟩, Frame.refl _ _⟩
    split at ha
    · rename_i hy
      cases ha
      intro z hz
      simp only [upd]
      split
      · exact hi.1 y (by simpa using hy)
      · rename_i hne
        rcases List.mem_cons.mp hz with e | e
        · exact absurd e hne
        · exact hi.1 z e
    · cases ha
      intro z hz
      have := mem_without.mp hz
      simp only [upd, if_neg this.2]
      exact hi.1 z this.1
  | havoc x =>
    intro own own' s s' ha hi he
    cases he
    simp only [analyze, Option.some.injEq] at ha
    subst ha
    refine ⟨⟨?_, hi.2⟩, Frame.refl _ _⟩
    intro z hz
    have := mem_without.mp hz
    simp only [upd, if_neg this.2]
    exact hi.1 z this.1
  | mutate x =>
    intro own own' s s' ha hi he
    cases he
    simp only [analyze] at ha
    split at ha
    · rename_i hx
      cases ha
      have hb : base ≤ s.env x := hi.1 x (by simpa using hx)
      refine ⟨⟨hi.1, by simpa using hi.2⟩, ?_⟩
      intro i hib
      exact List.getElem?_set_ne (by omega)
    · cases ha
  | seq a b iha ihb =>
    intro own own' s s' ha hi he
    cases he with
    | seq h1 h2 =>
      simp only [analyze] at ha
      cases hao : analyze a own with
      | none => rw [hao] at ha; cases ha
      | some o =>
        rw [hao] at ha
        have r1 := iha _ _ _ _ hao hi h1
        have r2 := ihb _ _ _ _ ha r1.1 h2
        exact ⟨r2.1, r1.2.trans r2.2⟩
  | choice a b iha ihb =>
    intro own own' s s' ha hi he
    simp only [analyze] at ha
    cases hao : analyze a own with
    | none => rw [hao] at ha; cases ha
    | some o1 =>
      cases hbo : analyze b own with
      | none => rw [hao, hbo] at ha; cases ha
      | some o2 =>
        rw [hao, hbo] at ha
        cases ha
        cases he with
        | choiceL h1 =>
          have r := iha _ _ _ _ hao hi h1
          exact ⟨Inv.mono (fun x hx => (mem_inter.mp hx).1) r.1, r.2⟩
        | choiceR h1 =>
          have r := ihb _ _ _ _ hbo hi h1
          exact ⟨Inv.mono (fun x hx => (mem_inter.mp hx).2) r.1, r.2⟩
  | loop body ih =>
    intro own own' s s' ha hi he
    simp only [analyze] at ha
    have sp := loopInv_spec _ _ _ _ ha
    rcases sp with ⟨hsub, o1, hf, ho1⟩
    have hbody : ∀ s s1, Inv base own' s → Exec body s s1 → Inv base own' s1 ∧ Frame base s s1 := by
      intro s s1 hi1 he1
      have r := ih _ _ _ _ hf hi1 he1
      exact ⟨Inv.mono ho1 r.1, r.2⟩
    exact loop_sound base body own' hbody _ _ _ he rfl (Inv.mono hsub hi)
  | skip =>
    intro own own' s s' ha hi he
    cases he
    simp only [analyze, Option.some.injEq] at ha
    subst ha
    exact ⟨hi, Frame.refl _ _⟩

end Qv.C04
