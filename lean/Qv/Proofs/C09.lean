import Qv.Model.C09
/-! Helper lemmas for C09: the `_i2_k_t` split of a tensor index is a bijection onto
(kept index, traced index), and `_Indexer.single` re-encodes permuted digits. Core Lean only. -/
namespace Qv.C09

def Pos (dims : List Nat) : Prop := ∀ d ∈ dims, 0 < d

theorem size_pos {dims : List Nat} (h : Pos dims) : 0 < size dims := by
  induction dims with
  | nil => simp [size]
  | cons d ds ih =>
    simp only [size]
    exact Nat.mul_pos (h d (List.mem_cons_self)) (ih (fun x hx => h x (List.mem_cons_of_mem _ hx)))

theorem keepSize_pos (sel : List Nat) {dims : List Nat} (h : Pos dims) (p : Nat) : 0 < keepSize sel p dims := by
  induction dims generalizing p with
  | nil => simp [keepSize]
  | cons d ds ih =>
    simp only [keepSize]
    have hd := h d (List.mem_cons_self)
    have := ih (fun x hx => h x (List.mem_cons_of_mem _ hx)) (p + 1)
    split <;> exact Nat.mul_pos (by omega) this

theorem traceSize_pos (sel : List Nat) {dims : List Nat} (h : Pos dims) (p : Nat) : 0 < traceSize sel p dims := by
  induction dims generalizing p with
  | nil => simp [traceSize]
  | cons d ds ih =>
    simp only [traceSize]
    have hd := h d (List.mem_cons_self)
    have := ih (fun x hx => h x (List.mem_cons_of_mem _ hx)) (p + 1)
    split <;> exact Nat.mul_pos (by omega) this

/-- kept and traced dimensions multiply to the whole space -/
theorem keep_mul_trace (sel : List Nat) (dims : List Nat) (p : Nat) :
    keepSize sel p dims * traceSize sel p dims = size dims := by
  induction dims generalizing p with
  | nil => simp [keepSize, traceSize, size]
  | cons d ds ih =>
    simp only [keepSize, traceSize, size]
    have := ih (p + 1)
    split
    · rw [Nat.one_mul, Nat.mul_assoc, this]
    · rw [Nat.one_mul, Nat.mul_left_comm, this]

theorem table_spec (sel : List Nat) (dims : List Nat) (p : Nat) :
    (table sel p dims).2 = (size dims, keepSize sel p dims, traceSize sel p dims) := by
  induction dims generalizing p with
  | nil => simp [table, size, keepSize, traceSize]
  | cons d ds ih =>
    simp only [table, size, keepSize, traceSize]
    have := ih (p + 1)
    split <;> simp [this, Nat.mul_comm]

theorem table_rows (sel : List Nat) (d : Nat) (ds : List Nat) (p : Nat) :
    (table sel p (d :: ds)).1 =
      (size ds, (if sel.contains p then keepSize sel (p + 1) ds else 0),
        (if sel.contains p then 0 else traceSize sel (p + 1) ds)) :: (table sel (p + 1) ds).1 := by
  simp only [table]
  have := table_spec sel ds (p + 1)
  split <;> simp [this]

/-- the loop `_i2_k_t` computes the recursive specification `kt` -/
theorem i2kt_fold (sel : List Nat) (dims : List Nat) : ∀ (p n k0 t0 : Nat),
    ((table sel p dims).1.foldl (fun (acc : Nat × Nat × Nat) (row : Nat × Nat × Nat) =>
      (acc.1 % row.1, acc.2.1 + row.2.1 * (acc.1 / row.1), acc.2.2 + row.2.2 * (acc.1 / row.1))) (n, k0, t0)).2
      = (k0 + (kt sel p dims n).1, t0 + (kt sel p dims n).2) := by
  induction dims with
  | nil => intro p n k0 t0; simp [table, kt]
  | cons d ds ih =>
    intro p n k0 t0
    rw [table_rows]
    simp only [List.foldl_cons, kt]
    rw [ih]
    by_cases hs : sel.contains p = true
    · simp only [hs, if_true, Nat.zero_mul, Nat.add_zero]
      rw [Nat.mul_comm (keepSize sel (p + 1) ds)]
      simp [Nat.add_assoc]
    · simp only [hs, Bool.false_eq_true, if_false, Nat.zero_mul, Nat.add_zero]
      rw [Nat.mul_comm (traceSize sel (p + 1) ds)]
      simp [Nat.add_assoc]

theorem i2kt_eq_kt (sel dims : List Nat) (n : Nat) : i2kt (table sel 0 dims).1 n = kt sel 0 dims n := by
  have := i2kt_fold sel dims 0 n 0 0
  simp only [Nat.zero_add] at this
  show ((List.foldl _ (n, 0, 0) (table sel 0 dims).1).2.1, (List.foldl _ (n, 0, 0) (table sel 0 dims).1).2.2) = _
  exact Prod.ext (congrArg Prod.fst this) (congrArg Prod.snd this)

theorem div_lt_of_lt_mul' {n d s : Nat} (h : n < d * s) : n / s < d :=
  Nat.div_lt_of_lt_mul (by rw [Nat.mul_comm]; exact h)

/-- bounds: the kept part is below the kept size, the traced part below the traced size -/
theorem kt_bounds (sel : List Nat) {dims : List Nat} (hp : Pos dims) : ∀ (p n : Nat), n < size dims →
    (kt sel p dims n).1 < keepSize sel p dims ∧ (kt sel p dims n).2 < traceSize sel p dims := by
  induction dims with
  | nil => intro p n _; simp [kt, keepSize, traceSize]
  | cons d ds ih =>
    intro p n hn
    have hps : Pos ds := fun x hx => hp x (List.mem_cons_of_mem _ hx)
    have hs := size_pos hps
    simp only [size] at hn
    have hg : n / size ds < d := div_lt_of_lt_mul' hn
    obtain ⟨b1, b2⟩ := ih hps (p + 1) (n % size ds) (Nat.mod_lt _ hs)
    simp only [kt, keepSize, traceSize]
    split
    · refine ⟨?_, by rw [Nat.one_mul]; exact b2⟩
      calc n / size ds * keepSize sel (p + 1) ds + (kt sel (p + 1) ds (n % size ds)).1
          < n / size ds * keepSize sel (p + 1) ds + keepSize sel (p + 1) ds := by omega
        _ = (n / size ds + 1) * keepSize sel (p + 1) ds := by rw [Nat.succ_mul]
        _ ≤ d * keepSize sel (p + 1) ds := Nat.mul_le_mul_right _ hg
    · refine ⟨by rw [Nat.one_mul]; exact b1, ?_⟩
      calc n / size ds * traceSize sel (p + 1) ds + (kt sel (p + 1) ds (n % size ds)).2
          < n / size ds * traceSize sel (p + 1) ds + traceSize sel (p + 1) ds := by omega
        _ = (n / size ds + 1) * traceSize sel (p + 1) ds := by rw [Nat.succ_mul]
        _ ≤ d * traceSize sel (p + 1) ds := Nat.mul_le_mul_right _ hg

theorem mul_add_div' {g s r : Nat} (hr : r < s) : (g * s + r) / s = g := by
  have hs : 0 < s := by omega
  rw [Nat.mul_comm, Nat.mul_add_div hs, Nat.div_eq_of_lt hr, Nat.add_zero]

theorem mul_add_mod' {g s r : Nat} (hr : r < s) : (g * s + r) % s = r := by
  rw [Nat.mul_comm, Nat.mul_add_mod, Nat.mod_eq_of_lt hr]

/-- the split can be undone -/
theorem ktInv_kt (sel : List Nat) {dims : List Nat} (hp : Pos dims) : ∀ (p n : Nat), n < size dims →
    ktInv sel p dims (kt sel p dims n).1 (kt sel p dims n).2 = n := by
  induction dims with
  | nil => intro p n hn; simp [size] at hn; simp [ktInv, hn]
  | cons d ds ih =>
    intro p n hn
    have hps : Pos ds := fun x hx => hp x (List.mem_cons_of_mem _ hx)
    have hs := size_pos hps
    obtain ⟨b1, b2⟩ := kt_bounds sel hps (p + 1) (n % size ds) (Nat.mod_lt _ hs)
    have hrec := ih hps (p + 1) (n % size ds) (Nat.mod_lt _ hs)
    simp only [kt, ktInv]
    split
    · simp only
      rw [mul_add_div' b1, mul_add_mod' b1, hrec]
      exact Nat.div_add_mod' n (size ds)
    · simp only
      rw [mul_add_div' b2, mul_add_mod' b2, hrec]
      exact Nat.div_add_mod' n (size ds)

theorem ktInv_lt (sel : List Nat) {dims : List Nat} (hp : Pos dims) : ∀ (p k t : Nat),
    k < keepSize sel p dims → t < traceSize sel p dims → ktInv sel p dims k t < size dims := by
  induction dims with
  | nil => intro p k t _ _; simp [ktInv, size]
  | cons d ds ih =>
    intro p k t hk ht
    have hps : Pos ds := fun x hx => hp x (List.mem_cons_of_mem _ hx)
    have hK := keepSize_pos sel hps (p + 1)
    have hT := traceSize_pos sel hps (p + 1)
    simp only [keepSize, traceSize] at hk ht
    simp only [ktInv, size]
    split
    · rename_i hs
      simp only [hs, if_true, Nat.one_mul] at hk ht
      have hg : k / keepSize sel (p + 1) ds < d := div_lt_of_lt_mul' hk
      have := ih hps (p + 1) (k % keepSize sel (p + 1) ds) t (Nat.mod_lt _ hK) ht
      calc k / keepSize sel (p + 1) ds * size ds + ktInv sel (p + 1) ds (k % keepSize sel (p + 1) ds) t
          < k / keepSize sel (p + 1) ds * size ds + size ds := by omega
        _ = (k / keepSize sel (p + 1) ds + 1) * size ds := by rw [Nat.succ_mul]
        _ ≤ d * size ds := Nat.mul_le_mul_right _ hg
    · rename_i hs
      simp only [hs, Bool.false_eq_true, if_false, Nat.one_mul] at hk ht
      have hg : t / traceSize sel (p + 1) ds < d := div_lt_of_lt_mul' ht
      have := ih hps (p + 1) k (t % traceSize sel (p + 1) ds) hk (Nat.mod_lt _ hT)
      calc t / traceSize sel (p + 1) ds * size ds + ktInv sel (p + 1) ds k (t % traceSize sel (p + 1) ds)
          < t / traceSize sel (p + 1) ds * size ds + size ds := by omega
        _ = (t / traceSize sel (p + 1) ds + 1) * size ds := by rw [Nat.succ_mul]
        _ ≤ d * size ds := Nat.mul_le_mul_right _ hg

/-- ... and every (kept, traced) pair is hit -/
theorem kt_ktInv (sel : List Nat) {dims : List Nat} (hp : Pos dims) : ∀ (p k t : Nat),
    k < keepSize sel p dims → t < traceSize sel p dims →
    kt sel p dims (ktInv sel p dims k t) = (k, t) := by
  induction dims with
  | nil =>
    intro p k t hk ht
    simp [keepSize, traceSize] at hk ht
    simp [kt, hk, ht]
  | cons d ds ih =>
    intro p k t hk ht
    have hps : Pos ds := fun x hx => hp x (List.mem_cons_of_mem _ hx)
    have hK := keepSize_pos sel hps (p + 1)
    have hT := traceSize_pos sel hps (p + 1)
    simp only [keepSize, traceSize] at hk ht
    simp only [kt, ktInv]
    split
    · rename_i hs
      simp only [hs, if_true, Nat.one_mul] at hk ht
      have hlt := ktInv_lt sel hps (p + 1) (k % keepSize sel (p + 1) ds) t (Nat.mod_lt _ hK) ht
      rw [mul_add_div' hlt, mul_add_mod' hlt, ih hps (p + 1) _ _ (Nat.mod_lt _ hK) ht]
      simp only [Prod.mk.injEq, and_true]
      exact Nat.div_add_mod' k _
    · rename_i hs
      simp only [hs, Bool.false_eq_true, if_false, Nat.one_mul] at hk ht
      have hlt := ktInv_lt sel hps (p + 1) k (t % traceSize sel (p + 1) ds) hk (Nat.mod_lt _ hT)
      rw [mul_add_div' hlt, mul_add_mod' hlt, ih hps (p + 1) _ _ hk (Nat.mod_lt _ hT)]
      simp only [Prod.mk.injEq, true_and]
      exact Nat.div_add_mod' t _

/-! ### `_Indexer.single` re-encodes the permuted digits -/

/-- digits by repeated division, least significant (= last subsystem) first -/
def lsb : List Nat → Nat → List Nat
  | [], _ => []
  | d :: ds, n => n % d :: lsb ds (n / d)

def dot : List Nat → List Nat → Nat
  | a :: as, b :: bs => a * b + dot as bs
  | _, _ => 0

def suf : List Nat → List Nat
  | [] => []
  | _ :: ds => size ds :: suf ds

theorem dot_nil_left (b : List Nat) : dot [] b = 0 := by simp [dot]
theorem dot_nil_right (a : List Nat) : dot a [] = 0 := by cases a <;> simp [dot]

theorem dot_lsb_zero : ∀ (cs ds : List Nat), dot cs (lsb ds 0) = 0
  | [], _ => dot_nil_left _
  | _ :: _, [] => by simp [lsb, dot]
  | c :: cs, d :: ds => by simp [lsb, dot, dot_lsb_zero cs ds]

theorem go_eq : ∀ (l : List (Nat × Nat)) (idx out : Nat),
    single.go l idx out = out + dot (l.map (·.2)) (lsb (l.map (·.1)) idx)
  | [], idx, out => by simp [single.go, dot]
  | (d, c) :: rest, idx, out => by
    simp only [single.go, List.map_cons, lsb, dot]
    split
    · next h => rw [h, dot_lsb_zero]; omega
    · rw [go_eq rest]; omega

theorem single_eq_dot_lsb (dims cp : List Nat) (idx : Nat) (h : cp.length = dims.length) :
    single dims cp idx = dot cp.reverse (lsb dims.reverse idx) := by
  unfold single
  rw [go_eq, List.map_reverse, List.map_reverse, List.map_fst_zip (by omega), List.map_snd_zip (by omega)]
  omega

theorem size_snoc (ds : List Nat) (d : Nat) : size (ds ++ [d]) = size ds * d := by
  induction ds with
  | nil => simp [size]
  | cons a ds ih => simp only [List.cons_append, size, ih, Nat.mul_assoc]

theorem digits_snoc (d : Nat) (hd : 0 < d) : ∀ (ds : List Nat) (n : Nat), Pos ds → n < size (ds ++ [d]) →
    digits (ds ++ [d]) n = digits ds (n / d) ++ [n % d] := by
  intro ds
  induction ds with
  | nil =>
    intro n _ hn
    simp only [List.nil_append, size, Nat.mul_one] at hn
    simp [digits, size, Nat.mod_eq_of_lt hn]
  | cons a ds ih =>
    intro n hp hn
    have hps : Pos ds := fun x hx => hp x (List.mem_cons_of_mem _ hx)
    have hS : 0 < size ds := size_pos hps
    simp only [List.cons_append, digits, size_snoc]
    rw [ih (n % (size ds * d)) hps (by rw [size_snoc]; exact Nat.mod_lt _ (Nat.mul_pos hS hd))]
    rw [Nat.mod_mul_left_div_self, Nat.mod_mul_left_mod, Nat.div_div_eq_div_mul, Nat.mul_comm d (size ds)]

theorem pos_reverse {r : List Nat} (h : Pos r) : Pos r.reverse := fun x hx => h x (List.mem_reverse.mp hx)

theorem lsb_eq_digits_reverse : ∀ (r : List Nat) (n : Nat), Pos r → n < size r.reverse →
    lsb r n = (digits r.reverse n).reverse := by
  intro r
  induction r with
  | nil => intro n _ _; simp [lsb, digits]
  | cons d r ih =>
    intro n hp hn
    have hd : 0 < d := hp d List.mem_cons_self
    have hpr : Pos r := fun x hx => hp x (List.mem_cons_of_mem _ hx)
    rw [List.reverse_cons] at hn ⊢
    rw [digits_snoc d hd r.reverse n (pos_reverse hpr) hn, List.reverse_append, List.reverse_singleton, List.singleton_append]
    simp only [lsb]
    rw [size_snoc] at hn
    rw [ih (n / d) hpr (Nat.div_lt_of_lt_mul (by rw [Nat.mul_comm]; exact hn))]

theorem dot_snoc : ∀ (a b : List Nat) (x y : Nat), a.length = b.length → dot (a ++ [x]) (b ++ [y]) = dot a b + x * y
  | [], [], x, y, _ => by simp [dot]
  | [], _ :: _, _, _, h => by simp at h
  | _ :: _, [], _, _, h => by simp at h
  | a :: as, b :: bs, x, y, h => by
    simp only [List.cons_append, dot]
    rw [dot_snoc as bs x y (by simpa using h)]
    omega

theorem dot_reverse : ∀ (a b : List Nat), a.length = b.length → dot a.reverse b.reverse = dot a b
  | [], [], _ => rfl
  | [], _ :: _, h => by simp at h
  | _ :: _, [], h => by simp at h
  | a :: as, b :: bs, h => by
    have h' : as.length = bs.length := by simpa using h
    rw [List.reverse_cons, List.reverse_cons, dot_snoc _ _ _ _ (by simpa using h'), dot_reverse as bs h']
    simp only [dot]; omega

theorem digits_length : ∀ (dims : List Nat) (n : Nat), (digits dims n).length = dims.length
  | [], _ => rfl
  | _ :: ds, n => by simp [digits, digits_length ds]

/-- the loop of `_Indexer.single`, early exit included, is Σ_k cumprod[k] · digit_k -/
theorem single_eq_dot (dims cp : List Nat) (idx : Nat) (h : cp.length = dims.length) (hp : Pos dims)
    (hi : idx < size dims) : single dims cp idx = dot cp (digits dims idx) := by
  rw [single_eq_dot_lsb dims cp idx h, lsb_eq_digits_reverse dims.reverse idx (pos_reverse hp) (by simpa using hi)]
  rw [List.reverse_reverse, dot_reverse cp (digits dims idx) (by rw [digits_length]; exact h)]

theorem encode_eq_dot : ∀ (nd gs : List Nat), encode nd gs = dot gs (suf nd)
  | [], gs => by simp [encode, suf, dot_nil_right]
  | _ :: _, [] => by simp [encode, dot]
  | _ :: ds, g :: gs => by simp [encode, suf, dot, encode_eq_dot ds gs]

theorem suf_length : ∀ (nd : List Nat), (suf nd).length = nd.length
  | [] => rfl
  | _ :: ds => by simp [suf, suf_length ds]

theorem suf_getD : ∀ (nd : List Nat) (i : Nat), i < nd.length → (suf nd).getD i 0 = size (nd.drop (i + 1))
  | [], i, h => by simp at h
  | _ :: ds, 0, _ => by simp [suf]
  | _ :: ds, i + 1, h => by
    simp only [suf, List.getD_cons_succ, List.drop_succ_cons]
    exact suf_getD ds i (by simpa using h)

theorem dot_eq_sum : ∀ (a b : List Nat), a.length = b.length →
    dot a b = ((List.range a.length).map fun k => a.getD k 0 * b.getD k 0).sum
  | [], [], _ => rfl
  | [], _ :: _, h => by simp at h
  | _ :: _, [], h => by simp at h
  | a :: as, b :: bs, h => by
    have h' : as.length = bs.length := by simpa using h
    simp only [dot, List.length_cons, List.range_succ_eq_map, List.map_cons, List.sum_cons, List.map_map]
    rw [dot_eq_sum as bs h']
    simp [Function.comp_def]

theorem map_eq_range_map {α : Type} (l : List Nat) (f : Nat → α) :
    l.map f = (List.range l.length).map fun i => f (l.getD i 0) := by
  apply List.ext_getElem
  · simp
  · intro i h1 h2
    simp [List.getD_eq_getElem?_getD, List.getElem?_eq_getElem (by simpa using h1 : i < l.length)]

theorem cumprod_length (dims order : List Nat) : (cumprod dims order).length = dims.length := by
  simp [cumprod]

theorem cumprod_getD (dims order : List Nat) (k : Nat) (hk : k < dims.length) :
    (cumprod dims order).getD k 0 =
      match order.idxOf? k with
      | some i => size ((newDims dims order).drop (i + 1))
      | none => 0 := by
  simp only [cumprod]
  rw [List.getD_eq_getElem?_getD, List.getElem?_map, List.getElem?_range hk]
  rfl

/-- **`_Indexer.single` = re-encoding of the permuted digits**, for every list of positive dimensions,
every permutation of the subsystems and every index. -/
theorem single_eq_singleSpec (dims order : List Nat) (idx : Nat) (hp : Pos dims)
    (hperm : order.Perm (List.range dims.length)) (hi : idx < size dims) :
    single dims (cumprod dims order) idx = singleSpec dims order idx := by
  have hlen : order.length = dims.length := by simpa using hperm.length_eq
  have hnodup : order.Nodup := hperm.nodup_iff.mpr List.nodup_range
  rw [single_eq_dot dims _ idx (cumprod_length dims order) hp hi]
  unfold singleSpec
  simp only []
  rw [encode_eq_dot]
  have hnd : (newDims dims order).length = order.length := by simp [newDims]
  rw [dot_eq_sum _ _ (by rw [cumprod_length, digits_length]),
      dot_eq_sum _ _ (by rw [List.length_map, suf_length, hnd])]
  rw [cumprod_length, List.length_map]
  -- left: sum over k in range n of F k; move to a sum over `order`, then over positions of `order`
  have hF := (hperm.symm.map fun k => (cumprod dims order).getD k 0 * (digits dims idx).getD k 0).sum_nat
  rw [hF, map_eq_range_map order]
  congr 1
  apply List.map_congr_left
  intro i hi'
  have hil : i < order.length := List.mem_range.mp hi'
  have ho : order.getD i 0 = order[i] := by simp [List.getD_eq_getElem?_getD, List.getElem?_eq_getElem hil]
  have hmem : order[i] ∈ List.range dims.length := hperm.subset (List.getElem_mem hil)
  have hob : order[i] < dims.length := List.mem_range.mp hmem
  have hidx : order.idxOf? order[i] = some i := by
    rw [List.idxOf?_eq_some_iff]
    refine ⟨hil, rfl, ?_⟩
    intro j hj heq
    have := (List.getElem_inj hnodup).mp heq
    omega
  rw [ho, cumprod_getD dims order _ hob, hidx]
  simp only []
  rw [suf_getD _ i (by rw [hnd]; exact hil)]
  simp [List.getD_eq_getElem?_getD, List.getElem?_eq_getElem hil, Nat.mul_comm]

end Qv.C09
