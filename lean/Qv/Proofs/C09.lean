import Qv.Model.C09
/-! Helper lemmas for C09: the `_i2_k_t` split of a tensor index is a bijection onto
(kept index, traced index), and `_Indexer.single` re-encodes permuted digits. Core Lean only. -/
namespace Qv.C09

def Pos (dims : List Nat) : Prop := ∀ d ∈ dims, 0 < d

theorem size_pos {dims : List Nat} (h : Pos dims) : 0 < size dims := by
  induction dims with
  | nil => simp [size]
  | cons d ds ih =>
    simp only [size]
    exact Nat.mul_pos (h d (List.mem_cons_self)) (ih (fun x hx => h x (List.mem_cons_of_mem _ hx)))

theorem keepSize_pos (sel : List Nat) {dims : List Nat} (h : Pos dims) (p : Nat) : 0 < keepSize sel p dims := by
  induction dims generalizing p with
  | nil => simp [keepSize]
  | cons d ds ih =>
    simp only [keepSize]
    have hd := h d (List.mem_cons_self)
    have := ih (fun x hx => h x (List.mem_cons_of_mem _ hx)) (p + 1)
    split <;> exact Nat.mul_pos (by omega) this

theorem traceSize_pos (sel : List Nat) {dims : List Nat} (h : Pos dims) (p : Nat) : 0 < traceSize sel p dims := by
  induction dims generalizing p with
  | nil => simp [traceSize]
  | cons d ds ih =>
    simp only [traceSize]
    have hd := h d (List.mem_cons_self)
    have := ih (fun x hx => h x (List.mem_cons_of_mem _ hx)) (p + 1)
    split <;> exact Nat.mul_pos (by omega) this

/-- kept and traced dimensions multiply to the whole space -/
theorem keep_mul_trace (sel : List Nat) (dims : List Nat) (p : Nat) :
    keepSize sel p dims * traceSize sel p dims = size dims := by
  induction dims generalizing p with
  | nil => simp [keepSize, traceSize, size]
  | cons d ds ih =>
    simp only [keepSize, traceSize, size]
    have := ih (p + 1)
    split
    · rw [Nat.one_mul, Nat.mul_assoc, this]
    · rw [Nat.one_mul, Nat.mul_left_comm, this]

theorem table_spec (sel : List Nat) (dims : List Nat) (p : Nat) :
    (table sel p dims).2 = (size dims, keepSize sel p dims, traceSize sel p dims) := by
  induction dims generalizing p with
  | nil => simp [table, size, keepSize, traceSize]
  | cons d ds ih =>
    simp only [table, size, keepSize, traceSize]
    have := ih (p + 1)
    split <;> simp [this, Nat.mul_comm]

theorem table_rows (sel : List Nat) (d : Nat) (ds : List Nat) (p : Nat) :
    (table sel p (d :: ds)).1 =
      (size ds, (if sel.contains p then keepSize sel (p + 1) ds else 0),
        (if sel.contains p then 0 else traceSize sel (p + 1) ds)) :: (table sel (p + 1) ds).1 := by
  simp only [table]
  have := table_spec sel ds (p + 1)
  split <;> simp [this]

/-- the loop `_i2_k_t` computes the recursive specification `kt` -/
theorem i2kt_fold (sel : List Nat) (dims : List Nat) : ∀ (p n k0 t0 : Nat),
    ((table sel p dims).1.foldl (fun (acc : Nat × Nat × Nat) (row : Nat × Nat × Nat) =>
      (acc.1 % row.1, acc.2.1 + row.2.1 * (acc.1 / row.1), acc.2.2 + row.2.2 * (acc.1 / row.1))) (n, k0, t0)).2
      = (k0 + (kt sel p dims n).1, t0 + (kt sel p dims n).2) := by
  induction dims with
  | nil => intro p n k0 t0; simp [table, kt]
  | cons d ds ih =>
    intro p n k0 t0
    rw [table_rows]
    simp only [List.foldl_cons, kt]
    rw [ih]
    by_cases hs : sel.contains p = true
    · simp only [hs, if_true, Nat.zero_mul, Nat.add_zero]
      rw [Nat.mul_comm (keepSize sel (p + 1) ds)]
      simp [Nat.add_assoc]
    · simp only [hs, Bool.false_eq_true, if_false, Nat.zero_mul, Nat.add_zero]
      rw [Nat.mul_comm (traceSize sel (p + 1) ds)]
      simp [Nat.add_assoc]

theorem i2kt_eq_kt (sel dims : List Nat) (n : Nat) : i2kt (table sel 0 dims).1 n = kt sel 0 dims n := by
  have := i2kt_fold sel dims 0 n 0 0
  simp only [Nat.zero_add] at this
  show ((List.foldl _ (n, 0, 0) (table sel 0 dims).1).2.1, (List.foldl _ (n, 0, 0) (table sel 0 dims).1).2.2) = _
  exact Prod.ext (congrArg Prod.fst this) (congrArg Prod.snd this)

theorem div_lt_of_lt_mul' {n d s : Nat} (h : n < d * s) : n / s < d :=
  Nat.div_lt_of_lt_mul (by rw [Nat.mul_comm]; exact h)

/-- bounds: the kept part is below the kept size, the traced part below the traced size -/
theorem kt_bounds (sel : List Nat) {dims : List Nat} (hp : Pos dims) : ∀ (p n : Nat), n < size dims →
    (kt sel p dims n).1 < keepSize sel p dims ∧ (kt sel p dims n).2 < traceSize sel p dims := by
  induction dims with
  | nil => intro p n _; simp [kt, keepSize, traceSize]
  | cons d ds ih =>
    intro p n hn
    have hps : Pos ds := fun x hx => hp x (List.mem_cons_of_mem _ hx)
    have hs := size_pos hps
    simp only [size] at hn
    have hg : n / size ds < d := div_lt_of_lt_mul' hn
    obtain ⟨b1, b2⟩ := ih hps (p + 1) (n % size ds) (Nat.mod_lt _ hs)
    simp only [kt, keepSize, traceSize]
    split
    · refine ⟨?_, by rw [Nat.one_mul]; exact b2⟩
      calc n / size ds * keepSize sel (p + 1) ds + (kt sel (p + 1) ds (n % size ds)).1
          < n / size ds * keepSize sel (p + 1) ds + keepSize sel (p + 1) ds := by omega
        _ = (n / size ds + 1) * keepSize sel (p + 1) ds := by rw [Nat.succ_mul]
        _ ≤ d * keepSize sel (p + 1) ds := Nat.mul_le_mul_right _ hg
    · refine ⟨by rw [Nat.one_mul]; exact b1, ?_⟩
      calc n / size ds * traceSize sel (p + 1) ds + (kt sel (p + 1) ds (n % size ds)).2
          < n / size ds * traceSize sel (p + 1) ds + traceSize sel (p + 1) ds := by omega
        _ = (n / size ds + 1) * traceSize sel (p + 1) ds := by rw [Nat.succ_mul]
        _ ≤ d * traceSize sel (p + 1) ds := Nat.mul_le_mul_right _ hg

theorem mul_add_div' {g s r : Nat} (hr : r < s) : (g * s + r) / s = g := by
  have hs : 0 < s := by omega
  rw [Nat.mul_comm, Nat.mul_add_div hs, Nat.div_eq_of_lt hr, Nat.add_zero]

theorem mul_add_mod' {g s r : Nat} (hr : r < s) : (g * s + r) % s = r := by
  rw [Nat.mul_comm, Nat.mul_add_mod, Nat.mod_eq_of_lt hr]

/-- the split can be undone -/
theorem ktInv_kt (sel : List Nat) {dims : List Nat} (hp : Pos dims) : ∀ (p n : Nat), n < size dims →
    ktInv sel p dims (kt sel p dims n).1 (kt sel p dims n).2 = n := by
  induction dims with
  | nil => intro p n hn; simp [size] at hn; simp [ktInv, hn]
  | cons d ds ih =>
    intro p n hn
    have hps : Pos ds := fun x hx => hp x (List.mem_cons_of_mem _ hx)
    have hs := size_pos hps
    obtain ⟨b1, b2⟩ := kt_bounds sel hps (p + 1) (n % size ds) (Nat.mod_lt _ hs)
    have hrec := ih hps (p + 1) (n % size ds) (Nat.mod_lt _ hs)
    simp only [kt, ktInv]
    split
    · simp only
      rw [mul_add_div' b1, mul_add_mod' b1, hrec]
      exact Nat.div_add_mod' n (size ds)
    · simp only
      rw [mul_add_div' b2, mul_add_mod' b2, hrec]
      exact Nat.div_add_mod' n (size ds)

theorem ktInv_lt (sel : List Nat) {dims : List Nat} (hp : Pos dims) : ∀ (p k t : Nat),
    k < keepSize sel p dims → t < traceSize sel p dims → ktInv sel p dims k t < size dims := by
  induction dims with
  | nil => intro p k t _ _; simp [ktInv, size]
  | cons d ds ih =>
    intro p k t hk ht
    have hps : Pos ds := fun x hx => hp x (List.mem_cons_of_mem _ hx)
    have hK := keepSize_pos sel hps (p + 1)
    have hT := traceSize_pos sel hps (p + 1)
    simp only [keepSize, traceSize] at hk ht
    simp only [ktInv, size]
    split
    · rename_i hs
      simp only [hs, if_true, Nat.one_mul] at hk ht
      have hg : k / keepSize sel (p + 1) ds < d := div_lt_of_lt_mul' hk
      have := ih hps (p + 1) (k % keepSize sel (p + 1) ds) t (Nat.mod_lt _ hK) ht
      calc k / keepSize sel (p + 1) ds * size ds + ktInv sel (p + 1) ds (k % keepSize sel (p + 1) ds) t
          < k / keepSize sel (p + 1) ds * size ds + size ds := by omega
        _ = (k / keepSize sel (p + 1) ds + 1) * size ds := by rw [Nat.succ_mul]
        _ ≤ d * size ds := Nat.mul_le_mul_right _ hg
    · rename_i hs
      simp only [hs, Bool.false_eq_true, if_false, Nat.one_mul] at hk ht
      have hg : t / traceSize sel (p + 1) ds < d := div_lt_of_lt_mul' ht
      have := ih hps (p + 1) k (t % traceSize sel (p + 1) ds) hk (Nat.mod_lt _ hT)
      calc t / traceSize sel (p + 1) ds * size ds + ktInv sel (p + 1) ds k (t % traceSize sel (p + 1) ds)
          < t / traceSize sel (p + 1) ds * size ds + size ds := by omega
        _ = (t / traceSize sel (p + 1) ds + 1) * size ds := by rw [Nat.succ_mul]
        _ ≤ d * size ds := Nat.mul_le_mul_right _ hg

/-- ... and every (kept, traced) pair is hit -/
theorem kt_ktInv (sel : List Nat) {dims : List Nat} (hp : Pos dims) : ∀ (p k t : Nat),
    k < keepSize sel p dims → t < traceSize sel p dims →
    kt sel p dims (ktInv sel p dims k t) = (k, t) := by
  induction dims with
  | nil =>
    intro p k t hk ht
    simp [keepSize, traceSize] at hk ht
    simp [kt, hk, ht]
  | cons d ds ih =>
    intro p k t hk ht
    have hps : Pos ds := fun x hx => hp x (List.mem_cons_of_mem _ hx)
    have hK := keepSize_pos sel hps (p + 1)
    have hT := traceSize_pos sel hps (p + 1)
    simp only [keepSize, traceSize] at hk ht
    simp only [kt, ktInv]
    split
    · rename_i hs
      simp only [hs, if_true, Nat.one_mul] at hk ht
      have hlt := ktInv_lt sel hps (p + 1) (k % keepSize sel (p + 1) ds) t (Nat.mod_lt _ hK) ht
      rw [mul_add_div' hlt, mul_add_mod' hlt, ih hps (p + 1) _ _ (Nat.mod_lt _ hK) ht]
      simp only [Prod.mk.injEq, and_true]
      exact Nat.div_add_mod' k _
    · rename_i hs
      simp only [hs, Bool.false_eq_true, if_false, Nat.one_mul] at hk ht
      have hlt := ktInv_lt sel hps (p + 1) k (t % traceSize sel (p + 1) ds) hk (Nat.mod_lt _ hT)
      rw [mul_add_div' hlt, mul_add_mod' hlt, ih hps (p + 1) _ _ hk (Nat.mod_lt _ hT)]
      simp only [Prod.mk.injEq, true_and]
      exact Nat.div_add_mod' t _

end Qv.C09
