import Qv.Model.C05
import Mathlib.LinearAlgebra.Matrix.ConjTranspose
import Mathlib.Algebra.Star.Module
import Mathlib.Algebra.BigOperators.Group.List.Basic
import Mathlib.Tactic.Ring
/-! Helper lemmas for C05: pointwise semantics of the element algebra over Mathlib matrices. -/
set_option linter.unusedSectionVars false
namespace Qv.C05

open Matrix

variable {n : Type} [Fintype n] [DecidableEq n] {R : Type} [CommRing R] [StarRing R]

/-- the operations of the model interpreted in Mathlib: square matrices over a commutative star ring -/
def matrixAlg (n R : Type) [Fintype n] [DecidableEq n] [CommRing R] [StarRing R] : Alg R (Matrix n n R) :=
  { add := (· + ·), mul := (· * ·), smul := (· • ·), zero := 0,
    dag := conjTranspose, trans := transpose, conjM := fun X => X.map star,
    rmul := (· * ·), rone := 1, star := star }

local notation "𝔸" => matrixAlg n R

/-- conjugate a scalar iff `b` -/
def cj (b : Bool) (w : R) : R := if b then star w else w

theorem cj_cj (b : Bool) (w : R) : cj b (cj b w) = w := by
  unfold cj; split <;> simp

theorem cj_mul (b : Bool) (v w : R) : cj b (v * w) = cj b v * cj b w := by
  unfold cj; split <;> simp [mul_comm]

theorem cj_xor (a b : Bool) (w : R) : cj (a != b) w = cj b (cj a w) := by
  cases a <;> cases b <;> simp [cj]

theorem ap_smul (g : Tr) (w : R) (X : Matrix n n R) :
    g.ap 𝔸 (w • X) = cj g.anti w • g.ap 𝔸 X := by
  cases g
  · simp [Tr.ap, matrixAlg, Tr.anti, cj, conjTranspose_smul]
  · simp [Tr.ap, matrixAlg, Tr.anti, cj, transpose_smul]
  · ext i j; simp [Tr.ap, matrixAlg, Tr.anti, cj]

theorem ap_add (g : Tr) (X Y : Matrix n n R) : g.ap 𝔸 (X + Y) = g.ap 𝔸 X + g.ap 𝔸 Y := by
  cases g
  · simp [Tr.ap, matrixAlg, conjTranspose_add]
  · simp [Tr.ap, matrixAlg, transpose_add]
  · ext i j; simp [Tr.ap, matrixAlg]

theorem ap_zero (g : Tr) : g.ap 𝔸 (0 : Matrix n n R) = 0 := by
  cases g
  · simp [Tr.ap, matrixAlg]
  · simp [Tr.ap, matrixAlg]
  · ext i j; simp [Tr.ap, matrixAlg]

/-- parity of the anti-linear maps in a transform stack -/
def parity (tr : List Tr) : Bool := tr.foldl (fun b g => b != g.anti) false

def apAll (tr : List Tr) (X : Matrix n n R) : Matrix n n R := tr.foldl (fun x g => g.ap 𝔸 x) X

theorem foldl_parity (tr : List Tr) (b : Bool) :
    tr.foldl (fun b g => b != g.anti) b = (b != parity tr) := by
  induction tr generalizing b with
  | nil => simp [parity]
  | cons g tr ih =>
    simp only [List.foldl_cons, parity]
    rw [ih, ih (false != g.anti)]
    cases b <;> cases g.anti <;> cases parity tr <;> rfl

theorem parity_append (tr : List Tr) (g : Tr) : parity (tr ++ [g]) = (parity tr != g.anti) := by
  simp [parity, List.foldl_append]

theorem apAll_append (tr : List Tr) (g : Tr) (X : Matrix n n R) :
    apAll (tr ++ [g]) X = g.ap 𝔸 (apAll tr X) := by
  simp [apAll, List.foldl_append]

theorem apAll_smul (tr : List Tr) (w : R) (X : Matrix n n R) :
    apAll tr (w • X) = cj (parity tr) w • apAll tr X := by
  induction tr using List.reverseRecOn with
  | nil => simp [apAll, parity, cj]
  | append_singleton tr g ih =>
    rw [apAll_append, apAll_append, ih, ap_smul, parity_append, cj_xor]

theorem apAll_add (tr : List Tr) (X Y : Matrix n n R) : apAll tr (X + Y) = apAll tr X + apAll tr Y := by
  induction tr using List.reverseRecOn with
  | nil => simp [apAll]
  | append_singleton tr g ih => rw [apAll_append, apAll_append, apAll_append, ih, ap_add]

/-- well-formed elements: the conjugation flag of a product is the parity of its transform stack
(`matmul` creates `([], false)`, `linear_map` appends and flips) -/
def WF : Elem R (Matrix n n R) → Prop
  | .prod l r tr c => c = parity tr ∧ WF l ∧ WF r
  | _ => True

abbrev val (t : Int) (e : Elem R (Matrix n n R)) : Matrix n n R := e.value 𝔸 t

theorem val_prod (t : Int) (l r : Elem R (Matrix n n R)) (tr : List Tr) (c : Bool) (hc : c = parity tr) :
    val t (.prod l r tr c) = apAll tr (val t l * val t r) := by
  subst hc
  simp only [val, Elem.value, Elem.coeff, Elem.qobj]
  show (if parity tr then star (l.coeff 𝔸 t * r.coeff 𝔸 t) else l.coeff 𝔸 t * r.coeff 𝔸 t) •
      apAll tr (l.qobj 𝔸 t * r.qobj 𝔸 t) = apAll tr ((l.coeff 𝔸 t • l.qobj 𝔸 t) * (r.coeff 𝔸 t • r.qobj 𝔸 t))
  rw [smul_mul_smul_comm, apAll_smul]
  rfl

theorem val_mulScalar (t : Int) (z : R) : ∀ (e : Elem R (Matrix n n R)), WF e →
    val t (e.mulScalar 𝔸 z) = z • val t e ∧ WF (e.mulScalar 𝔸 z) := by
  intro e
  induction e generalizing z with
  | const q => intro _; exact ⟨by simp [val, Elem.value, Elem.mulScalar, Elem.coeff, Elem.qobj, matrixAlg], trivial⟩
  | evo q c =>
    intro _
    refine ⟨?_, trivial⟩
    simp only [val, Elem.value, Elem.mulScalar, Elem.coeff, Elem.qobj, matrixAlg]
    rw [smul_comm]
  | func f =>
    intro _
    exact ⟨by simp [val, Elem.value, Elem.mulScalar, Elem.coeff, Elem.qobj, matrixAlg], trivial⟩
  | map f tr c =>
    intro _
    refine ⟨?_, trivial⟩
    simp only [val, Elem.value, Elem.mulScalar, Elem.coeff, Elem.qobj, matrixAlg]
    rw [mul_comm, mul_smul]
  | prod l r tr c ihl ihr =>
    intro h
    obtain ⟨hc, hl, hr⟩ := h
    obtain ⟨e1, w1⟩ := ihr (if c then star z else z) hr
    refine ⟨?_, hc, hl, w1⟩
    show val t (.prod l (r.mulScalar 𝔸 (if c then star z else z)) tr c) = _
    rw [val_prod _ _ _ _ _ hc, val_prod _ _ _ _ _ hc]
    have e1' : val t (r.mulScalar 𝔸 (if c then star z else z)) = (if c then star z else z) • val t r := e1
    rw [e1', mul_smul_comm, apAll_smul, ← hc]
    have : cj c (if c then star z else z) = z := cj_cj c z
    rw [this]

theorem val_matmul (t : Int) (l r : Elem R (Matrix n n R)) (hl : WF l) (hr : WF r) :
    val t (Elem.matmul 𝔸 l r) = val t l * val t r ∧ WF (Elem.matmul 𝔸 l r) := by
  have general : val t (.prod l r [] false) = val t l * val t r ∧ WF (.prod l r [] false : Elem R (Matrix n n R)) :=
    ⟨by rw [val_prod _ _ _ _ _ (by simp [parity])]; simp [apAll], by simp [WF, parity, hl, hr]⟩
  cases l <;> cases r <;> first
    | exact general
    | (refine ⟨?_, trivial⟩
       simp only [val, Elem.value, Elem.matmul, Elem.coeff, Elem.qobj, matrixAlg]
       first
       | (simp; done)
       | (simp; rw [mul_comm, mul_smul]))

theorem val_linearMap (t : Int) (g : Tr) : ∀ (e : Elem R (Matrix n n R)), WF e →
    val t (e.linearMap 𝔸 g) = g.ap 𝔸 (val t e) ∧ WF (e.linearMap 𝔸 g) := by
  intro e h
  cases e with
  | const q =>
    refine ⟨?_, trivial⟩
    simp only [val, Elem.value, Elem.linearMap, Elem.coeff, Elem.qobj]
    rw [show (𝔸).smul (𝔸).rone q = (1 : R) • q from rfl, one_smul]
    show (1 : R) • g.ap 𝔸 q = _
    rw [one_smul]
  | evo q c =>
    refine ⟨?_, trivial⟩
    simp only [val, Elem.value, Elem.linearMap, Elem.coeff, Elem.qobj]
    show (if g.anti then fun t => star (c t) else c) t • g.ap 𝔸 q = g.ap 𝔸 (c t • q)
    rw [ap_smul]
    cases g.anti <;> simp [cj]
  | func f =>
    refine ⟨?_, trivial⟩
    simp only [val, Elem.value, Elem.linearMap, Elem.coeff, Elem.qobj, List.foldl_cons, List.foldl_nil]
    show (1 : R) • g.ap 𝔸 (f t) = g.ap 𝔸 ((1 : R) • f t)
    rw [one_smul, one_smul]
  | map f tr c =>
    refine ⟨?_, trivial⟩
    simp only [val, Elem.value, Elem.linearMap, Elem.coeff, Elem.qobj]
    show (if g.anti then star c else c) • apAll (tr ++ [g]) (f t) = g.ap 𝔸 (c • apAll tr (f t))
    rw [apAll_append, ap_smul]
    rfl
  | prod l r tr c =>
    obtain ⟨hc, hl, hr⟩ := h
    have hc' : (c != g.anti) = parity (tr ++ [g]) := by rw [parity_append, hc]
    refine ⟨?_, hc', hl, hr⟩
    show val t (.prod l r (tr ++ [g]) (c != g.anti)) = _
    rw [val_prod _ _ _ _ _ hc', val_prod _ _ _ _ _ hc, apAll_append]

end Qv.C05
