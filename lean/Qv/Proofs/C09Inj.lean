import Qv.Proofs.C09
/-! `_Indexer.single` is injective on the indices in range (so the permutation kernel moves every
entry to its own place).  Core Lean only. -/
namespace Qv.C09

/-- digits in range: every digit list compared position by position with the dimensions -/
def InRange : List Nat → List Nat → Prop
  | [], [] => True
  | d :: ds, g :: gs => g < d ∧ InRange ds gs
  | _, _ => False

theorem digits_inRange : ∀ (dims : List Nat) (n : Nat), Pos dims → n < size dims → InRange dims (digits dims n)
  | [], _, _, _ => by simp [digits, InRange]
  | d :: ds, n, hp, hn => by
    have hps : Pos ds := fun x hx => hp x (List.mem_cons_of_mem _ hx)
    have hs := size_pos hps
    simp only [digits, InRange]
    refine ⟨div_lt_of_lt_mul' (by simpa [size] using hn), digits_inRange ds _ hps (Nat.mod_lt _ hs)⟩

theorem encode_digits : ∀ (dims : List Nat) (n : Nat), Pos dims → n < size dims → encode dims (digits dims n) = n
  | [], n, _, hn => by simp [size] at hn; simp [encode, hn]
  | d :: ds, n, hp, hn => by
    have hps : Pos ds := fun x hx => hp x (List.mem_cons_of_mem _ hx)
    have hs := size_pos hps
    simp only [digits, encode, encode_digits ds _ hps (Nat.mod_lt _ hs)]
    exact Nat.div_add_mod' n (size ds)

theorem encode_lt : ∀ (nd gs : List Nat), InRange nd gs → encode nd gs < size nd
  | [], [], _ => by simp [encode, size]
  | [], _ :: _, h => by simp [InRange] at h
  | _ :: _, [], h => by simp [InRange] at h
  | d :: ds, g :: gs, h => by
    have ih := encode_lt ds gs h.2
    simp only [encode, size]
    calc g * size ds + encode ds gs < g * size ds + size ds := by omega
      _ = (g + 1) * size ds := by rw [Nat.add_mul, Nat.one_mul]
      _ ≤ d * size ds := Nat.mul_le_mul_right _ h.1

theorem encode_inj : ∀ (nd gs gs' : List Nat), InRange nd gs → InRange nd gs' →
    encode nd gs = encode nd gs' → gs = gs'
  | [], [], [], _, _, _ => rfl
  | [], _ :: _, _, h, _, _ => by simp [InRange] at h
  | [], [], _ :: _, _, h, _ => by simp [InRange] at h
  | _ :: _, [], _, h, _, _ => by simp [InRange] at h
  | _ :: _, _ :: _, [], _, h, _ => by simp [InRange] at h
  | d :: ds, g :: gs, g' :: gs', h, h', he => by
    have l1 := encode_lt ds gs h.2
    have l2 := encode_lt ds gs' h'.2
    simp only [encode] at he
    have e1 : g = g' := by
      have a := mul_add_div' (g := g) l1
      have b := mul_add_div' (g := g') l2
      rw [he] at a; omega
    have e2 : encode ds gs = encode ds gs' := by
      have a := mul_add_mod' (g := g) l1
      have b := mul_add_mod' (g := g') l2
      rw [he] at a; omega
    rw [e1, encode_inj ds gs gs' h.2 h'.2 e2]

theorem inRange_getD : ∀ (dims gs : List Nat), InRange dims gs → ∀ o, o < dims.length → gs.getD o 0 < dims.getD o 1
  | [], [], _, o, ho => by simp at ho
  | [], _ :: _, h, _, _ => by simp [InRange] at h
  | _ :: _, [], h, _, _ => by simp [InRange] at h
  | d :: ds, g :: gs, h, o, ho => by
    cases o with
    | zero => simpa using h.1
    | succ o => simpa using inRange_getD ds gs h.2 o (by simpa using ho)

theorem inRange_map : ∀ (order : List Nat) (f g : Nat → Nat), (∀ o ∈ order, g o < f o) →
    InRange (order.map f) (order.map g)
  | [], _, _, _ => by simp [InRange]
  | o :: os, f, g, h => by
    simp only [List.map, InRange]
    exact ⟨h o (by simp), inRange_map os f g (fun x hx => h x (by simp [hx]))⟩

theorem inRange_length : ∀ (dims gs : List Nat), InRange dims gs → gs.length = dims.length
  | [], [], _ => rfl
  | [], _ :: _, h => by simp [InRange] at h
  | _ :: _, [], h => by simp [InRange] at h
  | _ :: ds, _ :: gs, h => by simp [inRange_length ds gs h.2]

theorem singleSpec_injective (dims order : List Nat) (hp : Pos dims)
    (hperm : order.Perm (List.range dims.length)) (i j : Nat) (hi : i < size dims) (hj : j < size dims)
    (h : singleSpec dims order i = singleSpec dims order j) : i = j := by
  have ri := digits_inRange dims i hp hi
  have rj := digits_inRange dims j hp hj
  have hmem : ∀ o ∈ order, o < dims.length := fun o ho => by
    simpa using (hperm.mem_iff.mp ho)
  have mi := inRange_map order (fun o => dims.getD o 1) (fun o => (digits dims i).getD o 0)
    (fun o ho => inRange_getD dims _ ri o (hmem o ho))
  have mj := inRange_map order (fun o => dims.getD o 1) (fun o => (digits dims j).getD o 0)
    (fun o ho => inRange_getD dims _ rj o (hmem o ho))
  have hm := encode_inj _ _ _ mi mj (by simpa [singleSpec, newDims] using h)
  have hd : digits dims i = digits dims j := by
    apply List.ext_getElem
    · rw [digits_length, digits_length]
    · intro o h1 h2
      have ho : o < dims.length := by simpa [digits_length] using h1
      have hoo : o ∈ order := hperm.mem_iff.mpr (by simpa using ho)
      have := List.map_inj_left.mp hm o hoo
      simpa [List.getD_eq_getElem?_getD, List.getElem?_eq_getElem h1, List.getElem?_eq_getElem h2] using this
  rw [← encode_digits dims i hp hi, ← encode_digits dims j hp hj, hd]

theorem singleSpec_lt (dims order : List Nat) (idx : Nat) (hp : Pos dims)
    (hperm : order.Perm (List.range dims.length)) (hi : idx < size dims) :
    singleSpec dims order idx < size (newDims dims order) := by
  have ri := digits_inRange dims idx hp hi
  have hmem : ∀ o ∈ order, o < dims.length := fun o ho => by
    simpa using (hperm.mem_iff.mp ho)
  exact encode_lt _ _ (inRange_map order (fun o => dims.getD o 1) (fun o => (digits dims idx).getD o 0)
    (fun o ho => inRange_getD dims _ ri o (hmem o ho)))

end Qv.C09
