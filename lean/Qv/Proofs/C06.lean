import Qv.Model.C06
import Mathlib.Algebra.Order.Field.Basic
import Mathlib.Algebra.Algebra.Basic
import Mathlib.Tactic.Ring
import Mathlib.Tactic.FieldSimp
import Mathlib.Tactic.Linarith
/-! Helper lemmas for C06 (interval location). -/
namespace Qv.C06

variable {R : Type} [LinearOrder R]

/-- `i` is the interval of the grid that contains `x` -/
def IsIdx (g : Nat → R) (n : Nat) (x : R) (i : Nat) : Prop := i + 1 < n ∧ g i ≤ x ∧ x < g (i + 1)

/-- strictly increasing on the first `n` indices -/
def Increasing (g : Nat → R) (n : Nat) : Prop := ∀ i j, i < j → j < n → g i < g j

theorem isIdx_unique {g : Nat → R} {n : Nat} {x : R} (hg : Increasing g n) {i j : Nat}
    (hi : IsIdx g n x i) (hj : IsIdx g n x j) : i = j := by
  rcases hi with ⟨hi1, hi2, hi3⟩
  rcases hj with ⟨hj1, hj2, hj3⟩
  rcases Nat.lt_trichotomy i j with h | h | h
  · exfalso
    have : g (i + 1) ≤ g j := by
      rcases Nat.eq_or_lt_of_le (Nat.succ_le_of_lt h) with e | e
      · exact le_of_eq (by rw [← e])
      · exact le_of_lt (hg _ _ e (by omega))
    exact absurd (lt_of_lt_of_le hi3 (le_trans this hj2)) (lt_irrefl _)
  · exact h
  · exfalso
    have : g (j + 1) ≤ g i := by
      rcases Nat.eq_or_lt_of_le (Nat.succ_le_of_lt h) with e | e
      · exact le_of_eq (by rw [← e])
      · exact le_of_lt (hg _ _ e (by omega))
    exact absurd (lt_of_lt_of_le hj3 (le_trans this hi2)) (lt_irrefl _)

theorem bsLoop_spec (g : Nat → R) (n : Nat) (x : R) (hlast : x < g (n - 1)) :
    ∀ (f low high : Nat), low < high → high ≤ n → high - low ≤ 2 ^ f → g low ≤ x →
      (high = n ∨ x < g high) → IsIdx g n x (bsLoop g x f low high) := by
  intro f
  induction f with
  | zero =>
    intro low high hlh hn hd hlow hhigh
    simp only [bsLoop]
    have e : high = low + 1 := by simp at hd; omega
    subst e
    rcases hhigh with h | h
    · exfalso
      have : n - 1 = low := by omega
      rw [this] at hlast
      exact absurd (lt_of_le_of_lt hlow hlast) (lt_irrefl _)
    · refine ⟨?_, hlow, h⟩
      by_contra hc
      have : n - 1 = low := by omega
      rw [this] at hlast
      exact absurd (lt_of_le_of_lt hlow hlast) (lt_irrefl _)
  | succ f ih =>
    intro low high hlh hn hd hlow hhigh
    simp only [bsLoop]
    have hp : 2 ^ (f + 1) = 2 * 2 ^ f := by rw [Nat.pow_succ]; omega
    split
    · rename_i e
      have e' : high = low + 1 := e.symm
      subst e'
      rcases hhigh with h | h
      · exfalso
        have : n - 1 = low := by omega
        rw [this] at hlast
        exact absurd (lt_of_le_of_lt hlow hlast) (lt_irrefl _)
      · refine ⟨?_, hlow, h⟩
        by_contra hc
        have : n - 1 = low := by omega
        rw [this] at hlast
        exact absurd (lt_of_le_of_lt hlow hlast) (lt_irrefl _)
    · rename_i hne
      have hm1 : low < (low + high) / 2 := by omega
      have hm2 : (low + high) / 2 < high := by omega
      split
      · rename_i hx
        exact ih low _ hm1 (by omega) (by omega) hlow (Or.inr hx)
      · rename_i hx
        exact ih _ high hm2 hn (by omega) (le_of_not_gt hx) hhigh

theorem binarySearch_spec (g : Nat → R) (n : Nat) (x : R) (hn : n ≤ 2 ^ 64) (h0 : g 0 ≤ x)
    (hlast : x < g (n - 1)) (hn1 : 0 < n) : IsIdx g n x (binarySearch g n x) :=
  bsLoop_spec g n x hlast 64 0 n hn1 (le_refl _) (by simpa using hn) h0 (Or.inl rfl)

theorem walkDown_spec (g : Nat → R) (x : R) (h0 : g 0 ≤ x) :
    ∀ (f i : Nat), i ≤ f → (walkDown g x f i ≤ i ∧ g (walkDown g x f i) ≤ x) := by
  intro f
  induction f with
  | zero =>
    intro i hi
    have : i = 0 := by omega
    subst this
    simp [walkDown, h0]
  | succ f ih =>
    intro i hi
    simp only [walkDown]
    split
    · rename_i hx
      have hi0 : i ≠ 0 := by
        intro e; subst e
        exact absurd (lt_of_lt_of_le hx h0) (lt_irrefl _)
      have := ih (i - 1) (by omega)
      exact ⟨by omega, this.2⟩
    · rename_i hx
      exact ⟨le_refl _, le_of_not_gt hx⟩

theorem walkUp_spec (g : Nat → R) (n : Nat) (x : R) (hlast : x < g (n - 1)) :
    ∀ (f i : Nat), i + 1 < n → n ≤ i + 1 + f → g i ≤ x → IsIdx g n x (walkUp g x f i) := by
  intro f
  induction f with
  | zero =>
    intro i hi hf _
    omega
  | succ f ih =>
    intro i hi hf hgi
    simp only [walkUp]
    split
    · rename_i hx
      have hi2 : i + 1 + 1 < n := by
        by_contra hc
        have : n - 1 = i + 1 := by omega
        rw [this] at hlast
        exact absurd (lt_of_le_of_lt hx hlast) (lt_irrefl _)
      exact ih (i + 1) hi2 (by omega) hx
    · rename_i hx
      exact ⟨hi, hgi, lt_of_not_ge hx⟩

theorem locate_spec (g : Nat → R) (n guess : Nat) (x : R) (hn : 2 ≤ n) (h0 : g 0 ≤ x)
    (hlast : x < g (n - 1)) : IsIdx g n x (locate g n guess x) := by
  unfold locate
  simp only
  have hi0 : (if guess + 2 > n then n - 2 else guess) + 2 ≤ n := by split <;> omega
  generalize (if guess + 2 > n then n - 2 else guess) = i0 at hi0
  have hd := walkDown_spec g x h0 n i0 (by omega)
  exact walkUp_spec g n x hlast n _ (by omega) (by omega) hd.2

end Qv.C06
