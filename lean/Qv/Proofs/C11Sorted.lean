import Qv.Proofs.C11
/-! The memoised times of `Propagator` stay strictly increasing, which is what `np.searchsorted`
in `_lookup_or_compute` relies on. -/
namespace Qv.C11

variable {F : Type}

abbrev Inc (l : List Int) : Prop := l.Pairwise (· < ·)

theorem ss_cons (a : Int) (as : List Int) (t : Int) :
    searchsorted (a :: as) t = (if a < t then 1 else 0) + searchsorted as t := by
  unfold searchsorted
  by_cases h : a < t <;> simp [h]; omega

theorem ss_zero_of_lt : ∀ (l : List Int) (t : Int), (∀ x ∈ l, t < x) → searchsorted l t = 0
  | [], _, _ => rfl
  | a :: as, t, h => by
    rw [ss_cons, ss_zero_of_lt as t (fun x hx => h x (by simp [hx]))]
    have := h a (by simp)
    simp; omega

/-- a memoised time is found by the search (so the compute branch is only taken for new times) -/
theorem ss_finds : ∀ (l : List Int) (t : Int), Inc l → t ∈ l →
    searchsorted l t < l.length ∧ l.getD (searchsorted l t) 0 = t
  | [], _, _, h => by simp at h
  | a :: as, t, hs, hm => by
    have hs := List.pairwise_cons.mp hs
    by_cases hat : a < t
    · have hm' : t ∈ as := by
        rcases List.mem_cons.mp hm with rfl | h
        · omega
        · exact h
      have ih := ss_finds as t hs.2 hm'
      rw [ss_cons]; simp only [hat, if_true]
      rw [Nat.add_comm]
      exact ⟨by simpa using ih.1, by simpa using ih.2⟩
    · have hta : t = a := by
        rcases List.mem_cons.mp hm with rfl | h
        · rfl
        · have := hs.1 t h; omega
      subst hta
      rw [ss_cons, ss_zero_of_lt as t hs.1]
      simp

theorem ss_eraseIdx : ∀ (l : List Int) (r : Nat) (t : Int), r < l.length →
    searchsorted (l.eraseIdx r) t = (if l.getD r 0 < t then searchsorted l t - 1 else searchsorted l t)
  | [], _, _, h => by simp at h
  | a :: as, 0, t, _ => by
    rw [ss_cons]; simp only [List.eraseIdx_cons_zero, List.getD_cons_zero]
    split <;> omega
  | a :: as, r + 1, t, h => by
    have ih := ss_eraseIdx as r t (by simpa using h)
    have hg : (a :: as).getD (r + 1) 0 = as.getD r 0 := rfl
    have he : (a :: as).eraseIdx (r + 1) = a :: as.eraseIdx r := rfl
    rw [hg, he, ss_cons, ss_cons, ih]
    by_cases hr : as.getD r 0 < t
    · have hpos : 0 < searchsorted as t := by
        unfold searchsorted
        apply List.length_pos_of_mem (a := as.getD r 0)
        have hr' : r < as.length := by simpa using h
        have hx : as.getD r 0 = as[r] := by simp [List.getD_eq_getElem?_getD, List.getElem?_eq_getElem hr']
        rw [hx] at hr ⊢
        exact List.mem_filter.mpr ⟨List.getElem_mem hr', by simpa using hr⟩
      rw [if_pos hr, if_pos hr]; omega
    · rw [if_neg hr, if_neg hr]

theorem mem_insertAt {α : Type} (l : List α) (i : Nat) (a x : α) : x ∈ insertAt l i a ↔ x = a ∨ x ∈ l := by
  unfold insertAt
  conv => rhs; rw [← List.take_append_drop i l]
  simp only [List.mem_append, List.mem_cons]
  constructor <;> intro h <;> rcases h with h | h | h <;> simp [h]

theorem insertAt_cons_succ {α : Type} (b : α) (l : List α) (i : Nat) (a : α) :
    insertAt (b :: l) (i + 1) a = b :: insertAt l i a := by simp [insertAt]

theorem inc_insertAt : ∀ (l : List Int) (t : Int), Inc l → t ∉ l → Inc (insertAt l (searchsorted l t) t)
  | [], t, _, _ => by simp [insertAt, searchsorted]
  | a :: as, t, hs, hn => by
    have hs' := List.pairwise_cons.mp hs
    have hne : t ≠ a := fun h => hn (by simp [h])
    have hn' : t ∉ as := fun h => hn (by simp [h])
    by_cases hat : a < t
    · rw [ss_cons]; simp only [hat, if_true]
      rw [Nat.add_comm, insertAt_cons_succ]
      refine List.pairwise_cons.mpr ⟨?_, inc_insertAt as t hs'.2 hn'⟩
      intro x hx
      rcases (mem_insertAt _ _ _ _).mp hx with rfl | hx
      · exact hat
      · exact hs'.1 x hx
    · have hta : t < a := by omega
      have hall : ∀ x ∈ as, t < x := fun x hx => by have := hs'.1 x hx; omega
      rw [ss_cons, ss_zero_of_lt as t hall]
      simp only [hat, if_false, insertAt]
      refine List.pairwise_cons.mpr ⟨?_, hs⟩
      intro x hx
      rcases List.mem_cons.mp hx with rfl | hx
      · exact hta
      · exact hall x hx

theorem evict_sorted (memoize : Nat) (hm : 1 ≤ memoize) (t : Int) : ∀ (fuel : Nat) (times : List Int) (props : List F),
    Inc times → t ∉ times →
    let r := evict memoize t fuel times props (searchsorted times t)
    Inc r.1 ∧ t ∉ r.1 ∧ r.2.2 = searchsorted r.1 t
  | 0, times, props, hs, hn => by simp [evict, hs, hn]
  | fuel + 1, times, props, hs, hn => by
    simp only [evict]
    split
    · rename_i hle
      have hr : memoize / 2 < times.length := by
        have : memoize / 2 < memoize := Nat.div_lt_self (by omega) (by omega)
        omega
      have hsub := List.eraseIdx_sublist times (memoize / 2)
      have h1 : Inc (times.eraseIdx (memoize / 2)) := hs.sublist hsub
      have h2 : t ∉ times.eraseIdx (memoize / 2) := fun h => hn (hsub.subset h)
      have ih := evict_sorted memoize hm t fuel (times.eraseIdx (memoize / 2)) (props.eraseIdx (memoize / 2)) h1 h2
      rw [ss_eraseIdx times _ t hr] at ih
      exact ih
    · exact ⟨hs, hn, rfl⟩

theorem insert_sorted (p : Prop_ F) (hm : 1 ≤ p.memoize) (t : Int) (u : F) (hs : Inc p.times) (hn : t ∉ p.times) :
    Inc (insert p t u (searchsorted p.times t)).times := by
  have h := evict_sorted (F := F) p.memoize hm t p.times.length p.times p.props hs hn
  simp only [insert]
  obtain ⟨h1, h2, h3⟩ := h
  rw [h3]
  exact inc_insertAt _ t h1 h2

theorem lookup_sorted (A : Alg F) (p : Prop_ F) (hm : 1 ≤ p.memoize) (hs : Inc p.times) (t : Int) :
    Inc (lookup A p t).1.times := by
  unfold lookup
  simp only
  split
  · exact hs
  · rename_i h1
    split
    · exact hs
    · have hn : t ∉ p.times := fun hmem => h1 (ss_finds p.times t hs hmem)
      exact insert_sorted { p with sol := (compute A p t (searchsorted p.times t)).1 } hm t _ hs hn

theorem lookup_memoize (A : Alg F) (p : Prop_ F) (t : Int) : (lookup A p t).1.memoize = p.memoize := by
  unfold lookup
  simp only
  split
  · rfl
  · split
    · rfl
    · simp [insert]

/-- what the sortedness argument needs of a memo -/
structure SInv (p : Prop_ F) : Prop where
  inc : Inc p.times
  mem : 1 ≤ p.memoize

theorem lookup_sinv (A : Alg F) (p : Prop_ F) (h : SInv p) (t : Int) : SInv (lookup A p t).1 :=
  ⟨lookup_sorted A p h.mem h.inc t, by rw [lookup_memoize]; exact h.mem⟩

theorem callFrom_sinv (A : Alg F) (p : Prop_ F) (h : SInv p) (t s : Int) : SInv (callFrom A p t s).1 := by
  unfold callFrom
  split
  · exact lookup_sinv A p h _
  · exact lookup_sinv A _ (lookup_sinv A p h s) t

theorem call_sinv (A : Alg F) (p : Prop_ F) (h : SInv p) (t s : Int) : SInv (call A p t s).1 := by
  unfold call
  split
  · apply callFrom_sinv
    split
    · exact lookup_sinv A p h 0
    · exact h
  · exact lookup_sinv A p h t

theorem calls_sinv (A : Alg F) : ∀ (qs : List (Int × Int)) (p : Prop_ F), SInv p → SInv (calls A p qs).1
  | [], p, h => h
  | (t, s) :: qs, p, h => by
    unfold calls
    exact calls_sinv A qs _ (call_sinv A p h t s)

theorem init_sinv (A : Alg F) (cte : Bool) (memoize : Nat) : SInv (init A cte memoize) :=
  ⟨by simp [init], by simp [init]; omega⟩

/-- the size bound as an invariant of whole histories -/
structure BInv (p : Prop_ F) : Prop where
  mem : 1 ≤ p.memoize
  len : p.times.length ≤ p.memoize

theorem lookup_binv (A : Alg F) (p : Prop_ F) (h : BInv p) (t : Int) : BInv (lookup A p t).1 :=
  ⟨by rw [lookup_memoize]; exact h.mem, by rw [lookup_memoize]; exact lookup_length p h.mem h.len t⟩

theorem callFrom_binv (A : Alg F) (p : Prop_ F) (h : BInv p) (t s : Int) : BInv (callFrom A p t s).1 := by
  unfold callFrom
  split
  · exact lookup_binv A p h _
  · exact lookup_binv A _ (lookup_binv A p h s) t

theorem call_binv (A : Alg F) (p : Prop_ F) (h : BInv p) (t s : Int) : BInv (call A p t s).1 := by
  unfold call
  split
  · apply callFrom_binv
    split
    · exact lookup_binv A p h 0
    · exact h
  · exact lookup_binv A p h t

theorem calls_binv (A : Alg F) : ∀ (qs : List (Int × Int)) (p : Prop_ F), BInv p → BInv (calls A p qs).1
  | [], p, h => h
  | (t, s) :: qs, p, h => by
    unfold calls
    exact calls_binv A qs _ (call_binv A p h t s)

theorem call_memoize (A : Alg F) (p : Prop_ F) (t s : Int) : (call A p t s).1.memoize = p.memoize := by
  unfold call
  split
  · unfold callFrom
    split <;> split <;> simp [lookup_memoize]
  · exact lookup_memoize A p t

theorem calls_memoize (A : Alg F) : ∀ (qs : List (Int × Int)) (p : Prop_ F), (calls A p qs).1.memoize = p.memoize
  | [], p => rfl
  | (t, s) :: qs, p => by
    unfold calls
    simp only
    rw [calls_memoize A qs, call_memoize]

theorem init_binv (A : Alg F) (cte : Bool) (memoize : Nat) : BInv (init A cte memoize) :=
  ⟨by simp [init]; omega, by simp [init]; omega⟩

end Qv.C11
