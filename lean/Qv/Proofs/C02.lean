import Qv.Model.C02
/-! Helper lemmas for C02 (core Lean only). -/
namespace Qv.C02

mutual
theorem beq_size : ∀ (a b : Sp), Sp.beq a b = true → a.size = b.size
  | .field, .field, _ => rfl
  | .simple a, .simple b, h => by simp [Sp.beq] at h; simp [Sp.size, h]
  | .compound a, .compound b, h => by
      simp only [Sp.beq] at h
      simp only [Sp.size]
      exact beqL_size a b h
  | .super a b r, .super c d s, h => by
      simp only [Sp.beq, Bool.and_eq_true] at h
      simp only [Sp.size]
      rw [beq_size a c h.1.1, beq_size b d h.1.2]
  | .field, .simple _, h => by simp [Sp.beq] at h
  | .field, .compound _, h => by simp [Sp.beq] at h
  | .field, .super _ _ _, h => by simp [Sp.beq] at h
  | .simple _, .field, h => by simp [Sp.beq] at h
  | .simple _, .compound _, h => by simp [Sp.beq] at h
  | .simple _, .super _ _ _, h => by simp [Sp.beq] at h
  | .compound _, .field, h => by simp [Sp.beq] at h
  | .compound _, .simple _, h => by simp [Sp.beq] at h
  | .compound _, .super _ _ _, h => by simp [Sp.beq] at h
  | .super _ _ _, .field, h => by simp [Sp.beq] at h
  | .super _ _ _, .simple _, h => by simp [Sp.beq] at h
  | .super _ _ _, .compound _, h => by simp [Sp.beq] at h
theorem beqL_size : ∀ (a b : List Sp), beqL a b = true → sizeL a = sizeL b
  | [], [], _ => rfl
  | x :: l, y :: m, h => by
      simp only [beqL, Bool.and_eq_true] at h
      simp only [sizeL]
      rw [beq_size x y h.1, beqL_size l m h.2]
  | [], _ :: _, h => by simp [beqL] at h
  | _ :: _, [], h => by simp [beqL] at h
end

mutual
theorem beq_refl : ∀ (a : Sp), Sp.beq a a = true
  | .field => rfl
  | .simple a => by simp [Sp.beq]
  | .compound a => by simp only [Sp.beq]; exact beqL_refl a
  | .super a b r => by simp [Sp.beq, beq_refl a, beq_refl b]
theorem beqL_refl : ∀ (a : List Sp), beqL a a = true
  | [] => rfl
  | x :: l => by simp [beqL, beq_refl x, beqL_refl l]
end

theorem mkDims_ok_iff (fr to : Sp) :
    (∃ d, mkDims fr to = .ok d) ↔
      (fr.size = 1 ∨ to.size = 1 ∨ Sp.beq fr to = true ∨ fr.issuper = to.issuper) := by
  unfold mkDims
  constructor
  · intro ⟨d, h⟩
    by_cases h1 : fr.size = 1
    · exact Or.inl h1
    · by_cases h2 : to.size = 1
      · exact Or.inr (Or.inl h2)
      · by_cases h3 : Sp.beq fr to = true
        · exact Or.inr (Or.inr (Or.inl h3))
        · right; right; right
          have e1 : (fr.size == 1) = false := by simpa using h1
          have e2 : (to.size == 1) = false := by simpa using h2
          simp only [e1, e2, h3, Bool.false_and, Bool.false_eq_true, if_false] at h
          by_cases h4 : (fr.issuper != to.issuper) = true
          · simp [h4] at h
          · simpa using h4
  · intro h
    by_cases h1 : fr.size = 1
    · by_cases h2 : to.size = 1
      · simp [h1, h2]
      · have e2 : (to.size == 1) = false := by simpa using h2
        simp [h1, e2]
    · have e1 : (fr.size == 1) = false := by simpa using h1
      by_cases h2 : to.size = 1
      · simp [e1, h2]
      · have e2 : (to.size == 1) = false := by simpa using h2
        by_cases h3 : Sp.beq fr to = true
        · simp [e1, e2, h3]
        · rcases h with h | h | h | h
          · exact absurd h h1
          · exact absurd h h2
          · exact absurd h h3
          · have : (fr.issuper != to.issuper) = false := by simp [h]
            simp [e1, e2, h3, this]

theorem mkDims_fields {fr to : Sp} {d : Dims} (h : mkDims fr to = .ok d) : d.fr = fr ∧ d.to = to := by
  unfold mkDims at h
  split at h
  · cases h; exact ⟨rfl, rfl⟩
  · split at h
    · cases h; exact ⟨rfl, rfl⟩
    · split at h
      · cases h; exact ⟨rfl, rfl⟩
      · split at h
        · cases h; exact ⟨rfl, rfl⟩
        · split at h
          · cases h
          · cases h; exact ⟨rfl, rfl⟩

end Qv.C02
