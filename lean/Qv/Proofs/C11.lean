import Qv.Model.C11
import Mathlib.Data.List.Forall2
/-! Helper lemmas for C11: the memo of `Propagator` holds `phi t 0` at every memoised time and the
live solver sits on the evolution started from the identity at time 0. -/
namespace Qv.C11

variable {F : Type}

/-- the flow laws assumed of the evolution -/
structure Laws (A : Alg F) : Prop where
  comp_phi : ∀ a b c, A.comp (A.phi c b) (A.phi b a) = A.phi c a
  inv_phi : ∀ a b, A.inv (A.phi b a) = A.phi a b
  phi_self : ∀ a, A.phi a a = A.one
  comp_one : ∀ x, A.comp x A.one = x

/-- time-translation invariance: what a constant generator adds -/
def CteLaw (A : Alg F) : Prop := ∀ a b, A.phi (b - a) 0 = A.phi b a

/-- memo entry relation -/
def Good (A : Alg F) (t : Int) (u : F) : Prop := u = A.phi t 0

structure PInv (A : Alg F) (p : Prop_ F) : Prop where
  memo : List.Forall₂ (Good A) p.times p.props
  sol : p.sol.x = A.phi p.sol.tl 0

theorem getD_good {A : Alg F} (L : Laws A) {ts : List Int} {us : List F}
    (h : List.Forall₂ (Good A) ts us) (i : Nat) : us.getD i A.one = A.phi (ts.getD i 0) 0 := by
  induction h generalizing i with
  | nil => simp [L.phi_self]
  | cons hab _ ih =>
    cases i with
    | zero => simp only [List.getD_cons_zero]; exact hab
    | succ i => simp only [List.getD_cons_succ]; exact ih i

theorem step_good {A : Alg F} (L : Laws A) (s : Sol F) (hs : s.x = A.phi s.tl 0) (t : Int) :
    (s.step A t).x = A.phi t 0 ∧ (s.step A t).tl = t := by
  simp [Sol.step, hs, L.comp_phi]

theorem compute_good {A : Alg F} (L : Laws A) {p : Prop_ F} (h : PInv A p) (t : Int) (idx : Nat) :
    (compute A p t idx).2 = A.phi t 0 ∧ (compute A p t idx).1.x = A.phi (compute A p t idx).1.tl 0 := by
  unfold compute
  simp only
  split
  · obtain ⟨a, b⟩ := step_good L p.sol h.sol t
    exact ⟨a, by rw [a, b]⟩
  · split
    · have hs : (Sol.start (p.props.getD (idx - 1) A.one) (p.times.getD (idx - 1) 0)).x =
          A.phi (Sol.start (p.props.getD (idx - 1) A.one) (p.times.getD (idx - 1) 0)).tl 0 :=
        getD_good L h.memo _
      obtain ⟨a, b⟩ := step_good L _ hs t
      exact ⟨a, by rw [a, b]⟩
    · have e : A.comp (A.inv ((Sol.start A.one t).step A (p.times.getD idx 0)).x) (p.props.getD idx A.one)
          = A.phi t 0 := by
        show A.comp (A.inv (A.comp (A.phi (p.times.getD idx 0) t) A.one)) (p.props.getD idx A.one) = _
        rw [L.comp_one, L.inv_phi, getD_good L h.memo, L.comp_phi]
      exact ⟨e, e⟩

theorem forall₂_eraseIdx {α β : Type} {R : α → β → Prop} {l₁ : List α} {l₂ : List β}
    (h : List.Forall₂ R l₁ l₂) (k : Nat) : List.Forall₂ R (l₁.eraseIdx k) (l₂.eraseIdx k) := by
  rw [List.eraseIdx_eq_take_drop_succ, List.eraseIdx_eq_take_drop_succ]
  exact List.rel_append (List.forall₂_take k h) (List.forall₂_drop (k + 1) h)

theorem forall₂_insertAt {α β : Type} {R : α → β → Prop} {l₁ : List α} {l₂ : List β}
    (h : List.Forall₂ R l₁ l₂) (k : Nat) {a : α} {b : β} (hab : R a b) :
    List.Forall₂ R (insertAt l₁ k a) (insertAt l₂ k b) := by
  unfold insertAt
  exact List.rel_append (List.forall₂_take k h) (List.Forall₂.cons hab (List.forall₂_drop k h))

theorem evict_good {A : Alg F} (memoize : Nat) (t : Int) (fuel : Nat) :
    ∀ (ts : List Int) (us : List F) (idx : Nat), List.Forall₂ (Good A) ts us →
      List.Forall₂ (Good A) (evict memoize t fuel ts us idx).1 (evict memoize t fuel ts us idx).2.1 := by
  induction fuel with
  | zero => intro ts us idx h; exact h
  | succ f ih =>
    intro ts us idx h
    unfold evict
    split
    · exact ih _ _ _ (forall₂_eraseIdx h _)
    · exact h

theorem insert_good {A : Alg F} {p : Prop_ F} (hm : List.Forall₂ (Good A) p.times p.props)
    (t : Int) (u : F) (hu : u = A.phi t 0) (idx : Nat) :
    List.Forall₂ (Good A) (insert p t u idx).times (insert p t u idx).props ∧
    (insert p t u idx).sol = p.sol ∧ (insert p t u idx).cte = p.cte ∧
    (insert p t u idx).memoize = p.memoize := by
  unfold insert
  have := evict_good (A := A) p.memoize t p.times.length p.times p.props idx hm
  generalize evict p.memoize t p.times.length p.times p.props idx = r at this
  obtain ⟨ts, us, i⟩ := r
  exact ⟨forall₂_insertAt this i hu, rfl, rfl, rfl⟩

theorem lookup_good {A : Alg F} (L : Laws A) {p : Prop_ F} (h : PInv A p) (t : Int) :
    (lookup A p t).2 = A.phi t 0 ∧ PInv A (lookup A p t).1 ∧ (lookup A p t).1.cte = p.cte ∧
    (lookup A p t).1.memoize = p.memoize := by
  unfold lookup
  simp only
  split
  · rename_i hc
    refine ⟨?_, h, rfl, rfl⟩
    rw [getD_good L h.memo, hc.2]
  · split
    · rename_i hc
      refine ⟨?_, h, rfl, rfl⟩
      rw [getD_good L h.memo, hc.2]
    · obtain ⟨c1, c2⟩ := compute_good L h t (searchsorted p.times t)
      generalize compute A p t (searchsorted p.times t) = r at c1 c2
      obtain ⟨s, u⟩ := r
      simp only at c1 c2 ⊢
      obtain ⟨i1, i2, i3, i4⟩ := insert_good (A := A) (p := { p with sol := s }) h.memo t u c1
        (searchsorted p.times t)
      exact ⟨c1, ⟨i1, by rw [i2]; exact c2⟩, i3, i4⟩

theorem callFrom_good {A : Alg F} (L : Laws A) {p : Prop_ F} (h : PInv A p)
    (hc : p.cte = true → CteLaw A) (t s : Int) :
    (callFrom A p t s).2 = A.phi t s ∧ PInv A (callFrom A p t s).1 ∧ (callFrom A p t s).1.cte = p.cte ∧
    (callFrom A p t s).1.memoize = p.memoize := by
  unfold callFrom
  split
  · rename_i hcte
    obtain ⟨a, b, c, d⟩ := lookup_good L h (t - s)
    exact ⟨by rw [a]; exact hc hcte s t, b, c, d⟩
  · obtain ⟨a1, b1, cc1, d1⟩ := lookup_good L h s
    obtain ⟨a2, b2, cc2, d2⟩ := lookup_good L b1 t
    refine ⟨?_, b2, cc2.trans cc1, d2.trans d1⟩
    show A.comp (lookup A (lookup A p s).1 t).2 (A.inv (lookup A p s).2) = _
    rw [a1, a2, L.inv_phi, L.comp_phi]

theorem call_good {A : Alg F} (L : Laws A) {p : Prop_ F} (h : PInv A p)
    (hc : p.cte = true → CteLaw A) (t s : Int) :
    (call A p t s).2 = A.phi t s ∧ PInv A (call A p t s).1 ∧ (call A p t s).1.cte = p.cte ∧
    (call A p t s).1.memoize = p.memoize := by
  unfold call
  split
  · have pre : PInv A (if t = s then (lookup A p 0).1 else p) ∧
        (if t = s then (lookup A p 0).1 else p).cte = p.cte ∧
        (if t = s then (lookup A p 0).1 else p).memoize = p.memoize := by
      split
      · obtain ⟨_, b, c, d⟩ := lookup_good L h 0; exact ⟨b, c, d⟩
      · exact ⟨h, rfl, rfl⟩
    generalize (if t = s then (lookup A p 0).1 else p) = p1 at pre
    obtain ⟨h1, c1, m1⟩ := pre
    obtain ⟨a, b, c, d⟩ := callFrom_good L h1 (fun hh => hc (c1 ▸ hh)) t s
    exact ⟨a, b, c.trans c1, d.trans m1⟩
  · rename_i hs
    have hs0 : s = 0 := by simpa using hs
    obtain ⟨a, b, c, d⟩ := lookup_good L h t
    exact ⟨by rw [a, hs0], b, c, d⟩

/-! ### size of the memo -/

theorem evict_length {α : Type} (memoize : Nat) (hm : 1 ≤ memoize) (t : Int) (fuel : Nat) :
    ∀ (ts : List Int) (us : List α) (idx : Nat), ts.length < memoize + fuel →
      (evict memoize t fuel ts us idx).1.length < memoize := by
  induction fuel with
  | zero => intro ts us idx h; simpa [evict] using h
  | succ f ih =>
    intro ts us idx h
    unfold evict
    split
    · rename_i hle
      apply ih
      have : memoize / 2 < ts.length := by
        have : memoize / 2 < memoize := Nat.div_lt_self (by omega) (by omega)
        omega
      rw [List.length_eraseIdx]
      simp only [this, if_true]
      omega
    · simp only; omega

theorem insert_length (p : Prop_ F) (hm : 1 ≤ p.memoize) (t : Int) (u : F) (idx : Nat) :
    (insert p t u idx).times.length ≤ p.memoize := by
  unfold insert
  have := evict_length (α := F) p.memoize hm t p.times.length p.times p.props idx (by omega)
  generalize evict p.memoize t p.times.length p.times p.props idx = r at this
  obtain ⟨ts, us, i⟩ := r
  have h2 : ts.length < p.memoize := this
  simp only [insertAt, List.length_append, List.length_take, List.length_cons, List.length_drop]
  omega

theorem lookup_length {A : Alg F} (p : Prop_ F) (hm : 1 ≤ p.memoize) (hl : p.times.length ≤ p.memoize)
    (t : Int) : (lookup A p t).1.times.length ≤ p.memoize := by
  unfold lookup
  simp only
  split
  · exact hl
  · split
    · exact hl
    · exact insert_length { p with sol := (compute A p t (searchsorted p.times t)).1 } hm t _ _

/-! ### the run/step protocol over an exact flow -/

structure LawsAssoc (A : Alg F) : Prop extends Laws A where
  comp_assoc : ∀ x y z, A.comp (A.comp x y) z = A.comp x (A.comp y z)
  one_comp : ∀ x, A.comp A.one x = x

/-- stepping a solver through a list of times -/
def stepThrough (A : Alg F) (s : Sol F) (ts : List Int) : Sol F := ts.foldl (fun s t => s.step A t) s

theorem stepThrough_eq {A : Alg F} (L : LawsAssoc A) (x0 : F) (t0 : Int) (ts : List Int) :
    ∀ (s : Sol F), s.x = A.comp (A.phi s.tl t0) x0 →
      (stepThrough A s ts).x = A.comp (A.phi (stepThrough A s ts).tl t0) x0 ∧
      (stepThrough A s ts).tl = ts.getLast?.getD s.tl := by
  induction ts with
  | nil => intro s h; exact ⟨h, rfl⟩
  | cons t ts ih =>
    intro s h
    have hs : (s.step A t).x = A.comp (A.phi (s.step A t).tl t0) x0 := by
      simp only [Sol.step, h]
      rw [← L.comp_assoc, L.comp_phi]
    obtain ⟨a, b⟩ := ih (s.step A t) hs
    refine ⟨a, ?_⟩
    simp only [stepThrough, List.foldl_cons] at b ⊢
    rw [b]
    cases ts with
    | nil => simp [Sol.step]
    | cons t' ts' =>
      cases hl : (t' :: ts').getLast? with
      | none => simp at hl
      | some v => simp [hl]

end Qv.C11
