import Qv.Proofs.C09Inj
import Mathlib.Data.Fintype.Card
import Mathlib.Data.Fintype.EquivFin
import Mathlib.Algebra.BigOperators.Group.List.Basic
/-! `_Indexer.single` is onto the indices of the permuted space (pigeonhole from injectivity). -/
namespace Qv.C09

theorem size_eq_prod : ∀ (l : List Nat), size l = l.prod
  | [] => rfl
  | d :: ds => by simp [size, size_eq_prod ds]

theorem map_getD_range : ∀ (dims : List Nat), (List.range dims.length).map (fun o => dims.getD o 1) = dims := by
  intro dims
  apply List.ext_getElem
  · simp
  · intro i h1 h2
    simp [List.getD_eq_getElem?_getD, List.getElem?_eq_getElem h2]

theorem size_newDims (dims order : List Nat) (hperm : order.Perm (List.range dims.length)) :
    size (newDims dims order) = size dims := by
  rw [size_eq_prod, size_eq_prod]
  unfold newDims
  have := (hperm.map (fun o => dims.getD o 1)).prod_eq
  rw [this, map_getD_range]

theorem singleSpec_surjective (dims order : List Nat) (hp : Pos dims)
    (hperm : order.Perm (List.range dims.length)) (r : Nat) (hr : r < size (newDims dims order)) :
    ∃ i, i < size dims ∧ singleSpec dims order i = r := by
  have hsz := size_newDims dims order hperm
  let f : Fin (size dims) → Fin (size dims) := fun i =>
    ⟨singleSpec dims order i.1, by have := singleSpec_lt dims order i.1 hp hperm i.2; omega⟩
  have hinj : Function.Injective f := by
    intro a b hab
    apply Fin.ext
    exact singleSpec_injective dims order hp hperm a.1 b.1 a.2 b.2 (by simpa [f] using congrArg Fin.val hab)
  have hsurj := Finite.injective_iff_surjective.mp hinj
  obtain ⟨i, hi⟩ := hsurj ⟨r, by omega⟩
  exact ⟨i.1, i.2, by simpa [f] using congrArg Fin.val hi⟩

end Qv.C09
