/-
C02 — model of `qutip/core/dimensions.py`: construction of `Space` / `Dimensions` from nested-list
specifications (`MetaSpace.__call__`, `Space.from_list`, `Compound.__init__`, `MetaDims.__call__`),
the type-inference cascade of `Dimensions.__init__`, `as_list`, equality and `__matmul__`.
Interned instances are modelled by structural values (two specifications denote the same instance
iff they build the same value).  `tidy` is `settings.core["auto_tidyup_dims"]`.
Import-free.
-/
namespace Qv.C02

/-- a nested-list dimension specification -/
inductive NL
  | num (n : Int)
  | list (l : List NL)
deriving Repr

inductive Sp
  | field
  | simple (n : Nat)
  | compound (l : List Sp)
  | super (to fr : Sp) (rep : String)      -- SuperSpace(Dimensions(from_, to_), rep)
deriving Repr

inductive Err | valueError | typeError | notImplemented
deriving Repr, DecidableEq

mutual
def Sp.beq : Sp → Sp → Bool
  | .field, .field => true
  | .simple a, .simple b => a == b
  | .compound a, .compound b => beqL a b
  | .super a b r, .super c d s => Sp.beq a c && Sp.beq b d && r == s
  | _, _ => false
def beqL : List Sp → List Sp → Bool
  | [], [] => true
  | a :: l, b :: m => Sp.beq a b && beqL l m
  | _, _ => false
end

mutual
def Sp.size : Sp → Nat
  | .field => 1
  | .simple n => n
  | .compound l => sizeL l
  | .super t f _ => t.size * f.size
def sizeL : List Sp → Nat
  | [] => 1
  | s :: l => s.size * sizeL l
end

def Sp.issuper : Sp → Bool
  | .super _ _ _ => true
  | .compound l => match l with
    | [] => false
    | s :: _ => s.issuper          -- uniform by construction (checked in `mkCompound`)
  | _ => false

def Sp.superrep : Sp → Option String
  | .super _ _ r => some r
  | .compound l => match l with
    | [] => none
    | s :: _ => s.superrep
  | _ => none

/-- `Space(n)` for a number -/
def mkSimple (n : Int) : Except Err Sp :=
  if n = 1 then .ok .field
  else if n ≤ 0 then .error .valueError
  else .ok (.simple n.toNat)

/-- `Space(*spaces)` with at least two spaces: `Compound.__init__` (flattening, uniformity checks)
after the tidy-up rule of `MetaSpace.__call__` -/
def mkCompound (tidy : Bool) (spaces : List Sp) : Except Err Sp :=
  if tidy && spaces.all (fun s => s.size == 1) then .ok .field
  else
    let flat := spaces.flatMap fun s => match s with
      | .compound l => l
      | s => [s]
    let sup := flat.all Sp.issuper
    if !sup && flat.any Sp.issuper then .error .typeError
    else
      let reps := flat.map Sp.superrep
      match reps with
      | [] => .ok (.compound flat)
      | r :: rest => if rest.all (· == r) then .ok (.compound flat) else .error .typeError

/-- `Space(Dimensions(from_, to_), rep=rep)` -/
def mkSuper (tidy : Bool) (to fr : Sp) (rep : Option String) : Sp :=
  if tidy && to.size == 1 && fr.size == 1 then .field else .super to fr (rep.getD "super")

mutual
/-- `Space(list)` = `Space.from_list` (fuel bounds the nesting depth) -/
def fromList (tidy : Bool) (rep : Option String) : Nat → List NL → Except Err Sp
  | 0, _ => .error .valueError
  | fuel + 1, l => do
    if l.isEmpty then throw .valueError
    let nlists := (l.filter fun e => match e with | .list _ => true | _ => false).length
    if nlists != 0 && nlists != l.length then throw .valueError
    let spaces ←
      match l with
      | .num _ :: _ => l.mapM fun e => match e with
          | .num n => mkSimple n
          | .list _ => throw .valueError
      | [.list inner] => spacesOf tidy rep fuel inner
      | _ =>
        if l.length % 2 == 0 then pairs tidy rep fuel l
        else throw .valueError
    match spaces with
    | [] => throw .valueError
    | [s] => pure s
    | _ => mkCompound tidy spaces
termination_by fuel l => (fuel, 0, l.length)

/-- `[Space(x) for x in inner]` -/
def spacesOf (tidy : Bool) (rep : Option String) : Nat → List NL → Except Err (List Sp)
  | 0, _ => .error .valueError
  | _, [] => .ok []
  | fuel + 1, .num n :: rest => do
    let s ← mkSimple n
    let r ← spacesOf tidy rep (fuel + 1) rest
    pure (s :: r)
  | fuel + 1, .list l :: rest => do
    let s ← fromList tidy rep fuel l
    let r ← spacesOf tidy rep (fuel + 1) rest
    pure (s :: r)
termination_by fuel l => (fuel, 1, l.length)

/-- consecutive (to, from) pairs of a superoperator specification -/
def pairs (tidy : Bool) (rep : Option String) : Nat → List NL → Except Err (List Sp)
  | 0, _ => .error .valueError
  | _, [] => .ok []
  | fuel + 1, .list a :: .list b :: rest => do
    let fr ← fromList tidy none fuel b
    let to ← fromList tidy none fuel a
    let r ← pairs tidy rep (fuel + 1) rest
    pure (mkSuper tidy to fr rep :: r)
  | _, _ => .error .valueError
termination_by fuel l => (fuel, 1, l.length)
end

/-- `Space(x)` for one entry of a list -/
def spaceOf (tidy : Bool) (rep : Option String) (fuel : Nat) : NL → Except Err Sp
  | .num n => mkSimple n
  | .list l => fromList tidy rep fuel l

mutual
def Sp.asList : Sp → NL
  | .field => .list [.num 1]
  | .simple n => .list [.num n]
  | .compound l => .list (asListL l)
  | .super t f _ => .list [t.asList, f.asList]
def asListL : List Sp → List NL
  | [] => []
  | s :: l => (match s.asList with | .list x => x | x => [x]) ++ asListL l
end

structure Dims where
  fr : Sp
  to : Sp
  type : String
  issuper : Bool
  superrep : Option String
  issquare : Bool
deriving Repr

/-- `Dimensions.__init__`: the type-inference cascade -/
def mkDims (fr to : Sp) : Except Err Dims :=
  if fr.size == 1 && to.size == 1 then
    .ok { fr, to, type := "scalar", issuper := fr.issuper, superrep := none, issquare := true }
  else if fr.size == 1 then
    .ok { fr, to, type := if to.issuper then "operator-ket" else "ket", issuper := to.issuper,
          superrep := to.superrep, issquare := false }
  else if to.size == 1 then
    .ok { fr, to, type := if fr.issuper then "operator-bra" else "bra", issuper := fr.issuper,
          superrep := fr.superrep, issquare := false }
  else if Sp.beq fr to then
    .ok { fr, to, type := if fr.issuper then "super" else "oper", issuper := fr.issuper,
          superrep := fr.superrep, issquare := true }
  else if fr.issuper != to.issuper then .error .notImplemented
  else
    .ok { fr, to, type := if fr.issuper then "super" else "oper", issuper := fr.issuper,
          superrep := if fr.superrep == to.superrep then fr.superrep else some "mixed", issquare := false }

/-- `Dimensions([to_spec, from_spec], rep=rep)` -/
def dimsOfSpec (tidy : Bool) (rep : Option String) (fuel : Nat) (spec : List NL) : Except Err Dims :=
  match spec with
  | [a, b] => do
    let fr ← spaceOf tidy rep fuel b
    let to ← spaceOf tidy rep fuel a
    mkDims fr to
  | _ => .error .notImplemented

def Dims.shape (d : Dims) : Nat × Nat := (d.to.size, d.fr.size)

def Dims.beq (a b : Dims) : Bool := Sp.beq a.to b.to && Sp.beq a.fr b.fr

/-- `a @ b` on dimensions -/
def Dims.matmul (a b : Dims) : Except Err Dims :=
  if !(Sp.beq a.fr b.to) then .error .typeError else mkDims b.fr a.to

def Dims.asList (d : Dims) : NL := .list [d.to.asList, d.fr.asList]

/-! ## Matrix elements and overlaps (`Qobj.matrix_element`, `Qobj.overlap` after their repair) -/

/-- the space a state lives in: `_dims[0]` of a ket, `_dims[1]` of a bra -/
def stateSpace (isket : Bool) (d : Dims) : Sp := if isket then d.to else d.fr

/-- `A.matrix_element(l, r)` is accepted when the states live in the operator's output and input spaces -/
def matrixElementOk (A : Dims) (lket : Bool) (l : Dims) (rket : Bool) (r : Dims) : Bool :=
  Sp.beq (stateSpace lket l) A.to && Sp.beq A.fr (stateSpace rket r)

/-- `a.overlap(b)` of two states is accepted when they live in one space -/
def overlapOk (aket : Bool) (a : Dims) (bket : Bool) (b : Dims) : Bool :=
  Sp.beq (stateSpace aket a) (stateSpace bket b)

end Qv.C02
