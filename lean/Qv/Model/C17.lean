/-
C17 — the bookkeeping of a diffusive trajectory (`qutip/solver/stochastic.py`, `sode/_noise.py`,
`sode/sode.py`): a trajectory is the fold of a stepper over the Wiener increments; the reported
increments of an output interval are the sums of the internal ones; `wiener_process` is their running
sum; the measurement record ("start" convention) is `⟨M⟩(state at the start of the step) + dW/dt`;
`run_from_experiment(measurement=True)` recovers the increments step by step.  Generic over the state
type and the number type; import-free, executable.
-/
namespace Qv.C17

variable {S R : Type}

/-- states visited: `[s₀, s₁, …]`, one more than increments -/
def traj (step : S → R → S) (s0 : S) : List R → List S
  | [] => [s0]
  | w :: ws => s0 :: traj step (step s0 w) ws

/-- the state after all increments -/
def final (step : S → R → S) (s0 : S) (dW : List R) : S := dW.foldl step s0

section arith
variable [Add R] [OfNat R 0]

/-- `wiener_process`: W₀ = 0, W_k = dW₀ + … + dW_{k-1} -/
def cumsumFrom (acc : R) : List R → List R
  | [] => [acc]
  | w :: ws => acc :: cumsumFrom (acc + w) ws

def wiener (dW : List R) : List R := cumsumFrom 0 dW

def sum (l : List R) : R := l.foldl (· + ·) 0

/-- increments reported per output interval: sums of `n` consecutive internal increments -/
def coarsen (n : Nat) : Nat → List R → List R
  | 0, _ => []
  | fuel+1, l => if l.isEmpty then [] else sum (l.take n) :: coarsen n fuel (l.drop n)

end arith

section meas
variable [Add R] [Sub R] [Mul R] [Div R]

/-- measurement record, "start" convention -/
def measStart (e : S → R) (dt : R) : List S → List R → List R
  | s :: ss, w :: ws => (e s + w / dt) :: measStart e dt ss ws
  | _, _ => []

/-- `run_from_experiment(..., measurement=True)`: the stepper is fed `(m − ⟨M⟩(s))·dt` -/
def replayMeas (step : S → R → S) (e : S → R) (dt : R) (s0 : S) : List R → List S × List R
  | [] => ([s0], [])
  | m :: ms =>
    let w := (m - e s0) * dt
    let r := replayMeas step e dt (step s0 w) ms
    (s0 :: r.1, w :: r.2)

/-- the three storage conventions of `store_measurement`: expectation at the start, at the end, or
the mean of both -/
inductive Conv | start | «end» | middle
deriving DecidableEq, Repr

end meas
/-! ## The Wiener process handed to feedback coefficients (`sode/_noise.py`, `Wiener.__call__`)

The object keeps the index of the last query and the value it returned; a later query adds the increments
in between, an earlier one starts again from zero.  `dW k` is the increment of step `k` (the noise table
is extended on demand, which the model abstracts as a total function). -/
section wienerobj
variable {R : Type} [Add R] [OfNat R 0]

structure WState (R : Type) where
  idxLast : Nat
  lastW : R
deriving Repr

/-- `dW a + … + dW (a+n-1)` -/
def seg (dW : Nat → R) (a : Nat) : Nat → R
  | 0 => 0
  | n + 1 => seg dW a n + dW (a + n)

/-- the Wiener process at step `n`: the sum of the first `n` increments -/
def wienerAt (dW : Nat → R) (n : Nat) : R := seg dW 0 n

/-- one call `W(t)` with `idx = round((t - t0)/dt)`: new state and returned value -/
def WState.call (dW : Nat → R) (s : WState R) (idx : Nat) : WState R × R :=
  let s' : WState R := if s.idxLast > idx then ⟨0, 0⟩ else s
  let w := s'.lastW + seg dW s'.idxLast (idx - s'.idxLast)
  (⟨idx, w⟩, w)

/-- the rule before the repair: the sum ran up to and including `idx` -/
def WState.callOld (dW : Nat → R) (s : WState R) (idx : Nat) : WState R × R :=
  let s' : WState R := if s.idxLast > idx then ⟨0, 0⟩ else s
  let w := s'.lastW + seg dW s'.idxLast (idx + 1 - s'.idxLast)
  (⟨idx, w⟩, w)

/-- the values returned along a history of calls -/
def runCalls (call : WState R → Nat → WState R × R) (s : WState R) : List Nat → List R
  | [] => []
  | i :: is => (call s i).2 :: runCalls call (call s i).1 is

end wienerobj

end Qv.C17
