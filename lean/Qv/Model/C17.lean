/-
C17 — the bookkeeping of a diffusive trajectory (`qutip/solver/stochastic.py`, `sode/_noise.py`,
`sode/sode.py`): a trajectory is the fold of a stepper over the Wiener increments; the reported
increments of an output interval are the sums of the internal ones; `wiener_process` is their running
sum; the measurement record ("start" convention) is `⟨M⟩(state at the start of the step) + dW/dt`;
`run_from_experiment(measurement=True)` recovers the increments step by step.  Generic over the state
type and the number type; import-free, executable.
-/
namespace Qv.C17

variable {S R : Type}

/-- states visited: `[s₀, s₁, …]`, one more than increments -/
def traj (step : S → R → S) (s0 : S) : List R → List S
  | [] => [s0]
  | w :: ws => s0 :: traj step (step s0 w) ws

/-- the state after all increments -/
def final (step : S → R → S) (s0 : S) (dW : List R) : S := dW.foldl step s0

section arith
variable [Add R] [OfNat R 0]

/-- `wiener_process`: W₀ = 0, W_k = dW₀ + … + dW_{k-1} -/
def cumsumFrom (acc : R) : List R → List R
  | [] => [acc]
  | w :: ws => acc :: cumsumFrom (acc + w) ws

def wiener (dW : List R) : List R := cumsumFrom 0 dW

def sum (l : List R) : R := l.foldl (· + ·) 0

/-- increments reported per output interval: sums of `n` consecutive internal increments -/
def coarsen (n : Nat) : Nat → List R → List R
  | 0, _ => []
  | fuel+1, l => if l.isEmpty then [] else sum (l.take n) :: coarsen n fuel (l.drop n)

end arith

section meas
variable [Add R] [Sub R] [Mul R] [Div R]

/-- measurement record, "start" convention -/
def measStart (e : S → R) (dt : R) : List S → List R → List R
  | s :: ss, w :: ws => (e s + w / dt) :: measStart e dt ss ws
  | _, _ => []

/-- `run_from_experiment(..., measurement=True)`: the stepper is fed `(m − ⟨M⟩(s))·dt` -/
def replayMeas (step : S → R → S) (e : S → R) (dt : R) (s0 : S) : List R → List S × List R
  | [] => ([s0], [])
  | m :: ms =>
    let w := (m - e s0) * dt
    let r := replayMeas step e dt (step s0 w) ms
    (s0 :: r.1, w :: r.2)

/-- the three storage conventions of `store_measurement`: expectation at the start, at the end, or
the mean of both -/
inductive Conv | start | «end» | middle
deriving DecidableEq, Repr

end meas
end Qv.C17
