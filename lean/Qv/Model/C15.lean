/-
C15 — model of `qutip/solver/multitrajresult.py`: `MultiTrajResult` and `_TrajectorySum`.

One *component* of the ensemble data is modelled: one expectation value `x` (one e_op at one
time), one stored-state entry `s` and one final-state entry `f` per trajectory.  Every array in the
code is updated element-wise with the same weights, so the real object is the product of such
components; the correspondence check (harness/c15.py) runs the model on every component.
Generic over the number type `R` (the driver uses `Rat`, the theorems any field).
Import-free.
-/
namespace Qv.C15

structure Traj (R : Type) where
  x : R                 -- trajectory.expect[k][i]
  s : List R            -- one matrix entry of trajectory.states over the time list ([]: states not stored)
  f : Option R          -- the same entry of trajectory.final_state (none: not available)
deriving Repr

/-- `_TrajectorySum` -/
structure TSum (R : Type) where
  s1 : R                -- sum_expect
  s2 : R                -- sum2_expect
  st : List R           -- sum_states   ([]: None or empty list — both falsy in the code)
  fs : Option R         -- sum_final_state
deriving Repr

structure Opts where
  keep : Bool                   -- keep_runs_results
  storeStates : Option Bool     -- store_states (None / True / False)
  storeFinal : Bool             -- store_final_state
  hasEops : Bool                -- _raw_ops non-empty
deriving Repr, DecidableEq

def storeAvg (o : Opts) : Bool :=
  (o.storeStates == some true || (o.storeStates == none && !o.hasEops)) && !o.keep

def storeFin (o : Opts) : Bool := o.storeFinal && !storeAvg o && !o.keep

/-- processors registered by `_post_init` — fixed at construction -/
structure Procs where
  store : Bool
  states : Bool
  final : Bool
  expect : Bool
deriving Repr, DecidableEq

def procsOf (o : Opts) : Procs :=
  { store := o.keep, states := storeAvg o, final := storeFin o, expect := o.hasEops }

structure MT (R : Type) where
  o : Opts
  p : Procs
  num : Nat := 0
  relW : List R := []
  detW : List R := []
  trajs : List (Traj R) := []
  detTrajs : List (Traj R) := []
  sumRel : Option (TSum R) := none
  sumDet : Option (TSum R) := none
  runsE : List R := []
  hasRuns : Bool                 -- runs_e_data non-empty dict
  seeds : List Nat := []
  avgCache : Option (R × R) := none    -- (_average_e_data, second moment behind _std_e_data)
deriving Repr

variable {R : Type} [Add R] [Mul R] [Div R] [Zero R] [One R] [Sub R] [NatCast R]

def fresh (o : Opts) : MT R :=
  { o := o, p := procsOf o, hasRuns := o.keep && o.hasEops }

def newSum (t : Traj R) (ss sf : Bool) : TSum R :=
  { s1 := 0, s2 := 0,
    st := if ss then t.s.map (fun _ => 0) else [],
    fs := if t.f.isSome && sf then some 0 else none }

def reduceStates (t : Traj R) (w : R) (u : TSum R) : TSum R :=
  { u with st := List.zipWith (fun a s => a + w * s) u.st t.s }

/-- `sum_final_state += weight * final_state`; a missing operand is an exception in the code -/
def reduceFinal (t : Traj R) (w : R) (u : TSum R) : Option (TSum R) :=
  match u.fs, t.f with
  | none, _ => some u                     -- no running sum to add to (e.g. after a heterogeneous merge)
  | some a, some f => some { u with fs := some (a + w * f) }
  | some _, none => none

def reduceExpect (t : Traj R) (w : R) (u : TSum R) : TSum R :=
  { u with s1 := u.s1 + w * t.x, s2 := u.s2 + w * (t.x * t.x) }

/-- New data invalidates what was computed lazily: the cached averages, and (when trajectories are
kept, i.e. `_store_trajectory` is a processor) the sums of states that `average_states` /
`average_final_state` build on demand.  Mirrors the `fix:` commits recorded in known_findings.json. -/
def invalidate (m : MT R) : MT R :=
  let drop (u : TSum R) : TSum R := if m.p.store then { u with st := [], fs := none } else u
  { m with avgCache := none, sumRel := m.sumRel.map drop, sumDet := m.sumDet.map drop }

inductive Err | typeError | zeroDiv | valueError
deriving Repr, DecidableEq

/-- the processors run by `add` / `add_deterministic` on the sum that receives the trajectory -/
def process (p : Procs) (t : Traj R) (w : R) (u : TSum R) : Except Err (TSum R) := do
  let u := if p.states then reduceStates t w u else u
  let u ← if p.final then (match reduceFinal t w u with | some u => pure u | none => throw .typeError)
          else pure u
  pure (if p.expect then reduceExpect t w u else u)

/-- the sum a trajectory is reduced into (created from the first trajectory) -/
def sumFor (m : MT R) (cur : Option (TSum R)) (t : Traj R) : TSum R :=
  match cur with
  | some u => u
  | none => newSum t (storeAvg m.o) (storeFin m.o)

/-- bookkeeping of `add` before the sums are touched -/
def addPre (m : MT R) (seed : Nat) (t : Traj R) (w : R) : MT R :=
  let m := invalidate m
  { m with seeds := m.seeds ++ [seed], relW := m.relW ++ [w], num := m.num + 1,
           trajs := if m.p.store then m.trajs ++ [t] else m.trajs,
           runsE := if m.p.expect && m.hasRuns then m.runsE ++ [t.x] else m.runsE }

/-- `MultiTrajResult.add((seed, trajectory, weight))` -/
def add (m : MT R) (seed : Nat) (t : Traj R) (w : R) : Except Err (MT R) :=
  match process m.p t w (sumFor m (invalidate m).sumRel t) with
  | .ok sr => .ok { addPre m seed t w with sumRel := some sr }
  | .error e => .error e

/-- bookkeeping of `add_deterministic` -/
def addDetPre (m : MT R) (t : Traj R) (w : R) : MT R :=
  let m := invalidate m
  { m with detW := m.detW ++ [w], detTrajs := m.detTrajs ++ [t] }

/-- `MultiTrajResult.add_deterministic(trajectory, weight)` -/
def addDet (m : MT R) (t : Traj R) (w : R) : Except Err (MT R) :=
  match process m.p t w (sumFor m (invalidate m).sumDet t) with
  | .ok sd => .ok { addDetPre m t w with sumDet := some sd }
  | .error e => .error e

/-- `_create_e_data`: (average, second moment) -/
def createE (m : MT R) : R × R :=
  let a : R × R := (0, 0)
  let a := match m.sumDet with
    | some u => (a.1 + u.s1, a.2 + u.s2)
    | none => a
  match m.sumRel with
    | some u => (a.1 + u.s1 / (m.num : R), a.2 + u.s2 / (m.num : R))
    | none => a

/-- reading `average_e_data` (fills the cache) -/
def readAvg (m : MT R) : MT R × Option (R × R) :=
  if !m.o.hasEops then (m, none)
  else match m.avgCache with
    | some c => (m, some c)
    | none => let c := createE m; ({ m with avgCache := some c }, some c)

def redoStates (u : TSum R) (ts : List (Traj R)) (ws : List R) : TSum R :=
  (ts.zip ws).foldl (fun u (tw : Traj R × R) => reduceStates tw.1 tw.2 u) u

def redoFinal (u : TSum R) (ts : List (Traj R)) (ws : List R) : Option (TSum R) :=
  (ts.zip ws).foldl (fun u (tw : Traj R × R) => u.bind (reduceFinal tw.1 tw.2)) (some u)

def needStates (u : Option (TSum R)) : Bool :=
  match u with | some u => u.st.isEmpty | none => false

def needFinal (u : Option (TSum R)) : Bool :=
  match u with | some u => u.fs.isNone | none => false

def mapSums (m : MT R) (fD fR : TSum R → TSum R) : MT R :=
  { m with sumDet := m.sumDet.map fD, sumRel := m.sumRel.map fR }

def firstStates (m : MT R) : List R :=
  match m.trajs with
  | t :: _ => t.s
  | [] => []

def initSt (first : List R) (need : Bool) (u : TSum R) : TSum R :=
  if need then { u with st := first.map (fun _ => 0) } else u

/-- every kept trajectory (sampled and deterministic) comes with its states — after a merge some may not -/
def allStates (m : MT R) : Bool :=
  !m.trajs.isEmpty && (m.trajs ++ m.detTrajs).all (fun t => !t.s.isEmpty)

/-- rebuild one sum of states from its trajectories if it is missing -/
def rebuildSt (first : List R) (need : Bool) (ts : List (Traj R)) (ws : List R) (u : TSum R) : TSum R :=
  if need then redoStates (initSt first true u) ts ws else u

/-- state change of `average_states`: a sum of states that is missing is initialised lazily and *its*
trajectories are reduced into it; a sum that is present is left alone.  `none`: the property returns
None without touching anything. -/
def statesPrep (m : MT R) : Option (MT R) :=
  let needD := needStates m.sumDet
  let needR := needStates m.sumRel
  if (needD || needR) && !(allStates m) then none
  else some (mapSums m (rebuildSt (firstStates m) needD m.detTrajs m.detW)
                       (rebuildSt (firstStates m) needR m.trajs m.relW))

def statesVal (m : MT R) : Option (List R) :=
  match m.sumDet, m.sumRel with
  | some d, some r => some (List.zipWith (fun a b => a + b / (m.num : R)) d.st r.st)
  | none, some r => some (r.st.map (fun b => b / (m.num : R)))
  | some d, none => some d.st
  | none, none => none

/-- `average_states` (one matrix entry over the time list) -/
def readStates (m : MT R) : MT R × Option (List R) :=
  match statesPrep m with
  | none => (m, none)
  | some m' => (m', statesVal m')

inductive FinalPlan (R : Type)
  | none_                      -- return None
  | lastState (v : Option R)   -- return states[-1]
  | sums (m : MT R)            -- use (possibly rebuilt) sums of final states
  | typeError

def availFinal (m : MT R) : Bool :=
  !m.trajs.isEmpty && (m.trajs ++ m.detTrajs).all (fun t => t.f.isSome)

def statesOk (states : Option (List R)) : Bool :=
  match states with | some l => !l.isEmpty | none => false

/-- both sums of final states are re-initialised and every trajectory is reduced again -/
def rebuildFinal (m : MT R) : FinalPlan R :=
  match m.sumDet.map (fun u => redoFinal { u with fs := some 0 } m.detTrajs m.detW),
        m.sumRel.map (fun u => redoFinal { u with fs := some 0 } m.trajs m.relW) with
  | some none, _ => .typeError
  | _, some none => .typeError
  | some (some d), some (some r) => .sums { m with sumDet := some d, sumRel := some r }
  | none, some (some r) => .sums { m with sumRel := some r }
  | some (some d), none => .sums { m with sumDet := some d }
  | none, none => .sums m

/-- decision and state change of `average_final_state`, after `average_states` was evaluated -/
def finalPrep (m : MT R) (states : Option (List R)) : FinalPlan R :=
  let need := needFinal m.sumDet || needFinal m.sumRel
  if need && !(availFinal m || statesOk states) then .none_
  else if need && statesOk states then .lastState (states.bind List.getLast?)
  else if need then rebuildFinal m
  else .sums m

def finalVal (m : MT R) : Option R :=
  match m.sumDet, m.sumRel with
  | some d, some r => (match d.fs, r.fs with | some a, some b => some (a + b / (m.num : R)) | _, _ => none)
  | none, some r => r.fs.map (fun b => b / (m.num : R))
  | some d, none => d.fs
  | none, none => none

/-- `average_final_state` (one matrix entry) -/
def readFinal (m : MT R) : MT R × Except Err (Option R) :=
  let ms := readStates m
  match finalPrep ms.1 ms.2 with
  | .none_ => (ms.1, .ok none)
  | .lastState v => (ms.1, .ok v)
  | .sums m' => (m', .ok (finalVal m'))
  | .typeError => (ms.1, .error .typeError)

/-- `_TrajectorySum.merge` -/
def mergeSum (a : Option (TSum R)) (w1 : R) (b : Option (TSum R)) (w2 : R) : Option (TSum R) :=
  let scale (u : TSum R) (w : R) : TSum R :=
    { s1 := w * u.s1, s2 := w * u.s2, st := u.st.map (fun x => w * x), fs := u.fs.map (fun x => w * x) }
  match a, b with
  | none, none => none
  | none, some v => some (scale v w2)
  | some u, none => some (scale u w1)
  | some u, some v => some
    { s1 := w1 * u.s1 + w2 * v.s1, s2 := w1 * u.s2 + w2 * v.s2,
      st := if !u.st.isEmpty && !v.st.isEmpty then List.zipWith (fun x y => w1 * x + w2 * y) u.st v.st else [],
      fs := match u.fs, v.fs with
        | some x, some y => some (w1 * x + w2 * y)
        | _, _ => none }

/-- Python float division: raises on a zero divisor -/
def pyDiv [DecidableEq R] (a b : R) : Except Err R := if b = 0 then .error .zeroDiv else .ok (a / b)

def andOpt (a b : Option Bool) : Option Bool :=   -- Python `a and b` on None/True/False
  match a with
  | none => none
  | some false => some false
  | some true => b

/-- when exactly one operand kept its trajectories, `merge` first evaluates that operand's lazy
`average_states` / `average_final_state` (which may fill its sums) -/
def mergeOperands (a b : MT R) : MT R × MT R :=
  if (!a.trajs.isEmpty) != (!b.trajs.isEmpty) then
    if !a.trajs.isEmpty then ((readFinal (readStates a).1).1, b)
    else (a, (readFinal (readStates b).1).1)
  else (a, b)

def mergeCore [DecidableEq R] (a b : MT R) (p : Option R) : Except Err (MT R) :=
  let n := a.num + b.num
  match pyDiv (a.num : R) (n : R) with
  | .error e => .error e
  | .ok pEqual =>
    let p := p.getD pEqual
    let both := !a.trajs.isEmpty && !b.trajs.isEmpty
    let o : Opts :=
      { keep := if both then a.o.keep else false,
        storeStates := andOpt a.o.storeStates b.o.storeStates,
        storeFinal := (a.o.storeFinal || a.o.storeStates == some true) &&
                      (b.o.storeFinal || b.o.storeStates == some true),
        hasEops := a.o.hasEops }
    match pyDiv p pEqual, pyDiv (1 - p) (1 - pEqual) with
    | .error e, _ => .error e
    | _, .error e => .error e
    | .ok ra, .ok rb => .ok
      { o := o, p := procsOf o, num := n, seeds := a.seeds ++ b.seeds,
        detW := a.detW.map (fun w => w * p) ++ b.detW.map (fun w => w * (1 - p)),
        relW := a.relW.map (fun w => w * p / pEqual) ++ b.relW.map (fun w => w * (1 - p) / (1 - pEqual)),
        detTrajs := if both then a.detTrajs ++ b.detTrajs else [],
        trajs := if both then a.trajs ++ b.trajs else [],
        hasRuns := (o.keep && o.hasEops) || (a.hasRuns && b.hasRuns),
        runsE := if a.hasRuns && b.hasRuns then a.runsE ++ b.runsE else [],
        sumDet := mergeSum a.sumDet p b.sumDet (1 - p),
        sumRel := mergeSum a.sumRel ra b.sumRel rb }

/-- `MultiTrajResult.merge(other, p)`; `p = none` is the default (equal weight per trajectory).
Returns the (possibly cache-filled) operands too, as the code evaluates their lazy averages. -/
def merge [DecidableEq R] (a b : MT R) (p : Option R) : Except Err (MT R × MT R × MT R) :=
  if a.o.hasEops != b.o.hasEops then .error .valueError
  else
    let ab := mergeOperands a b
    match mergeCore ab.1 ab.2 p with
    | .ok n => .ok (n, ab.1, ab.2)
    | .error e => .error e

/-! ## Several expectation operators given as a dictionary

The running sums of the `e_ops` are kept in a list, in the order of the dictionary's keys; `merge`
combines the lists of the two operands position by position.  `mergeable` is the test `merge` makes
before doing so (since its repair: same keys *in the same order*). -/
section dictops
variable {R : Type} [Add R] [Mul R]

/-- the sums of one operand: key and value, in the order of its dictionary -/
abbrev KeyedSums (R : Type) := List (String × R)

/-- `merge` as implemented: position by position, keys of the first operand -/
def mergeByPosition (w1 w2 : R) (a b : KeyedSums R) : KeyedSums R :=
  List.zipWith (fun x y => (x.1, w1 * x.2 + w2 * y.2)) a b

/-- what the merged result must hold for a key: the mixture of the operands' sums *for that key* -/
def mergeForKey (w1 w2 : R) (a b : KeyedSums R) (k : String) : Option R :=
  match a.find? (·.1 == k), b.find? (·.1 == k) with
  | some x, some y => some (w1 * x.2 + w2 * y.2)
  | _, _ => none

/-- the test before merging, after the repair -/
def mergeable (a b : KeyedSums R) : Bool := a.map (·.1) == b.map (·.1)

/-- the test before the repair: the dictionaries are equal as dictionaries (same set of keys) -/
def mergeableOld (a b : KeyedSums R) : Bool :=
  a.length == b.length && a.all (fun x => b.any (·.1 == x.1))

end dictops

end Qv.C15
