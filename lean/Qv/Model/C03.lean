/-
C03 — tri-state flag caches of `Qobj` (`_isherm`, `_isunitary`: None / True / False) and the rules
by which operations propagate them.  For every operation of the catalogue `maxRule` is the
*strongest sound* claim about the result given the operand caches; a rule used by the code is
acceptable (`ruleAllowed`) iff it never claims more.  The rules actually used by /repo are
regenerated into `Qv/Gen/FlagRules.lean` on every run by behavioural tabulation.
Import-free.
-/
namespace Qv.C03

abbrev Tri := Option Bool

/-- Python `a and b` on None / True / False -/
def pyAnd (a b : Tri) : Tri := if a = some true then b else a
/-- Python `a or b` -/
def pyOr (a b : Tri) : Tri := if a = some true then a else b

def triAll : List Tri := [none, some true, some false]

/-- the catalogue: each entry names an operation *and* the flag it is about -/
inductive Op
  | addH | subH            -- A ± B, Hermitian flag
  | negH | negU            -- −A
  | mulRealH               -- r·A, r real and non-zero, Hermitian flag
  | mulImagH               -- z·A, z not real, Hermitian flag
  | mulUnitU               -- z·A, |z| = 1, unitary flag
  | mulNonUnitU            -- z·A, |z| ≠ 1, unitary flag
  | matmulH | matmulU      -- A·B
  | dagH | dagU | transH | transU | conjH | conjU
  | powH | powU            -- Aⁿ, n ≥ 1
  | pow0H | pow0U          -- A⁰
  | kronH | kronU          -- A ⊗ B
  | invH | invU
  | expmH                  -- exp A, Hermitian flag
  | copyH | copyU          -- copy / change of storage format / permute by a permutation similarity
  | saddRealH              -- ±A + r·1, r real (a number next to a square object), Hermitian flag
  | saddImagH              -- ±A + z·1, z not real, Hermitian flag
deriving DecidableEq, Repr

open Op in
/-- strongest sound claim about the result; the second operand is ignored by unary operations -/
def maxRule : Op → Tri → Tri → Tri
  | addH, some true, some true => some true
  | addH, some true, some false => some false
  | addH, some false, some true => some false
  | addH, _, _ => none
  | subH, some true, some true => some true
  | subH, some true, some false => some false
  | subH, some false, some true => some false
  | subH, _, _ => none
  | negH, a, _ => a
  | negU, a, _ => a
  | mulRealH, a, _ => a
  | mulImagH, _, _ => none
  | mulUnitU, a, _ => a
  | mulNonUnitU, some true, _ => some false
  | mulNonUnitU, _, _ => none
  | matmulH, _, _ => none
  | matmulU, some true, some true => some true
  | matmulU, some true, some false => some false
  | matmulU, some false, some true => some false
  | matmulU, _, _ => none
  | dagH, a, _ => a
  | dagU, a, _ => a
  | transH, a, _ => a
  | transU, a, _ => a
  | conjH, a, _ => a
  | conjU, a, _ => a
  | powH, some true, _ => some true
  | powH, _, _ => none
  | powU, some true, _ => some true
  | powU, _, _ => none
  | pow0H, _, _ => some true
  | pow0U, _, _ => some true
  | kronH, some true, some true => some true
  | kronH, _, _ => none
  | kronU, some true, some true => some true
  | kronU, _, _ => none
  | invH, a, _ => a
  | invU, a, _ => a
  | expmH, some true, _ => some true
  | expmH, _, _ => none
  | copyH, a, _ => a
  | copyU, a, _ => a
  | saddRealH, a, _ => a
  | saddImagH, some true, _ => some false
  | saddImagH, _, _ => none

/-- a propagation rule is acceptable iff every claim it makes is the strongest sound one -/
def ruleAllowed (op : Op) (r : Tri → Tri → Tri) : Bool :=
  triAll.all fun a => triAll.all fun b => r a b == none || r a b == maxRule op a b

/-- the (a, b) combinations on which a rule over-claims -/
def overclaims (op : Op) (r : Tri → Tri → Tri) : List (Tri × Tri × Tri) :=
  (triAll.flatMap fun a => triAll.map fun b => (a, b, r a b)).filter
    fun x => !(x.2.2 == none || x.2.2 == maxRule op x.1 x.2.1)

/-- a rule given as a 3x3 table in the order of `triAll` -/
def tableRule (t : List (List Tri)) : Tri → Tri → Tri := fun a b =>
  let idx : Tri → Nat := fun x => match x with | none => 0 | some true => 1 | some false => 2
  ((t.getD (idx a) []).getD (idx b) none)

end Qv.C03
