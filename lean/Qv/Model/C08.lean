/-
C08 — the index shuffle between the supermatrix and the Choi matrix of a map
(`_super_tofrom_choi`: `reshape([s0, s1, s0, s1]).transpose(3, 1, 2, 0).reshape`), on integer
matrices given by entries, for equal input and output dimension `n` (s0 = s1 = n).
Import-free.
-/
namespace Qv.C08

/-- entry (r, c) of the shuffled matrix: split r = (a, b), c = (c', d) in base n (C order), read the
source at rows (d, b), columns (c', a) -/
def shuffleEntry (n : Nat) (m : Nat → Nat → Int) (r c : Nat) : Int :=
  let a := r / n
  let b := r % n
  let c' := c / n
  let d := c % n
  m (d * n + b) (c' * n + a)

def shuffle (n : Nat) (m : Nat → Nat → Int) : List (List Int) :=
  (List.range (n * n)).map fun r => (List.range (n * n)).map fun c => shuffleEntry n m r c

end Qv.C08
