/-
C10 — the explicit Runge–Kutta stepper of `qutip/solver/integrator/explicit_rk.pyx`
(`_compute_step`, `_accumulate`, `_error`, `_interpolate_step`) for an arbitrary Butcher tableau, over
any state space `V` with scalars `R`; and its stability polynomial.  The tableaux actually registered
(euler, rk4, vern7, vern9 …) are regenerated from /repo into `Qv/Gen/Tableaux.lean` on every run.
Import-free, executable.
-/
namespace Qv.C10

structure Tableau (R : Type) where
  a : List (List R)     -- row i: coefficients of the earlier stages (entries beyond i are ignored)
  b : List R
  c : List R
  e : List R := []      -- error-estimate weights
  bi : List (List R) := []   -- dense-output coefficients, row per stage
  order : Nat := 0

section generic
variable {R V : Type} [Add V] [SMul R V] [Mul R] [Add R]

/-- `_accumulate(target, factors, dt, size)`: target + Σ_i (dt·factors_i)·k_i over the first `size` stages -/
def accumulate (target : V) (factors : List R) (dt : R) (ks : List V) : V :=
  (List.zip factors ks).foldl (fun acc p => acc + (dt * p.1) • p.2) target

/-- the stages k_0, k_1, … of `_compute_step` for `y' = f(t, y)` -/
def stagesAux (f : R → V → V) (t dt : R) (y : V) [OfNat R 0] : List (List R) → List R → List V → List V
  | [], _, ks => ks
  | row :: rest, cs, ks =>
    let yi := accumulate y row dt ks
    stagesAux f t dt y rest cs.tail (ks ++ [f (t + cs.headD 0 * dt) yi])

def stages [OfNat R 0] (tab : Tableau R) (f : R → V → V) (t dt : R) (y : V) : List V :=
  stagesAux f t dt y tab.a tab.c []

/-- `_y_front`: the state after one step -/
def rkStep [OfNat R 0] (tab : Tableau R) (f : R → V → V) (t dt : R) (y : V) : V :=
  accumulate y tab.b dt (stages tab f t dt y)

end generic

/-! ### the stability polynomial: what the step does to `y' = λ y` -/
section poly
variable {R : Type} [Add R] [Mul R] [OfNat R 0] [OfNat R 1]

/-- polynomials in z = dt·λ as coefficient lists, constant term first -/
def padd : List R → List R → List R
  | [], q => q
  | p, [] => p
  | x :: p, y :: q => (x + y) :: padd p q

def psmul (s : R) (p : List R) : List R := p.map (s * ·)
/-- multiplication by z -/
def pshift (p : List R) : List R := 0 :: p
def peval (p : List R) (z : R) : R := p.foldr (fun c acc => c + z * acc) 0

/-- u_i(z) with k_i = λ·y·u_i(z):  u_i = 1 + z·Σ_j a_ij u_j -/
def stagePolysAux : List (List R) → List (List R) → List (List R)
  | [], us => us
  | row :: rest, us =>
    let s := (List.zip row us).foldl (fun acc p => padd acc (psmul p.1 p.2)) []
    stagePolysAux rest (us ++ [padd [1] (pshift s)])

def stagePolys (tab : Tableau R) : List (List R) := stagePolysAux tab.a []

/-- R(z) = 1 + z·Σ_i b_i u_i(z) -/
def stabPoly (tab : Tableau R) : List R :=
  padd [1] (pshift ((List.zip tab.b (stagePolys tab)).foldl (fun acc p => padd acc (psmul p.1 p.2)) []))

end poly

/-- 1/k! for k = 0 … n as rationals, and the largest deviation of the stability polynomial from the
exponential series up to the order of the method -/
def invFactorials (n : Nat) : List Rat :=
  (List.range (n + 1)).map fun k => 1 / ((List.range k).foldl (fun acc i => acc * (i + 1)) 1 : Nat)

def absRat (x : Rat) : Rat := if x < 0 then -x else x

def orderDefect (tab : Tableau Rat) : Rat :=
  ((stabPoly tab).zip (invFactorials tab.order)).foldl (fun acc p => max acc (absRat (p.1 - p.2))) 0

/-- row sums equal the nodes c_i (stage times are consistent) -/
def rowSumDefect (tab : Tableau Rat) : Rat :=
  (tab.a.zip tab.c).foldl (fun acc p => max acc (absRat (p.1.foldl (· + ·) 0 - p.2))) 0

/-- the error-estimate weights sum to zero (a constant derivative gives zero estimated error) -/
def errSumDefect (tab : Tableau Rat) : Rat := absRat (tab.e.foldl (· + ·) 0)

/-- dense output at τ = 1 reproduces the step: Σ_j bi[i][j] = b_i -/
def denseEndDefect (tab : Tableau Rat) : Rat :=
  (tab.bi.zip (tab.b ++ List.replicate tab.bi.length 0)).foldl
    (fun acc p => max acc (absRat (p.1.foldl (· + ·) 0 - p.2))) 0

end Qv.C10
