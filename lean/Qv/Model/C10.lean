/-
C10 — the explicit Runge–Kutta stepper of `qutip/solver/integrator/explicit_rk.pyx`
(`_compute_step`, `_accumulate`, `_error`, `_interpolate_step`) for an arbitrary Butcher tableau, over
any state space `V` with scalars `R`; and its stability polynomial.  The tableaux actually registered
(euler, rk4, vern7, vern9 …) are regenerated from /repo into `Qv/Gen/Tableaux.lean` on every run.
Import-free, executable.
-/
namespace Qv.C10

structure Tableau (R : Type) where
  a : List (List R)     -- row i: coefficients of the earlier stages (entries beyond i are ignored)
  b : List R
  c : List R
  e : List R := []      -- error-estimate weights
  bi : List (List R) := []   -- dense-output coefficients, row per stage
  order : Nat := 0

section generic
variable {R V : Type} [Add V] [SMul R V] [Mul R] [Add R]

/-- `_accumulate(target, factors, dt, size)`: target + Σ_i (dt·factors_i)·k_i over the first `size` stages -/
def accumulate (target : V) (factors : List R) (dt : R) (ks : List V) : V :=
  (List.zip factors ks).foldl (fun acc p => acc + (dt * p.1) • p.2) target

/-- the stages k_0, k_1, … of `_compute_step` for `y' = f(t, y)` -/
def stagesAux (f : R → V → V) (t dt : R) (y : V) [OfNat R 0] : List (List R) → List R → List V → List V
  | [], _, ks => ks
  | row :: rest, cs, ks =>
    let yi := accumulate y row dt ks
    stagesAux f t dt y rest cs.tail (ks ++ [f (t + cs.headD 0 * dt) yi])

def stages [OfNat R 0] (tab : Tableau R) (f : R → V → V) (t dt : R) (y : V) : List V :=
  stagesAux f t dt y tab.a tab.c []

/-- `_y_front`: the state after one step -/
def rkStep [OfNat R 0] (tab : Tableau R) (f : R → V → V) (t dt : R) (y : V) : V :=
  accumulate y tab.b dt (stages tab f t dt y)

end generic

/-! ### the stability polynomial: what the step does to `y' = λ y` -/
section poly
variable {R : Type} [Add R] [Mul R] [OfNat R 0] [OfNat R 1]

/-- polynomials in z = dt·λ as coefficient lists, constant term first -/
def padd : List R → List R → List R
  | [], q => q
  | p, [] => p
  | x :: p, y :: q => (x + y) :: padd p q

def psmul (s : R) (p : List R) : List R := p.map (s * ·)
/-- multiplication by z -/
def pshift (p : List R) : List R := 0 :: p
def peval (p : List R) (z : R) : R := p.foldr (fun c acc => c + z * acc) 0

/-- u_i(z) with k_i = λ·y·u_i(z):  u_i = 1 + z·Σ_j a_ij u_j -/
def stagePolysAux : List (List R) → List (List R) → List (List R)
  | [], us => us
  | row :: rest, us =>
    let s := (List.zip row us).foldl (fun acc p => padd acc (psmul p.1 p.2)) []
    stagePolysAux rest (us ++ [padd [1] (pshift s)])

def stagePolys (tab : Tableau R) : List (List R) := stagePolysAux tab.a []

/-- R(z) = 1 + z·Σ_i b_i u_i(z) -/
def stabPoly (tab : Tableau R) : List R :=
  padd [1] (pshift ((List.zip tab.b (stagePolys tab)).foldl (fun acc p => padd acc (psmul p.1 p.2)) []))

end poly

/-- 1/k! for k = 0 … n as rationals, and the largest deviation of the stability polynomial from the
exponential series up to the order of the method -/
def invFactorials (n : Nat) : List Rat :=
  (List.range (n + 1)).map fun k => 1 / ((List.range k).foldl (fun acc i => acc * (i + 1)) 1 : Nat)

def absRat (x : Rat) : Rat := if x < 0 then -x else x

def orderDefect (tab : Tableau Rat) : Rat :=
  ((stabPoly tab).zip (invFactorials tab.order)).foldl (fun acc p => max acc (absRat (p.1 - p.2))) 0

/-- row sums equal the nodes c_i (stage times are consistent) -/
def rowSumDefect (tab : Tableau Rat) : Rat :=
  (tab.a.zip tab.c).foldl (fun acc p => max acc (absRat (p.1.foldl (· + ·) 0 - p.2))) 0

/-- the error-estimate weights sum to zero (a constant derivative gives zero estimated error) -/
def errSumDefect (tab : Tableau Rat) : Rat := absRat (tab.e.foldl (· + ·) 0)

/-- dense output at τ = 1 reproduces the step: Σ_j bi[i][j] = b_i -/
def denseEndDefect (tab : Tableau Rat) : Rat :=
  (tab.bi.zip (tab.b ++ List.replicate tab.bi.length 0)).foldl
    (fun acc p => max acc (absRat (p.1.foldl (· + ·) 0 - p.2))) 0

/-! ### Butcher's order conditions over all rooted trees

A rooted tree is `•` or the Butcher product `a ∘ b` (the tree `b` with `a` grafted onto its root as one
more child); every plane tree arises this way, so enumerating these terms enumerates every rooted tree
(several times, which is harmless: elementary weight and density do not depend on the order of the
children).  For a tree `t` the method has order `p` iff `Σ_i b_i Φ_i(t) = 1/γ(t)` for every tree with
at most `p` vertices (Butcher 1963; Hairer–Nørsett–Wanner II.2) — for non-autonomous, non-linear
right-hand sides, provided the nodes are the row sums. -/
inductive BTree where
  | leaf : BTree
  | graft : BTree → BTree → BTree
deriving DecidableEq, Repr

namespace BTree
def order : BTree → Nat
  | leaf => 1
  | graft a b => a.order + b.order

/-- the density γ(t) = |t| · Π γ(children): grafting `a` onto `b` multiplies by γ(a) and replaces the
factor |b| by |a| + |b| -/
def gamma : BTree → Rat
  | leaf => 1
  | graft a b => ((a.order + b.order : Nat) : Rat) * a.gamma * b.gamma / (b.order : Nat)
end BTree

def dotRat (u v : List Rat) : Rat := (u.zip v).foldl (fun acc p => acc + p.1 * p.2) 0

/-- A·v for the strictly lower-triangular coefficient rows -/
def applyA (A : List (List Rat)) (v : List Rat) : List Rat := A.map fun row => dotRat row v

/-- elementary weights Φ_i(t), one per stage: Φ_i(•) = 1, Φ_i(a ∘ b) = Φ_i(b) · Σ_j a_ij Φ_j(a) -/
def phi (A : List (List Rat)) : BTree → List Rat
  | .leaf => A.map fun _ => 1
  | .graft a b => List.zipWith (· * ·) (phi A b) (applyA A (phi A a))

def treeResidual (tab : Tableau Rat) (t : BTree) : Rat :=
  absRat (dotRat tab.b (phi tab.a t) - 1 / t.gamma)

/-- a tree with its elementary weights `p = Φ(t)` and `q = A·Φ(t)` (kept so that each Butcher product
costs one pass over the stages) -/
structure WTree where
  t : BTree
  p : List Rat
  q : List Rat

def WTree.mk' (A : List (List Rat)) (t : BTree) (p : List Rat) : WTree := ⟨t, p, applyA A p⟩
def WTree.full (A : List (List Rat)) (t : BTree) : WTree := WTree.mk' A t (phi A t)
def WTree.graft (A : List (List Rat)) (a b : WTree) : WTree :=
  WTree.mk' A (.graft a.t b.t) (List.zipWith (· * ·) b.p a.q)

/-- `treeTable A n = [trees with 1 vertex, …, trees with n vertices]`, every tree (as a Butcher product)
with its weights -/
def treeTable (A : List (List Rat)) : Nat → List (List WTree)
  | 0 => []
  | n + 1 =>
    let T := treeTable A n
    T ++ [(if n = 0 then [WTree.full A .leaf] else []) ++
      (List.range n).flatMap fun k =>
        (T.getD k []).flatMap fun a => (T.getD (n - 1 - k) []).map fun b => WTree.graft A a b]

def wResidual (tab : Tableau Rat) (w : WTree) : Rat := absRat (dotRat tab.b w.p - 1 / w.t.gamma)

/-- the largest residual `|Σ_i b_i Φ_i(t) − 1/γ(t)|` over every tree with exactly `n` vertices -/
def treeDefectAt (tab : Tableau Rat) (n : Nat) : Rat :=
  ((treeTable tab.a n).getD (n - 1) []).foldl (fun acc w => max acc (wResidual tab w)) 0

/-- the tableau is well formed: one row of `a` and one node per weight, row `i` has at most `i` entries -/
def shapeOk (tab : Tableau Rat) : Bool :=
  tab.a.length == tab.b.length && tab.c.length == tab.b.length &&
  (tab.a.zipIdx.all fun p => p.1.length ≤ p.2)

/-! ## Krylov integrator: when is the projected evolution exact? (`integrator/krylov.py`)

`_lanczos_algorithm` builds Krylov vectors until it has `krylov_dim + 1` of them or the next candidate
has a norm not above `sub_system_tol` (the Krylov space has closed: it is invariant under `H` and the
projected evolution is exact — "happy breakdown").  `small j` stands for `T_subdiag[j] ≤ tol`. -/

/-- the loop `while j < krylov_dim and T_subdiag[j] > tol: j += 1`, started at `j`, with fuel -/
def lanczosLoop (small : Nat → Bool) (kd : Nat) : Nat → Nat → Nat
  | 0, j => j
  | fuel + 1, j => if j < kd && !small j then lanczosLoop small kd fuel (j + 1) else j

/-- number of Krylov vectors built (`krylov_tridiag.shape[0]`) -/
def lanczosCount (small : Nat → Bool) (kd : Nat) : Nat := lanczosLoop small kd kd 0 + 1

/-- `set_state` (and, since the repair, `_prepare`): no step bound is needed when the recursion
stopped early or the Krylov space is the whole space -/
def stepUnbounded (small : Nat → Bool) (kd N : Nat) : Bool :=
  lanczosCount small kd ≤ kd || lanczosCount small kd == N

/-- `_prepare` before the repair: a recursion that stopped with exactly `krylov_dim` vectors was
taken for a full one -/
def stepUnboundedOld (small : Nat → Bool) (kd N : Nat) : Bool :=
  lanczosCount small kd < kd || lanczosCount small kd == N

end Qv.C10
