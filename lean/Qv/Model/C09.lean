/-
C09 — index arithmetic behind the tensor-structure operations:
`ptrace.pyx` (`_populate_tensor_table`, `_i2_k_t`, the accumulation loop of `ptrace_*`) and
`permute.pyx` (`_Indexer`: new dimensions, `cumprod`, `single` with its early exit, `all`).
Matrices are functions / integer arrays; the driver evaluates the same loops on integer matrices.
Import-free.
-/
namespace Qv.C09

/-- product of the dimensions -/
def size : List Nat → Nat
  | [] => 1
  | d :: ds => d * size ds

/-- mixed-radix digits of `n`, most significant subsystem first (row-major tensor index) -/
def digits : List Nat → Nat → List Nat
  | [], _ => []
  | _ :: ds, n => n / size ds :: digits ds (n % size ds)

def encode : List Nat → List Nat → Nat
  | _ :: ds, g :: gs => g * size ds + encode ds gs
  | _, _ => 0

/-! ### partial trace -/

/-- `_populate_tensor_table`: one row (factor_tensor, factor_keep, factor_trace) per subsystem, filled
from the last subsystem backwards; untouched entries stay 0.  Returns the rows and the three running
products.  `p` is the position of the head of `dims`. -/
def table (sel : List Nat) : Nat → List Nat → List (Nat × Nat × Nat) × Nat × Nat × Nat
  | _, [] => ([], 1, 1, 1)
  | p, d :: ds =>
    let r := table sel (p + 1) ds
    if sel.contains p then ((r.2.1, r.2.2.1, 0) :: r.1, r.2.1 * d, r.2.2.1 * d, r.2.2.2)
    else ((r.2.1, 0, r.2.2.2) :: r.1, r.2.1 * d, r.2.2.1, r.2.2.2 * d)

/-- `_i2_k_t`: split a tensor index into (index among kept subsystems, index among traced ones) -/
def i2kt (rows : List (Nat × Nat × Nat)) (n : Nat) : Nat × Nat :=
  let r := rows.foldl (fun (acc : Nat × Nat × Nat) (row : Nat × Nat × Nat) =>
    let t2 := acc.1 / row.1
    (acc.1 % row.1, acc.2.1 + row.2.1 * t2, acc.2.2 + row.2.2 * t2)) (n, 0, 0)
  (r.2.1, r.2.2)

/-- product of the kept dimensions from position `p` on -/
def keepSize (sel : List Nat) : Nat → List Nat → Nat
  | _, [] => 1
  | p, d :: ds => (if sel.contains p then d else 1) * keepSize sel (p + 1) ds

def traceSize (sel : List Nat) : Nat → List Nat → Nat
  | _, [] => 1
  | p, d :: ds => (if sel.contains p then 1 else d) * traceSize sel (p + 1) ds

/-- specification of the split, by recursion on the subsystems -/
def kt (sel : List Nat) : Nat → List Nat → Nat → Nat × Nat
  | _, [], _ => (0, 0)
  | p, _ :: ds, n =>
    let g := n / size ds
    let r := kt sel (p + 1) ds (n % size ds)
    if sel.contains p then (g * keepSize sel (p + 1) ds + r.1, r.2)
    else (r.1, g * traceSize sel (p + 1) ds + r.2)

/-- inverse of the split -/
def ktInv (sel : List Nat) : Nat → List Nat → Nat → Nat → Nat
  | _, [], _, _ => 0
  | p, _ :: ds, k, t =>
    if sel.contains p then
      (k / keepSize sel (p + 1) ds) * size ds + ktInv sel (p + 1) ds (k % keepSize sel (p + 1) ds) t
    else
      (t / traceSize sel (p + 1) ds) * size ds + ktInv sel (p + 1) ds k (t % traceSize sel (p + 1) ds)

/-- the accumulation loop of `ptrace_dense` / `ptrace_csr` on an integer matrix given by entries:
`out[k, k'] += M[r, c]` whenever the traced parts of `r` and `c` agree -/
def ptrace (dims sel : List Nat) (m : Nat → Nat → Int) : List (List Int) :=
  let tb := (table sel 0 dims).1
  let n := size dims
  let ks := keepSize sel 0 dims
  let sp := ((List.range n).map (i2kt tb)).toArray
  let zero : Array (Array Int) := Array.replicate ks (Array.replicate ks 0)
  let out := (List.range n).foldl (fun (acc : Array (Array Int)) r =>
    (List.range n).foldl (fun (acc : Array (Array Int)) c =>
      let pr := sp.getD r (0, 0)
      let pc := sp.getD c (0, 0)
      if pr.2 = pc.2 then
        acc.modify pr.1 (fun row => row.modify pc.1 (fun x => x + m r c))
      else acc) acc) zero
  out.toList.map Array.toList

/-! ### permutation of subsystems (`_Indexer`) -/

/-- `new_dimensions[i] = dimensions[order[i]]` -/
def newDims (dims order : List Nat) : List Nat := order.map (fun o => dims.getD o 1)

/-- `cumprod`, indexed by the *old* position: `cumprod[order[i]] = Π_{l>i} new_dimensions[l]` -/
def cumprod (dims order : List Nat) : List Nat :=
  let nd := newDims dims order
  (List.range dims.length).map fun old =>
    match order.idxOf? old with
    | some i => size (nd.drop (i + 1))
    | none => 0

/-- `_Indexer.single`: loop from the last subsystem, with the early exit once `idx` is exhausted -/
def single (dims cp : List Nat) (idx : Nat) : Nat :=
  let rec go : List (Nat × Nat) → Nat → Nat → Nat
    | [], _, out => out
    | (d, c) :: rest, idx, out =>
      let out := out + c * (idx % d)
      let idx := idx / d
      if idx = 0 then out else go rest idx out
  go (dims.zip cp).reverse idx 0

/-- specification: the digits are re-read in the new order and re-encoded with the new dimensions -/
def singleSpec (dims order : List Nat) (idx : Nat) : Nat :=
  let dg := digits dims idx
  encode (newDims dims order) (order.map (fun o => dg.getD o 0))

/-- `permute.dimensions` applied to an integer matrix: `out[single r, single c] = M[r, c]` -/
def permuteMat (dims order : List Nat) (m : Nat → Nat → Int) : List (List Int) :=
  let cp := cumprod dims order
  let n := size dims
  let idx := (List.range n).map (single dims cp)
  (List.range n).map fun r' => (List.range n).map fun c' =>
    match idx.idxOf? r', idx.idxOf? c' with
    | some r, some c => m r c
    | _, _ => 0

end Qv.C09
