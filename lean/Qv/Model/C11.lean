/-
C11 — model of `qutip/solver/propagator.py` (`Propagator`: memo of propagators, live integrator,
eviction) and of the run/step protocol of `Solver` over an integrator with an exact flow.

Evolution operators live in an arbitrary algebra `F` with composition, inverse, identity and a
two-parameter family `phi b a` ("evolve from time a to time b").  The theorems assume the flow
laws; the driver instantiates `F` with exact 2x2 integer matrices.  Times are integers (the memo
matches times exactly; the tolerance of the code is a parameter outside this model).
Import-free.
-/
namespace Qv.C11

structure Alg (F : Type) where
  comp : F → F → F          -- comp x y : first y, then x   (matrix product x @ y)
  inv : F → F
  one : F
  phi : Int → Int → F       -- phi b a : evolution from time a to time b

/-- the solver the propagator drives: current time and current state -/
structure Sol (F : Type) where
  tl : Int
  x : F

structure Prop_ (F : Type) where
  times : List Int
  props : List F
  sol : Sol F
  cte : Bool
  memoize : Nat

variable {F : Type}

def Sol.start (u : F) (t : Int) : Sol F := ⟨t, u⟩
def Sol.step (A : Alg F) (s : Sol F) (t : Int) : Sol F := ⟨t, A.comp (A.phi t s.tl) s.x⟩

def init (A : Alg F) (cte : Bool) (memoize : Nat) : Prop_ F :=
  { times := [0], props := [A.one], sol := ⟨0, A.one⟩, cte := cte, memoize := max 3 memoize }

/-- `np.searchsorted(times, t)` (side = left) on a sorted list -/
def searchsorted (times : List Int) (t : Int) : Nat := (times.filter (· < t)).length

/-- Python indexing `l[i-1]` : index −1 is the last element -/
def pyPrev (l : List Int) (idx : Nat) (d : Int) : Int :=
  if idx = 0 then l.getLast?.getD d else l.getD (idx - 1) d

/-- `_compute(t, idx)`: returns the new solver state and the propagator -/
def compute (A : Alg F) (p : Prop_ F) (t : Int) (idx : Nat) : Sol F × F :=
  let tLast := p.sol.tl
  if pyPrev p.times idx 0 ≤ tLast ∧ tLast ≤ t then
    let s := p.sol.step A t
    (s, s.x)
  else if 0 < idx then
    let s := (Sol.start (p.props.getD (idx - 1) A.one) (p.times.getD (idx - 1) 0)).step A t
    (s, s.x)
  else
    -- backward: evolve the identity from t to the first memoised time, invert, and continue
    -- from the propagator memoised there
    let s := (Sol.start A.one t).step A (p.times.getD idx 0)
    let u := A.comp (A.inv s.x) (p.props.getD idx A.one)
    (Sol.start u t, u)

/-- the eviction loop of `_insert` (fuel = current length) -/
def evict (memoize : Nat) (t : Int) : Nat → List Int → List F → Nat → List Int × List F × Nat
  | 0, times, props, idx => (times, props, idx)
  | fuel + 1, times, props, idx =>
    if memoize ≤ times.length then
      let rm := memoize / 2
      let idx := if times.getD rm 0 < t then idx - 1 else idx
      evict memoize t fuel (times.eraseIdx rm) (props.eraseIdx rm) idx
    else (times, props, idx)

def insertAt {α : Type} (l : List α) (i : Nat) (a : α) : List α := l.take i ++ a :: l.drop i

def insert (p : Prop_ F) (t : Int) (u : F) (idx : Nat) : Prop_ F :=
  let (times, props, idx) := evict p.memoize t p.times.length p.times p.props idx
  { p with times := insertAt times idx t, props := insertAt props idx u }

/-- `_lookup_or_compute(t)` -/
def lookup (A : Alg F) (p : Prop_ F) (t : Int) : Prop_ F × F :=
  let idx := searchsorted p.times t
  if idx < p.times.length ∧ p.times.getD idx 0 = t then (p, p.props.getD idx A.one)
  else if 0 < idx ∧ p.times.getD (idx - 1) 0 = t then (p, p.props.getD (idx - 1) A.one)
  else
    let (s, u) := compute A p t idx
    (insert { p with sol := s } t u idx, u)

/-- `__call__` with a non-zero `t_start`, after the `t == t_start` pre-lookup -/
def callFrom (A : Alg F) (p : Prop_ F) (t tStart : Int) : Prop_ F × F :=
  if p.cte then lookup A p (t - tStart)
  else
    let r1 := lookup A p tStart
    let r2 := lookup A r1.1 t
    (r2.1, A.comp r2.2 (A.inv r1.2))

/-- `Propagator.__call__(t, t_start)` -/
def call (A : Alg F) (p : Prop_ F) (t tStart : Int) : Prop_ F × F :=
  if tStart ≠ 0 then
    callFrom A (if t = tStart then (lookup A p 0).1 else p) t tStart
  else lookup A p t

/-- a sequence of queries; returns the answers -/
def calls (A : Alg F) (p : Prop_ F) : List (Int × Int) → Prop_ F × List F
  | [] => (p, [])
  | (t, s) :: qs =>
    let (p, u) := call A p t s
    let (p, us) := calls A p qs
    (p, u :: us)

/-! ### argument updates: `U(t, t_start, **args)` -/

/-- a propagator object together with the arguments in force (`none` = those given at construction) -/
structure PropW (F : Type) where
  p : Prop_ F
  w : Option Nat

/-- the reset done when new arguments arrive for a time-dependent system -/
def resetW (As : Option Nat → Alg F) (q : PropW F) (w' : Nat) : PropW F :=
  { p := { q.p with times := [0], props := [(As (some w')).one], sol := ⟨0, (As (some w')).one⟩ },
    w := some w' }

/-- argument handling at the start of `__call__`: for a time-dependent system new arguments reset
the memo and the solver; a constant system ignores them. -/
def applyW (As : Option Nat → Alg F) (q : PropW F) (w : Option Nat) : PropW F :=
  match w with
  | some w' => if !q.p.cte && q.w != some w' then resetW As q w' else q
  | none => q

/-- the evolution in force for an object -/
def algOf (As : Option Nat → Alg F) (q : PropW F) : Alg F := As (if q.p.cte then none else q.w)

/-- `__call__` with keyword arguments.  `As w` is the evolution under arguments `w`. -/
def callW (As : Option Nat → Alg F) (q : PropW F) (t tStart : Int) (w : Option Nat) : PropW F × F :=
  let q1 := applyW As q w
  let r := call (algOf As q1) q1.p t tStart
  ({ q1 with p := r.1 }, r.2)

def callsW (As : Option Nat → Alg F) (q : PropW F) : List (Int × Int × Option Nat) → PropW F × List F
  | [] => (q, [])
  | (t, s, w) :: qs =>
    let r := callW As q t s w
    let rs := callsW As r.1 qs
    (rs.1, r.2 :: rs.2)

/-! ### exact 2x2 integer matrices: the algebra used by the driver -/

structure M2 where
  a : Int
  b : Int
  c : Int
  d : Int
deriving DecidableEq, Repr

def M2.mul (x y : M2) : M2 :=
  ⟨x.a * y.a + x.b * y.c, x.a * y.b + x.b * y.d, x.c * y.a + x.d * y.c, x.c * y.b + x.d * y.d⟩
def M2.one : M2 := ⟨1, 0, 0, 1⟩
/-- inverse of a determinant-one matrix -/
def M2.inv (x : M2) : M2 := ⟨x.d, -x.b, -x.c, x.a⟩

/-- generator of the k-th unit time step (constant: one shear, so that entries grow linearly and the
float inverse the real Propagator takes stays exact to rounding; time dependent: alternates two
non-commuting shears) -/
def gen (cte : Bool) (w : Nat) (k : Int) : M2 :=
  if cte then ⟨1, 1, 0, 1⟩ else if k % 2 = 0 then ⟨1, (w : Int) + 1, 0, 1⟩ else ⟨1, 0, 1, 1⟩

/-- G(t) = g_t ⋯ g_1 for t ≥ 0 and g_{t+1}⁻¹ ⋯ g_0⁻¹ for t < 0 -/
def bigG (cte : Bool) (w : Nat) (t : Int) : M2 :=
  if 0 ≤ t then (List.range t.toNat).foldl (fun acc (k : Nat) => (gen cte w ((k : Int) + 1)).mul acc) M2.one
  else (List.range (-t).toNat).foldl (fun acc (k : Nat) => (gen cte w (-(k : Int))).inv.mul acc) M2.one

/-- the evolution under arguments `w` (`none`: the arguments given at construction = 0) -/
def m2Alg (cte : Bool) (w : Option Nat := none) : Alg M2 :=
  { comp := M2.mul, inv := M2.inv, one := M2.one,
    phi := fun b a => (bigG cte (w.getD 0) b).mul (bigG cte (w.getD 0) a).inv }

/-! ### the options of a solver object (`Solver.options` setter, `_parse_options`, `_SolverOptions.__setitem__`)

A solver has solver-level options (`S`) and the options of its integration method (`I m`), each with defaults.  The
options object always holds exactly the keys of `S` and of `I method`. -/
section options
variable {K W M : Type} [DecidableEq K] [DecidableEq W] [DecidableEq M]

structure OptSpec (K W M : Type) where
  S : K → Bool                 -- solver-level keys (other than "method")
  I : M → K → Bool             -- keys of the integrator of a method
  dS : K → W                   -- defaults
  dI : M → K → W

structure OptState (K W M : Type) where
  method : M
  vals : K → Option W          -- `some` exactly on the keys of S and I method

/-- a dictionary handed to the setter: for each key absent / `None` (= the default) / a value; `method` apart -/
structure NewOpts (K W M : Type) where
  method : Option M
  opts : K → Option (Option W)
  keys : List K                -- the keys present (for the check of unsupported keys)

/-- `_parse_options(new, default, old)`: the items whose key is in `default`, `None` replaced by the default, items
equal to the old value removed; and the items whose key is not in `default` -/
def parseOptions (new : K → Option (Option W)) (inDefault : K → Bool) (dflt : K → W) (old : K → Option W) :
    (K → Option W) × (K → Option (Option W)) :=
  (fun k => if inDefault k then
      (match new k with
       | none => none
       | some v => let w := v.getD (dflt k); if old k = some w then none else some w)
    else none,
   fun k => if inDefault k then none else new k)

/-- the value the `options` setter leaves under key `k` (`{**defaults, **old_options, **new_solver_options,
**new_ode_options}`), following the two calls of `_parse_options` -/
def optAt (sp : OptSpec K W M) (st : OptState K W M) (new : NewOpts K W M) (k : K) : Option W :=
  let (newSolver, newOdeRaw) := parseOptions new.opts sp.S sp.dS st.vals
  let m' := new.method.getD st.method
  let oldOde : K → Option W := if m' = st.method then st.vals else fun _ => none
  let oldOptions : K → Option W := if m' = st.method then st.vals else fun k => if sp.S k then st.vals k else none
  let (newOde, _) := parseOptions newOdeRaw (sp.I m') (sp.dI m') oldOde
  match newOde k with
  | some w => some w
  | none => match newSolver k with
    | some w => some w
    | none => match oldOptions k with
      | some w => some w
      | none => if sp.S k then some (sp.dS k) else if sp.I m' k then some (sp.dI m' k) else none

/-- the keys the setter refuses: known neither to the solver nor to the integrator of the method in force afterwards -/
def optExtra (sp : OptSpec K W M) (st : OptState K W M) (new : NewOpts K W M) (k : K) : Bool :=
  let m' := new.method.getD st.method
  let (_, newOdeRaw) := parseOptions new.opts sp.S sp.dS st.vals
  let (_, extra) := parseOptions newOdeRaw (sp.I m') (sp.dI m') (fun _ => none)
  (extra k).isSome

/-- the `options` setter; `none` = KeyError -/
def setOptions (sp : OptSpec K W M) (st : OptState K W M) (new : NewOpts K W M) : Option (OptState K W M) :=
  if new.keys.any (optExtra sp st new) then none
  else some { method := new.method.getD st.method, vals := optAt sp st new }

/-- `solver.options[key] = value` for a key other than "method"; `none` = KeyError -/
def setItem (sp : OptSpec K W M) (st : OptState K W M) (k : K) (v : Option W) : Option (OptState K W M) :=
  if sp.S k then some { st with vals := fun k' => if k' = k then some (v.getD (sp.dS k)) else st.vals k' }
  else if sp.I st.method k then some { st with vals := fun k' => if k' = k then some (v.getD (sp.dI st.method k)) else st.vals k' }
  else none

/-- `solver.options["method"] = m`: the options of the old integrator are dropped -/
def setMethod (sp : OptSpec K W M) (st : OptState K W M) (m : M) : OptState K W M :=
  if m = st.method then st
  else { method := m, vals := fun k => if sp.S k then st.vals k else if sp.I m k then some (sp.dI m k) else none }

/-- the state of a solver built with its defaults -/
def OptState.default (sp : OptSpec K W M) (m : M) : OptState K W M :=
  { method := m, vals := fun k => if sp.S k then some (sp.dS k) else if sp.I m k then some (sp.dI m k) else none }
end options

end Qv.C11
