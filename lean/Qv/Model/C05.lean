/-
C05 — model of the element algebra behind `QobjEvo` (`qutip/core/cy/_element.pyx`,
`qutip/core/cy/qobjevo.pyx`): the five element kinds with exactly the code's fields (Qobj,
coefficient, transform stack, conjugation flag), their `__mul__`, `__matmul__` dispatch and
`linear_map`, and `QobjEvo` as a list of elements with `+`, scalar `*`, `@`, `dag/trans/conj`.
Generic over the number type `R` and the operator type `M` through an explicit record of
operations (the driver uses exact Gaussian-integer 2x2 matrices, the theorems Mathlib matrices).
Import-free.
-/
namespace Qv.C05

structure Alg (R M : Type) where
  add : M → M → M
  mul : M → M → M            -- matrix product
  smul : R → M → M
  zero : M
  dag : M → M
  trans : M → M
  conjM : M → M
  rmul : R → R → R
  rone : R
  star : R → R

/-- the maps `QobjEvo.dag / trans / conj` hand to `linear_map` -/
inductive Tr | dag | trans | conj
deriving DecidableEq, Repr

def Tr.anti : Tr → Bool
  | .dag => true | .trans => false | .conj => true

variable {R M : Type}

def Tr.ap (A : Alg R M) : Tr → M → M
  | .dag => A.dag | .trans => A.trans | .conj => A.conjM

inductive Elem (R M : Type)
  | const (q : M)                                        -- _ConstantElement
  | evo (q : M) (c : Int → R)                            -- _EvoElement (Qobj, Coefficient)
  | func (f : Int → M)                                   -- _FuncElement
  | map (f : Int → M) (tr : List Tr) (coeff : R)         -- _MapElement(base, transform, coeff)
  | prod (l r : Elem R M) (tr : List Tr) (cj : Bool)     -- _ProdElement(left, right, transform, conj)

def Elem.qobj (A : Alg R M) (t : Int) : Elem R M → M
  | .const q => q
  | .evo q _ => q
  | .func f => f t
  | .map f tr _ => tr.foldl (fun x g => g.ap A x) (f t)
  | .prod l r tr _ => tr.foldl (fun x g => g.ap A x) (A.mul (l.qobj A t) (r.qobj A t))

def Elem.coeff (A : Alg R M) (t : Int) : Elem R M → R
  | .const _ => A.rone
  | .evo _ c => c t
  | .func _ => A.rone
  | .map _ _ c => c
  | .prod l r _ cj =>
    let o := A.rmul (l.coeff A t) (r.coeff A t)
    if cj then A.star o else o

/-- the operator an element contributes at time `t` -/
def Elem.value (A : Alg R M) (t : Int) (e : Elem R M) : M := A.smul (e.coeff A t) (e.qobj A t)

/-- `element * number` -/
def Elem.mulScalar (A : Alg R M) (z : R) : Elem R M → Elem R M
  | .const q => .const (A.smul z q)
  | .evo q c => .evo (A.smul z q) c
  | .func f => .map f [] z
  | .map f tr c => .map f tr (A.rmul c z)
  | .prod l r tr cj => .prod l (r.mulScalar A (if cj then A.star z else z)) tr cj

/-- `left @ right` with the dispatch of the element classes -/
def Elem.matmul (A : Alg R M) : Elem R M → Elem R M → Elem R M
  | .const p, .const q => .const (A.mul p q)
  | .const p, .evo q c => .evo (A.mul p q) c
  | .evo p c, .const q => .evo (A.mul p q) c
  | .evo p c, .evo q d => .evo (A.mul p q) (fun t => A.rmul (c t) (d t))
  | l, r => .prod l r [] false

/-- `element.linear_map(f, anti)` for f in dag / trans / conj -/
def Elem.linearMap (A : Alg R M) (g : Tr) : Elem R M → Elem R M
  | .const q => .const (g.ap A q)
  | .evo q c => .evo (g.ap A q) (if g.anti then fun t => A.star (c t) else c)
  | .func f => .map f [g] A.rone
  | .map f tr c => .map f (tr ++ [g]) (if g.anti then A.star c else c)
  | .prod l r tr cj => .prod l r (tr ++ [g]) (cj != g.anti)

/-- a `QobjEvo`: the list of its elements -/
abbrev QEvo (R M : Type) := List (Elem R M)

def QEvo.eval (A : Alg R M) (t : Int) (q : QEvo R M) : M :=
  q.foldl (fun acc e => A.add acc (e.value A t)) A.zero

def QEvo.add (x y : QEvo R M) : QEvo R M := x ++ y
def QEvo.mulScalar (A : Alg R M) (z : R) (x : QEvo R M) : QEvo R M := x.map (Elem.mulScalar A z)
def QEvo.matmul (A : Alg R M) (x y : QEvo R M) : QEvo R M :=
  x.flatMap fun l => y.map fun r => Elem.matmul A l r
def QEvo.linearMap (A : Alg R M) (g : Tr) (x : QEvo R M) : QEvo R M := x.map (Elem.linearMap A g)
/-- `qevo * coefficient`: every element `@ _EvoElement(identity, coeff)` -/
def QEvo.mulCoeff (A : Alg R M) (one : M) (c : Int → R) (x : QEvo R M) : QEvo R M :=
  x.map fun e => Elem.matmul A e (.evo one c)

/-- expression trees over the offered constructions and algebra -/
inductive Expr (R M : Type)
  | leaf (q : QEvo R M)
  | add (x y : Expr R M)
  | sub (x y : Expr R M)
  | neg (x : Expr R M)
  | smul (z : R) (x : Expr R M)
  | mul (x y : Expr R M)
  | tr (g : Tr) (x : Expr R M)

def Expr.build (A : Alg R M) (mone : R) : Expr R M → QEvo R M
  | .leaf q => q
  | .add x y => (x.build A mone).add (y.build A mone)
  | .sub x y => (x.build A mone).add ((y.build A mone).mulScalar A mone)
  | .neg x => (x.build A mone).mulScalar A mone
  | .smul z x => (x.build A mone).mulScalar A z
  | .mul x y => QEvo.matmul A (x.build A mone) (y.build A mone)
  | .tr g x => (x.build A mone).linearMap A g

/-! ### exact instance used by the driver: 2x2 matrices of Gaussian integers -/

structure GI where
  re : Int
  im : Int
deriving DecidableEq, Repr

def GI.add (a b : GI) : GI := ⟨a.re + b.re, a.im + b.im⟩
def GI.mul (a b : GI) : GI := ⟨a.re * b.re - a.im * b.im, a.re * b.im + a.im * b.re⟩
def GI.conj (a : GI) : GI := ⟨a.re, -a.im⟩

structure GM2 where
  a : GI
  b : GI
  c : GI
  d : GI
deriving DecidableEq, Repr

def GM2.mul (x y : GM2) : GM2 :=
  ⟨(x.a.mul y.a).add (x.b.mul y.c), (x.a.mul y.b).add (x.b.mul y.d),
   (x.c.mul y.a).add (x.d.mul y.c), (x.c.mul y.b).add (x.d.mul y.d)⟩

def giAlg : Alg GI GM2 :=
  { add := fun x y => ⟨x.a.add y.a, x.b.add y.b, x.c.add y.c, x.d.add y.d⟩,
    mul := GM2.mul,
    smul := fun z x => ⟨z.mul x.a, z.mul x.b, z.mul x.c, z.mul x.d⟩,
    zero := ⟨⟨0, 0⟩, ⟨0, 0⟩, ⟨0, 0⟩, ⟨0, 0⟩⟩,
    dag := fun x => ⟨x.a.conj, x.c.conj, x.b.conj, x.d.conj⟩,
    trans := fun x => ⟨x.a, x.c, x.b, x.d⟩,
    conjM := fun x => ⟨x.a.conj, x.b.conj, x.c.conj, x.d.conj⟩,
    rmul := GI.mul, rone := ⟨1, 0⟩, star := GI.conj }

end Qv.C05
