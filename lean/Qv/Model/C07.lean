/-
C07 — executable formulas of the superoperator constructors in `qutip/core/superoperator.py`
on dense matrices of Gaussian integers (column-stacking convention):
  spre(A) = 1 ⊗ A,  spost(A) = Aᵀ ⊗ 1,  sprepost(A, B) = Bᵀ ⊗ A,
  liouvillian(H, cs) = -i (spre H - spost H) + Σ_c (conj(c) ⊗ c - ½ spre(c†c) - ½ spost(c†c))
(doubled, to stay in the integers: the driver returns 2·L).  Import-free.
-/
namespace Qv.C07

structure GI where
  re : Int
  im : Int
deriving DecidableEq, Repr

namespace GI
def add (a b : GI) : GI := ⟨a.re + b.re, a.im + b.im⟩
def sub (a b : GI) : GI := ⟨a.re - b.re, a.im - b.im⟩
def mul (a b : GI) : GI := ⟨a.re * b.re - a.im * b.im, a.re * b.im + a.im * b.re⟩
def conj (a : GI) : GI := ⟨a.re, -a.im⟩
def zero : GI := ⟨0, 0⟩
def one : GI := ⟨1, 0⟩
end GI

/-- dense matrix: list of rows -/
abbrev Mat := List (List GI)

def Mat.get (m : Mat) (i j : Nat) : GI := (m.getD i []).getD j GI.zero
def Mat.rows (m : Mat) : Nat := m.length
def Mat.cols (m : Mat) : Nat := (m.getD 0 []).length

def mk (r c : Nat) (f : Nat → Nat → GI) : Mat :=
  (List.range r).map fun i => (List.range c).map fun j => f i j

def ident (n : Nat) : Mat := mk n n fun i j => if i = j then GI.one else GI.zero
def transpose (m : Mat) : Mat := mk m.cols m.rows fun i j => m.get j i
def conjM (m : Mat) : Mat := mk m.rows m.cols fun i j => (m.get i j).conj
def dag (m : Mat) : Mat := transpose (conjM m)
def addM (a b : Mat) : Mat := mk a.rows a.cols fun i j => (a.get i j).add (b.get i j)
def subM (a b : Mat) : Mat := mk a.rows a.cols fun i j => (a.get i j).sub (b.get i j)
def smul (z : GI) (a : Mat) : Mat := mk a.rows a.cols fun i j => z.mul (a.get i j)
def mulM (a b : Mat) : Mat :=
  mk a.rows b.cols fun i j => (List.range a.cols).foldl (fun acc k => acc.add ((a.get i k).mul (b.get k j))) GI.zero

/-- Kronecker product `a ⊗ b` (block (i,j) of the result is a[i,j]·b) -/
def kron (a b : Mat) : Mat :=
  mk (a.rows * b.rows) (a.cols * b.cols) fun i j =>
    (a.get (i / b.rows) (j / b.cols)).mul (b.get (i % b.rows) (j % b.cols))

def spre (a : Mat) : Mat := kron (ident a.rows) a
def spost (a : Mat) : Mat := kron (transpose a) (ident a.rows)
def sprepost (a b : Mat) : Mat := kron (transpose b) a

/-- column stacking `operator_to_vector` and its inverse -/
def vec (x : Mat) : List GI := (List.range x.cols).flatMap fun j => (List.range x.rows).map fun i => x.get i j
def unvec (n : Nat) (v : List GI) : Mat := mk n n fun i j => v.getD (j * n + i) GI.zero

/-- 2 × Lindblad dissipator of `c` -/
def dissipator2 (c : Mat) : Mat :=
  let cdc := mulM (dag c) c
  subM (subM (smul ⟨2, 0⟩ (kron (conjM c) c)) (spre cdc)) (spost cdc)

/-- 2 × `lindblad_dissipator(a, b, chi)` with the jump term multiplied by `z = e^{iχ}`:
z·(conj(b) ⊗ a) − ½ spre(a† b)… written as in the source: `sprepost(a, b†)·z − ½ spre(ad_b) − ½ spost(ad_b)`, `ad_b = a† b` -/
def dissipatorChi2 (z : GI) (a b : Mat) : Mat :=
  let adb := mulM (dag a) b
  subM (subM (smul (z.mul ⟨2, 0⟩) (sprepost a (dag b))) (spre adb)) (spost adb)

/-- 2 × liouvillian(H, c_ops) -/
def liouvillian2 (h : Mat) (cs : List Mat) : Mat :=
  let comm := smul ⟨0, -2⟩ (subM (spre h) (spost h))
  cs.foldl (fun acc c => addM acc (dissipator2 c)) comm

def mulVec (m : Mat) (v : List GI) : List GI :=
  (List.range m.rows).map fun i => (List.range m.cols).foldl (fun acc k => acc.add ((m.get i k).mul (v.getD k GI.zero))) GI.zero

end Qv.C07
