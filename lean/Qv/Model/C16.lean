/-
C16 — the jump logic of `qutip/solver/mcsolve.py` `MCIntegrator`: the search for the collapse time
(`_find_collapse_time`) over an abstract squared-norm function of the no-jump evolution, the choice of
the collapse channel (`_do_collapse`: `np.searchsorted(np.cumsum(rates), total·u)`), the order in
which random numbers are consumed, and the weights of improved sampling.  The interpolation formula
for the next guess (logarithms, floating point) is *not* modelled: the guesses are an input, and the
theorems hold for every sequence of guesses inside the bracket.  Import-free, executable.
-/
namespace Qv.C16

variable {R : Type} [LT R] [LE R] [DecidableLT R] [DecidableLE R] [Sub R] [Mul R] [Add R]

structure Opts (R : Type) where
  normSteps : Nat
  normTol : R
  normTTol : R

/-- outcome of the search: the time handed to `_do_collapse`, the time at which the state handed over
was computed, and the number of tries; `none` = RuntimeError -/
structure Found (R : Type) where
  t : R
  stateAt : R
  tries : Nat
deriving Repr

/-- `|target − n2| < tol · target` -/
def close (target n2 tol : R) : Bool := decide (target - n2 < tol * target) && decide (n2 - target < tol * target)

/-- the `while tries < norm_steps` loop.  `cur` is the time the integrator currently sits at
(`get_state()` returns the state there). -/
def searchLoop (N : R → R) (o : Opts R) (target : R) :
    Nat → Nat → R → R → R → List R → Option (Found R)
  | 0, _, _, _, _, _ => none                                        -- tries exhausted
  | fuel+1, tries, tPrev, tFinal, cur, guesses =>
    if tFinal - tPrev < o.normTTol then
      -- t_guess = t_final; state = integrator's current state; break
      (if tries + 1 ≥ o.normSteps then none else some ⟨tFinal, cur, tries + 1⟩)
    else match guesses with
      | [] => none
      | g :: gs =>
        let n2 := N g
        if close target n2 o.normTol then
          (if tries + 1 ≥ o.normSteps then none else some ⟨g, g, tries + 1⟩)
        else if n2 < target then searchLoop N o target fuel (tries + 1) tPrev g g gs
        else searchLoop N o target fuel (tries + 1) g tFinal g gs

/-- `_find_collapse_time(norm_old, norm, t_prev, t_final)`; the integrator sits at `t_final` -/
def findCollapse (N : R → R) (o : Opts R) (target tPrev tFinal : R) (guesses : List R) : Option (Found R) :=
  searchLoop N o target o.normSteps 0 tPrev tFinal tFinal guesses

/-- `np.searchsorted(a, v)` (side = left): the first index whose entry is ≥ v; `a.length` if none -/
def searchsorted (a : List R) (v : R) : Nat :=
  match a with
  | [] => 0
  | x :: xs => if v ≤ x then 0 else searchsorted xs v + 1

def cumsumFrom (acc : R) : List R → List R
  | [] => []
  | x :: xs => (acc + x) :: cumsumFrom (acc + x) xs

/-- `_do_collapse`: which channel, given the rates ⟨n_k⟩ and the uniform draw u -/
def channel [OfNat R 0] (rates : List R) (u : R) : Nat :=
  if rates.length = 1 then 0
  else
    let cum := cumsumFrom 0 rates
    searchsorted cum (cum.getLastD 0 * u)

/-- random numbers consumed by one accepted collapse: one for the channel unless there is a single
channel, one for the next threshold -/
def drawsPerCollapse (nChannels : Nat) : Nat := if nChannels = 1 then 1 else 2

/-! ### `InfluenceMartingale` (nm_mcsolve.py): the trace weight of a non-Markovian trajectory

`seg t1 t2` stands for `_compute_continuous_martingale(t1, t2) = exp(a ∫_{t1}^{t2} shift)`; the bookkeeping around it
(previous time and value, the table precomputed by `run`, the list of jump factors) is modelled as it is written. -/
section martingale
variable {T M : Type} [DecidableEq T] [LT T] [DecidableLT T] [Mul M] [OfNat M 1]

structure Mart (T M : Type) where
  tPrev : Option T          -- `None` before `initialize`
  muPrev : M
  table : List (T × M)      -- `_precomputed_continuous_martingale`: a dict, a later entry for a key replaces the earlier
  disc : List (T × M)       -- (collapse time, factor)

inductive Cache (T : Type)
  | clear | keep | times (l : List T)

def Mart.fresh : Mart T M := { tPrev := none, muPrev := 1, table := [], disc := [] }

/-- the loop of `initialize` over the times to precompute -/
def precompute (seg : T → T → M) : T → M → List T → List (T × M)
  | _, _, [] => []
  | t0, mu0, t1 :: rest => (t1, mu0 * seg t0 t1) :: precompute seg t1 (mu0 * seg t0 t1) rest

def Mart.initialize (seg : T → T → M) (s : Mart T M) (t0 : T) : Cache T → Mart T M
  | .clear => { tPrev := some t0, muPrev := 1, table := [], disc := [] }
  | .keep => { s with tPrev := some t0, muPrev := 1, disc := [] }
  | .times l => { tPrev := some t0, muPrev := 1, table := precompute seg t0 1 l, disc := [] }

/-- `add_collapse`; `none` = RuntimeError (not started) -/
def Mart.addCollapse (s : Mart T M) (time : T) (factor : M) : Option (Mart T M) :=
  match s.tPrev with
  | none => none
  | some _ => some { s with disc := s.disc ++ [(time, factor)] }

def Mart.lookup (s : Mart T M) (t : T) : Option M := (s.table.reverse.find? fun e => e.1 == t).map (·.2)

/-- product of the factors of the collapses that happened before `t` -/
def discProd (disc : List (T × M)) (t : T) : M := disc.foldl (fun acc e => if e.1 < t then acc * e.2 else acc) 1

/-- the continuous part at `t`: from the table when `t` is one of the precomputed times, else extended from the
previous query -/
def Mart.contAt (seg : T → T → M) (s : Mart T M) (tp t : T) : M :=
  match s.lookup t with
  | some m => m
  | none => s.muPrev * seg tp t

/-- `value(t)`: the answer and the updated object; `none` = RuntimeError -/
def Mart.value (seg : T → T → M) (s : Mart T M) (t : T) : Option (M × Mart T M) :=
  match s.tPrev with
  | none => none
  | some tp =>
    some (discProd s.disc t * s.contAt seg tp t, { s with tPrev := some t, muPrev := s.contAt seg tp t })
end martingale

end Qv.C16
