/-
C16 — the jump logic of `qutip/solver/mcsolve.py` `MCIntegrator`: the search for the collapse time
(`_find_collapse_time`) over an abstract squared-norm function of the no-jump evolution, the choice of
the collapse channel (`_do_collapse`: `np.searchsorted(np.cumsum(rates), total·u)`), the order in
which random numbers are consumed, and the weights of improved sampling.  The interpolation formula
for the next guess (logarithms, floating point) is *not* modelled: the guesses are an input, and the
theorems hold for every sequence of guesses inside the bracket.  Import-free, executable.
-/
namespace Qv.C16

variable {R : Type} [LT R] [LE R] [DecidableLT R] [DecidableLE R] [Sub R] [Mul R] [Add R]

structure Opts (R : Type) where
  normSteps : Nat
  normTol : R
  normTTol : R

/-- outcome of the search: the time handed to `_do_collapse`, the time at which the state handed over
was computed, and the number of tries; `none` = RuntimeError -/
structure Found (R : Type) where
  t : R
  stateAt : R
  tries : Nat
deriving Repr

/-- `|target − n2| < tol · target` -/
def close (target n2 tol : R) : Bool := decide (target - n2 < tol * target) && decide (n2 - target < tol * target)

/-- the `while tries < norm_steps` loop.  `cur` is the time the integrator currently sits at
(`get_state()` returns the state there). -/
def searchLoop (N : R → R) (o : Opts R) (target : R) :
    Nat → Nat → R → R → R → List R → Option (Found R)
  | 0, _, _, _, _, _ => none                                        -- tries exhausted
  | fuel+1, tries, tPrev, tFinal, cur, guesses =>
    if tFinal - tPrev < o.normTTol then
      -- t_guess = t_final; state = integrator's current state; break
      (if tries + 1 ≥ o.normSteps then none else some ⟨tFinal, cur, tries + 1⟩)
    else match guesses with
      | [] => none
      | g :: gs =>
        let n2 := N g
        if close target n2 o.normTol then
          (if tries + 1 ≥ o.normSteps then none else some ⟨g, g, tries + 1⟩)
        else if n2 < target then searchLoop N o target fuel (tries + 1) tPrev g g gs
        else searchLoop N o target fuel (tries + 1) g tFinal g gs

/-- `_find_collapse_time(norm_old, norm, t_prev, t_final)`; the integrator sits at `t_final` -/
def findCollapse (N : R → R) (o : Opts R) (target tPrev tFinal : R) (guesses : List R) : Option (Found R) :=
  searchLoop N o target o.normSteps 0 tPrev tFinal tFinal guesses

/-- `np.searchsorted(a, v)` (side = left): the first index whose entry is ≥ v; `a.length` if none -/
def searchsorted (a : List R) (v : R) : Nat :=
  match a with
  | [] => 0
  | x :: xs => if v ≤ x then 0 else searchsorted xs v + 1

def cumsumFrom (acc : R) : List R → List R
  | [] => []
  | x :: xs => (acc + x) :: cumsumFrom (acc + x) xs

/-- `_do_collapse`: which channel, given the rates ⟨n_k⟩ and the uniform draw u -/
def channel [OfNat R 0] (rates : List R) (u : R) : Nat :=
  if rates.length = 1 then 0
  else
    let cum := cumsumFrom 0 rates
    searchsorted cum (cum.getLastD 0 * u)

/-- random numbers consumed by one accepted collapse: one for the channel unless there is a single
channel, one for the next threshold -/
def drawsPerCollapse (nChannels : Nat) : Nat := if nChannels = 1 then 1 else 2

end Qv.C16
