/-
C20 — closed forms of the named constructors of `qutip/core/operators.py`, `states.py`, `gates.py`:
squared / scaled integer entries, so that the model is exact and import-free; the correspondence
(harness/c20.py) compares them with the entries the constructors return for every size, offset and
spin up to a bound, and the theorems (Props/C20.lean) are about all sizes.
-/
namespace Qv.C20

/-- `destroy(N, offset)`: squared entry (r, c) — `sqrt(arange(offset+1, N+offset))` on diagonal +1 -/
def destroySq (offset r c : Nat) : Nat := if r + 1 = c then c + offset else 0
/-- `create(N, offset)` is the transpose -/
def createSq (offset r c : Nat) : Nat := destroySq offset c r
/-- `num(N, offset)` diagonal -/
def numDiag (offset k : Nat) : Nat := k + offset

/-- spin j = J/2, row k ↔ m = j - k.  Four times the squared entry of J₊ that sits in column `c`
(row c-1): 4(j(j+1) - m(m+1)) with m = j - c. -/
def jq (J c : Nat) : Int := (J : Int) * (J + 2) - ((J : Int) - 2 * c) * ((J : Int) - 2 * c + 2)
def jplusSq4 (J r c : Nat) : Int := if r + 1 = c then jq J c else 0
/-- twice the diagonal of J_z -/
def jzTwice (J k : Nat) : Int := (J : Int) - 2 * k

/-- `basis(N, n, offset)` / `fock`: entry k of the column -/
def basisEntry (n offset k : Nat) : Nat := if k + offset = n then 1 else 0

/-- Gaussian integers for the fixed gate tables -/
structure GI where
  re : Int
  im : Int
deriving DecidableEq, Repr

instance : Add GI := ⟨fun a b => ⟨a.re + b.re, a.im + b.im⟩⟩
instance : Mul GI := ⟨fun a b => ⟨a.re * b.re - a.im * b.im, a.re * b.im + a.im * b.re⟩⟩
instance : OfNat GI 0 := ⟨⟨0, 0⟩⟩
instance : OfNat GI 1 := ⟨⟨1, 0⟩⟩
def GI.conj (a : GI) : GI := ⟨a.re, -a.im⟩
def GI.i : GI := ⟨0, 1⟩
def GI.ofInt (n : Int) : GI := ⟨n, 0⟩

abbrev Mat := List (List GI)

def Mat.get (m : Mat) (r c : Nat) : GI := (m.getD r []).getD c 0
def Mat.dim (m : Mat) : Nat := m.length

/-- (M M†)(r, c) -/
def mulDagEntry (m : Mat) (r c : Nat) : GI :=
  (List.range m.dim).foldl (fun acc k => acc + m.get r k * (m.get c k).conj) 0

/-- M M† = s · 1 : the matrix M / √s is unitary -/
def unitaryScaled (m : Mat) (s : Int) : Bool :=
  (List.range m.dim).all fun r => (List.range m.dim).all fun c =>
    mulDagEntry m r c == (if r = c then GI.ofInt s else 0)

def isHermitian (m : Mat) : Bool :=
  (List.range m.dim).all fun r => (List.range m.dim).all fun c => m.get r c == (m.get c r).conj

/-- a fixed gate: integer table and the square of the common denominator -/
structure Gate where
  name : String
  scaleSq : Int
  m : Mat

private def o : GI := 0
private def l : GI := 1
private def i' : GI := GI.i
private def ni : GI := ⟨0, -1⟩
private def nl : GI := ⟨-1, 0⟩
private def p : GI := ⟨1, 1⟩   -- 1 + i
private def q : GI := ⟨1, -1⟩  -- 1 - i
private def two : GI := ⟨2, 0⟩

def gates : List Gate := [
  ⟨"cnot", 1, [[l,o,o,o],[o,l,o,o],[o,o,o,l],[o,o,l,o]]⟩,
  ⟨"csign", 1, [[l,o,o,o],[o,l,o,o],[o,o,l,o],[o,o,o,nl]]⟩,
  ⟨"cz_gate", 1, [[l,o,o,o],[o,l,o,o],[o,o,l,o],[o,o,o,nl]]⟩,
  ⟨"cy_gate", 1, [[l,o,o,o],[o,l,o,o],[o,o,o,ni],[o,o,i',o]]⟩,
  ⟨"s_gate", 1, [[l,o],[o,i']]⟩,
  ⟨"cs_gate", 1, [[l,o,o,o],[o,l,o,o],[o,o,l,o],[o,o,o,i']]⟩,
  ⟨"swap", 1, [[l,o,o,o],[o,o,l,o],[o,l,o,o],[o,o,o,l]]⟩,
  ⟨"iswap", 1, [[l,o,o,o],[o,o,i',o],[o,i',o,o],[o,o,o,l]]⟩,
  ⟨"snot", 2, [[l,l],[l,nl]]⟩,
  ⟨"sqrtnot", 4, [[p,q],[q,p]]⟩,
  ⟨"sqrtswap", 4, [[two,o,o,o],[o,p,q,o],[o,q,p,o],[o,o,o,two]]⟩,
  ⟨"fredkin", 1, [[l,o,o,o,o,o,o,o],[o,l,o,o,o,o,o,o],[o,o,l,o,o,o,o,o],[o,o,o,l,o,o,o,o],
                   [o,o,o,o,l,o,o,o],[o,o,o,o,o,o,l,o],[o,o,o,o,o,l,o,o],[o,o,o,o,o,o,o,l]]⟩,
  ⟨"toffoli", 1, [[l,o,o,o,o,o,o,o],[o,l,o,o,o,o,o,o],[o,o,l,o,o,o,o,o],[o,o,o,l,o,o,o,o],
                   [o,o,o,o,l,o,o,o],[o,o,o,o,o,l,o,o],[o,o,o,o,o,o,o,l],[o,o,o,o,o,o,l,o]]⟩
]

/-- number of one bits -/
def popcount : Nat → Nat → Nat
  | 0, _ => 0
  | fuel+1, n => if n = 0 then 0 else n % 2 + popcount fuel (n / 2)

/-- `hadamard_transform(N)`: √(2^N) · entry (r, c) = (-1)^{popcount(r & c)} -/
def hadamardSign (r c : Nat) : Int := if popcount 64 (Nat.land r c) % 2 = 0 then 1 else -1

end Qv.C20
