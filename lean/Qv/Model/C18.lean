/-
C18 — the bookkeeping of `qutip/solver/steadystate.py` around the numerical solvers:
the trace-constraint row added to the singular system by `_steadystate_direct`, the
reorderings of `_permute_rcm` / `_permute_wbm` / `_reverse_rcm` (`data.permute.indices` scatters:
`new[perm[i]] = old[i]`), `np.argsort` of a permutation.  Import-free, executable.
-/
namespace Qv.C18

/-- `data.permute.indices(x, perm, None)` on a column: `new[perm[i]] = old[i]` -/
def scatter {α : Type} [Inhabited α] (perm : List Nat) (x : List α) : List α :=
  (List.range x.length).map fun j => x.getD (perm.idxOf j) default

/-- `np.argsort(perm)` for a permutation of `range n`: position of each value -/
def argsort (perm : List Nat) : List Nat := (List.range perm.length).map fun j => perm.idxOf j

/-- rows and columns: `data.permute.indices(L, rperm, cperm)`; `none` = leave that side alone -/
def scatterMat {α : Type} [Inhabited α] (rperm cperm : Option (List Nat)) (m : List (List α)) : List (List α) :=
  let rows := match rperm with | some p => scatter p m | none => m
  match cperm with
  | some p => rows.map (scatter p)
  | none => rows

variable {R : Type} [Add R] [OfNat R 0]

/-- `_steadystate_direct`: `L = A + e₀ · vec(w·1)ᵀ`: `w` is added to row 0 at the column-stacked
diagonal positions k·n + k; `b = w · e₀` -/
def constraintSystem (n : Nat) (A : List (List R)) (w : R) : List (List R) × List R :=
  let N := n * n
  let row0 := (List.range N).map fun c =>
    let a := (A.getD 0 []).getD c 0
    if c % (n + 1) = 0 then a + w else a
  (row0 :: A.drop 1, (List.range N).map fun r => if r = 0 then w else 0)

end Qv.C18
