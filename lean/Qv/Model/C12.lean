/-
C12 — model of `qutip/solver/result.py` (`Result._post_init`, `Result.add`, `final_state`) and of
the loop of `Solver.run`, with an integrator that *reuses one buffer* for the state it hands out:
an entry stored without a copy is an alias of that buffer and shows its last content when read.
Whether the storing processors ask for a copy (`add_processor(..., requires_copy=True)`) is
regenerated from the source into `Qv/Gen/ResultFlags.lean` on every run.
Import-free.
-/
namespace Qv.C12

structure Opts where
  storeStates : Option Bool    -- options["store_states"]: None / True / False
  storeFinal : Bool            -- options["store_final_state"]
  nEops : Nat                  -- number of expectation operations
deriving Repr, DecidableEq

/-- `store_states or (len(e_ops) == 0 and store_states is None)` -/
def storesStates (o : Opts) : Bool :=
  o.storeStates == some true || (o.storeStates == none && o.nEops == 0)

/-- the `_store_final_state` processor is registered -/
def finalProc (o : Opts) : Bool := o.storeFinal && !storesStates o

/-- `_state_processors_require_copy`, given the `requires_copy` keyword of the two storing processors -/
def requiresCopy (o : Opts) (copyStates copyFinal : Bool) : Bool :=
  (storesStates o && copyStates) || (finalProc o && copyFinal)

/-- a stored entry: an own copy, or an alias of the integrator's buffer -/
inductive Cell (S : Type)
  | val (v : S)
  | alias
deriving Repr

structure Res (S V : Type) where
  times : List Int := []
  states : List (Cell S) := []
  final : Option (Cell S) := none
  eData : List (List V) := []
deriving Repr

variable {S V : Type}

def Res.init (o : Opts) : Res S V := { eData := List.replicate o.nEops [] }

/-- `Result.add(t, state)`: the state handed in is the integrator's buffer, holding `x` right now -/
def Res.add (o : Opts) (cs cf : Bool) (eops : List (Int → S → V)) (r : Res S V) (t : Int) (x : S) :
    Res S V :=
  let cell : Cell S := if requiresCopy o cs cf then .val x else .alias
  { times := r.times ++ [t],
    eData := List.zipWith (fun l f => l ++ [f t x]) r.eData eops,
    states := if storesStates o then r.states ++ [cell] else r.states,
    final := if finalProc o then some cell else r.final }

/-- the loop of `Solver.run` over the (time, state) pairs the integrator produces -/
def runLoop (o : Opts) (cs cf : Bool) (eops : List (Int → S → V)) (traj : List (Int × S)) : Res S V :=
  traj.foldl (fun r tx => r.add o cs cf eops tx.1 tx.2) (Res.init o)

/-- reading a stored entry after the run: an alias shows the buffer's last content -/
def deref (buf : S) : Cell S → S
  | .val v => v
  | .alias => buf

/-- `Result.final_state` -/
def Res.finalState (r : Res S V) (buf : S) : Option S :=
  match r.final with
  | some c => some (deref buf c)
  | none => (r.states.getLast?).map (deref buf)

end Qv.C12
