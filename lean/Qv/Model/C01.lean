/-
C01 — storage formats of `qutip/core/data`: Dense (either memory order), CSR (row lists of
(column, value) — the flat `row_index / col_index / data` arrays are the concatenation of these rows),
Dia (offset, one value per column), their meaning as matrices (`abs`), the converters and some kernels
mirrored from the Cython sources (`csr.from_dense`, `dense.from_csr`, `Dia.to_array`, `dia.from_dense`,
`add_csr` with its scatter/gather accumulator, `transpose_csr`, `kron_csr`, transposition of a Dense by
flipping its order flag), and the dispatcher's construction of a specialisation out of a registered one
plus conversions.  Generic over the number type; import-free, executable.
-/
namespace Qv.C01

variable {R : Type}

/-! ### Dense -/
structure Dense (R : Type) where
  rows : Nat
  cols : Nat
  fortran : Bool
  data : Nat → R        -- the buffer

/-- entry (i, j): `data[i + j*rows]` (Fortran order) or `data[i*cols + j]` (C order) -/
def Dense.abs (d : Dense R) (i j : Nat) : R :=
  if d.fortran then d.data (i + j * d.rows) else d.data (i * d.cols + j)

/-- `transpose_dense` without moving memory: swap the shape, flip the order flag -/
def Dense.transposeView (d : Dense R) : Dense R :=
  { rows := d.cols, cols := d.rows, fortran := !d.fortran, data := d.data }

/-- a Dense in the requested order built from an entry function -/
def Dense.ofFn (rows cols : Nat) (fortran : Bool) (f : Nat → Nat → R) : Dense R :=
  { rows := rows, cols := cols, fortran := fortran,
    data := fun p => if fortran then f (p % rows) (p / rows) else f (p / cols) (p % cols) }

/-! ### `iadd_dense` -/
section denseIadd
variable {R : Type} [Add R] [Mul R]

/-- `iadd_dense`: `left += scale · right` in place.  With equal memory orders one `zaxpy` over the whole buffer; otherwise
`dim2` calls `zaxpy(dim1, scale, right.data + idx, dim2, left.data + idx·dim1, 1)` with `(dim1, dim2) = (rows, cols)` for a
Fortran-ordered left operand and `(cols, rows)` for a C-ordered one -/
def iaddDense (l r : Dense R) (s : R) : Dense R :=
  if l.fortran == r.fortran then
    { l with data := fun p => if p < l.rows * l.cols then l.data p + s * r.data p else l.data p }
  else
    let dim1 := if l.fortran then l.rows else l.cols
    let dim2 := if l.fortran then l.cols else l.rows
    { l with data := fun p => if p < dim2 * dim1 then l.data p + s * r.data (p / dim1 + (p % dim1) * dim2) else l.data p }
end denseIadd

/-! ### CSR: rows of (column, value) -/
abbrev Row (R : Type) := List (Nat × R)

structure CSR (R : Type) where
  rows : Nat
  cols : Nat
  r : List (Row R)

section sums
variable [Add R] [OfNat R 0]

/-- sum of the stored values of a row that sit in column j (duplicates add up, as in SciPy) -/
def rowAbs : Row R → Nat → R
  | [], _ => 0
  | (c, v) :: xs, j => (if c = j then v else 0) + rowAbs xs j

def CSR.abs (m : CSR R) (i j : Nat) : R := rowAbs (m.r.getD i []) j

/-- `CSR.to_array`: later stored entries overwrite earlier ones in the same place -/
def rowAssign : Row R → Nat → R
  | [], _ => 0
  | (c, v) :: xs, j => if (xs.any fun p => p.1 == j) then rowAssign xs j else (if c = j then v else 0)

/-- scatter/gather accumulator of `add_csr`: add a value into the slot of its column -/
def insertAcc (p : Nat × R) : Row R → Row R
  | [] => [p]
  | (c, w) :: xs => if c = p.1 then (c, w + p.2) :: xs else (c, w) :: insertAcc p xs

def compress (xs : Row R) : Row R := xs.foldl (fun acc p => insertAcc p acc) []

end sums

/-- `csr.from_dense`: every entry the tidy-up predicate keeps, row by row, columns increasing -/
def csrOfDense (keep : R → Bool) (d : Dense R) : CSR R :=
  { rows := d.rows, cols := d.cols,
    r := (List.range d.rows).map fun i =>
      (List.range d.cols).filterMap fun j => if keep (d.abs i j) then some (j, d.abs i j) else none }

/-- `dense.from_csr(matrix, fortran)` -/
def denseOfCsr [Add R] [OfNat R 0] (m : CSR R) (fortran : Bool) : Dense R :=
  Dense.ofFn m.rows m.cols fortran fun i j => rowAssign (m.r.getD i []) j

/-- `add_csr(left, right, scale)`: per row, accumulate left and scale·right -/
def addCsr [Add R] [Mul R] [OfNat R 0] (a b : CSR R) (scale : R) : CSR R :=
  { rows := a.rows, cols := a.cols,
    r := (List.range a.rows).map fun i =>
      compress ((a.r.getD i []) ++ (b.r.getD i []).map fun p => (p.1, scale * p.2)) }

/-- `transpose_csr`: row j of the result lists (i, v) for every stored (j, v) of row i, i increasing -/
def transposeCsr (m : CSR R) : CSR R :=
  { rows := m.cols, cols := m.rows,
    r := (List.range m.cols).map fun j =>
      (List.range m.rows).flatMap fun i => ((m.r.getD i []).filter fun p => p.1 == j).map fun p => (i, p.2) }

/-- `kron_csr`: row (i₁·rows₂ + i₂) holds (j₁·cols₂ + j₂, v₁·v₂) -/
def kronCsr [Mul R] (a b : CSR R) : CSR R :=
  { rows := a.rows * b.rows, cols := a.cols * b.cols,
    r := (List.range (a.rows * b.rows)).map fun i =>
      (a.r.getD (i / b.rows) []).flatMap fun p1 =>
        (b.r.getD (i % b.rows) []).map fun p2 => (p1.1 * b.cols + p2.1, p1.2 * p2.2) }

/-- `matmul_csr`: row i of the product accumulates v₁·(row k of `b`) over the stored (k, v₁) of row i
of `a` (the linked-list accumulator of the kernel, here the same scatter/gather `compress`) -/
def matmulCsr [Add R] [Mul R] [OfNat R 0] (a b : CSR R) (scale : R) : CSR R :=
  { rows := a.rows, cols := b.cols,
    r := (List.range a.rows).map fun i =>
      compress ((a.r.getD i []).flatMap fun p1 =>
        (b.r.getD p1.1 []).map fun p2 => (p2.1, scale * (p1.2 * p2.2))) }

/-! ### `matmul_csr_dense_dense`: CSR @ Dense accumulated into a Dense, every combination of memory orders -/
section csrDense
variable {R : Type} [Add R] [Mul R] [OfNat R 0]

/-- `Dense.reorder()`: the same matrix in the other memory order -/
def Dense.reorder (d : Dense R) : Dense R := Dense.ofFn d.rows d.cols (!d.fortran) d.abs

/-- Σ over the stored entries of a CSR row of `value · vec[column]` (`_matmul_csr_vector` for one row) -/
def rowDot (row : Row R) (vec : Nat → R) : R := (row.map fun p => p.2 * vec p.1).foldl (· + ·) 0

/-- the two loops of `matmul_csr_dense_dense` once `right` and `out` have the same memory order -/
def csrDenseCore (a : CSR R) (b out : Dense R) (s : R) : Dense R :=
  if b.fortran then
    -- one `_matmul_csr_vector` per column j: out[j·nrows + row] += scale · Σ_ptr data[ptr] · right[j·right.rows + col[ptr]]
    { out with data := fun p => if p < a.rows * b.cols then
        out.data p + s * rowDot (a.r.getD (p % a.rows) []) (fun k => b.data (p / a.rows * b.rows + k)) else out.data p }
  else
    -- row by row: out[row·ncols + j] += (scale · data[ptr]) · right[col[ptr]·ncols + j]
    { out with data := fun p => if p < a.rows * b.cols then
        out.data p + rowDot ((a.r.getD (p / b.cols) []).map fun q => (q.1, s * q.2)) (fun k => b.data (k * b.cols + p % b.cols))
      else out.data p }

/-- `matmul_csr_dense_dense(left, right, scale, out)`: when the memory orders of `right` and `out` differ, either `right`
is reordered (C-ordered right), or the result is accumulated in a reordered copy of `out` and copied back in the caller's
order (Fortran-ordered right) -/
def matmulCsrDense (a : CSR R) (b out : Dense R) (s : R) : Dense R :=
  if b.fortran == out.fortran then csrDenseCore a b out s
  else if b.fortran then
    let tmp := (csrDenseCore a b out.reorder s).reorder
    { out with data := fun p => if p < a.rows * b.cols then tmp.data p else out.data p }
  else csrDenseCore a b.reorder out s
end csrDense

/-! ### Dia: (offset, values indexed by column) -/
structure Dia (R : Type) where
  rows : Nat
  cols : Nat
  diags : List (Int × (Nat → R))

/-- `Dia.to_array`: `out[col − offset, col] = data[d, col]` when that row exists; a later diagonal with
the same offset overwrites.  Values stored for columns whose row is outside the matrix are ignored. -/
def Dia.abs [OfNat R 0] (m : Dia R) (i j : Nat) : R :=
  match (m.diags.reverse.find? fun d => d.1 == (j : Int) - (i : Int)) with
  | some d => d.2 j
  | none => 0

/-- diagonal number k of `dia.from_dense`: offset k − (rows − 1), value per column (zero where the row
would be outside the matrix) -/
def diagOf [OfNat R 0] (d : Dense R) (k : Nat) : Int × (Nat → R) :=
  ((k : Int) - (d.rows : Int) + 1, fun (col : Nat) =>
    if 0 ≤ (col : Int) - ((k : Int) - (d.rows : Int) + 1) ∧ (col : Int) - ((k : Int) - (d.rows : Int) + 1) < d.rows
    then d.abs ((col : Int) - ((k : Int) - (d.rows : Int) + 1)).toNat col else 0)

/-- `dia.from_dense`: all rows + cols − 1 diagonals, offsets −(rows−1) … cols−1 -/
def diaOfDense [OfNat R 0] (d : Dense R) : Dia R :=
  { rows := d.rows, cols := d.cols, diags := (List.range (d.rows + d.cols - 1)).map (diagOf d) }

/-! ### `matmul_dia`: product of two diagonal-format matrices -/
section diaMatmul
variable {R : Type} [Add R] [Mul R] [OfNat R 0]

/-- what one pair of stored diagonals contributes to column `col` of the product (`matmul_dia`): the loop
bounds `start … end` of the kernel as a condition on `col` -/
def diaPairTerm (rowsL colsL rowsR colsR : Nat) (scale : R) (dl dr : Int × (Nat → R)) (col : Nat) : R :=
  let start := max (max (max 0 dl.1 + dr.1) (max 0 dr.1)) (max 0 (dl.1 + dr.1))
  let stop := min (min (min (colsL : Int) (rowsL + dl.1) + dr.1) (min (colsR : Int) (rowsR + dr.1)))
    (min (colsR : Int) (rowsL + (dl.1 + dr.1)))
  if start ≤ (col : Int) ∧ (col : Int) < stop then scale * dl.2 ((col : Int) - dr.1).toNat * dr.2 col else 0

def diaOutValue (L Rm : Dia R) (scale : R) (o : Int) (col : Nat) : R :=
  (L.diags.flatMap fun dl => Rm.diags.filterMap fun dr =>
    if dl.1 + dr.1 = o then some (diaPairTerm L.rows L.cols Rm.rows Rm.cols scale dl dr col) else none).foldl (· + ·) 0

/-- `matmul_dia`: the offsets of the result are the in-range sums of a left and a right offset, each once, in
increasing order (`np.unique`); every pair of stored diagonals adds its products into the diagonal of its sum -/
def matmulDia (L Rm : Dia R) (scale : R) : Dia R :=
  let offs := ((List.range (L.rows + Rm.cols - 1)).map fun (k : Nat) => (k : Int) - (L.rows : Int) + 1).filter fun o =>
    L.diags.any fun dl => Rm.diags.any fun dr => dl.1 + dr.1 == o
  { rows := L.rows, cols := Rm.cols, diags := offs.map fun o => (o, diaOutValue L Rm scale o) }
end diaMatmul

/-! ### `transpose_dia`, `adjoint_dia` -/
section diaTranspose
variable {R : Type} [OfNat R 0]

/-- `transpose_dia` / `adjoint_dia` (with `f` the identity or complex conjugation): offsets are negated, the order of
the stored diagonals is reversed, and column `j` of the new diagonal reads column `j + offset` of the old one when
that column exists -/
def mapTransposeDia (f : R → R) (m : Dia R) : Dia R :=
  { rows := m.cols, cols := m.rows,
    diags := m.diags.reverse.map fun d => (-d.1, fun (j : Nat) =>
      if (j : Int) < -d.1 ∨ (j : Int) + d.1 ≥ (m.cols : Int) then 0 else f (d.2 ((j : Int) + d.1).toNat)) }
end diaTranspose

/-! ### `matmul_dia_dense_dense`: Dia @ Dense, three accumulation branches, four ways of delivering the result -/
section diaDense
variable {R : Type} [Add R] [Mul R] [OfNat R 0]

/-- does stored diagonal `d` of a `rows × cols` Dia matrix contribute to output row `row`, and from which column `k`?
`fast` is the square-matrix fast track (`length = cols − |offset|`), otherwise the general bounds
`start_left = max(0, off)`, `start_out = max(0, −off)`, `length = min(end_left − start_left, end_out − start_out)`. -/
def diaRowTerm (rows cols : Nat) (fast : Bool) (d : Int × (Nat → R)) (row : Nat) (bcol : Nat → R) : R :=
  let off := d.1
  let startLeft := max 0 off
  let startOut := max 0 (-off)
  let length : Int := if fast then (cols : Int) - (Int.natAbs off : Nat)
    else min (min (cols : Int) ((rows : Int) + off) - startLeft) (min (rows : Int) ((cols : Int) - off) - startOut)
  let i := (row : Int) - startOut
  if 0 ≤ i ∧ i < length then d.2 (startLeft + i).toNat * bcol (startLeft + i).toNat else 0

/-- the accumulation loops of `matmul_dia_dense_dense` into the buffer `t` (shape `L.rows × b.cols`): every position of
the buffer is an entry (row, col) according to `t`'s memory order and receives the contributions of all stored diagonals -/
def diaDenseCore (L : Dia R) (b t : Dense R) : Dense R :=
  -- `strideC_in == 1` and `strideC_out == 1`: C order, or a single row
  let fast := (L.rows == L.cols) && (!b.fortran || b.rows == 1) && (!t.fortran || L.rows == 1)
  { t with data := fun p =>
      if p < L.rows * b.cols then
        let row := if t.fortran then p % L.rows else p / b.cols
        let col := if t.fortran then p / L.rows else p % b.cols
        t.data p + (L.diags.map fun d => diaRowTerm L.rows L.cols fast d row (fun k => b.abs k col)).foldl (· + ·) 0
      else t.data p }

/-- `matmul_dia_dense_dense(left, right, scale, out)`: with `out` given and `scale = 1` the products are accumulated in
`out` itself; otherwise in a zero matrix with `right`'s memory order, which is then scaled, or added to `out` with `scale` -/
def matmulDiaDense [DecidableEq R] [OfNat R 1] (L : Dia R) (b : Dense R) (s : R) (out : Option (Dense R)) : Dense R :=
  match out with
  | some o =>
    if s = 1 then diaDenseCore L b o
    else iaddDense o (diaDenseCore L b (Dense.ofFn L.rows b.cols b.fortran fun _ _ => 0)) s
  | none =>
    let t := diaDenseCore L b (Dense.ofFn L.rows b.cols b.fortran fun _ _ => 0)
    if s = 1 then t else { t with data := fun p => if p < L.rows * b.cols then s * t.data p else t.data p }
end diaDense

/-! ### `matmul_dense_dia_dense`: Dense @ Dia -/
section denseDia
variable {R : Type} [Add R] [Mul R] [OfNat R 0]

/-- does stored diagonal `d` of the right operand (`rows × cols`) contribute to output column `c`, and from which row `k`
of the right operand (= column of the left one)?  `fast`: the square-matrix fast track (`length = cols − |offset|`),
otherwise `start_right = max(0, off)`, `end_right = min(cols, rows + off)`, `start_left = max(0, −off)` -/
def diaColTerm (rows cols : Nat) (fast : Bool) (d : Int × (Nat → R)) (c : Nat) (arow : Nat → R) : R :=
  let off := d.1
  let startRight := max 0 off
  let startLeft := max 0 (-off)
  let length : Int := if fast then (cols : Int) - (Int.natAbs off : Nat) else min (cols : Int) ((rows : Int) + off) - startRight
  let i := (c : Int) - startRight
  if 0 ≤ i ∧ i < length then d.2 (startRight + i).toNat * arow (startLeft + i).toNat else 0

def denseDiaCore (a : Dense R) (Rm : Dia R) (t : Dense R) : Dense R :=
  -- `strideR_in == 1` and `strideR_out == 1`: Fortran order, or a single column
  let fast := (Rm.rows == Rm.cols) && (a.fortran || a.cols == 1) && (t.fortran || Rm.cols == 1)
  { t with data := fun p =>
      if p < a.rows * Rm.cols then
        let row := if t.fortran then p % a.rows else p / Rm.cols
        let col := if t.fortran then p / a.rows else p % Rm.cols
        t.data p + (Rm.diags.map fun d => diaColTerm Rm.rows Rm.cols fast d col (fun k => a.abs row k)).foldl (· + ·) 0
      else t.data p }

/-- `matmul_dense_dia_dense(left, right, scale, out)` -/
def matmulDenseDia [DecidableEq R] [OfNat R 1] (a : Dense R) (Rm : Dia R) (s : R) (out : Option (Dense R)) : Dense R :=
  match out with
  | some o =>
    if s = 1 then denseDiaCore a Rm o
    else iaddDense o (denseDiaCore a Rm (Dense.ofFn a.rows Rm.cols a.fortran fun _ _ => 0)) s
  | none =>
    let t := denseDiaCore a Rm (Dense.ofFn a.rows Rm.cols a.fortran fun _ _ => 0)
    if s = 1 then t else { t with data := fun p => if p < a.rows * Rm.cols then s * t.data p else t.data p }
end denseDia

/-! ### `add_dia` -/
section diaAdd
variable {R : Type} [Add R] [Mul R] [OfNat R 0]

/-- the merge loop of `add_dia` over the stored diagonals of both operands (as the kernel does it: equal offsets are
added, otherwise the smaller offset goes first; the rest of the longer operand is appended).  `fuel` bounds the number
of iterations (length of both lists). -/
def addDiaMerge (s : R) : Nat → List (Int × (Nat → R)) → List (Int × (Nat → R)) → List (Int × (Nat → R))
  | 0, _, _ => []
  | _ + 1, [], r => r.map fun d => (d.1, fun c => s * d.2 c)
  | _ + 1, l, [] => l
  | fuel + 1, dl :: l, dr :: r =>
    if dl.1 = dr.1 then (dl.1, fun c => dl.2 c + s * dr.2 c) :: addDiaMerge s fuel l r
    else if dl.1 ≤ dr.1 then dl :: addDiaMerge s fuel l (dr :: r)
    else (dr.1, fun c => s * dr.2 c) :: addDiaMerge s fuel (dl :: l) r

/-- `add_dia(left, right, scale)` for operands whose stored offsets are increasing (what every constructor of the
library and `clean_dia` produce; for other operands the kernel sorts the result afterwards) -/
def addDia (L Rm : Dia R) (s : R) : Dia R :=
  { rows := L.rows, cols := L.cols, diags := addDiaMerge s (L.diags.length + Rm.diags.length) L.diags Rm.diags }
end diaAdd

/-! ### `inner_dia`, `inner_op_dia`: inner products and matrix elements of states stored by diagonals -/
section diaInner
variable {R : Type} [Add R] [Mul R] [OfNat R 0]

/-- "`left` was given as a ket": decided from the shapes, by the flag `scalar_is_ket` when everything is 1x1 -/
def innerIsKet (leftRows n : Nat) (scalarIsKet : Bool) : Bool :=
  if n = 1 then scalarIsKet else leftRows == n

/-- the double loop of `inner_dia`.  A ket (n x 1) keeps row r on the diagonal of offset −r, at column 0; a bra
(1 x n) keeps column c on the diagonal of offset c, at column c. -/
def innerDiaCore (conj : R → R) (isKet : Bool) (left right : Dia R) : R :=
  (right.diags.map fun dr => (left.diags.map fun dl =>
    if isKet then (if dl.1 - dr.1 = 0 then conj (dl.2 0) * dr.2 0 else 0)
    else (if dl.1 + dr.1 = 0 then dl.2 dl.1.toNat * dr.2 0 else 0)).sum).sum

def innerDia (conj : R → R) (left right : Dia R) (scalarIsKet : Bool) : R :=
  innerDiaCore conj (innerIsKet left.rows right.rows scalarIsKet) left right

/-- the triple loop of `inner_op_dia`: the entry of `op` in row r, column c sits on the diagonal of offset c − r at
column c = −(offset of the ket's diagonal) -/
def innerOpDiaCore (conj : R → R) (isKet : Bool) (left op right : Dia R) : R :=
  (right.diags.map fun dr => (left.diags.map fun dl => (op.diags.map fun dop =>
    if (if isKet then -dl.1 else dl.1) + dr.1 + dop.1 = 0 then
      (if isKet then conj (dl.2 0) else dl.2 dl.1.toNat) * dr.2 0 * dop.2 (-dr.1).toNat
    else 0).sum).sum).sum

def innerOpDia (conj : R → R) (left op right : Dia R) (scalarIsKet : Bool) : R :=
  innerOpDiaCore conj (innerIsKet left.rows op.rows scalarIsKet) left op right
end diaInner

/-! ### `isherm_dia`: is a matrix stored by diagonals Hermitian? -/
section diaHerm
variable {R : Type}

/-- the check `isherm_dia` makes for the stored diagonal number `di` (value `d`): the main diagonal against itself;
another diagonal against the first stored diagonal with the opposite offset — skipped when that one comes earlier
(the pair was compared then), against zero when there is none.  `conjEq a b` is the kernel's `_conj_feq` (a = conj b
up to the tolerance), `isZero` its `_feq_zero`. -/
def diagOk (conjEq : R → R → Bool) (isZero : R → Bool) (m : Dia R) (di : Nat) (d : Int × (Nat → R)) : Bool :=
  if d.1 = 0 then (List.range m.cols).all fun c => conjEq (d.2 c) (d.2 c)
  else
    let start := (max 0 d.1).toNat
    let stop := (min (m.cols : Int) ((m.rows : Int) + d.1)).toNat
    -- `other_diag < diag`: the first stored diagonal with the opposite offset comes earlier
    if (m.diags.take di).any (fun e => d.1 == -e.1) then true
    else match m.diags.find? (fun e => d.1 == -e.1) with
      | some e => (List.range (stop - start)).all fun c => conjEq (d.2 (c + start)) (e.2 (c + (max 0 e.1).toNat))
      | none => (List.range (stop - start)).all fun c => isZero (d.2 (c + start))

def ishermDia (conjEq : R → R → Bool) (isZero : R → Bool) (m : Dia R) : Bool :=
  if m.rows ≠ m.cols then false
  else (List.range m.diags.length).all fun di =>
    match m.diags[di]? with
    | some d => diagOk conjEq isZero m di d
    | none => true
end diaHerm

/-! ### `trace_dia`, `expect_dia` -/
section diaExpect
variable {R : Type} [Add R] [Mul R] [OfNat R 0]

/-- `trace_dia`: the values of the first stored diagonal of offset 0 -/
def traceDia (m : Dia R) : R :=
  match m.diags.find? (fun d => d.1 == 0) with
  | some d => ((List.range m.cols).map fun j => d.2 j).sum
  | none => 0

/-- `expect_dia` for a ket: the triple loop of `inner_op_dia` with the state on both sides -/
def expectDiaKet (conj : R → R) (op state : Dia R) : R := innerOpDiaCore conj true state op state

/-- `expect_dia` for a density matrix: every stored diagonal of `op` against the stored diagonal of `state` with the
opposite offset, over the overlap of their ranges -/
def expectDiaDm (op state : Dia R) : R :=
  (op.diags.map fun dop => (state.diags.map fun ds =>
    if dop.1 = -ds.1 then
      let startOp := max 0 dop.1
      let startSt := max 0 ds.1
      let endOp := min (op.cols : Int) ((op.rows : Int) + dop.1)
      let endSt := min (state.cols : Int) ((state.rows : Int) + ds.1)
      ((List.range (min (endOp - startOp) (endSt - startSt)).toNat).map fun i =>
        dop.2 (i + startOp.toNat) * ds.2 (i + startSt.toNat)).sum
    else 0).sum).sum
end diaExpect

/-! ### `expect_csr`, `expect_super_csr` -/
section csrExpect
variable {R : Type} [Add R] [Mul R] [OfNat R 0]

/-- the first stored value of a row — what `data[row_index[row]]` reads when the row is not empty -/
def rowHead? : Row R → Option R
  | [] => none
  | p :: _ => some p.2

/-- the first stored value in column `j` of a row (the scan with `break` of `_expect_csr_dm`) -/
def rowFirst (row : Row R) (j : Nat) : R :=
  match row.find? (fun p => p.1 == j) with
  | some p => p.2
  | none => 0

/-- a stored operator entry (column, value) times the ket's entry in that row — nothing when that row of the ket is
empty (`if ptr_ket != row_index[col + 1]`) -/
def ketTimes (state : CSR R) (p : Nat × R) : R :=
  match rowHead? (state.r.getD p.1 []) with
  | none => 0
  | some w => p.2 * w

/-- `_expect_csr_ket`: rows of the ket that are empty are skipped; of a stored row only the first entry is read -/
def expectCsrKet (conj : R → R) (op state : CSR R) : R :=
  ((List.range state.rows).map fun row =>
    match rowHead? (state.r.getD row []) with
    | none => 0
    | some h => conj h * ((op.r.getD row []).map (ketTimes state)).sum).sum

/-- `_expect_csr_dm` -/
def expectCsrDm (op state : CSR R) : R :=
  ((List.range op.rows).map fun row =>
    ((op.r.getD row []).map fun p => p.2 * rowFirst (state.r.getD p.1 []) row).sum).sum

/-- `expect_super_csr`: rows 0, n+1, 2(n+1), … of the superoperator (the column-stacked diagonal) -/
def expectSuperCsr (n : Nat) (op state : CSR R) : R :=
  ((List.range n).map fun k => ((op.r.getD (k * (n + 1)) []).map (ketTimes state)).sum).sum

/-- `_inner_op_csr_ket_ket` -/
def innerOpCsrKet (conj : R → R) (left op right : CSR R) : R :=
  ((List.range op.rows).map fun row =>
    match rowHead? (left.r.getD row []) with
    | none => 0
    | some h => conj h * ((op.r.getD row []).map (ketTimes right)).sum).sum

/-- `_inner_op_csr_bra_ket`: the stored entries of the bra's single row, in any order -/
def innerOpCsrBra (left op right : CSR R) : R :=
  ((left.r.getD 0 []).map fun q => q.2 * ((op.r.getD q.1 []).map (ketTimes right)).sum).sum

/-- `_inner_csr_ket_ket` -/
def innerCsrKet (conj : R → R) (left right : CSR R) : R :=
  ((List.range left.rows).map fun row =>
    match rowHead? (left.r.getD row []), rowHead? (right.r.getD row []) with
    | some a, some b => conj a * b
    | _, _ => 0).sum

/-- `_inner_csr_bra_ket` -/
def innerCsrBra (left right : CSR R) : R := ((left.r.getD 0 []).map (ketTimes right)).sum
end csrExpect

/-! ### the dispatcher: a specialisation built from a registered one and conversions -/

/-- converters between formats preserve the matrix; `Repr f` is the carrier of format `f` -/
structure Layer (M : Type) where
  Fmt : Type
  Repr : Fmt → Type
  abs : {f : Fmt} → Repr f → M

/-- what `_constructed_specialisation.__call__` does for a binary operation: convert the operands to
the types of a registered specialisation, run it, convert the result to the requested output type -/
def constructed {M : Type} (L : Layer M) {a b c a' b' c' : L.Fmt}
    (impl : L.Repr a → L.Repr b → L.Repr c)
    (ca : L.Repr a' → L.Repr a) (cb : L.Repr b' → L.Repr b) (cc : L.Repr c → L.Repr c')
    (x : L.Repr a') (y : L.Repr b') : L.Repr c' := cc (impl (ca x) (cb y))

end Qv.C01
