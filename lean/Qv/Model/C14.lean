/-
C14 — model of `qutip/solver/parallel.py`: `_generic_pmap` and `serial_map`.

The model mirrors the *mechanism* of the code (the `waiting / errors / finished`
loop) as a small-step machine.  The environment (which in-flight task finishes
when, how the clock advances) is a schedule: one `Step` is consumed at every
yield point (each `concurrent.futures.wait`, each `executor.submit`).  The same
schedule drives the real `_generic_pmap` through a fake executor in
harness/c14.py, and the two traces are compared event by event.
Import-free (core Lean only) so that the driver can run it.
-/
namespace Qv.C14

structure Step where
  comp : List Nat      -- ranks (mod number of running tasks) of the tasks that complete now
  tick : Nat           -- clock advance after the completions
deriving Repr

structure Cfg where
  n : Nat                    -- number of values
  workers : Nat              -- num_cpus
  raises : List Nat          -- indices of the tasks that raise
  failFast : Bool
  reducer : Bool             -- reduce_func given
  stopAfter : Option Nat     -- reducer returns `k - (number reduced)`; none = returns None
  timeout : Option Nat       -- none = no time limit (float inf)
  drain : Bool               -- shutdown lets running tasks finish (parallel_map) / cancels them
deriving Repr

inductive PC | head | check | fill | final | shut | done
deriving DecidableEq, Repr

inductive Ev
  | submit (i : Nat) | ok (i : Nat) | err (i : Nat) | reduce (i : Nat) | cancel (i : Nat)
  | waitFirst | waitAll
deriving DecidableEq, Repr

structure St where
  pc : PC := .head
  i : Nat := 0
  waiting : List Nat := []          -- the code's `waiting` set, in submission order
  comp : List Nat := []             -- futures that are done, in completion order
  errors : List Nat := []           -- keys of the `errors` dict, insertion order
  finished : Bool := false          -- `finished` list non-empty
  reduced : List Nat := []          -- calls made to reduce_func, in order
  results : List (Option Nat) := [] -- `results` list when there is no reducer
  clock : Nat := 0
  sched : List Step := []
  aborted : Bool := false
  cancelled : List Nat := []
  iAtStop : Option Nat := none      -- ghost: value of `i` when a stop condition first held
  trace : List Ev := []             -- reversed
deriving Repr

def init0 (c : Cfg) (sched : List Step) : St :=
  { results := List.replicate c.n none, sched := sched }

def raisesB (c : Cfg) (j : Nat) : Bool := c.raises.contains j

/-- `_done_callback` for a future that was not cancelled. -/
def completeOne (c : Cfg) (s : St) (j : Nat) : St :=
  let s := { s with comp := s.comp ++ [j] }
  if raisesB c j then
    { s with errors := s.errors ++ [j], trace := .err j :: s.trace }
  else if c.reducer then
    let red := s.reduced ++ [j]
    let fin := match c.stopAfter with
      | some k => s.finished || decide (k ≤ red.length)
      | none => s.finished
    { s with reduced := red, finished := fin, trace := .reduce j :: .ok j :: s.trace }
  else
    { s with results := s.results.set j (some j), trace := .ok j :: s.trace }

/-- in-flight tasks that have not completed, in submission order -/
def running (s : St) : List Nat := s.waiting.filter (fun j => !s.comp.contains j)

def pick (l : List Nat) (r : Nat) (h : l ≠ []) : Nat :=
  l[r % l.length]'(Nat.mod_lt _ (List.length_pos_iff.mpr h))

def applyComps (c : Cfg) (s : St) : List Nat → St
  | [] => s
  | r :: rs =>
    if h : running s = [] then applyComps c s rs
    else applyComps c (completeOne c s (pick (running s) r h)) rs

def completeAll (c : Cfg) (s : St) : List Nat → St
  | [] => s
  | j :: js => completeAll c (completeOne c s j) js

def popStep (s : St) (dflt : Step) : Step × St :=
  match s.sched with
  | [] => (dflt, s)
  | st :: rest => (st, { s with sched := rest })

def expired (c : Cfg) (s : St) : Bool :=
  match c.timeout with
  | none => false
  | some T => decide (T ≤ s.clock)

/-- the loop's exit test -/
def stopCond (c : Cfg) (s : St) : Bool :=
  expired c s || (!s.errors.isEmpty && c.failFast) || s.finished

def tickBy (s : St) (k : Nat) : St := { s with clock := s.clock + k }

def yieldStep (c : Cfg) (s : St) (dflt : Step) : St :=
  let p := popStep s dflt
  tickBy (applyComps c p.2 p.1.comp) p.1.tick

def reap (s : St) : St := { s with waiting := running s }

def noteStop (c : Cfg) (s : St) : St :=
  match s.iAtStop with
  | some _ => s
  | none => if stopCond c s then { s with iAtStop := some s.i } else s

def waitFirst (c : Cfg) (s : St) : St :=
  let s := { s with trace := .waitFirst :: s.trace }
  let s := yieldStep c s ⟨[0], 0⟩
  let s :=
    if s.waiting.any (fun j => s.comp.contains j) then s
    else match c.timeout with
      | some T => { s with clock := max s.clock T }
      | none => match running s with
        | [] => s
        | j :: _ => completeOne c s j
  reap s

def submit (s : St) : St :=
  { s with waiting := s.waiting ++ [s.i], trace := .submit s.i :: s.trace, i := s.i + 1 }

def body (c : Cfg) (s : St) : St :=
  match s.pc with
  | .head =>
    if s.i < c.n then
      if c.workers ≤ s.waiting.length then { waitFirst c s with pc := .check }
      else { s with pc := .check }
    else { s with pc := .final }
  | .check =>
    if stopCond c s then { s with aborted := true, pc := .shut } else { s with pc := .fill }
  | .fill =>
    if s.waiting.length < c.workers ∧ s.i < c.n then
      yieldStep c (submit s) ⟨[], 0⟩
    else { s with pc := .head }
  | .final =>
    let s := { s with trace := .waitAll :: s.trace }
    let s := yieldStep c s ⟨[], 0⟩
    let s := if expired c s then s else completeAll c s (running s)
    { reap s with pc := .shut }
  | .shut =>
    let r := running s
    if c.drain then { completeAll c s r with pc := .done }
    else { s with cancelled := s.cancelled ++ r, trace := (r.map Ev.cancel).reverse ++ s.trace, pc := .done }
  | .done => s

def step (c : Cfg) (s : St) : St := noteStop c (body c s)

def init (c : Cfg) (sched : List Step) : St := noteStop c (init0 c sched)

def iter (c : Cfg) : Nat → St → St
  | 0, s => s
  | k + 1, s => iter c k (step c s)

def fuel (c : Cfg) : Nat := 4 * c.n + 8

def run (c : Cfg) (sched : List Step) : St := iter c (fuel c) (init c sched)

inductive Outcome
  | ret (results : Option (List (Option Nat)))          -- `None` with a reducer
  | raiseFirst (i : Nat)                                  -- fail_fast: the first recorded error itself
  | mapExceptions (errs : List Nat) (results : Option (List (Option Nat)))
deriving Repr, DecidableEq

def outcome (c : Cfg) (s : St) : Outcome :=
  let res := if c.reducer then none else some s.results
  match s.errors with
  | [] => .ret res
  | e :: _ => if c.failFast then .raiseFirst e else .mapExceptions s.errors res

/-! ### serial_map -/

structure SSt where
  k : Nat := 0
  errors : List Nat := []
  reduced : List Nat := []
  results : List (Option Nat) := []
  clock : Nat := 0
  stopped : Bool := false     -- `end_time = 0`
  sched : List Step := []
  raised : Option Nat := none -- fail_fast: error raised out of the loop
  ran : List Nat := []
deriving Repr

def sExpired (c : Cfg) (s : SSt) : Bool :=
  s.stopped || (match c.timeout with | none => false | some T => decide (T < s.clock))

def serialLoop (c : Cfg) : Nat → SSt → SSt
  | 0, s => s
  | f + 1, s =>
    if s.k < c.n then
      if sExpired c s then s
      else
        let j := s.k
        let (tick, sched) := match s.sched with | [] => (0, []) | st :: r => (st.tick, r)
        let s := { s with sched := sched, clock := s.clock + tick, ran := s.ran ++ [j], k := s.k + 1 }
        if raisesB c j then
          if c.failFast then { s with raised := some j }
          else serialLoop c f { s with errors := s.errors ++ [j] }
        else if c.reducer then
          let red := s.reduced ++ [j]
          let stop := match c.stopAfter with | some k => decide (k ≤ red.length) | none => false
          serialLoop c f { s with reduced := red, stopped := s.stopped || stop }
        else serialLoop c f { s with results := s.results.set j (some j) }
    else s

def serialRun (c : Cfg) (sched : List Step) : SSt :=
  serialLoop c c.n { results := List.replicate c.n none, sched := sched }

def serialOutcome (c : Cfg) (s : SSt) : Outcome :=
  let res := if c.reducer then none else some s.results
  match s.raised with
  | some j => .raiseFirst j
  | none => match s.errors with
    | [] => .ret res
    | _ :: _ => .mapExceptions s.errors res

end Qv.C14
