/-
C13 — seed plumbing of the multi-trajectory solvers (`MultiTrajSolver._read_seed`,
numpy `SeedSequence.spawn`): a seed sequence is (entropy, spawn_key, n_children_spawned); `spawn(n)`
hands out children with keys `spawn_key ++ [n_children_spawned + i]` and advances the counter.
A trajectory is modelled as a pure function of (problem, seed) — that purity is what the relational
checks of harness/c13.py validate on the real solvers.  Import-free.
-/
namespace Qv.C13

structure SeedSeq where
  entropy : Nat
  key : List Nat
  spawned : Nat := 0
deriving DecidableEq, Repr

/-- `SeedSequence.spawn(n)`: the children and the advanced parent -/
def SeedSeq.spawn (s : SeedSeq) (n : Nat) : List SeedSeq × SeedSeq :=
  ((List.range n).map fun i => { entropy := s.entropy, key := s.key ++ [s.spawned + i] },
   { s with spawned := s.spawned + n })

/-- the forms a `seeds` argument can take -/
inductive SeedArg
  | none                          -- use the solver's own seed sequence
  | int (n : Nat)
  | seq (s : SeedSeq)
  | list (l : List SeedSeq)       -- a list of seeds (ints are wrapped by SeedSequence(int))

/-- `_read_seed(seed, ntraj)`: the seeds handed to the map, and the solver's own sequence afterwards.
`none` result = ValueError (list shorter than ntraj). -/
def readSeed (own : SeedSeq) (seed : SeedArg) (ntraj : Nat) : Option (List SeedSeq) × SeedSeq :=
  match seed with
  | .none => let r := own.spawn ntraj; (some r.1, r.2)
  | .seq s => (some (s.spawn ntraj).1, own)
  | .int n => (some (({ entropy := n, key := [] } : SeedSeq).spawn ntraj).1, own)
  | .list l => if ntraj ≤ l.length then (some (l.take ntraj), own) else (none, own)

end Qv.C13
