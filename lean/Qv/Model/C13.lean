/-
C13 — seed plumbing of the multi-trajectory solvers (`MultiTrajSolver._read_seed`,
numpy `SeedSequence.spawn`): a seed sequence is (entropy, spawn_key, n_children_spawned); `spawn(n)`
hands out children with keys `spawn_key ++ [n_children_spawned + i]` and advances the counter.
A trajectory is modelled as a pure function of (problem, seed) — that purity is what the relational
checks of harness/c13.py validate on the real solvers.  Import-free.
-/
namespace Qv.C13

structure SeedSeq where
  entropy : Nat
  key : List Nat
  spawned : Nat := 0
deriving DecidableEq, Repr

/-- `SeedSequence.spawn(n)`: the children and the advanced parent -/
def SeedSeq.spawn (s : SeedSeq) (n : Nat) : List SeedSeq × SeedSeq :=
  ((List.range n).map fun i => { entropy := s.entropy, key := s.key ++ [s.spawned + i] },
   { s with spawned := s.spawned + n })

/-- the forms a `seeds` argument can take -/
inductive SeedArg
  | none                          -- use the solver's own seed sequence
  | int (n : Nat)
  | seq (s : SeedSeq)
  | list (l : List SeedSeq)       -- a list of seeds (ints are wrapped by SeedSequence(int))

/-- `_read_seed(seed, ntraj)`: the seeds handed to the map, and the solver's own sequence afterwards.
`none` result = ValueError (list shorter than ntraj). -/
def readSeed (own : SeedSeq) (seed : SeedArg) (ntraj : Nat) : Option (List SeedSeq) × SeedSeq :=
  match seed with
  | .none => let r := own.spawn ntraj; (some r.1, r.2)
  | .seq s => (some (s.spawn ntraj).1, own)
  | .int n => (some (({ entropy := n, key := [] } : SeedSeq).spawn ntraj).1, own)
  | .list l => if ntraj ≤ l.length then (some (l.take ntraj), own) else (none, own)

/-! ## What the reducer keeps

`MultiTrajResult.add((seed, trajectory))` appends the seed to `result.seeds` and the trajectory's data
to the stored runs, in the order in which results arrive from the map — which, with worker processes,
is any order.  A trajectory is `traj seed`. -/

structure Collected (α : Type) where
  seeds : List SeedSeq := []
  runs : List α := []
deriving Repr

def Collected.add {α : Type} (c : Collected α) (s : SeedSeq) (r : α) : Collected α :=
  { seeds := c.seeds ++ [s], runs := c.runs ++ [r] }

/-- the result of task `i` arrives (an index outside the task list is no task) -/
def arrive {α : Type} (traj : SeedSeq → α) (seeds : List SeedSeq) (c : Collected α) (i : Nat) : Collected α :=
  match seeds[i]? with
  | some s => c.add s (traj s)
  | none => c

/-- the results arrive in the order `order` (a list of task indices) -/
def collect {α : Type} (traj : SeedSeq → α) (seeds : List SeedSeq) (order : List Nat) : Collected α :=
  order.foldl (arrive traj seeds) {}

/-- a variant that reports the seeds in submission order whatever the arrival order (what two of the
seeded changes did): used only to show that the pairing theorem is not vacuous -/
def collectSubmissionSeeds {α : Type} (traj : SeedSeq → α) (seeds : List SeedSeq) (order : List Nat) : Collected α :=
  let c := collect traj seeds order
  { c with seeds := seeds.take c.seeds.length }

end Qv.C13
