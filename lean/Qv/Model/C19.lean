/-
C19 — bookkeeping of the hierarchy solver (`qutip/solver/heom/bofin_solvers.py`, `core/states.py`):
ADO labels (`state_number_enumerate(dims, max_depth)`: lexicographic, total excitation ≤ depth),
`HierarchyADOs.idx / next / prev`, the fermionic sign rules of `_grad_prev_fermionic` /
`_grad_next_fermionic`, and the bath correlation function Σ c_k·e^{−ν_k t} under re-writing of the
exponent list.  Import-free, executable.
-/
namespace Qv.C19

/-- all tuples with entries below `dims`, lexicographic (`itertools.product` order) -/
def product : List Nat → List (List Nat)
  | [] => [[]]
  | d :: ds => (List.range d).flatMap fun i => (product ds).map (i :: ·)

/-- `state_number_enumerate(dims, excitations)` — "standard state enumeration by definition" -/
def labels (dims : List Nat) (depth : Nat) : List (List Nat) := (product dims).filter fun l => l.sum ≤ depth

/-- `HierarchyADOs.idx` -/
def idx (dims : List Nat) (depth : Nat) (l : List Nat) : Option Nat :=
  let ls := labels dims depth
  if l ∈ ls then some (ls.idxOf l) else none

/-- `HierarchyADOs.next(label, k)` -/
def next (dims : List Nat) (depth : Nat) (l : List Nat) (k : Nat) : Option (List Nat) :=
  if l.getD k 0 + 1 ≥ dims.getD k 0 then none
  else if l.sum ≥ depth then none
  else some (l.set k (l.getD k 0 + 1))

/-- `HierarchyADOs.prev(label, k)` -/
def prev (l : List Nat) (k : Nat) : Option (List Nat) :=
  if l.getD k 0 = 0 then none else some (l.set k (l.getD k 0 - 1))

/-- excitations in fermionic exponents: `sum(n_i * int(exp_i.fermionic))` -/
def fermionicExcite (l : List Nat) (ferm : List Bool) : Nat :=
  ((l.zip ferm).map fun p => if p.2 then p.1 else 0).sum

/-- `sign1 = (-1) ** (n_excite + 1 - odd_parity)` (true = −1) -/
def sign1Neg (l : List Nat) (ferm : List Bool) (odd : Bool) : Bool :=
  (fermionicExcite l ferm + 1 - (if odd then 1 else 0)) % 2 = 1

/-- `sign2 = (-1) ** (n_excite_before_k + odd_parity)` (true = −1) -/
def sign2Neg (l : List Nat) (ferm : List Bool) (odd : Bool) (k : Nat) : Bool :=
  (fermionicExcite (l.take k) (ferm.take k) + (if odd then 1 else 0)) % 2 = 1

/-! ### merging two exponents of equal rate (`CFExponent._combine`) -/

inductive Kind | R | I | RI
deriving DecidableEq, Repr

/-- a bosonic exponent without its rate: `ck`, and `ck2` for kind RI -/
structure CExp (K : Type) where
  kind : Kind
  ck : K
  ck2 : K

section combine
variable {K : Type} [Add K] [Mul K] [OfNat K 0]

/-- contribution of the exponent to the real-part and to the imaginary-part expansion -/
def CExp.parts (e : CExp K) : K × K :=
  match e.kind with
  | .R => (e.ck, 0)
  | .I => (0, e.ck)
  | .RI => (e.ck, e.ck2)

/-- `_combine(self, other)` -/
def combine (a b : CExp K) : CExp K :=
  if a.kind = b.kind ∧ a.kind ≠ .RI then ⟨a.kind, a.ck + b.ck, 0⟩
  else
    let pa := a.parts
    let pb := b.parts
    ⟨.RI, (0 + pa.1) + pb.1, (0 + pa.2) + pb.2⟩

end combine

end Qv.C19
