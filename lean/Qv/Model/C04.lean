/-
C04 — "library calls do not modify the objects handed to them": a small imperative IR for the skeleton
of a library function (what it binds, what it copies, what it updates in place), a may-alias analysis
(`analyze`) that decides "no caller-owned object can be updated in place", and the nondeterministic
semantics (`Exec`) the analysis is proved sound for.  harness/translate_alias.py extracts the IR of the
constructors and helpers named in the property from their Python source on every run
(`Qv/Gen/AliasIR.lean`).  Import-free.
-/
namespace Qv.C04

/-- variables are numbered; objects are heap cells holding a payload -/
inductive Stmt
  | fresh (x : Nat)            -- x = <copy, new object, result of an operation that allocates>
  | alias (x y : Nat)          -- x = y
  | havoc (x : Nat)            -- x = <may be any existing object>: element of a container, attribute,
                               --     result of a call that may hand back one of its arguments
  | mutate (x : Nat)           -- in-place operation on the object x refers to (+=, setter, .append, ...)
  | seq (a b : Stmt)
  | choice (a b : Stmt)        -- if / else, try / except: condition not modelled
  | loop (body : Stmt)         -- for / while: any number of iterations
  | skip
deriving Repr, DecidableEq

structure St where
  env : Nat → Nat              -- variable ↦ object id
  heap : List Nat              -- object id ↦ payload

def upd (env : Nat → Nat) (x v : Nat) : Nat → Nat := fun y => if y = x then v else env y

/-- nondeterministic big-step semantics: payloads written, objects handed back by `havoc` and branch /
iteration choices are arbitrary -/
inductive Exec : Stmt → St → St → Prop
  | fresh (x p s) : Exec (.fresh x) s ⟨upd s.env x s.heap.length, s.heap ++ [p]⟩
  | alias (x y s) : Exec (.alias x y) s ⟨upd s.env x (s.env y), s.heap⟩
  | havoc (x v s) : Exec (.havoc x) s ⟨upd s.env x v, s.heap⟩
  | mutate (x p s) : Exec (.mutate x) s ⟨s.env, s.heap.set (s.env x) p⟩
  | seq {a b s s1 s2} : Exec a s s1 → Exec b s1 s2 → Exec (.seq a b) s s2
  | choiceL {a b s s1} : Exec a s s1 → Exec (.choice a b) s s1
  | choiceR {a b s s1} : Exec b s s1 → Exec (.choice a b) s s1
  | loopDone (body s) : Exec (.loop body) s s
  | loopStep {body s s1 s2} : Exec body s s1 → Exec (.loop body) s1 s2 → Exec (.loop body) s s2
  | skip (s) : Exec .skip s s

/-! ### the analysis: `own` = variables that certainly refer to an object created by this call -/

def inter (a b : List Nat) : List Nat := a.filter (b.contains ·)
def without (a : List Nat) (x : Nat) : List Nat := a.filter (· != x)

/-- shrink `own` until it is preserved by one more pass of the loop body -/
def loopInv (f : List Nat → Option (List Nat)) : Nat → List Nat → Option (List Nat)
  | 0, _ => none
  | fuel+1, own =>
    match f own with
    | none => none
    | some o1 => if (inter own o1).length = own.length then some own else loopInv f fuel (inter own o1)

/-- `none` = some in-place update may hit an object the function did not create -/
def analyze : Stmt → List Nat → Option (List Nat)
  | .fresh x, own => some (x :: own)
  | .alias x y, own => if own.contains y then some (x :: own) else some (without own x)
  | .havoc x, own => some (without own x)
  | .mutate x, own => if own.contains x then some own else none
  | .seq a b, own => match analyze a own with
    | some o => analyze b o
    | none => none
  | .choice a b, own => match analyze a own, analyze b own with
    | some o1, some o2 => some (inter o1 o2)
    | _, _ => none
  | .loop body, own => loopInv (analyze body) (own.length + 1) own
  | .skip, own => some own

/-- a function skeleton: parameters are caller-owned and start outside `own` -/
def safe (body : Stmt) : Bool := (analyze body []).isSome

/-- the parameters an in-place update may reach when the analysis refuses: used for the declared
mutators (`__iadd__`, `arguments`, ...), whose receiver is allowed to change -/
def safeExcept (recv : List Nat) (body : Stmt) : Bool := (analyze body recv).isSome

end Qv.C04
