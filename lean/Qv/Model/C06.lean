/-
C06 — model of `qutip/core/cy/coefficient.pyx`: `InterCoefficient` (`_prepare`, `_binary_search`,
`_call`, the order-0 and order-1 tables of `__init__`, `add_inter`) and the argument plumbing of
`FunctionCoefficient` (`coefficient_function_parameters`, `__init__`, `replace_arguments`, `__call__`).

Times live in any ordered type `R`, values in any `V` with an embedding `emb : R → V` (the driver uses
`Rat` and complex rationals; the theorems any ordered field and any field that is an algebra over it).
The floating-point index formula `<size_t>((t - t0)/dt)` of the uniform branch is *not* modelled: it is
an arbitrary function `guess`, and every theorem holds for every such function — this is what the
correcting walk added to `_call` buys.  Import-free.
-/
namespace Qv.C06

section inter
variable {R V : Type} [LT R] [LE R] [DecidableLT R] [DecidableLE R]

/-- `_binary_search`: `while low+1 != high and count < 64` -/
def bsLoop (g : Nat → R) (x : R) : Nat → Nat → Nat → Nat
  | 0, low, _ => low
  | f+1, low, high =>
    if low + 1 = high then low
    else if x < g ((low + high) / 2) then bsLoop g x f low ((low + high) / 2)
    else bsLoop g x f ((low + high) / 2) high

def binarySearch (g : Nat → R) (n : Nat) (x : R) : Nat := bsLoop g x 64 0 n

/-- `while t < tlist[idx]: idx -= 1` -/
def walkDown (g : Nat → R) (x : R) : Nat → Nat → Nat
  | 0, i => i
  | f+1, i => if x < g i then walkDown g x f (i - 1) else i

/-- `while t >= tlist[idx+1]: idx += 1` -/
def walkUp (g : Nat → R) (x : R) : Nat → Nat → Nat
  | 0, i => i
  | f+1, i => if g (i + 1) ≤ x then walkUp g x f (i + 1) else i

/-- the uniform branch of `_call`: clamp the guessed index, then walk to the interval containing `x` -/
def locate (g : Nat → R) (n guess : Nat) (x : R) : Nat :=
  let i0 := if guess + 2 > n then n - 2 else guess
  walkUp g x n (walkDown g x n i0)

structure IC (R V : Type) where
  n : Nat                  -- len(tlist)
  g : Nat → R              -- tlist
  order : Nat              -- poly.shape[0] - 1
  poly : Nat → Nat → V     -- poly[row, column]; row 0 = leading coefficient, row `order` = constant term
  uniform : Bool           -- self.dt != 0
  guess : R → Nat          -- <size_t>((t - tlist[0]) / dt) as computed in floating point

def IC.index (c : IC R V) (t : R) : Nat :=
  if c.uniform then locate c.g c.n (c.guess t) t else binarySearch c.g c.n t

variable [Sub R] [Add V] [Mul V] [OfNat V 0]

/-- `out = 0; for i in range(k): out *= factor; out += slice[i]` -/
def horner (emb : R → V) (col : Nat → V) (factor : R) : Nat → V
  | 0 => 0
  | i+1 => horner emb col factor i * emb factor + col i

/-- `InterCoefficient._call` -/
def IC.call (emb : R → V) (c : IC R V) (t : R) : V :=
  if t ≤ c.g 0 then c.poly c.order 0
  else if c.g (c.n - 1) ≤ t then c.poly c.order (c.n - 1)
  else if c.order = 0 then c.poly 0 (c.index t)
  else horner emb (fun i => c.poly i (c.index t)) (t - c.g (c.index t)) (c.order + 1)

/-- the polynomial of interval `k` evaluated at `t` -/
def IC.piece (emb : R → V) (c : IC R V) (k : Nat) (t : R) : V :=
  horner emb (fun i => c.poly i k) (t - c.g k) (c.order + 1)

/-- order 0: `coeff_arr.reshape((1, -1))` -/
def table0 (s : Nat → V) : Nat → Nat → V := fun _ k => s k

/-- order 1: `vstack([diff(coeff)/diff(tlist), coeff])` (the appended last slope is never read) -/
def table1 [Sub V] [Div V] (emb : R → V) (g : Nat → R) (s : Nat → V) : Nat → Nat → V :=
  fun r k => if r = 0 then (s (k + 1) - s k) / emb (g (k + 1) - g k) else s k

/-- `add_inter` when the grids and orders match -/
def addInter (a b : IC R V) : IC R V := { a with poly := fun r k => a.poly r k + b.poly r k }

end inter

/-! ### FunctionCoefficient argument plumbing -/
section func
variable {A : Type}

abbrev Dict (A : Type) := List (String × A)

def Dict.get (d : Dict A) (k : String) : Option A := (d.find? (·.1 == k)).map (·.2)

/-- `{**a, **u}` as far as lookups go -/
def Dict.merge (a u : Dict A) : Dict A := u ++ a

/-- `{k: d[k] for k in params & d.keys()}` -/
def Dict.restrict (d : Dict A) (params : List String) : Dict A := d.filter (fun kv => params.contains kv.1)

inductive Style | auto | pythonic | dict
deriving DecidableEq, Repr

structure Sig where
  params : List String      -- all parameter names, the first one is the time
  hasKw : Bool              -- a **kw parameter
deriving Repr

/-- `coefficient_function_parameters`: (f_pythonic, f_parameters) -/
def funcParameters (sig : Sig) (style : Style) : Bool × Option (List String) :=
  let st := match style with
    | .auto => if sig.params = ["t", "args"] && !sig.hasKw then Style.dict else Style.pythonic
    | s => s
  (st == .pythonic, if st == .dict || sig.hasKw then none else some (sig.params.drop 1))

structure FC (A : Type) where
  pythonic : Bool
  fparams : Option (List String)
  args : Dict A

def FC.init (sig : Sig) (style : Style) (args : Dict A) : FC A :=
  let p := funcParameters sig style
  { pythonic := p.1, fparams := p.2,
    args := match p.2 with | some ps => args.restrict ps | none => args }

/-- the update `replace_arguments(_args, **kwargs)` keeps: `kwargs.update(_args)`, restricted to the
function's parameters -/
def FC.accepted (c : FC A) (dargs kwargs : Dict A) : Dict A :=
  match c.fparams with
  | some ps => (Dict.merge kwargs dargs).restrict ps
  | none => Dict.merge kwargs dargs

/-- `replace_arguments(_args, **kwargs)`; `none` = `return self` -/
def FC.replace (c : FC A) (dargs kwargs : Dict A) : Option (FC A) :=
  match (c.accepted dargs kwargs).isEmpty with
  | true => none
  | false => some { c with args := Dict.merge c.args (c.accepted dargs kwargs) }

/-- the arguments the function is called with by `c(t, _args, **kwargs)` -/
def FC.callArgs (c : FC A) (dargs kwargs : Dict A) : Dict A :=
  match c.replace dargs kwargs with
  | some c' => c'.args
  | none => c.args

end func
end Qv.C06
