import Qv.Proofs.C15
/-!
# C15 — ensemble statistics equal the weighted statistics of the trajectories added

Theorems about the model `Qv.C15` of `MultiTrajResult` (one component of the ensemble data), over
*any* field `R` (so for all real and complex values), for every history of
add / add_deterministic / read operations, every option set, every weight and mixing probability.
Tied to `qutip/solver/multitrajresult.py` by the history correspondence in harness/c15.py.
-/
set_option linter.unusedSectionVars false
namespace Qv.C15

variable {R : Type} [Field R] [DecidableEq R]

inductive Op (R : Type)
  | add (seed : Nat) (t : Traj R) (w : R)
  | addDet (t : Traj R) (w : R)
  | readAvg
  | readStates
  | readFinal

def applyOp (m : MT R) : Op R → Except Err (MT R)
  | .add seed t w => add m seed t w
  | .addDet t w => addDet m t w
  | .readAvg => .ok (readAvg m).1
  | .readStates => .ok (readStates m).1
  | .readFinal => .ok (readFinal m).1

/-- run a history; an operation that raises ends it -/
def runOps (m : MT R) : List (Op R) → Except Err (MT R)
  | [] => .ok m
  | op :: ops => match applyOp m op with
    | .ok m' => runOps m' ops
    | .error e => .error e

/-- the (weight, value) log of the sampled trajectories of a history, in insertion order -/
def relLog : List (Op R) → List (R × R)
  | [] => []
  | .add _ t w :: ops => (w, t.x) :: relLog ops
  | _ :: ops => relLog ops

def detLog : List (Op R) → List (R × R)
  | [] => []
  | .addDet t w :: ops => (w, t.x) :: detLog ops
  | _ :: ops => detLog ops

theorem inv_fresh (o : Opts) (h : o.hasEops = true) : Inv (fresh o : MT R) [] [] := by
  refine ⟨by simp [fresh, procsOf, h], by simp [fresh, h], rfl, rfl, rfl, rfl, rfl, ?_⟩
  intro c hc; simp [fresh] at hc

/-- Every history keeps the bookkeeping equal to the weighted sums of what was added — reads
(which fill caches and lazily built sums) included. -/
theorem history_inv (ops : List (Op R)) : ∀ {m m' : MT R} {rel det : List (R × R)},
    Inv m rel det → runOps m ops = .ok m' → Inv m' (rel ++ relLog ops) (det ++ detLog ops) := by
  induction ops with
  | nil => intro m m' rel det h hr; cases hr; simpa [relLog, detLog] using h
  | cons op ops ih =>
    intro m m' rel det h hr
    unfold runOps at hr
    cases op with
    | add seed t w =>
      simp only [applyOp] at hr
      cases ha : add m seed t w with
      | error e => rw [ha] at hr; cases hr
      | ok m1 =>
        rw [ha] at hr
        have := ih (add_inv h ha) hr
        simpa [relLog, detLog, List.append_assoc] using this
    | addDet t w =>
      simp only [applyOp] at hr
      cases ha : addDet m t w with
      | error e => rw [ha] at hr; cases hr
      | ok m1 =>
        rw [ha] at hr
        have := ih (addDet_inv h ha) hr
        simpa [relLog, detLog, List.append_assoc] using this
    | readAvg => exact ih (readAvg_inv h) hr
    | readStates => exact ih (readStates_inv h).1 hr
    | readFinal => exact ih (readFinal_inv h).1 hr

/-- **At any moment** the averages (first and second moment, hence the standard deviation) read
from a result equal the weighted statistics of the trajectories added so far: absolute weights for
the deterministic ones, relative weights divided by the number of sampled trajectories for the
others — whatever was read before. -/
theorem average_formula (o : Opts) (ho : o.hasEops = true) (ops : List (Op R)) (m : MT R)
    (hr : runOps (fresh o) ops = .ok m) :
    (readAvg m).2 = some (specAvg (relLog ops).length (relLog ops) (detLog ops)) := by
  have h := history_inv ops (inv_fresh o ho) hr
  simp only [List.nil_append] at h
  rw [readAvg_val h h.eops, h.num_eq]

/-- The values do not depend on the order in which trajectories were added. -/
theorem order_independent (o : Opts) (ho : o.hasEops = true) (ops ops' : List (Op R)) (m m' : MT R)
    (hr : runOps (fresh o) ops = .ok m) (hr' : runOps (fresh o) ops' = .ok m')
    (hp : (relLog ops).Perm (relLog ops')) (hd : (detLog ops).Perm (detLog ops')) :
    (readAvg m).2 = (readAvg m').2 := by
  rw [average_formula o ho ops m hr, average_formula o ho ops' m' hr']
  simp only [specAvg, m1_perm hp, m2_perm hp, m1_perm hd, m2_perm hd, hp.length_eq]

/-- The weights a result reports are those of its trajectories: `runs_weights` are the relative
weights over the trajectory count, and all reported weights sum to the total weight. -/
theorem weights_sum (o : Opts) (ho : o.hasEops = true) (ops : List (Op R)) (m : MT R)
    (hr : runOps (fresh o) ops = .ok m) :
    m.relW = (relLog ops).map Prod.fst ∧ m.detW = (detLog ops).map Prod.fst ∧
    m.num = (relLog ops).length ∧
    ((m.relW.map (fun w => w / (m.num : R))).sum + m.detW.sum
      = ((relLog ops).map Prod.fst).sum / (m.num : R) + ((detLog ops).map Prod.fst).sum) := by
  have h := history_inv ops (inv_fresh o ho) hr
  simp only [List.nil_append] at h
  refine ⟨h.relW_eq, h.detW_eq, h.num_eq, ?_⟩
  rw [h.relW_eq, h.detW_eq]
  congr 1
  generalize (relLog ops).map Prod.fst = l
  induction l with
  | nil => simp
  | cons a t ih => simp only [List.map_cons, List.sum_cons, ih, add_div]

/-- Two results that hold the same trajectories with the same weights report the same averages
(so the averages are a function of the weighted ensemble alone). -/
theorem inv_determines_avg {m m' : MT R} {rel det : List (R × R)} (h : Inv m rel det)
    (h' : Inv m' rel det) : (readAvg m).2 = (readAvg m').2 := by
  rw [readAvg_val h h.eops, readAvg_val h' h'.eops, h.num_eq, h'.num_eq]

/-- **Merging** two results gives, for any mixing probability, a result whose bookkeeping is the one
obtained by adding all their trajectories with correspondingly rescaled weights (deterministic
weights times `p` / `1-p`, relative weights times `p/p_equal` / `(1-p)/(1-p_equal)`), so — by
`inv_determines_avg` — it reports the averages such an object reports; the operands keep describing
their own trajectories. -/
theorem merge_eq_add_all {a b n a' b' : MT R} {p : Option R} {ra da rb db : List (R × R)}
    (ha : Inv a ra da) (hb : Inv b rb db) (hm : merge a b p = .ok (n, a', b')) :
    let pe : R := (a.num : R) / ((a.num + b.num : Nat) : R)
    let pp : R := p.getD pe
    Inv n (mergedRel ra rb pp pe) (mergedDet da db pp) ∧ Inv a' ra da ∧ Inv b' rb db ∧
    n.num = a.num + b.num := by
  have := merge_inv ha hb hm
  exact ⟨this.1, this.2.1, this.2.2.1, this.2.2.2.1⟩

/-- ... and its averages are the `p : 1-p` mixture of the operands' averages. -/
theorem merge_mixture {a b n a' b' : MT R} {p : Option R} {ra da rb db : List (R × R)}
    (ha : Inv a ra da) (hb : Inv b rb db) (hm : merge a b p = .ok (n, a', b')) :
    let pe : R := (a.num : R) / ((a.num + b.num : Nat) : R)
    let pp : R := p.getD pe
    (readAvg n).2 = some
      (pp * (specAvg a.num ra da).1 + (1 - pp) * (specAvg b.num rb db).1,
       pp * (specAvg a.num ra da).2 + (1 - pp) * (specAvg b.num rb db).2) := by
  obtain ⟨hn, _, _, hnum, hpe0, hpe1, hN⟩ := merge_inv ha hb hm
  intro pe pp
  rw [readAvg_val hn hn.eops, hnum]
  simp only [specAvg, mergedRel, mergedDet, m1_append, m2_append, m1_scale, m2_scale]
  rw [Nat.cast_add] at hN ⊢
  have hA : (a.num : R) ≠ 0 := by
    intro h0; apply hpe0; simp [h0]
  have hB : (b.num : R) ≠ 0 := by
    intro h0; apply hpe1
    rw [Nat.cast_add, h0, add_zero, div_self hA, sub_self]
  have hpe : pe = (a.num : R) / ((a.num : R) + (b.num : R)) := by
    show (a.num : R) / ((a.num + b.num : Nat) : R) = _
    rw [Nat.cast_add]
  have h1pe : 1 - pe = (b.num : R) / ((a.num : R) + (b.num : R)) := by
    rw [hpe]; field_simp; ring
  have hppdef : p.getD ((a.num : R) / ((a.num : R) + (b.num : R))) = pp := by
    show _ = p.getD ((a.num : R) / ((a.num + b.num : Nat) : R))
    rw [Nat.cast_add]
  rw [hppdef]
  have h1 : (1 : R) - (a.num : R) / ((a.num : R) + (b.num : R)) = (b.num : R) / ((a.num : R) + (b.num : R)) := by
    rw [← hpe]; exact h1pe
  rw [h1]
  generalize pp = q
  congr 1
  apply Prod.ext
  · simp only
    field_simp
    ring
  · simp only
    field_simp
    ring

/-- the mixture value of a merge with the default probability (equal weight per trajectory) -/
theorem merge_default_value {a b n a' b' : MT R} {ra da rb db : List (R × R)}
    (ha : Inv a ra da) (hb : Inv b rb db) (hm : merge a b none = .ok (n, a', b')) :
    let A : R := (a.num : R)
    let B : R := (b.num : R)
    specAvg n.num (mergedRel ra rb (A / ((a.num + b.num : Nat) : R)) (A / ((a.num + b.num : Nat) : R)))
        (mergedDet da db (A / ((a.num + b.num : Nat) : R))) =
      (A / (A + B) * (specAvg a.num ra da).1 + (1 - A / (A + B)) * (specAvg b.num rb db).1,
       A / (A + B) * (specAvg a.num ra da).2 + (1 - A / (A + B)) * (specAvg b.num rb db).2) ∧
    A ≠ 0 ∧ B ≠ 0 ∧ A + B ≠ 0 := by
  intro A B
  have hmix := merge_mixture ha hb hm
  obtain ⟨hn, _, _, hnum, hpe0, hpe1, hN⟩ := merge_inv ha hb hm
  simp only [Option.getD_none] at hmix hn
  rw [readAvg_val hn hn.eops] at hmix
  have hA : A ≠ 0 := by
    intro h0; apply hpe0; show A / _ = 0; simp [h0]
  have hB : B ≠ 0 := by
    intro h0; apply hpe1
    show 1 - A / ((a.num + b.num : Nat) : R) = 0
    rw [Nat.cast_add]; show 1 - A / (A + B) = 0
    rw [h0, add_zero, div_self hA, sub_self]
  rw [Nat.cast_add] at hN
  refine ⟨?_, hA, hB, hN⟩
  have := Option.some.inj hmix
  rw [this]
  simp only [Nat.cast_add]
  rfl

/-- Merging (with the default probability) is associative on the reported averages. -/
theorem merge_assoc_default {a b c ab abc bc abc' x1 x2 x3 x4 x5 x6 x7 x8 : MT R}
    {ra da rb db rc dc : List (R × R)}
    (ha : Inv a ra da) (hb : Inv b rb db) (hc : Inv c rc dc)
    (h1 : merge a b none = .ok (ab, x1, x2)) (h2 : merge ab c none = .ok (abc, x3, x4))
    (h3 : merge b c none = .ok (bc, x5, x6)) (h4 : merge a bc none = .ok (abc', x7, x8)) :
    (readAvg abc).2 = (readAvg abc').2 := by
  have iab := (merge_inv ha hb h1).1
  have ibc := (merge_inv hb hc h3).1
  have nab : ab.num = a.num + b.num := (merge_inv ha hb h1).2.2.2.1
  have nbc : bc.num = b.num + c.num := (merge_inv hb hc h3).2.2.2.1
  simp only [Option.getD_none] at iab ibc
  obtain ⟨v1, hA, hB, hAB⟩ := merge_default_value ha hb h1
  obtain ⟨v3, hB', hC, hBC⟩ := merge_default_value hb hc h3
  obtain ⟨v2, _, _, hABC⟩ := merge_default_value iab hc h2
  obtain ⟨v4, _, _, hABC'⟩ := merge_default_value ha ibc h4
  have i2 := (merge_inv iab hc h2).1
  have i4 := (merge_inv ha ibc h4).1
  simp only [Option.getD_none] at i2 i4
  rw [readAvg_val i2 i2.eops, readAvg_val i4 i4.eops, v2, v4]
  rw [nab] at hABC v1 ⊢
  rw [nbc] at hABC' v3 ⊢
  rw [v1, v3]
  simp only [Nat.cast_add] at hABC hABC' ⊢
  congr 1
  apply Prod.ext
  · simp only
    field_simp
    ring
  · simp only
    field_simp
    ring

/-! Non-vacuity: a concrete history over ℚ satisfies the hypotheses, with a read *between* the adds
(the situation in which the unrepaired code returned a stale average). -/
example :
    let o : Opts := { keep := false, storeStates := none, storeFinal := false, hasEops := true }
    let t1 : Traj Rat := { x := 1, s := [], f := none }
    let t2 : Traj Rat := { x := 0, s := [], f := none }
    ∃ m, runOps (fresh o) [.add 1 t1 1, .readAvg, .add 2 t2 1] = .ok m ∧
      (readAvg m).2 = some ((1 : Rat) / 2, (1 : Rat) / 2) := by
  refine ⟨_, rfl, ?_⟩
  decide +kernel

/-! ## Dictionary `e_ops`: merging by position is merging by key exactly when the keys are listed alike -/
section dictops
variable {R : Type} [Add R] [Mul R]

theorem merge_by_position_aux (w1 w2 : R) : ∀ (a b : KeyedSums R), a.map (·.1) = b.map (·.1) →
    (a.map (·.1)).Nodup → ∀ x ∈ mergeByPosition w1 w2 a b, mergeForKey w1 w2 a b x.1 = some x.2 := by
  intro a
  induction a with
  | nil => intro b _ _ x hx; simp [mergeByPosition] at hx
  | cons p a ih =>
    intro b hkeys hn x hx
    cases b with
    | nil => simp at hkeys
    | cons q b =>
      simp only [List.map_cons, List.cons.injEq] at hkeys
      obtain ⟨hpq, hrest⟩ := hkeys
      simp only [List.map_cons, List.nodup_cons] at hn
      simp only [mergeByPosition, List.zipWith_cons_cons, List.mem_cons] at hx
      rcases hx with hx | hx
      · subst hx
        simp [mergeForKey, ← hpq]
      · have hx' : x ∈ mergeByPosition w1 w2 a b := hx
        have hmem : x.1 ∈ a.map (·.1) := by
          unfold mergeByPosition at hx'
          obtain ⟨i, hi, rfl⟩ := List.mem_iff_getElem.mp hx'
          simp only [List.length_zipWith] at hi
          simp only [List.getElem_zipWith]
          exact List.mem_map.mpr ⟨a[i], List.getElem_mem _, rfl⟩
        have hne : p.1 ≠ x.1 := fun he => hn.1 (he ▸ hmem)
        have hneq : q.1 ≠ x.1 := by rw [← hpq]; exact hne
        have := ih b hrest hn.2 x hx'
        simp only [mergeForKey, List.find?_cons] at this ⊢
        simp only [beq_eq_false_iff_ne.mpr hne, beq_eq_false_iff_ne.mpr hneq]
        exact this

/-- when the operands list the same keys in the same order (and no key twice), the position-wise merge
holds, under every key, the mixture of the operands' sums for that key -/
theorem merge_by_position_is_by_key (w1 w2 : R) (a b : KeyedSums R) (h : mergeable a b = true)
    (hn : (a.map (·.1)).Nodup) (x : String × R) (hx : x ∈ mergeByPosition w1 w2 a b) :
    mergeForKey w1 w2 a b x.1 = some x.2 := by
  unfold mergeable at h
  exact merge_by_position_aux w1 w2 a b (by simpa using h) hn x hx

/-- the test before the repair lets through operands that list their keys in another order, for which the
position-wise merge mixes one key's sums with another's: keys a, b against b, a with values 1, 10 / 100,
1000 and equal weights — the merged entry labelled `a` holds 1 + 100 (the sums of `a` and of `b`) where
the mixture for `a` is 1 + 1000 -/
example :
    let a : KeyedSums Int := [("a", 1), ("b", 10)]
    let b : KeyedSums Int := [("b", 100), ("a", 1000)]
    mergeableOld a b = true ∧ mergeable a b = false ∧
      mergeByPosition 1 1 a b = [("a", 101), ("b", 1010)] ∧ mergeForKey 1 1 a b "a" = some 1001 := by
  decide

end dictops

end Qv.C15
