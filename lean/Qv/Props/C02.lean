import Qv.Proofs.C02
/-!
# C02 — consistent dimension bookkeeping

Theorems about the model of `qutip/core/dimensions.py` (construction from nested lists, type
inference, equality, `@`).  Tied to the code by the correspondence in harness/c02.py (random
specifications incl. malformed ones, pairs for equality / hash / composition); the matrix side of the
property (results equal the NumPy expression on the dense operands) is decided by the expression-tree
oracle of the same harness.
-/
namespace Qv.C02

/-- Dimensions can be built from two spaces iff one side is trivial, the sides are equal, or both
are of the same kind (operator / superoperator) — the mixed case is rejected. -/
theorem dims_defined_iff (fr to : Sp) :
    (∃ d, mkDims fr to = .ok d) ↔
      (fr.size = 1 ∨ to.size = 1 ∨ Sp.beq fr to = true ∨ fr.issuper = to.issuper) :=
  mkDims_ok_iff fr to

/-- Type and shape agree: scalars are 1x1, kets have one column, bras one row, and `issquare` holds
exactly for scalars and for equal input / output spaces. -/
theorem type_shape {fr to : Sp} {d : Dims} (h : mkDims fr to = .ok d) :
    (d.type = "scalar" → d.shape = (1, 1)) ∧
    (d.type = "ket" ∨ d.type = "operator-ket" → d.shape.2 = 1) ∧
    (d.type = "bra" ∨ d.type = "operator-bra" → d.shape.1 = 1) ∧
    (d.issquare = true → d.shape.1 = d.shape.2) := by
  obtain ⟨e1, e2⟩ := mkDims_fields h
  unfold mkDims at h
  by_cases h1 : fr.size = 1
  · by_cases h2 : to.size = 1
    · simp only [h1, h2, BEq.rfl, Bool.and_self, if_true] at h
      cases h
      simp [Dims.shape, h1, h2]
    · have e : (to.size == 1) = false := by simpa using h2
      simp only [h1, e, BEq.rfl, Bool.true_and, Bool.false_eq_true, if_false, if_true] at h
      cases h
      refine ⟨?_, ?_, ?_, ?_⟩ <;> simp [Dims.shape, h1] <;> (split <;> simp)
  · have e1' : (fr.size == 1) = false := by simpa using h1
    by_cases h2 : to.size = 1
    · simp only [e1', h2, Bool.false_and, Bool.false_eq_true, if_false, BEq.rfl, if_true] at h
      cases h
      refine ⟨?_, ?_, ?_, ?_⟩ <;> simp [Dims.shape, h2] <;> (split <;> simp)
    · have e2' : (to.size == 1) = false := by simpa using h2
      simp only [e1', e2', Bool.false_and, Bool.false_eq_true, if_false] at h
      by_cases h3 : Sp.beq fr to = true
      · simp only [h3, if_true] at h
        cases h
        have := beq_size fr to h3
        refine ⟨?_, ?_, ?_, ?_⟩ <;> simp [Dims.shape, this] <;> (split <;> simp)
      · simp only [h3, Bool.false_eq_true, if_false] at h
        split at h
        · cases h
        · cases h
          refine ⟨?_, ?_, ?_, ?_⟩ <;> simp [Dims.shape] <;> (split <;> simp)

/-- … and conversely the type is decided by the sizes of the two sides alone, however a side of
size 1 is written down (the field, `[1]`, `[1, 1]`, with or without the tidy-up of all-1 spaces). -/
theorem shape_type {fr to : Sp} {d : Dims} (h : mkDims fr to = .ok d) :
    (d.shape = (1, 1) → d.type = "scalar") ∧
    (d.shape.2 = 1 → d.shape.1 ≠ 1 → d.type = "ket" ∨ d.type = "operator-ket") ∧
    (d.shape.1 = 1 → d.shape.2 ≠ 1 → d.type = "bra" ∨ d.type = "operator-bra") ∧
    (d.shape.1 ≠ 1 → d.shape.2 ≠ 1 → d.type = "oper" ∨ d.type = "super") := by
  unfold mkDims at h
  by_cases h1 : fr.size = 1
  · by_cases h2 : to.size = 1
    · simp only [h1, h2, BEq.rfl, Bool.and_self, if_true] at h
      cases h
      simp [Dims.shape, h1, h2]
    · have e : (to.size == 1) = false := by simpa using h2
      simp only [h1, e, BEq.rfl, Bool.true_and, Bool.false_eq_true, if_false, if_true] at h
      cases h
      refine ⟨?_, ?_, ?_, ?_⟩ <;> simp [Dims.shape, h1, h2] <;> (split <;> simp)
  · have e1' : (fr.size == 1) = false := by simpa using h1
    by_cases h2 : to.size = 1
    · simp only [e1', h2, Bool.false_and, Bool.false_eq_true, if_false, BEq.rfl, if_true] at h
      cases h
      refine ⟨?_, ?_, ?_, ?_⟩ <;> simp [Dims.shape, h1, h2] <;> (split <;> simp)
    · have e2' : (to.size == 1) = false := by simpa using h2
      simp only [e1', e2', Bool.false_and, Bool.false_eq_true, if_false] at h
      by_cases h3 : Sp.beq fr to = true
      · simp only [h3, if_true] at h
        cases h
        refine ⟨?_, ?_, ?_, ?_⟩ <;> simp [Dims.shape, h1, h2] <;> (split <;> simp)
      · simp only [h3, Bool.false_eq_true, if_false] at h
        split at h
        · cases h
        · cases h
          refine ⟨?_, ?_, ?_, ?_⟩ <;> simp [Dims.shape, h1, h2] <;> (split <;> simp)

/-- `a @ b` is defined only when the input space of `a` *is* the output space of `b` … -/
theorem matmul_requires_equal_spaces (a b d : Dims) (h : a.matmul b = .ok d) : Sp.beq a.fr b.to = true := by
  unfold Dims.matmul at h
  by_cases hb : Sp.beq a.fr b.to = true
  · exact hb
  · simp [hb] at h

/-- … in which case the raw shapes compose as well, and the result runs from the input space of `b`
to the output space of `a` (so its shape is rows(a) x cols(b)). -/
theorem dims_compose_implies_shapes_compose (a b d : Dims) (h : a.matmul b = .ok d) :
    a.shape.2 = b.shape.1 ∧ d.shape = (a.shape.1, b.shape.2) := by
  have hb := matmul_requires_equal_spaces a b d h
  unfold Dims.matmul at h
  simp only [hb, Bool.not_true, Bool.false_eq_true, if_false] at h
  obtain ⟨e1, e2⟩ := mkDims_fields h
  exact ⟨beq_size _ _ hb, by simp [Dims.shape, e1, e2]⟩

/-- Operands whose shapes agree but whose labels do not compose are rejected: [[2,3]] @ [[3,2]]. -/
theorem reject_when_shapes_agree_but_dims_differ :
    ∃ a b : Dims, a.shape.2 = b.shape.1 ∧ a.matmul b = .error .typeError := by
  refine ⟨⟨.compound [.simple 2, .simple 3], .compound [.simple 2, .simple 3], "oper", false, none, true⟩,
          ⟨.compound [.simple 3, .simple 2], .compound [.simple 3, .simple 2], "oper", false, none, true⟩, ?_, ?_⟩
  · simp [Dims.shape, Sp.size, sizeL]
  · simp [Dims.matmul, Sp.beq, beqL]

/-- Equality of dimension objects is reflexive, and equal spaces have equal sizes. -/
theorem dims_eq_refl (d : Dims) : d.beq d = true := by simp [Dims.beq, beq_refl]

/-! "However written down": that a bare list, the same list inside an extra list layer, `Space` /
`Dimensions` objects and 1-dimensional-only lists denote the same object is decided per run by the
correspondence (the parser is defined by well-founded recursion on the nesting depth, which the
kernel does not evaluate by `decide`; no general theorem is claimed for it). -/

/-! ## Matrix elements follow the label rule of the product they stand for -/

/-- a product whose result has a one-dimensional side always has well-formed dimensions -/
theorem mkDims_ok_of_to_trivial (fr to : Sp) (h : to.size = 1) : ∃ d, mkDims fr to = .ok d := by
  by_cases h1 : fr.size = 1
  · refine ⟨{ fr, to, type := "scalar", issuper := fr.issuper, superrep := none, issquare := true }, ?_⟩
    simp [mkDims, h1, h]
  · refine ⟨{ fr, to, type := if fr.issuper then "operator-bra" else "bra", issuper := fr.issuper,
              superrep := fr.superrep, issquare := false }, ?_⟩
    simp [mkDims, h1, h]

theorem mkDims_ok_of_fr_trivial (fr to : Sp) (h : fr.size = 1) : ∃ d, mkDims fr to = .ok d := by
  by_cases h1 : to.size = 1
  · refine ⟨{ fr, to, type := "scalar", issuper := fr.issuper, superrep := none, issquare := true }, ?_⟩
    simp [mkDims, h1, h]
  · refine ⟨{ fr, to, type := if to.issuper then "operator-ket" else "ket", issuper := to.issuper,
              superrep := to.superrep, issquare := false }, ?_⟩
    simp [mkDims, h1, h]

/-- **`A.matrix_element(bra, ket)` is accepted exactly when `bra @ A @ ket` is**: for a bra `l` (trivial
output side) and a ket `r` (trivial input side), the label check of the repaired `matrix_element` holds
iff both products of `(l @ A) @ r` have composable labels. -/
theorem matrix_element_iff_products (A l r : Dims) (hl : l.to.size = 1) (hr : r.fr.size = 1) :
    matrixElementOk A false l true r = true ↔
      ∃ d e, l.matmul A = .ok d ∧ d.matmul r = .ok e := by
  unfold matrixElementOk stateSpace
  simp only [Bool.false_eq_true, if_false, if_true, Bool.and_eq_true]
  constructor
  · rintro ⟨h1, h2⟩
    obtain ⟨d, hd⟩ := mkDims_ok_of_to_trivial A.fr l.to hl
    have hd' : l.matmul A = .ok d := by simp [Dims.matmul, h1, hd]
    obtain ⟨e1, e2⟩ := mkDims_fields hd
    obtain ⟨e, he⟩ := mkDims_ok_of_fr_trivial r.fr d.to hr
    refine ⟨d, e, hd', ?_⟩
    simp [Dims.matmul, e1, h2, he]
  · rintro ⟨d, e, hd, he⟩
    have h1 := matmul_requires_equal_spaces l A d hd
    have h2 := matmul_requires_equal_spaces d r e he
    unfold Dims.matmul at hd
    simp only [h1, Bool.not_true, Bool.false_eq_true, if_false] at hd
    obtain ⟨e1, _⟩ := mkDims_fields hd
    rw [e1] at h2
    exact ⟨h1, h2⟩

/-- the rule before the repair accepted every pair of states: labels that do not compose were combined
(`[[3,2]]` against an operator on `[[2,3]]`) -/
example : matrixElementOk
    ⟨.compound [.simple 2, .simple 3], .compound [.simple 2, .simple 3], "oper", false, none, true⟩
    true ⟨.simple 1, .compound [.simple 3, .simple 2], "ket", false, none, false⟩
    true ⟨.simple 1, .compound [.simple 2, .simple 3], "ket", false, none, false⟩ = false := by
  simp [matrixElementOk, stateSpace, Sp.beq, beqL]

end Qv.C02
