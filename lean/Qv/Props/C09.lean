import Qv.Proofs.C09
import Qv.Proofs.C09Inj
import Qv.Proofs.C09Surj
/-!
# C09 — tensor-structure operations act on the subsystem indices they name

Theorems about the index arithmetic of `ptrace.pyx` and `permute.pyx`, for *every* list of
(positive) subsystem dimensions — repeated, unequal, 1-dimensional factors included — and every
selection.  Tied to the code by the exact correspondence in harness/c09.py (integer matrices whose
entries identify their tensor index).
-/
namespace Qv.C09

/-- The loop `_i2_k_t` over the table built by `_populate_tensor_table` computes the split of a tensor
index into (index among the kept subsystems, index among the traced ones). -/
theorem i2kt_spec (sel dims : List Nat) (n : Nat) :
    i2kt (table sel 0 dims).1 n = kt sel 0 dims n := i2kt_eq_kt sel dims n

/-- `_populate_tensor_table` returns the size of the kept space, and kept × traced = whole space. -/
theorem table_size (sel dims : List Nat) :
    (table sel 0 dims).2.2.1 = keepSize sel 0 dims ∧
    keepSize sel 0 dims * traceSize sel 0 dims = size dims := by
  refine ⟨?_, keep_mul_trace sel dims 0⟩
  rw [table_spec]

/-- Both parts of the split are in range: no write outside the output matrix. -/
theorem i2kt_bounds (sel dims : List Nat) (hp : Pos dims) (n : Nat) (hn : n < size dims) :
    (i2kt (table sel 0 dims).1 n).1 < keepSize sel 0 dims ∧
    (i2kt (table sel 0 dims).1 n).2 < traceSize sel 0 dims := by
  rw [i2kt_spec]; exact kt_bounds sel hp 0 n hn

/-- **The split is a bijection** between tensor indices and pairs (kept index, traced index): so
`out[k, k'] = Σ_t M[(k,t), (k',t)]` is exactly what the accumulation loop
(`if pos_c[1] == pos_r[1]: out[pos_r[0], pos_c[0]] += M[row, col]`) computes — every term once. -/
theorem i2kt_bijection (sel dims : List Nat) (hp : Pos dims) :
    (∀ n, n < size dims →
      ktInv sel 0 dims (i2kt (table sel 0 dims).1 n).1 (i2kt (table sel 0 dims).1 n).2 = n) ∧
    (∀ k t, k < keepSize sel 0 dims → t < traceSize sel 0 dims →
      ktInv sel 0 dims k t < size dims ∧ i2kt (table sel 0 dims).1 (ktInv sel 0 dims k t) = (k, t)) := by
  refine ⟨fun n hn => ?_, fun k t hk ht => ⟨ktInv_lt sel hp 0 k t hk ht, ?_⟩⟩
  · rw [i2kt_spec]; exact ktInv_kt sel hp 0 n hn
  · rw [i2kt_spec]; exact kt_ktInv sel hp 0 k t hk ht

/-- In particular the split is injective: two different tensor indices never land on the same
(kept, traced) pair. -/
theorem i2kt_injective (sel dims : List Nat) (hp : Pos dims) (n n' : Nat) (hn : n < size dims)
    (hn' : n' < size dims) (h : i2kt (table sel 0 dims).1 n = i2kt (table sel 0 dims).1 n') : n = n' := by
  have a := (i2kt_bijection sel dims hp).1 n hn
  have b := (i2kt_bijection sel dims hp).1 n' hn'
  rw [h] at a
  exact a.symm.trans b

/-- Keeping everything is the identity split and tracing everything the trivial one. -/
theorem keep_all_trivial_trace (dims : List Nat) (sel : List Nat)
    (hall : ∀ p, sel.contains p = true) : ∀ p, traceSize sel p dims = 1 := by
  induction dims with
  | nil => intro p; rfl
  | cons d ds ih =>
    intro p
    have := hall p
    simp only [traceSize, this, if_true, ih (p + 1)]

/-! Non-vacuity and a sanity instance with repeated, unequal and 1-dimensional factors. -/
example : Pos [2, 1, 3, 2] ∧ size [2, 1, 3, 2] = 12 ∧
    (List.range 12).map (i2kt (table [0, 2] 0 [2, 1, 3, 2]).1) =
      [(0, 0), (0, 1), (1, 0), (1, 1), (2, 0), (2, 1), (3, 0), (3, 1), (4, 0), (4, 1), (5, 0), (5, 1)] := by
  refine ⟨by intro d hd; simp at hd; omega, by decide, by decide⟩

/-- **`_Indexer.single`** (the loop over subsystems from the last one, with its early exit, over the
`cumprod` table indexed by old position) **sends a tensor index to the index whose digits are the old
digits read in the new order**, for every list of positive dimensions, every permutation `order` of the
subsystems and every index in range. -/
theorem indexer_single_spec (dims order : List Nat) (idx : Nat) (hp : Pos dims)
    (hperm : order.Perm (List.range dims.length)) (hi : idx < size dims) :
    single dims (cumprod dims order) idx = singleSpec dims order idx :=
  single_eq_singleSpec dims order idx hp hperm hi

/-- non-vacuity: a genuine permutation of unequal dimensions, one of them 1 -/
example : Pos [2, 1, 3] ∧ [2, 0, 1].Perm (List.range [2, 1, 3].length) ∧ 5 < size [2, 1, 3] ∧
    single [2, 1, 3] (cumprod [2, 1, 3] [2, 0, 1]) 5 = 5 := by
  refine ⟨by intro d hd; simp at hd; omega, by decide, by decide, by decide⟩

/-- **`_Indexer.single` is a permutation of the tensor indices**: two different indices in range are never
sent to the same place, for every list of positive dimensions and every permutation of the subsystems —
so the kernel `out[single r, single c] = M[r, c]` overwrites no entry (derived from `indexer_single_spec`:
the digits are recovered from the re-encoded index, `encode_inj`, `encode_digits`). -/
theorem indexer_single_injective (dims order : List Nat) (hp : Pos dims)
    (hperm : order.Perm (List.range dims.length)) (i j : Nat) (hi : i < size dims) (hj : j < size dims)
    (h : single dims (cumprod dims order) i = single dims (cumprod dims order) j) : i = j := by
  rw [indexer_single_spec dims order i hp hperm hi, indexer_single_spec dims order j hp hperm hj] at h
  exact singleSpec_injective dims order hp hperm i j hi hj h

/-- and it stays inside the matrix -/
theorem indexer_single_lt (dims order : List Nat) (idx : Nat) (hp : Pos dims)
    (hperm : order.Perm (List.range dims.length)) (hi : idx < size dims) :
    single dims (cumprod dims order) idx < size (newDims dims order) := by
  rw [indexer_single_spec dims order idx hp hperm hi]
  exact singleSpec_lt dims order idx hp hperm hi

/-- ... and **onto**: every index of the permuted space is the image of an index in range, so
`out[single r, single c] = M[r, c]` fills every entry of the result (the permuted space has the size of the
old one, `size_newDims`; pigeonhole from `indexer_single_injective`, Mathlib `Finite.injective_iff_surjective`). -/
theorem indexer_single_surjective (dims order : List Nat) (hp : Pos dims)
    (hperm : order.Perm (List.range dims.length)) (r : Nat) (hr : r < size (newDims dims order)) :
    ∃ i, i < size dims ∧ single dims (cumprod dims order) i = r := by
  obtain ⟨i, hi, h⟩ := singleSpec_surjective dims order hp hperm r hr
  exact ⟨i, hi, by rw [indexer_single_spec dims order i hp hperm hi]; exact h⟩

/-- non-vacuity: the images of all 6 indices under a genuine permutation are 6 different indices -/
example : (List.range 6).map (single [2, 1, 3] (cumprod [2, 1, 3] [2, 0, 1])) = [0, 2, 4, 1, 3, 5] := by decide

/-- TEST (kept as a regression sample of the theorem above): exhaustive agreement on small dimension lists. -/
example : ∀ dims ∈ [[2, 3], [3, 2, 2], [2, 1, 3], [1, 1], [2, 2, 3]], ∀ order ∈ [[0, 1, 2], [2, 0, 1], [1, 0, 2], [2, 1, 0], [1, 0], [0, 1]],
    order.length = dims.length →
    (List.range (size dims)).all (fun i => single dims (cumprod dims order) i == singleSpec dims order i) = true := by
  decide +kernel

end Qv.C09
