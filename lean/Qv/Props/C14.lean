import Qv.Proofs.C14
/-!
# C14 — the parallel map delivers every task result exactly once under any schedule

Property theorems about the machine `Qv.C14.step` (model of `_generic_pmap`) — for *every*
configuration `c` (task count, worker count ≥ 1, raising subset, fail-fast, reducer and its
stop point, time limit, drain/cancel shutdown), *every* schedule `sched` (which in-flight task
finishes at which yield point, how the clock advances) and every number of steps `k`.
The model is tied to `qutip/solver/parallel.py` by the trace correspondence in harness/c14.py.
-/
namespace Qv.C14

/-- the state after `k` steps -/
def reach (c : Cfg) (sched : List Step) (k : Nat) : St := iter c k (init c sched)

/-- Never more than `num_cpus` tasks are in flight. -/
theorem inflight_le_workers (c : Cfg) (hW : 1 ≤ c.workers) (sched : List Step) (k : Nat) :
    (running (reach c sched k)).length ≤ c.workers :=
  Nat.le_trans (List.length_filter_le _ _) (inv_reachable c hW sched k).core.wlen

/-- With a reducer, every task that completed without raising was handed to the reducer exactly
once, and nothing else was. -/
theorem reducer_exactly_once (c : Cfg) (hW : 1 ≤ c.workers) (hr : c.reducer = true)
    (sched : List Step) (k j : Nat) :
    (reach c sched k).reduced.count j =
      if j ∈ (reach c sched k).comp ∧ raisesB c j = false then 1 else 0 := by
  have h := (inv_reachable c hW sched k).core
  unfold reach at *
  rw [h.red hr]
  by_cases hx : raisesB c j = true
  · have : j ∉ List.filter (fun j => !raisesB c j) (iter c k (init c sched)).comp := by
      intro hm; have := (List.mem_filter.mp hm).2; simp [hx] at this
    rw [List.count_eq_zero.mpr this]; simp [hx]
  · have hx' : raisesB c j = false := by simpa using hx
    rw [List.count_filter (by simp [hx']), count_of_nodup h.cnd]
    simp [hx']

/-- Without a reducer the i-th slot of the result list holds the result of the i-th task as soon as
it completed (and `None` otherwise), whatever the completion order. -/
theorem no_reducer_positional (c : Cfg) (hW : 1 ≤ c.workers) (hr : c.reducer = false)
    (sched : List Step) (k j : Nat) (hj : j < c.n) :
    (reach c sched k).results[j]? =
      some (if j ∈ (reach c sched k).comp ∧ raisesB c j = false then some j else none) :=
  ((inv_reachable c hW sched k).core.res hr).2 j hj

/-- Once a stop condition (reducer signalled completion, time limit expired, fail-fast error) holds,
at most `num_cpus` further tasks are submitted (one further round). -/
theorem submissions_after_stop_le_workers (c : Cfg) (hW : 1 ≤ c.workers) (sched : List Step)
    (k i0 : Nat) (h0 : (reach c sched k).iAtStop = some i0) :
    (reach c sched k).i ≤ i0 + c.workers := by
  have h := (inv_reachable c hW sched k).stopSome i0 h0
  by_cases hp : (reach c sched k).pc = .fill
  · have := h.2.1 hp; unfold reach at *; omega
  · exact h.2.2 hp

/-- `iAtStop` is the *first* moment a stop condition holds: while it is unset none holds. -/
theorem stop_not_noted_means_not_stopped (c : Cfg) (hW : 1 ≤ c.workers) (sched : List Step) (k : Nat)
    (h0 : (reach c sched k).iAtStop = none) : stopCond c (reach c sched k) = false :=
  (inv_reachable c hW sched k).stopNone h0

/-- An error of a task that ran is never dropped: the map does not return normally. -/
theorem error_reaches_caller (c : Cfg) (hW : 1 ≤ c.workers) (sched : List Step) (k j : Nat)
    (hj : j ∈ (reach c sched k).comp) (hraise : raisesB c j = true) :
    ∀ r, outcome c (reach c sched k) ≠ .ret r := by
  have h := (inv_reachable c hW sched k).core
  intro r
  unfold outcome
  have : j ∈ (reach c sched k).errors := by
    unfold reach at *
    rw [h.err]; exact List.mem_filter.mpr ⟨hj, hraise⟩
  cases he : (reach c sched k).errors with
  | nil => rw [he] at this; cases this
  | cons e es => simp only; split <;> simp

/-- In fail-fast mode the exception raised is that of a task that really raised. -/
theorem raised_error_is_genuine (c : Cfg) (hW : 1 ≤ c.workers) (sched : List Step) (k e : Nat)
    (ho : outcome c (reach c sched k) = .raiseFirst e) :
    c.failFast = true ∧ e ∈ (reach c sched k).comp ∧ raisesB c e = true := by
  have h := (inv_reachable c hW sched k).core
  unfold outcome at ho
  cases he : (reach c sched k).errors with
  | nil => simp [he] at ho
  | cons e' es =>
    simp only [he] at ho
    by_cases hf : c.failFast = true
    · simp only [hf, if_true, Outcome.raiseFirst.injEq] at ho
      subst ho
      have : e' ∈ (reach c sched k).errors := by rw [he]; exact List.mem_cons_self
      unfold reach at *
      rw [h.err] at this
      exact ⟨hf, (List.mem_filter.mp this).1, (List.mem_filter.mp this).2⟩
    · simp [hf] at ho

/-- Otherwise the collected errors are exactly the raising tasks that ran, each under its own index. -/
theorem collected_errors_exact (c : Cfg) (hW : 1 ≤ c.workers) (sched : List Step) (k : Nat)
    (errs : List Nat) (r : Option (List (Option Nat)))
    (ho : outcome c (reach c sched k) = .mapExceptions errs r) :
    c.failFast = false ∧ errs = (reach c sched k).comp.filter (raisesB c) := by
  have h := (inv_reachable c hW sched k).core
  unfold outcome at ho
  cases he : (reach c sched k).errors with
  | nil => simp [he] at ho
  | cons e' es =>
    simp only [he] at ho
    by_cases hf : c.failFast = true
    · simp [hf] at ho
    · simp only [hf, Bool.false_eq_true, if_false, Outcome.mapExceptions.injEq] at ho
      unfold reach at *
      exact ⟨by simpa using hf, by rw [← ho.1, ← he, h.err]⟩

/-- The map terminates within `4n+8` machine steps for every schedule. -/
theorem run_terminates (c : Cfg) (hW : 1 ≤ c.workers) (sched : List Step) :
    (run c sched).pc = .done := by
  unfold run
  rcases phi_iter hW (fuel c) (inv_init c sched) with h | h
  · exact h
  · rw [phi_init] at h
    unfold fuel at h
    have hpos : ¬ (0 < phi c (iter c (4 * c.n + 8) (init c sched))) := by omega
    cases hpc : (iter c (fuel c) (init c sched)).pc with
    | done => rfl
    | _ => exact absurd (phi_pos_of_not_done (by unfold fuel at hpc; simp [hpc])) hpos

/-- When nothing stops the map, every task ran exactly once. -/
theorem all_tasks_complete (c : Cfg) (hW : 1 ≤ c.workers) (hn : NeverStops c) (sched : List Step) :
    (∀ j, j < c.n → j ∈ (run c sched).comp) ∧ (run c sched).comp.Nodup ∧
    (∀ j ∈ (run c sched).comp, j < c.n) := by
  have hd := run_terminates c hW sched
  have hI : Inv c (run c sched) := inv_reachable c hW sched (fuel c)
  have hs := neverStops_stopCond hn hI.core
  have hab : (run c sched).aborted = false := by
    cases ha : (run c sched).aborted with
    | false => rfl
    | true => have := (hI.abStop ha).1; rw [hs] at this; cases this
  obtain ⟨hin, hrun⟩ := hI.pcDone hd hab
  have hrun' : running (run c sched) = [] := by
    rcases hrun with r | r
    · exact r
    · have : expired c (run c sched) = false := by simp [expired, hn.1]
      rw [this] at r; cases r.1
  refine ⟨fun j hj => ?_, hI.core.cnd, fun j hj => by have := hI.core.clt j hj; omega⟩
  rcases hI.core.cover j (by omega) with h1 | h1
  · exact h1
  · by_cases hc : j ∈ (run c sched).comp
    · exact hc
    · have : j ∈ running (run c sched) := mem_running.mpr ⟨h1, hc⟩
      rw [hrun'] at this; cases this

/-- ... hence without a reducer the returned list is `[task(v) for v in values]` (positional),
`None` exactly at the raising tasks. -/
theorem no_reducer_complete (c : Cfg) (hW : 1 ≤ c.workers) (hn : NeverStops c)
    (hr : c.reducer = false) (sched : List Step) (j : Nat) (hj : j < c.n) :
    (run c sched).results[j]? = some (if raisesB c j = false then some j else none) := by
  have := no_reducer_positional c hW hr sched (fuel c) j hj
  have hall := (all_tasks_complete c hW hn sched).1 j hj
  unfold reach at this
  unfold run at *
  rw [this]; simp [hall]

/-- `serial_map`, when nothing stops it, runs every task once in order and reports exactly the
raising ones. -/
theorem serial_complete (c : Cfg) (hn : NeverStops c) (sched : List Step) :
    (serialRun c sched).ran = List.range c.n ∧
    (serialRun c sched).errors = (List.range c.n).filter (raisesB c) ∧
    (serialRun c sched).raised = none ∧
    (c.reducer = true → (serialRun c sched).reduced = (List.range c.n).filter (fun j => !raisesB c j)) ∧
    (c.reducer = false → ∀ j, j < c.n →
      (serialRun c sched).results[j]? = some (if raisesB c j = false then some j else none)) := by
  obtain ⟨h, hk⟩ := serialLoop_inv hn c.n _ (sinv_init c sched) (by simp)
  unfold serialRun
  refine ⟨by rw [h.ran, hk], by rw [h.err, hk], h.raised, fun hr => by rw [h.red hr, hk], fun hr j hj => ?_⟩
  rw [(h.res hr).2 j hj, hk]
  simp [hj]

/-- The serial and the parallel maps are interchangeable: for every schedule of either one, when
nothing stops the map they report the same set of failing indices, the same result list, and hand
the same tasks (each exactly once) to the reducer. -/
theorem serial_parallel_interchangeable (c : Cfg) (hW : 1 ≤ c.workers) (hn : NeverStops c)
    (sched sched' : List Step) :
    (∀ j, j ∈ (run c sched).errors ↔ j ∈ (serialRun c sched').errors) ∧
    (c.reducer = false → (run c sched).results = (serialRun c sched').results) ∧
    (c.reducer = true → ∀ j, (run c sched).reduced.count j = (serialRun c sched').reduced.count j) := by
  obtain ⟨hall, hnd, hlt⟩ := all_tasks_complete c hW hn sched
  obtain ⟨_, serr, _, sred, sres⟩ := serial_complete c hn sched'
  have hI : Inv c (run c sched) := inv_reachable c hW sched (fuel c)
  refine ⟨fun j => ?_, fun hr => ?_, fun hr j => ?_⟩
  · rw [serr, hI.core.err, List.mem_filter, List.mem_filter, List.mem_range]
    exact ⟨fun ⟨a, b⟩ => ⟨hlt j a, b⟩, fun ⟨a, b⟩ => ⟨hall j a, b⟩⟩
  · have hl1 := (hI.core.res hr).1
    have hl2 : (serialRun c sched').results.length = c.n := by
      obtain ⟨h, _⟩ := serialLoop_inv hn c.n _ (sinv_init c sched') (by simp)
      exact (h.res hr).1
    apply List.ext_getElem?
    intro j
    by_cases hj : j < c.n
    · rw [no_reducer_complete c hW hn hr sched j hj, sres hr j hj]
    · rw [List.getElem?_eq_none (by omega), List.getElem?_eq_none (by omega)]
  · have := reducer_exactly_once c hW hr sched (fuel c) j
    unfold reach at this
    unfold run at *
    rw [this, sred hr]
    by_cases hx : raisesB c j = true
    · have : j ∉ List.filter (fun j => !raisesB c j) (List.range c.n) := by
        intro hm; have := (List.mem_filter.mp hm).2; simp [hx] at this
      rw [List.count_eq_zero.mpr this]; simp [hx]
    · have hx' : raisesB c j = false := by simpa using hx
      rw [List.count_filter (by simp [hx']), count_of_nodup List.nodup_range]
      by_cases hj : j < c.n
      · simp [hx', hj, hall j hj]
      · have : j ∉ (iter c (fuel c) (init c sched)).comp := fun hm => hj (hlt j hm)
        simp [hj, this]

/-! Non-vacuity: a concrete configuration meets the hypotheses and exercises the interesting paths
(3 workers < 5 tasks, a raising task, out-of-order completions). -/
example :
    let c : Cfg := { n := 5, workers := 2, raises := [3], failFast := false, reducer := false,
                     stopAfter := none, timeout := none, drain := true }
    1 ≤ c.workers ∧ NeverStops c ∧
    (run c [⟨[1], 0⟩, ⟨[], 0⟩, ⟨[1, 0], 0⟩]).results = [some 0, some 1, some 2, none, some 4] := by
  refine ⟨by decide, ⟨rfl, Or.inl rfl, Or.inl rfl⟩, by decide⟩

/-- a stop point is actually reached in a concrete run (hypothesis of
`submissions_after_stop_le_workers` is satisfiable) -/
example :
    let c : Cfg := { n := 6, workers := 2, raises := [], failFast := false, reducer := true,
                     stopAfter := some 1, timeout := none, drain := true }
    (run c []).iAtStop = some 2 ∧ (run c []).i = 2 := by decide

end Qv.C14
