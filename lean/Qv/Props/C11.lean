import Qv.Proofs.C11
import Qv.Proofs.C11Sorted
import Mathlib.Tactic.Group
/-!
# C11 — answers do not depend on output schedule or on the object's past use

Theorems about the model `Qv.C11` of `qutip.Propagator` (memo, live integrator, eviction) and of
the step protocol of `Solver`, for *every* evolution algebra satisfying the flow laws (so for every
time-dependent generator), every query sequence — any order, repeated, decreasing, negative times,
any `t_start` — and every memo size.  Tied to `qutip/solver/propagator.py` by the correspondence
in harness/c11.py (real Propagator over an exact integer flow).
-/
namespace Qv.C11

variable {F : Type}

theorem pinv_init (A : Alg F) (L : Laws A) (cte : Bool) (memoize : Nat) : PInv A (init A cte memoize) :=
  ⟨List.Forall₂.cons (by simp [Good, L.phi_self]) List.Forall₂.nil, by simp [init, L.phi_self]⟩

theorem calls_good {A : Alg F} (L : Laws A) (qs : List (Int × Int)) : ∀ {p : Prop_ F}, PInv A p →
    (p.cte = true → CteLaw A) →
    (calls A p qs).2 = qs.map (fun q => A.phi q.1 q.2) ∧ PInv A (calls A p qs).1 ∧
    (calls A p qs).1.cte = p.cte := by
  induction qs with
  | nil => intro p h _; exact ⟨rfl, h, rfl⟩
  | cons q qs ih =>
    intro p h hc
    obtain ⟨t, s⟩ := q
    obtain ⟨a, b, c, _⟩ := call_good L h hc t s
    obtain ⟨a2, b2, c2⟩ := ih b (fun hh => hc (c ▸ hh))
    unfold calls
    simp only [List.map_cons]
    exact ⟨by rw [a, a2], b2, c2.trans c⟩

/-- **Every query, in any order and after any earlier queries (including backward ones), returns the
propagator a fresh object would return**: `U(t, t_start) = phi t t_start`; and the memo invariant
(every memoised entry is `phi time 0`, the live solver sits on the evolution from the identity at
time 0) holds afterwards. -/
theorem propagator_correct (A : Alg F) (L : Laws A) (cte : Bool) (hc : cte = true → CteLaw A)
    (memoize : Nat) (qs : List (Int × Int)) :
    (calls A (init A cte memoize) qs).2 = qs.map (fun q => A.phi q.1 q.2) ∧
    PInv A (calls A (init A cte memoize) qs).1 :=
  let r := calls_good L qs (pinv_init A L cte memoize) hc
  ⟨r.1, r.2.1⟩

/-- ... hence answers do not depend on the history: the same query after two different histories
gives the same answer. -/
theorem propagator_history_independent (A : Alg F) (L : Laws A) (cte : Bool)
    (hc : cte = true → CteLaw A) (m1 m2 : Nat) (h1 h2 : List (Int × Int)) (t s : Int) :
    (call A (calls A (init A cte m1) h1).1 t s).2 = (call A (calls A (init A cte m2) h2).1 t s).2 := by
  obtain ⟨_, i1, c1⟩ := calls_good L h1 (pinv_init A L cte m1) hc
  obtain ⟨_, i2, c2⟩ := calls_good L h2 (pinv_init A L cte m2) hc
  rw [(call_good L i1 (fun hh => hc (by rw [c1] at hh; exact hh)) t s).1,
      (call_good L i2 (fun hh => hc (by rw [c2] at hh; exact hh)) t s).1]

/-- the arguments in force after a query -/
def nextW (cte : Bool) (cur w : Option Nat) : Option Nat :=
  match w with
  | some w' => if !cte && cur != some w' then some w' else cur
  | none => cur

/-- the answers expected of a sequence of queries with argument updates: each is the evolution
under the arguments in force at that query (a constant system ignores arguments) -/
def specW (As : Option Nat → Alg F) (cte : Bool) : Option Nat → List (Int × Int × Option Nat) → List F
  | _, [] => []
  | cur, (t, s, w) :: qs =>
    let cur' := nextW cte cur w
    (As (if cte then none else cur')).phi t s :: specW As cte cur' qs

/-- The memo invariant relative to the arguments in force. -/
def PInvW (As : Option Nat → Alg F) (q : PropW F) : Prop := PInv (algOf As q) q.p

theorem applyW_inv (As : Option Nat → Alg F) (L : ∀ w, Laws (As w)) (cte : Bool) (q : PropW F)
    (hcte : q.p.cte = cte) (hinv : PInvW As q) (w : Option Nat) :
    PInvW As (applyW As q w) ∧ (applyW As q w).p.cte = cte ∧ (applyW As q w).w = nextW cte q.w w := by
  unfold applyW nextW
  cases w with
  | none => exact ⟨hinv, hcte, rfl⟩
  | some w' =>
    simp only [hcte]
    split
    · rename_i hr
      have hcf : cte = false := by
        cases hq : cte <;> simp [hq] at hr ⊢
      refine ⟨?_, by simp [resetW, hcte], rfl⟩
      unfold PInvW algOf resetW
      simp only [hcte, hcf, Bool.false_eq_true, if_false]
      exact ⟨List.Forall₂.cons (by simp [Good, (L _).phi_self]) List.Forall₂.nil,
        by simp [(L _).phi_self]⟩
    · exact ⟨hinv, hcte, rfl⟩

/-- **Argument updates**: with `U(t, t_start, **args)` every answer is the propagator of the system
under the arguments in force — nothing memoised under earlier arguments leaks into it. -/
theorem propagator_correct_args (As : Option Nat → Alg F) (L : ∀ w, Laws (As w)) (cte : Bool)
    (hc : cte = true → ∀ w, CteLaw (As w)) (qs : List (Int × Int × Option Nat)) :
    ∀ (q : PropW F), q.p.cte = cte → PInvW As q →
      (callsW As q qs).2 = specW As cte q.w qs := by
  induction qs with
  | nil => intro q _ _; rfl
  | cons hd qs ih =>
    intro q hcte hinv
    obtain ⟨t, s, w⟩ := hd
    obtain ⟨i1, c1, w1⟩ := applyW_inv As L cte q hcte hinv w
    have i1' : PInv (algOf As (applyW As q w)) (applyW As q w).p := i1
    obtain ⟨a, b, c, _⟩ := call_good (L _) i1' (fun hh => hc (c1 ▸ hh) _) t s
    have hnext : PInvW As { applyW As q w with p := (call (algOf As (applyW As q w)) (applyW As q w).p t s).1 } := by
      unfold PInvW algOf
      simp only [c]
      exact b
    have := ih { applyW As q w with p := (call (algOf As (applyW As q w)) (applyW As q w).p t s).1 }
      (c.trans c1) hnext
    unfold callsW callW
    simp only [specW]
    have a' : (call (algOf As (applyW As q w)) (applyW As q w).p t s).2 =
        (algOf As (applyW As q w)).phi t s := a
    rw [this, a']
    simp only [algOf, c1, w1]

/-- Composing the answers over adjacent intervals equals the answer over their union. -/
theorem propagator_compose (A : Alg F) (L : Laws A) (cte : Bool) (hc : cte = true → CteLaw A)
    (memoize : Nat) (hist : List (Int × Int)) (a b c : Int) :
    let p0 := (calls A (init A cte memoize) hist).1
    let r1 := call A p0 c b
    let r2 := call A r1.1 b a
    let r3 := call A r2.1 c a
    A.comp r1.2 r2.2 = r3.2 := by
  obtain ⟨_, i0, c0⟩ := calls_good L hist (pinv_init A L cte memoize) hc
  have hc0 : (calls A (init A cte memoize) hist).1.cte = true → CteLaw A := fun hh => hc (by rw [c0] at hh; exact hh)
  intro p0 r1 r2 r3
  obtain ⟨a1, i1, c1, _⟩ := call_good L i0 hc0 c b
  have hc1 : r1.1.cte = true → CteLaw A := fun hh => hc0 (by rw [c1] at hh; exact hh)
  obtain ⟨a2, i2, c2, _⟩ := call_good L i1 hc1 b a
  have hc2 : r2.1.cte = true → CteLaw A := fun hh => hc1 (by rw [c2] at hh; exact hh)
  obtain ⟨a3, _, _, _⟩ := call_good L i2 hc2 c a
  show A.comp (call A p0 c b).2 (call A (call A p0 c b).1 b a).2 = (call A (call A (call A p0 c b).1 b a).1 c a).2
  rw [a1, a2, a3, L.comp_phi]

/-- The memo never holds more than `max 3 memoize` propagators (`_insert` evicts first). -/
theorem memo_bounded_lookup (A : Alg F) (p : Prop_ F) (hm : 1 ≤ p.memoize)
    (hl : p.times.length ≤ p.memoize) (t : Int) : (lookup A p t).1.times.length ≤ p.memoize :=
  lookup_length p hm hl t

/-- **The memo never holds more than `max 3 memoize` propagators, after every sequence of queries** (the
one-step bound `memo_bounded_lookup` lifted over whole histories, any order and any `t_start`). -/
theorem memo_bounded (A : Alg F) (cte : Bool) (memoize : Nat) (qs : List (Int × Int)) :
    (calls A (init A cte memoize) qs).1.times.length ≤ max 3 memoize := by
  have h := (calls_binv A qs _ (init_binv A cte memoize)).len
  rw [calls_memoize] at h
  exact h

/-- **The memoised times stay strictly increasing** after every sequence of queries — any order, repeated,
decreasing, negative times, any `t_start`, evictions included — for every evolution algebra (no flow law is
needed): `_insert` keeps the insertion index equal to `searchsorted` of what is left while it evicts, and
`_lookup_or_compute` only inserts a time that is not memoised yet.  This is what `np.searchsorted` in
`_lookup_or_compute` relies on. -/
theorem memo_sorted (A : Alg F) (cte : Bool) (memoize : Nat) (qs : List (Int × Int)) :
    (calls A (init A cte memoize) qs).1.times.Pairwise (· < ·) :=
  (calls_sinv A qs _ (init_sinv A cte memoize)).inc

/-- ... and a time that is memoised is found by the search, so it is never computed or stored twice. -/
theorem memo_hit (times : List Int) (t : Int) (hs : times.Pairwise (· < ·)) (hm : t ∈ times) :
    searchsorted times t < times.length ∧ times.getD (searchsorted times t) 0 = t :=
  ss_finds times t hs hm

/-- non-vacuity: queries in scrambled order with an eviction (memo of 3) leave a sorted memo -/
example : (calls (m2Alg false) (init (m2Alg false) false 3) [(5, 0), (-2, 0), (3, 1), (7, 0), (1, 0)]).1.times.Pairwise (· < ·) ∧
    (calls (m2Alg false) (init (m2Alg false) false 3) [(5, 0), (-2, 0), (3, 1), (7, 0), (1, 0)]).1.times.length = 3 := by
  decide

/-- Run / step protocol over an exact flow: the state reported for the last time of *any* list of
output times (any partition, any intermediate stops) is the flow applied to the initial state —
it does not depend on which other times were requested. -/
theorem run_schedule_independent (A : Alg F) (L : LawsAssoc A) (x0 : F) (t0 : Int)
    (ts ts' : List Int) (hlast : ts.getLast? = ts'.getLast?) :
    (stepThrough A (Sol.start x0 t0) ts).x = (stepThrough A (Sol.start x0 t0) ts').x := by
  have h0 : (Sol.start x0 t0).x = A.comp (A.phi (Sol.start x0 t0).tl t0) x0 := by
    show x0 = A.comp (A.phi t0 t0) x0
    rw [L.phi_self, L.one_comp]
  obtain ⟨a, b⟩ := stepThrough_eq L x0 t0 ts _ h0
  obtain ⟨a', b'⟩ := stepThrough_eq L x0 t0 ts' _ h0
  rw [a, a', b, b', hlast]

/-- The flow laws are satisfiable by every group-valued evolution `g` (`phi b a = g b * (g a)⁻¹`):
propagators of any linear ODE form such a family, so the theorems above apply to all of them. -/
def groupAlg {G : Type} [Group G] (g : Int → G) : Alg G :=
  { comp := (· * ·), inv := (·⁻¹), one := 1, phi := fun b a => g b * (g a)⁻¹ }

theorem laws_of_group {G : Type} [Group G] (g : Int → G) : LawsAssoc (groupAlg g) :=
  { comp_phi := by intro a b c; simp [groupAlg]
    inv_phi := by intro a b; simp [groupAlg]
    phi_self := by intro a; simp [groupAlg]
    comp_one := by intro x; simp [groupAlg]
    comp_assoc := by intro x y z; simp [groupAlg, mul_assoc]
    one_comp := by intro x; simp [groupAlg] }

/-- a one-parameter group (constant generator) also satisfies the time-translation law -/
theorem cteLaw_of_hom {G : Type} [Group G] (u : G) : CteLaw (groupAlg (fun t : Int => u ^ t)) := by
  intro a b
  simp [groupAlg, zpow_sub]

/-! Non-vacuity: the exact integer-matrix flow used by the driver satisfies a concrete instance of
the statement with backward and repeated queries (the two query patterns that were wrong before
the `fix:` commit). -/
example :
    (calls (m2Alg false) (init (m2Alg false) false 3) [(-1, 0), (1, 0), (-2, 0), (3, -2), (-1, 0)]).2
      = [(-1, 0), (1, 0), (-2, 0), (3, -2), (-1, 0)].map (fun q => (m2Alg false).phi q.1 q.2) := by
  decide +kernel

section optionsThm
variable {K W M : Type} [DecidableEq K] [DecidableEq W] [DecidableEq M]

/-- the options object holds exactly the solver's keys and those of the integrator of its method -/
def OptState.WF (sp : OptSpec K W M) (st : OptState K W M) : Prop :=
  ∀ k, (st.vals k).isSome = (sp.S k || sp.I st.method k)

/-- what the caller asked for key `k`: the value given, the default for `None`, else what `fallback` says -/
def asked (new : K → Option (Option W)) (k : K) (dflt : W) (fallback : W) : W :=
  match new k with
  | some (some w) => w
  | some none => dflt
  | none => fallback

theorem default_wf (sp : OptSpec K W M) (m : M) : (OptState.default sp m).WF sp := by
  intro k
  simp only [OptState.default]
  cases sp.S k <;> cases sp.I m k <;> simp

/-- key by key: what the setter leaves is what was asked for -/
theorem optAt_spec (sp : OptSpec K W M) (st : OptState K W M) (hwf : st.WF sp) (new : NewOpts K W M) (k : K) :
    optAt sp st new k =
      if sp.S k then some (asked new.opts k (sp.dS k) ((st.vals k).getD (sp.dS k)))
      else if sp.I (new.method.getD st.method) k then
        some (asked new.opts k (sp.dI (new.method.getD st.method) k)
          (if new.method.getD st.method = st.method then (st.vals k).getD (sp.dI (new.method.getD st.method) k)
           else sp.dI (new.method.getD st.method) k))
      else none := by
  have hw := hwf k
  unfold optAt parseOptions asked
  simp only []
  by_cases hm : new.method.getD st.method = st.method
  · rw [hm] at *
    cases hs : sp.S k <;> cases hi : sp.I st.method k <;> cases ho : st.vals k <;>
      cases hn : new.opts k with
      | none => simp_all
      | some v => cases v <;> simp_all <;> (try split) <;> simp_all
  · cases hs : sp.S k <;> cases hi : sp.I (new.method.getD st.method) k <;> cases ho : st.vals k <;>
      cases hn : new.opts k with
      | none => simp_all
      | some v => cases v <;> simp_all <;> (try split) <;> simp_all

/-- **the options setter does what was asked**: afterwards every key of the solver and of the integrator of the method
now in force is present; a key that was given has the value given (its default for `None`); a solver-level key that
was not given keeps its value; an integrator key that was not given keeps its value when the method stayed and takes
its default when the method changed — whatever the old values were. -/
theorem setOptions_spec (sp : OptSpec K W M) (st : OptState K W M) (hwf : st.WF sp) (new : NewOpts K W M)
    (r : OptState K W M) (h : setOptions sp st new = some r) :
    r.method = new.method.getD st.method ∧ r.WF sp ∧
    ∀ k, r.vals k =
      if sp.S k then some (asked new.opts k (sp.dS k) ((st.vals k).getD (sp.dS k)))
      else if sp.I r.method k then
        some (asked new.opts k (sp.dI r.method k)
          (if r.method = st.method then (st.vals k).getD (sp.dI r.method k) else sp.dI r.method k))
      else none := by
  unfold setOptions at h
  split at h
  · cases h
  · simp only [Option.some.injEq] at h
    subst h
    refine ⟨rfl, ?_, fun k => optAt_spec sp st hwf new k⟩
    intro k
    show (optAt sp st new k).isSome = _
    rw [optAt_spec sp st hwf new k]
    cases sp.S k <;> cases sp.I (new.method.getD st.method) k <;> simp

/-- the setter refuses exactly when a key was given that neither the solver nor the integrator of the method in force
afterwards knows -/
theorem setOptions_refuses_iff (sp : OptSpec K W M) (st : OptState K W M) (new : NewOpts K W M) :
    setOptions sp st new = none ↔
      ∃ k ∈ new.keys, (new.opts k).isSome ∧ sp.S k = false ∧ sp.I (new.method.getD st.method) k = false := by
  unfold setOptions
  constructor
  · intro h
    split at h
    · rename_i hany
      obtain ⟨k, hk, he⟩ := List.any_eq_true.mp hany
      refine ⟨k, hk, ?_⟩
      unfold optExtra parseOptions at he
      simp only [] at he
      cases hs : sp.S k <;> cases hi : sp.I (new.method.getD st.method) k <;> simp_all
    · cases h
  · rintro ⟨k, hk, h1, h2, h3⟩
    have : new.keys.any (optExtra sp st new) = true := by
      apply List.any_eq_true.mpr
      refine ⟨k, hk, ?_⟩
      unfold optExtra parseOptions
      simp [h2, h3, h1]
    simp [this]

/-- item assignment and the change of method by item assignment keep the options object well formed -/
theorem setItem_wf (sp : OptSpec K W M) (st : OptState K W M) (hwf : st.WF sp) (k : K) (v : Option W)
    (r : OptState K W M) (h : setItem sp st k v = some r) :
    r.WF sp ∧ r.method = st.method ∧ r.vals k = some (v.getD (if sp.S k then sp.dS k else sp.dI st.method k)) ∧
      ∀ k', k' ≠ k → r.vals k' = st.vals k' := by
  unfold setItem at h
  by_cases hs : sp.S k = true
  · simp only [hs, if_true, Option.some.injEq] at h
    subst h
    refine ⟨?_, rfl, by simp [hs], fun k' hk => by simp [hk]⟩
    intro k'
    by_cases hk : k' = k
    · subst hk; simp [hs]
    · simp only [hk, if_false]; exact hwf k'
  · have hs' : sp.S k = false := by simpa using hs
    by_cases hi : sp.I st.method k = true
    · simp only [hs', Bool.false_eq_true, if_false, hi, if_true, Option.some.injEq] at h
      subst h
      refine ⟨?_, rfl, by simp [hs'], fun k' hk => by simp [hk]⟩
      intro k'
      by_cases hk : k' = k
      · subst hk; simp [hi]
      · simp only [hk, if_false]; exact hwf k'
    · have hi' : sp.I st.method k = false := by simpa using hi
      simp [hs', hi'] at h

theorem setMethod_wf (sp : OptSpec K W M) (st : OptState K W M) (hwf : st.WF sp) (m : M) :
    (setMethod sp st m).WF sp ∧ (setMethod sp st m).method = m := by
  unfold setMethod
  split
  · rename_i hm
    exact ⟨hwf, hm.symm⟩
  · refine ⟨?_, rfl⟩
    intro k
    have hw := hwf k
    show (if sp.S k = true then st.vals k else if sp.I m k = true then some (sp.dI m k) else none).isSome = _
    cases hs : sp.S k <;> cases hi : sp.I m k <;> simp_all
/-- the rule of the pinned tree before its repair (ec8bfa4): the second pass of `_parse_options` compared the new
integrator options with *all* old options also when the method changed, so an option given with the value it already
had was dropped together with the old integrator's options -/
def optAtOld (sp : OptSpec K W M) (st : OptState K W M) (new : NewOpts K W M) (k : K) : Option W :=
  let (newSolver, newOdeRaw) := parseOptions new.opts sp.S sp.dS st.vals
  let m' := new.method.getD st.method
  let oldOptions : K → Option W := if m' = st.method then st.vals else fun k => if sp.S k then st.vals k else none
  let (newOde, _) := parseOptions newOdeRaw (sp.I m') (sp.dI m') st.vals
  match newOde k with
  | some w => some w
  | none => match newSolver k with
    | some w => some w
    | none => match oldOptions k with
      | some w => some w
      | none => if sp.S k then some (sp.dS k) else if sp.I m' k then some (sp.dI m' k) else none

/-- … and that rule does not meet the specification: one integrator key with default 8, a solver built with method
`false` and the value 12, then `options = {method: true, key: 12}` leaves the default 8 instead of 12 -/
example :
    let sp : OptSpec Unit Nat Bool := { S := fun _ => false, I := fun _ _ => true, dS := fun _ => 0, dI := fun _ _ => 8 }
    let st : OptState Unit Nat Bool := { method := false, vals := fun _ => some 12 }
    let new : NewOpts Unit Nat Bool := { method := some true, opts := fun _ => some (some 12), keys := [()] }
    optAtOld sp st new () = some 8 ∧ optAt sp st new () = some 12 := by decide
end optionsThm

end Qv.C11
