import Qv.Model.C19
import Mathlib.Data.List.Nodup
import Mathlib.Data.List.Perm.Basic
import Mathlib.Algebra.BigOperators.Group.List.Basic
import Mathlib.Data.Matrix.Basic
import Mathlib.Data.Matrix.Mul
import Mathlib.LinearAlgebra.Matrix.Trace
import Mathlib.Data.Complex.Basic
import Mathlib.Tactic.Ring
import Mathlib.Tactic.Linarith
/-!
# C19 — the hierarchy solver: labels, neighbours, signs, and re-writing the bath

For every list of exponent dimensions and every depth: the ADO labels are distinct and are exactly the
tuples within the dimensions with at most `depth` excitations, so `idx` is a bijection; `next` / `prev`
stay inside the hierarchy and undo each other; at the root of the hierarchy the fermionic coupling is a
commutator exactly for even parity; the correlation function Σ c_k e^{−ν_k t} is unchanged by
reordering the exponents, splitting the list into several baths and merging exponents of equal rate;
commutator couplings do not change the trace of the system block.
-/
set_option linter.unusedVariables false
set_option linter.unusedSectionVars false
namespace Qv.C19

theorem mem_product (dims l : List Nat) :
    l ∈ product dims ↔ l.length = dims.length ∧ ∀ i (h1 : i < l.length) (h2 : i < dims.length), l[i] < dims[i] := by
  induction dims generalizing l with
  | nil =>
    simp only [product, List.mem_singleton, List.length_nil]
    constructor
    · rintro rfl; exact ⟨rfl, fun i h => absurd h (Nat.not_lt_zero _)⟩
    · rintro ⟨h, _⟩; exact List.eq_nil_of_length_eq_zero h
  | cons d ds ih =>
    simp only [product, List.mem_flatMap, List.mem_range, List.mem_map]
    constructor
    · rintro ⟨i, hi, t, ht, rfl⟩
      have := (ih t).mp ht
      refine ⟨by simp [this.1], ?_⟩
      intro j h1 h2
      cases j with
      | zero => simpa using hi
      | succ j => simpa using this.2 j (by simpa using h1) (by simpa using h2)
    · rintro ⟨hlen, hb⟩
      cases l with
      | nil => simp at hlen
      | cons a t =>
        have h0 : a < d := hb 0 (by simp) (by simp)
        refine ⟨a, h0, t, (ih t).mpr ⟨by simpa using hlen, ?_⟩, rfl⟩
        intro j h1 h2
        exact hb (j + 1) (by simpa using h1) (by simpa using h2)

theorem product_nodup (dims : List Nat) : (product dims).Nodup := by
  induction dims with
  | nil => simp [product]
  | cons d ds ih =>
    simp only [product]
    rw [List.nodup_flatMap]
    constructor
    · intro i _
      exact ih.map (fun a b h => List.tail_eq_of_cons_eq h)
    · apply List.Pairwise.imp_of_mem _ (List.nodup_range (n := d))
      intro a b _ _ hab
      simp only [Function.onFun, List.disjoint_left, List.mem_map]
      rintro x ⟨t, _, rfl⟩ ⟨t', _, h⟩
      exact hab (List.head_eq_of_cons_eq h).symm

/-- the labels are exactly the tuples inside the dimensions with at most `depth` excitations -/
theorem mem_labels (dims : List Nat) (depth : Nat) (l : List Nat) :
    l ∈ labels dims depth ↔
      l.length = dims.length ∧ (∀ i (h1 : i < l.length) (h2 : i < dims.length), l[i] < dims[i]) ∧ l.sum ≤ depth := by
  simp [labels, List.mem_filter, mem_product, and_assoc]

/-- no label is listed twice: `idx` is injective -/
theorem labels_nodup (dims : List Nat) (depth : Nat) : (labels dims depth).Nodup :=
  (product_nodup dims).filter _

/-- `idx` is a bijection between the labels and `0 … n_ados − 1` -/
theorem idx_bijection (dims : List Nat) (depth : Nat) :
    (∀ l, l ∈ labels dims depth → ∃ i, idx dims depth l = some i ∧ i < (labels dims depth).length ∧ (labels dims depth)[i]? = some l) ∧
    (∀ l l' i, idx dims depth l = some i → idx dims depth l' = some i → l = l') := by
  constructor
  · intro l hl
    refine ⟨(labels dims depth).idxOf l, by simp [idx, hl], List.idxOf_lt_length_of_mem hl, ?_⟩
    exact List.getElem?_idxOf hl
  · intro l l' i h1 h2
    unfold idx at h1 h2
    simp only at h1 h2
    split at h1
    · rename_i hl
      split at h2
      · rename_i hl'
        have e1 : (labels dims depth).idxOf l = i := Option.some.inj h1
        have e2 : (labels dims depth).idxOf l' = i := Option.some.inj h2
        have a := List.getElem?_idxOf hl
        have b := List.getElem?_idxOf hl'
        rw [e1] at a
        rw [e2] at b
        rw [a] at b
        exact Option.some.inj b
      · cases h2
    · cases h1

/-- adding an excitation and removing it again gives the label back -/
theorem prev_next (dims : List Nat) (depth : Nat) (l l' : List Nat) (k : Nat) (hk : k < l.length)
    (h : next dims depth l k = some l') : prev l' k = some l := by
  unfold next at h
  split at h
  · cases h
  · split at h
    · cases h
    · cases h
      unfold prev
      have hget : (l.set k (l.getD k 0 + 1)).getD k 0 = l.getD k 0 + 1 := by
        simp [List.getD_eq_getElem?_getD, List.getElem?_set, hk]
      rw [hget]
      simp only [Nat.add_one_ne_zero, if_false, Nat.add_sub_cancel, List.set_set]
      congr 1
      apply List.ext_getElem?
      intro i
      by_cases hi : i = k
      · subst hi; simp [List.getElem?_set, hk, List.getD_eq_getElem?_getD]
      · simp [List.getElem?_set, Ne.symm hi]

theorem sum_set_succ (l : List Nat) (k : Nat) (hk : k < l.length) :
    (l.set k (l.getD k 0 + 1)).sum = l.sum + 1 := by
  induction l generalizing k with
  | nil => simp at hk
  | cons a t ih =>
    cases k with
    | zero => simp; omega
    | succ k =>
      have := ih k (by simpa using hk)
      simp only [List.set_cons_succ, List.sum_cons, List.getD_cons_succ] at this ⊢
      omega

/-- `next` stays inside the hierarchy -/
theorem next_mem (dims : List Nat) (depth : Nat) (l l' : List Nat) (k : Nat) (hk : k < l.length)
    (hl : l ∈ labels dims depth) (h : next dims depth l k = some l') : l' ∈ labels dims depth := by
  rw [mem_labels] at hl ⊢
  obtain ⟨hlen, hb, hs⟩ := hl
  unfold next at h
  split at h
  · cases h
  · rename_i h1
    split at h
    · cases h
    · rename_i h2
      cases h
      refine ⟨by simpa using hlen, ?_, ?_⟩
      · intro i hi1 hi2
        simp only [List.getElem_set]
        split
        · rename_i e
          subst e
          have : dims.getD k 0 = dims[k] := by simp [List.getD_eq_getElem?_getD, hi2]
          omega
        · exact hb i (by simpa using hi1) hi2
      · rw [sum_set_succ l k hk]; omega

/-! ### fermionic signs at the root of the hierarchy -/

/-- for the system block (no excitations) the coupling to the first tier is a commutator
(`sign1 = −1`) exactly when the parity is even: only then is the trace of the system block conserved -/
theorem root_sign1 (n : Nat) (ferm : List Bool) (odd : Bool) :
    sign1Neg (List.replicate n 0) ferm odd = !odd := by
  have h : fermionicExcite (List.replicate n 0) ferm = 0 := by
    unfold fermionicExcite
    apply List.sum_eq_zero
    intro x hx
    simp only [List.mem_map] at hx
    obtain ⟨p, hp, rfl⟩ := hx
    have : p.1 = 0 := by
      have := (List.of_mem_zip hp).1
      exact List.eq_of_mem_replicate this
    split <;> simp [this]
  unfold sign1Neg
  rw [h]
  cases odd <;> simp

/-- only fermionic excitations count: bosonic exponents anywhere in the list change no sign -/
theorem fermionicExcite_bosonic (l : List Nat) (ferm : List Bool) (h : ∀ b ∈ ferm, b = false) :
    fermionicExcite l ferm = 0 := by
  unfold fermionicExcite
  apply List.sum_eq_zero
  intro x hx
  simp only [List.mem_map] at hx
  obtain ⟨p, hp, rfl⟩ := hx
  have := h p.2 (List.of_mem_zip hp).2
  simp [this]

/-! ### the bath correlation function under re-writing -/
section corr
variable {K : Type} [Field K]

/-- `C(t) = Σ c_k · E(ν_k, t)` for any family of decaying functions `E` -/
def corr {ν : Type} (E : ν → K) (exps : List (K × ν)) : K := (exps.map fun p => p.1 * E p.2).sum

/-- reordering the exponents does not change the correlation function -/
theorem corr_perm {ν : Type} (E : ν → K) (a b : List (K × ν)) (h : a.Perm b) : corr E a = corr E b :=
  (h.map _).sum_eq

/-- splitting a bath into several baths with the same coupling operator -/
theorem corr_append {ν : Type} (E : ν → K) (a b : List (K × ν)) : corr E (a ++ b) = corr E a + corr E b := by
  simp [corr]

/-- merging two exponents of equal rate (`BathExponent` combination) -/
theorem corr_combine {ν : Type} (E : ν → K) (c1 c2 : K) (v : ν) (rest : List (K × ν)) :
    corr E ((c1, v) :: (c2, v) :: rest) = corr E ((c1 + c2, v) :: rest) := by
  simp [corr]; ring

end corr

/-- **merging two exponents of equal rate keeps both parts of the correlation function**, whatever
their kinds (R, I, RI) and in whichever order they are listed -/
theorem combine_parts {K : Type} [Field K] (a b : CExp K) :
    (combine a b).parts = (a.parts.1 + b.parts.1, a.parts.2 + b.parts.2) := by
  unfold combine
  cases ha : a.kind <;> cases hb : b.kind <;> simp [CExp.parts, ha, hb]

/-- … hence the complex coefficient `re + i·im` of the merged exponent is the sum of the two -/
theorem combine_value {K : Type} [Field K] (i : K) (a b : CExp K) :
    (combine a b).parts.1 + i * (combine a b).parts.2
      = (a.parts.1 + i * a.parts.2) + (b.parts.1 + i * b.parts.2) := by
  rw [combine_parts]; ring

/-! ### trace of the system block -/
section trace
open Matrix
variable {n : Type} [Fintype n] [DecidableEq n]

/-- commutator couplings `−i(Qρ − ρQ)` feed nothing into the trace of the system block -/
theorem commutator_coupling_traceless (Q ρ : Matrix n n ℂ) (c : ℂ) : (c • (Q * ρ - ρ * Q)).trace = 0 := by
  rw [Matrix.trace_smul, Matrix.trace_sub, Matrix.trace_mul_comm Q ρ, sub_self, smul_zero]

end trace
end Qv.C19
