import Qv.Model.C17
import Mathlib.Data.Matrix.Basic
import Mathlib.Data.Matrix.Mul
import Mathlib.LinearAlgebra.Matrix.Trace
import Mathlib.LinearAlgebra.Matrix.Hermitian
import Mathlib.Data.Complex.Basic
import Mathlib.Algebra.Order.Field.Basic
import Mathlib.Tactic.Ring
import Mathlib.Tactic.FieldSimp
/-!
# C17 — diffusive trajectories are determined by their noise record

For every stepper (any scheme), every state space, every list of increments: the trajectory is the fold
of the stepper (so reporting more or less often does not change it), replaying the "start" measurement
record recovers increments and trajectory exactly, coarse increments add up to the fine ones; for the
density-matrix equation the drift and diffusion maps keep the trace at one and Hermitian states
Hermitian, hence so does every Euler step, for any Hamiltonian, collapse operators and increments.
-/
set_option linter.unusedVariables false
set_option linter.unusedSectionVars false
namespace Qv.C17

variable {S R : Type}

/-- reporting interval independence: consuming the increments in two runs (restart from the stored
state) ends in the same state as consuming them in one -/
theorem final_append (step : S → R → S) (s0 : S) (a b : List R) :
    final step s0 (a ++ b) = final step (final step s0 a) b := by
  simp [final, List.foldl_append]

theorem traj_length (step : S → R → S) (s0 : S) (dW : List R) : (traj step s0 dW).length = dW.length + 1 := by
  induction dW generalizing s0 with
  | nil => rfl
  | cons w ws ih => simp [traj, ih]

/-- the last reported state is the fold -/
theorem traj_getLast (step : S → R → S) (s0 : S) (dW : List R) :
    (traj step s0 dW).getLast? = some (final step s0 dW) := by
  induction dW generalizing s0 with
  | nil => rfl
  | cons w ws ih =>
    have := ih (step s0 w)
    simp only [traj, final, List.foldl_cons] at this ⊢
    cases h : traj step (step s0 w) ws with
    | nil => rw [h] at this; simp at this
    | cons a l => rw [h] at this; simp [List.getLast?_cons_cons, this]

/-- a trajectory is a function of its increments (stated for completeness: the model is a function) -/
theorem replay_determinism (step : S → R → S) (s0 : S) (dW dW' : List R) (h : dW = dW') :
    traj step s0 dW = traj step s0 dW' := by rw [h]

section field
variable [Field R]

/-- **replay from the measurement record**: with the "start" convention and dt ≠ 0, feeding the
record back recovers the increments and the trajectory, for every stepper and expectation map -/
theorem measurement_replay (step : S → R → S) (e : S → R) (dt : R) (hdt : dt ≠ 0) (s0 : S) (dW : List R) :
    replayMeas step e dt s0 (measStart e dt (traj step s0 dW) dW) = (traj step s0 dW, dW) := by
  induction dW generalizing s0 with
  | nil => rfl
  | cons w ws ih =>
    simp only [traj, measStart, replayMeas]
    have hw : (e s0 + w / dt - e s0) * dt = w := by field_simp; ring
    rw [hw, ih (step s0 w)]

theorem cumsumFrom_length (acc : R) (l : List R) : (cumsumFrom acc l).length = l.length + 1 := by
  induction l generalizing acc with
  | nil => rfl
  | cons w ws ih => simp [cumsumFrom, ih]

theorem foldl_add_shift (acc : R) (l : List R) : l.foldl (· + ·) acc = acc + l.foldl (· + ·) 0 := by
  induction l generalizing acc with
  | nil => simp
  | cons w ws ih => simp only [List.foldl_cons]; rw [ih (acc + w), ih (0 + w)]; ring

/-- `wiener_process` ends at the sum of all increments -/
theorem wiener_last (dW : List R) : (wiener dW).getLast? = some (sum dW) := by
  have key : ∀ (acc : R) (l : List R), (cumsumFrom acc l).getLast? = some (l.foldl (· + ·) acc) := by
    intro acc l
    induction l generalizing acc with
    | nil => rfl
    | cons w ws ih =>
      have := ih (acc + w)
      simp only [cumsumFrom, List.foldl_cons]
      cases h : cumsumFrom (acc + w) ws with
      | nil => rw [h] at this; simp at this
      | cons a l => rw [h] at this; simp [List.getLast?_cons_cons, this]
  exact key 0 dW

/-- the increments reported per output interval add up to the internal ones -/
theorem coarsen_sum (n : Nat) (hn : 0 < n) : ∀ (fuel : Nat) (l : List R), l.length ≤ fuel * n →
    sum (coarsen n fuel l) = sum l := by
  intro fuel
  induction fuel with
  | zero =>
    intro l hl
    have : l = [] := List.eq_nil_of_length_eq_zero (by omega)
    subst this; rfl
  | succ fuel ih =>
    intro l hl
    simp only [coarsen]
    split
    · rename_i he
      have : l = [] := by simpa using he
      subst this; rfl
    · have hlen : (l.drop n).length ≤ fuel * n := by
        rw [List.length_drop]
        have : (fuel + 1) * n = fuel * n + n := by ring
        omega
      have h2 := ih (l.drop n) hlen
      unfold sum at *
      rw [List.foldl_cons, foldl_add_shift, h2]
      conv_rhs => rw [← List.take_append_drop n l, List.foldl_append, foldl_add_shift]
      ring

end field

/-! ### the stochastic master equation keeps trace and Hermiticity at every Euler step -/
section sme
open Matrix
variable {n : Type} [Fintype n] [DecidableEq n]

/-- drift: `−i[H,ρ] + Σ (cρc† − ½{c†c, ρ})` over monitored and unmonitored channels -/
noncomputable def drift (H : Matrix n n ℂ) (cs : List (Matrix n n ℂ)) (ρ : Matrix n n ℂ) : Matrix n n ℂ :=
  (-Complex.I) • (H * ρ - ρ * H) +
    (cs.map fun c => c * ρ * cᴴ - ((1 : ℂ) / 2) • (cᴴ * c * ρ + ρ * (cᴴ * c))).sum

/-- diffusion of one monitored channel (homodyne): `cρ + ρc† − tr(cρ + ρc†)ρ` -/
noncomputable def diffusion (c ρ : Matrix n n ℂ) : Matrix n n ℂ :=
  c * ρ + ρ * cᴴ - (c * ρ + ρ * cᴴ).trace • ρ

theorem drift_traceless (H : Matrix n n ℂ) (cs : List (Matrix n n ℂ)) (ρ : Matrix n n ℂ) :
    (drift H cs ρ).trace = 0 := by
  unfold drift
  rw [Matrix.trace_add, Matrix.trace_smul, Matrix.trace_sub, Matrix.trace_mul_comm H ρ, sub_self, smul_zero, zero_add]
  induction cs with
  | nil => simp
  | cons c cs ih =>
    rw [List.map_cons, List.sum_cons, Matrix.trace_add, ih, add_zero]
    rw [Matrix.trace_sub, Matrix.trace_smul, Matrix.trace_add]
    have h1 : (c * ρ * cᴴ).trace = (cᴴ * c * ρ).trace := by
      rw [Matrix.trace_mul_comm, ← Matrix.mul_assoc]
    have h2 : (ρ * (cᴴ * c)).trace = (cᴴ * c * ρ).trace := Matrix.trace_mul_comm _ _
    rw [h1, h2, smul_eq_mul]
    ring

theorem diffusion_traceless (c ρ : Matrix n n ℂ) (h : ρ.trace = 1) : (diffusion c ρ).trace = 0 := by
  unfold diffusion
  rw [Matrix.trace_sub, Matrix.trace_smul, h, smul_eq_mul, mul_one, sub_self]

/-- one Euler step `ρ + drift·dt + Σ diffusion_k·dW_k` of a unit-trace state has unit trace -/
theorem euler_trace_one (H : Matrix n n ℂ) (cs : List (Matrix n n ℂ)) (sc : List (Matrix n n ℂ × ℝ))
    (ρ : Matrix n n ℂ) (dt : ℝ) (h : ρ.trace = 1) :
    (ρ + (dt : ℂ) • drift H cs ρ + (sc.map fun p => (p.2 : ℂ) • diffusion p.1 ρ).sum).trace = 1 := by
  rw [Matrix.trace_add, Matrix.trace_add, Matrix.trace_smul, drift_traceless, smul_zero, add_zero, h]
  have : ((sc.map fun p => (p.2 : ℂ) • diffusion p.1 ρ).sum).trace = 0 := by
    induction sc with
    | nil => simp
    | cons p ps ih =>
      rw [List.map_cons, List.sum_cons, Matrix.trace_add, ih, Matrix.trace_smul, diffusion_traceless _ _ h]
      simp
  rw [this, add_zero]

theorem diffusion_hermitian (c ρ : Matrix n n ℂ) (h : ρ.IsHermitian) : (diffusion c ρ).IsHermitian := by
  unfold diffusion Matrix.IsHermitian
  have ht : star ((c * ρ + ρ * cᴴ).trace) = (c * ρ + ρ * cᴴ).trace := by
    rw [← Matrix.trace_conjTranspose]
    congr 1
    rw [Matrix.conjTranspose_add, Matrix.conjTranspose_mul, Matrix.conjTranspose_mul,
      Matrix.conjTranspose_conjTranspose, h.eq, add_comm]
  rw [Matrix.conjTranspose_sub, Matrix.conjTranspose_smul, ht, Matrix.conjTranspose_add,
    Matrix.conjTranspose_mul, Matrix.conjTranspose_mul, Matrix.conjTranspose_conjTranspose, h.eq, add_comm]

end sme
/-! ## The Wiener process seen by feedback coefficients -/
section wienerobj
variable {R : Type} [AddCommMonoid R]

theorem seg_add (dW : Nat → R) (a n m : Nat) : seg dW a (n + m) = seg dW a n + seg dW (a + n) m := by
  induction m with
  | zero => simp [seg]
  | succ m ih => rw [← Nat.add_assoc, seg, ih, seg, add_assoc, Nat.add_assoc]

/-- the state is consistent: the stored value is the process at the stored index -/
def WState.Inv (dW : Nat → R) (s : WState R) : Prop := s.lastW = wienerAt dW s.idxLast

theorem WState.init_inv (dW : Nat → R) : WState.Inv dW (⟨0, 0⟩ : WState R) := by
  simp [WState.Inv, wienerAt, seg]

/-- one call returns the process at the queried step — the sum of the increments before it — and keeps
the state consistent, whether the query is later, equal or earlier than the previous one -/
theorem WState.call_spec (dW : Nat → R) (s : WState R) (h : s.Inv dW) (idx : Nat) :
    (s.call dW idx).2 = wienerAt dW idx ∧ (s.call dW idx).1.Inv dW := by
  have key : (s.call dW idx).2 = wienerAt dW idx := by
    unfold WState.call
    by_cases hgt : s.idxLast > idx
    · simp only [hgt, if_true, Nat.sub_zero, wienerAt, zero_add]
    · simp only [hgt, if_false]
      have hle : s.idxLast ≤ idx := Nat.le_of_not_gt hgt
      rw [h, wienerAt, wienerAt]
      have := seg_add dW 0 s.idxLast (idx - s.idxLast)
      rw [Nat.zero_add, Nat.add_sub_cancel' hle] at this
      exact this.symm
  refine ⟨key, ?_⟩
  have h1 : (s.call dW idx).1.idxLast = idx := rfl
  have h2 : (s.call dW idx).1.lastW = (s.call dW idx).2 := rfl
  unfold WState.Inv
  rw [h2, key, h1]

/-- **every history of calls**: whatever times a coefficient asks for, in whatever order and however
often, each answer is the running sum of the increments up to that time (0 at the start) -/
theorem wiener_history_spec (dW : Nat → R) (s : WState R) (h : s.Inv dW) (calls : List Nat) :
    runCalls (WState.call dW) s calls = calls.map (wienerAt dW) := by
  induction calls generalizing s with
  | nil => rfl
  | cons i is ih =>
    obtain ⟨h1, h2⟩ := WState.call_spec dW s h i
    simp only [runCalls, List.map_cons, h1, ih _ h2]

/-- asking twice gives the same answer -/
theorem wiener_call_idempotent (dW : Nat → R) (s : WState R) (h : s.Inv dW) (idx : Nat) :
    ((s.call dW idx).1.call dW idx).2 = (s.call dW idx).2 := by
  obtain ⟨h1, h2⟩ := WState.call_spec dW s h idx
  rw [(WState.call_spec dW _ h2 idx).1, h1]

end wienerobj

/-- non-vacuity / the defect: with increments 1, 10, 100 the rule before the repair answers 1 at the
start and counts increments twice; the repaired rule gives 0, 1, 11, 11 -/
example : runCalls (WState.callOld (fun k => ([1, 10, 100] : List Int).getD k 0)) ⟨0, 0⟩ [0, 1, 2, 2]
    = [1, 12, 122, 222] := by decide
example : runCalls (WState.call (fun k => ([1, 10, 100] : List Int).getD k 0)) ⟨0, 0⟩ [0, 1, 2, 2]
    = [0, 1, 11, 11] := by decide

end Qv.C17
