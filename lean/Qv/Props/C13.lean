import Qv.Model.C13
import Qv.Props.C14
/-!
# C13 — a trajectory is a function of the problem and its seed alone (logic core)

Seed plumbing: which seed trajectory `i` receives does not depend on the ensemble size, on the form
in which the seed was given, or on its position among the trajectories; the seeds a result reports
regenerate the same seeds when passed back as a list.  Together with C14 (every trajectory result is
handed to the reducer exactly once under any schedule) and C15 (the reduced statistics do not depend
on the order of insertion) this gives schedule independence of the ensemble, *given* that a
trajectory is a pure function of (problem, seed) — which harness/c13.py validates relationally on
the real Monte-Carlo, non-Markovian Monte-Carlo and stochastic solvers.
-/
namespace Qv.C13

/-- trajectory `i` receives child `i` of the seed, whatever the ensemble size -/
theorem seed_position_independent (s : SeedSeq) (n m i : Nat) (hn : i < n) (hm : i < m) :
    (s.spawn n).1[i]? = (s.spawn m).1[i]? := by
  simp [SeedSeq.spawn, hn, hm]

/-- an integer seed and a fresh `SeedSequence(int)` give the same trajectories' seeds -/
theorem seed_forms_agree (own : SeedSeq) (k ntraj : Nat) :
    (readSeed own (.int k) ntraj).1 = (readSeed own (.seq { entropy := k, key := [] }) ntraj).1 := rfl

/-- explicit seeds never touch the solver's own sequence: later runs are unaffected -/
theorem explicit_seed_leaves_solver_sequence (own : SeedSeq) (arg : SeedArg) (ntraj : Nat)
    (h : ∀ (u : Unit), arg ≠ .none) : (readSeed own arg ntraj).2 = own := by
  cases arg with
  | none => exact absurd rfl (h ())
  | int n => rfl
  | seq s => rfl
  | list l => simp only [readSeed]; split <;> rfl

/-- the seeds a run used (and reports), passed back as a list, are used again unchanged — for the same
or a smaller number of trajectories, at the same positions -/
theorem reported_seeds_regenerate (own : SeedSeq) (arg : SeedArg) (ntraj k : Nat) (seeds : List SeedSeq)
    (h : (readSeed own arg ntraj).1 = some seeds) (hk : k ≤ seeds.length) (own' : SeedSeq) :
    (readSeed own' (.list seeds) k).1 = some (seeds.take k) := by
  simp [readSeed, hk]

/-- with the solver's own sequence, consecutive runs get disjoint children (keys continue counting) -/
theorem own_sequence_runs_disjoint (own : SeedSeq) (n m i j : Nat) (hi : i < n) (hj : j < m) :
    let r1 := readSeed own .none n
    let r2 := readSeed r1.2 .none m
    ∀ a b, r1.1 = some a → r2.1 = some b → a[i]? ≠ b[j]? := by
  intro r1 r2 a b ha hb
  simp only [r1, r2, readSeed, SeedSeq.spawn, Option.some.injEq] at ha hb
  subst ha hb
  simp only [List.getElem?_map, List.getElem?_range hi, List.getElem?_range hj, Option.map_some]
  intro h
  simp only [Option.some.injEq, SeedSeq.mk.injEq, List.append_cancel_left_eq, List.cons.injEq, and_true,
    true_and] at h
  omega

/-- **Ensemble under any schedule** (composition with C14): when nothing stops the map, the list of
seeds whose trajectories reach the reducer is a rearrangement of all the seeds — each exactly once —
for every worker count and completion order. -/
theorem ensemble_schedule_independent (c : Qv.C14.Cfg) (hW : 1 ≤ c.workers) (hn : Qv.C14.NeverStops c)
    (hr : c.reducer = true) (hnr : c.raises = []) (sched : List Qv.C14.Step) (j : Nat) :
    (Qv.C14.run c sched).reduced.count j = if j < c.n then 1 else 0 := by
  have h := Qv.C14.reducer_exactly_once c hW hr sched (Qv.C14.fuel c) j
  obtain ⟨hall, _, hlt⟩ := Qv.C14.all_tasks_complete c hW hn sched
  unfold Qv.C14.reach at h
  unfold Qv.C14.run at *
  rw [h]
  have hrz : Qv.C14.raisesB c j = false := by simp [Qv.C14.raisesB, hnr]
  by_cases hj : j < c.n
  · simp [hj, hall j hj, hrz]
  · have : j ∉ (Qv.C14.iter c (Qv.C14.fuel c) (Qv.C14.init c sched)).comp := fun hm => hj (hlt j hm)
    simp [hj, this]

/-! ## Seeds and trajectories stay paired under any arrival order -/

theorem foldl_arrive {α : Type} (traj : SeedSeq → α) (seeds : List SeedSeq) (order : List Nat) (c : Collected α) :
    order.foldl (arrive traj seeds) c =
      { seeds := c.seeds ++ order.filterMap (fun i => seeds[i]?),
        runs := c.runs ++ (order.filterMap (fun i => seeds[i]?)).map traj } := by
  induction order generalizing c with
  | nil => simp
  | cons i rest ih =>
    rw [List.foldl_cons, ih]
    unfold arrive
    cases h : seeds[i]? with
    | none => simp [h]
    | some s => simp [h, Collected.add]

/-- the seeds reported are the tasks' seeds in arrival order -/
theorem collect_seeds {α : Type} (traj : SeedSeq → α) (seeds : List SeedSeq) (order : List Nat) :
    (collect traj seeds order).seeds = order.filterMap (fun i => seeds[i]?) := by
  simp [collect, foldl_arrive]

/-- **pairing**: whatever the arrival order, the run stored at position `k` is the trajectory of the seed
reported at position `k` -/
theorem collect_paired {α : Type} (traj : SeedSeq → α) (seeds : List SeedSeq) (order : List Nat) :
    (collect traj seeds order).runs = (collect traj seeds order).seeds.map traj := by
  simp [collect, foldl_arrive]

theorem filterMap_range'_getElem? {β : Type} (l pre : List β) :
    (List.range' pre.length l.length).filterMap (fun i => (pre ++ l)[i]?) = l := by
  induction l generalizing pre with
  | nil => simp
  | cons a l ih =>
    rw [List.length_cons, List.range'_succ, List.filterMap_cons]
    have h0 : (pre ++ a :: l)[pre.length]? = some a := by simp
    rw [h0]
    have h1 : pre ++ a :: l = (pre ++ [a]) ++ l := by simp
    have h2 : pre.length + 1 = (pre ++ [a]).length := by simp
    rw [h1, h2, ih]

theorem filterMap_range_getElem? {β : Type} (l : List β) :
    (List.range l.length).filterMap (fun i => l[i]?) = l := by
  have := filterMap_range'_getElem? l []
  simpa [List.range_eq_range'] using this

/-- when every task arrives exactly once, the reported seeds are a rearrangement of the seeds handed in -/
theorem collect_perm {α : Type} (traj : SeedSeq → α) (seeds : List SeedSeq) (order : List Nat)
    (h : order.Perm (List.range seeds.length)) : (collect traj seeds order).seeds.Perm seeds := by
  rw [collect_seeds]
  have := h.filterMap (fun i => seeds[i]?)
  rwa [filterMap_range_getElem?] at this

/-- **the reported seeds regenerate the result**: handing `result.seeds` back as the seed list and running
serially (arrival order = submission order) gives the same seeds and the same runs, position by position -/
theorem collect_rerun {α : Type} (traj : SeedSeq → α) (seeds : List SeedSeq) (order : List Nat) :
    let r := collect traj seeds order
    let r2 := collect traj r.seeds (List.range r.seeds.length)
    r2.seeds = r.seeds ∧ r2.runs = r.runs := by
  intro r r2
  have hs : r2.seeds = r.seeds := by
    simp only [r2, collect_seeds, filterMap_range_getElem?]
  refine ⟨hs, ?_⟩
  rw [collect_paired traj r.seeds, collect_paired traj seeds order]
  simp only [r2] at hs
  rw [hs]

/-- non-vacuity: reporting the seeds in submission order breaks the pairing as soon as two results arrive
out of order -/
example :
    let s0 : SeedSeq := { entropy := 7, key := [0] }
    let s1 : SeedSeq := { entropy := 7, key := [1] }
    let r := collectSubmissionSeeds (fun s => s.key) [s0, s1] [1, 0]
    r.runs ≠ r.seeds.map (fun s => s.key) := by decide

example :
    let s0 : SeedSeq := { entropy := 7, key := [0] }
    let s1 : SeedSeq := { entropy := 7, key := [1] }
    (collect (fun s => s.key) [s0, s1] [1, 0]).seeds = [s1, s0] := by decide

end Qv.C13
