import Qv.Model.C13
import Qv.Props.C14
/-!
# C13 — a trajectory is a function of the problem and its seed alone (logic core)

Seed plumbing: which seed trajectory `i` receives does not depend on the ensemble size, on the form
in which the seed was given, or on its position among the trajectories; the seeds a result reports
regenerate the same seeds when passed back as a list.  Together with C14 (every trajectory result is
handed to the reducer exactly once under any schedule) and C15 (the reduced statistics do not depend
on the order of insertion) this gives schedule independence of the ensemble, *given* that a
trajectory is a pure function of (problem, seed) — which harness/c13.py validates relationally on
the real Monte-Carlo, non-Markovian Monte-Carlo and stochastic solvers.
-/
namespace Qv.C13

/-- trajectory `i` receives child `i` of the seed, whatever the ensemble size -/
theorem seed_position_independent (s : SeedSeq) (n m i : Nat) (hn : i < n) (hm : i < m) :
    (s.spawn n).1[i]? = (s.spawn m).1[i]? := by
  simp [SeedSeq.spawn, hn, hm]

/-- an integer seed and a fresh `SeedSequence(int)` give the same trajectories' seeds -/
theorem seed_forms_agree (own : SeedSeq) (k ntraj : Nat) :
    (readSeed own (.int k) ntraj).1 = (readSeed own (.seq { entropy := k, key := [] }) ntraj).1 := rfl

/-- explicit seeds never touch the solver's own sequence: later runs are unaffected -/
theorem explicit_seed_leaves_solver_sequence (own : SeedSeq) (arg : SeedArg) (ntraj : Nat)
    (h : ∀ (u : Unit), arg ≠ .none) : (readSeed own arg ntraj).2 = own := by
  cases arg with
  | none => exact absurd rfl (h ())
  | int n => rfl
  | seq s => rfl
  | list l => simp only [readSeed]; split <;> rfl

/-- the seeds a run used (and reports), passed back as a list, are used again unchanged — for the same
or a smaller number of trajectories, at the same positions -/
theorem reported_seeds_regenerate (own : SeedSeq) (arg : SeedArg) (ntraj k : Nat) (seeds : List SeedSeq)
    (h : (readSeed own arg ntraj).1 = some seeds) (hk : k ≤ seeds.length) (own' : SeedSeq) :
    (readSeed own' (.list seeds) k).1 = some (seeds.take k) := by
  simp [readSeed, hk]

/-- with the solver's own sequence, consecutive runs get disjoint children (keys continue counting) -/
theorem own_sequence_runs_disjoint (own : SeedSeq) (n m i j : Nat) (hi : i < n) (hj : j < m) :
    let r1 := readSeed own .none n
    let r2 := readSeed r1.2 .none m
    ∀ a b, r1.1 = some a → r2.1 = some b → a[i]? ≠ b[j]? := by
  intro r1 r2 a b ha hb
  simp only [r1, r2, readSeed, SeedSeq.spawn, Option.some.injEq] at ha hb
  subst ha hb
  simp only [List.getElem?_map, List.getElem?_range hi, List.getElem?_range hj, Option.map_some]
  intro h
  simp only [Option.some.injEq, SeedSeq.mk.injEq, List.append_cancel_left_eq, List.cons.injEq, and_true,
    true_and] at h
  omega

/-- **Ensemble under any schedule** (composition with C14): when nothing stops the map, the list of
seeds whose trajectories reach the reducer is a rearrangement of all the seeds — each exactly once —
for every worker count and completion order. -/
theorem ensemble_schedule_independent (c : Qv.C14.Cfg) (hW : 1 ≤ c.workers) (hn : Qv.C14.NeverStops c)
    (hr : c.reducer = true) (hnr : c.raises = []) (sched : List Qv.C14.Step) (j : Nat) :
    (Qv.C14.run c sched).reduced.count j = if j < c.n then 1 else 0 := by
  have h := Qv.C14.reducer_exactly_once c hW hr sched (Qv.C14.fuel c) j
  obtain ⟨hall, _, hlt⟩ := Qv.C14.all_tasks_complete c hW hn sched
  unfold Qv.C14.reach at h
  unfold Qv.C14.run at *
  rw [h]
  have hrz : Qv.C14.raisesB c j = false := by simp [Qv.C14.raisesB, hnr]
  by_cases hj : j < c.n
  · simp [hj, hall j hj, hrz]
  · have : j ∉ (Qv.C14.iter c (Qv.C14.fuel c) (Qv.C14.init c sched)).comp := fun hm => hj (hlt j hm)
    simp [hj, this]

end Qv.C13
