import Qv.Model.C16
import Mathlib.Algebra.Group.Defs
import Mathlib.Algebra.Order.Field.Basic
import Mathlib.Data.Matrix.Basic
import Mathlib.Data.Matrix.Mul
import Mathlib.LinearAlgebra.Matrix.Hermitian
import Mathlib.Data.Complex.Basic
import Mathlib.Tactic.Ring
import Mathlib.Tactic.Linarith
/-!
# C16 — Monte-Carlo trajectories are realisations of the quantum-jump process: the jump logic

For every squared-norm function of the no-jump evolution, every threshold, every tolerance setting and
every sequence of guesses: what `_find_collapse_time` returns is either within `norm_tol` of the drawn
threshold or within `norm_t_tol` of a bracket that still contains the crossing, and it never reports
success on its last allowed try; `_do_collapse` selects channel k exactly when the scaled draw falls in
the k-th cumulative-rate interval; the effective generator loses norm at the total jump rate; improved
sampling re-parametrises the threshold onto the jump region with total weight one.
-/
set_option linter.unusedVariables false
set_option linter.unusedSectionVars false
namespace Qv.C16

section search
variable {R : Type} [Field R] [LinearOrder R] [IsStrictOrderedRing R]

theorem close_iff (target n2 tol : R) :
    close target n2 tol = true ↔ |target - n2| < tol * target := by
  unfold close
  simp only [Bool.and_eq_true, decide_eq_true_eq, abs_lt]
  constructor
  · rintro ⟨h1, h2⟩; constructor <;> linarith
  · rintro ⟨h1, h2⟩; constructor <;> linarith

/-- what a successful search hands to `_do_collapse` -/
def Good (N : R → R) (o : Opts R) (target : R) (f : Found R) : Prop :=
  (|target - N f.t| < o.normTol * target ∧ f.stateAt = f.t) ∨
  (∃ tp tf, tf - tp < o.normTTol ∧ f.t = tf ∧ target ≤ N tp ∧ N tf ≤ target ∧ (f.stateAt = tp ∨ f.stateAt = tf))

/-- **the bracket invariant**: as long as the bracket `[tPrev, tFinal]` straddles the threshold
(`target ≤ N tPrev`, `N tFinal ≤ target`) and the integrator sits at one of its ends, any sequence of
guesses leads to a good result or to a refusal; success is never reported on the last allowed try. -/
theorem searchLoop_sound (N : R → R) (o : Opts R) (target : R) :
    ∀ (fuel tries : Nat) (tPrev tFinal cur : R) (guesses : List R) (f : Found R),
      target ≤ N tPrev → N tFinal ≤ target → (cur = tPrev ∨ cur = tFinal) →
      searchLoop N o target fuel tries tPrev tFinal cur guesses = some f →
      Good N o target f ∧ f.tries < o.normSteps := by
  intro fuel
  induction fuel with
  | zero => intro tries tPrev tFinal cur guesses f _ _ _ h; simp [searchLoop] at h
  | succ fuel ih =>
    intro tries tPrev tFinal cur guesses f hp hf hc h
    simp only [searchLoop] at h
    split at h
    · rename_i hw
      split at h
      · cases h
      · rename_i hlt
        cases h
        refine ⟨Or.inr ⟨tPrev, tFinal, hw, rfl, hp, hf, hc⟩, ?_⟩
        simp only; omega
    · cases guesses with
      | nil => simp at h
      | cons g gs =>
        simp only at h
        split at h
        · rename_i hcl
          split at h
          · cases h
          · cases h
            refine ⟨Or.inl ⟨(close_iff _ _ _).mp hcl, rfl⟩, ?_⟩
            simp only; omega
        · split at h
          · rename_i hlt
            exact ih _ _ _ _ _ _ hp (le_of_lt hlt) (Or.inr rfl) h
          · rename_i hge
            exact ih _ _ _ _ _ _ (le_of_not_gt hge) hf (Or.inl rfl) h

/-- `_find_collapse_time`, called when the norm has just dropped to or below the threshold -/
theorem findCollapse_sound (N : R → R) (o : Opts R) (target tPrev tFinal : R) (guesses : List R) (f : Found R)
    (hp : target ≤ N tPrev) (hf : N tFinal ≤ target)
    (h : findCollapse N o target tPrev tFinal guesses = some f) :
    Good N o target f ∧ f.tries < o.normSteps :=
  searchLoop_sound N o target _ _ _ _ _ _ f hp hf (Or.inr rfl) h

/-- with a decreasing norm the second alternative pins the true crossing: every time at which the
norm equals the threshold exactly … is at most `norm_t_tol` before the reported time -/
theorem crossing_within_ttol (N : R → R) (hN : ∀ a b, a < b → N b < N a) (target tp tf tc : R)
    (h1 : target ≤ N tp) (h2 : N tf ≤ target) (hc : N tc = target) : tp ≤ tc ∧ tc ≤ tf := by
  constructor
  · by_contra hlt
    have := hN tc tp (lt_of_not_ge hlt)
    rw [hc] at this
    exact absurd h1 (not_le.mpr this)
  · by_contra hlt
    have := hN tf tc (lt_of_not_ge hlt)
    rw [hc] at this
    exact absurd h2 (not_le.mpr this)

/-! ### channel selection -/

theorem searchsorted_spec (a : List R) (v : R) :
    (∀ i (hi : i < searchsorted a v), (hi' : i < a.length) → a[i] < v) ∧
    (∀ (h : searchsorted a v < a.length), v ≤ a[searchsorted a v]) ∧ searchsorted a v ≤ a.length := by
  induction a with
  | nil => simp [searchsorted]
  | cons x xs ih =>
    simp only [searchsorted]
    split
    · rename_i hx
      refine ⟨fun i hi => absurd hi (Nat.not_lt_zero _), fun _ => by simpa using hx, Nat.zero_le _⟩
    · rename_i hx
      obtain ⟨h1, h2, h3⟩ := ih
      refine ⟨?_, ?_, by simpa using h3⟩
      · intro i hi hi'
        cases i with
        | zero => simpa using lt_of_not_ge hx
        | succ i => simpa using h1 i (by omega) (by simpa using hi')
      · intro h
        have := h2 (by simpa using h)
        simpa using this

/-- **the channel rule**: with more than one channel, the channel `k` chosen by `_do_collapse` is
the first whose cumulative rate reaches `total · u`: all earlier cumulative rates are below the scaled
draw, and (when `k` is a channel) the k-th is not -/
theorem channel_rule (rates : List R) (u : R) (hlen : rates.length ≠ 1) :
    let cum := cumsumFrom 0 rates
    let k := channel rates u
    (∀ i (hi : i < k) (hi' : i < cum.length), cum[i] < cum.getLastD 0 * u) ∧
    (∀ (h : k < cum.length), cum.getLastD 0 * u ≤ cum[k]) := by
  intro cum k
  have hk : k = searchsorted cum (cum.getLastD 0 * u) := by
    show channel rates u = _
    unfold channel
    rw [if_neg hlen]
  have := searchsorted_spec cum (cum.getLastD 0 * u)
  rw [← hk] at this
  exact ⟨this.1, this.2.1⟩

theorem single_channel (r : R) (u : R) : channel [r] u = 0 := by simp [channel]

/-! ### improved sampling -/

/-- the threshold of a sampled trajectory, `u·(1 − p₀) + p₀`, ranges over the jump region `[p₀, 1)`
when `u` ranges over `[0, 1)`; and every point of the jump region is reached by exactly one `u` -/
theorem floor_map_range (p0 u : R) (hp : 0 ≤ p0) (hp1 : p0 < 1) (hu : 0 ≤ u) (hu1 : u < 1) :
    p0 ≤ u * (1 - p0) + p0 ∧ u * (1 - p0) + p0 < 1 := by
  have h1 : 0 < 1 - p0 := by linarith
  constructor
  · have := mul_nonneg hu (le_of_lt h1); linarith
  · have := mul_lt_mul_of_pos_right hu1 h1; linarith

theorem floor_map_surjective (p0 r : R) (hp1 : p0 < 1) (hr : p0 ≤ r) (hr1 : r < 1) :
    ∃ u, 0 ≤ u ∧ u < 1 ∧ u * (1 - p0) + p0 = r := by
  have h1 : 0 < 1 - p0 := by linarith
  refine ⟨(r - p0) / (1 - p0), div_nonneg (by linarith) (le_of_lt h1), ?_, ?_⟩
  · rw [div_lt_one h1]; linarith
  · field_simp; ring

/-- the deterministic no-jump trajectory (weight p₀) and the conditioned sample (weight 1 − p₀)
make an unbiased ensemble: the weights sum to one -/
theorem improved_sampling_weights (p0 : R) : p0 + (1 - p0) = 1 := by ring

end search

/-! ### effective generator -/
section heff
open Matrix
variable {n : Type} [Fintype n] [DecidableEq n]

/-- `rhs = −iH − ½ Σ c†c` as built by `MCSolver.__init__` -/
noncomputable def effGen (H : Matrix n n ℂ) (cs : List (Matrix n n ℂ)) : Matrix n n ℂ :=
  (-Complex.I) • H - ((1 : ℂ) / 2) • (cs.map fun c => cᴴ * c).sum

/-- `G† + G = −Σ c†c`: under `ψ' = Gψ` the squared norm decays at the total jump rate,
`d‖ψ‖²/dt = ψ†(G† + G)ψ = −Σ‖cψ‖²` -/
theorem effGen_norm_decay (H : Matrix n n ℂ) (hH : H.IsHermitian) (cs : List (Matrix n n ℂ)) :
    (effGen H cs)ᴴ + effGen H cs = -((cs.map fun c => cᴴ * c).sum) := by
  have hsum : ((cs.map fun c => cᴴ * c).sum)ᴴ = (cs.map fun c => cᴴ * c).sum := by
    induction cs with
    | nil => simp
    | cons c cs ih =>
      rw [List.map_cons, List.sum_cons, Matrix.conjTranspose_add, ih, Matrix.conjTranspose_mul,
        Matrix.conjTranspose_conjTranspose]
  unfold effGen
  rw [Matrix.conjTranspose_sub, Matrix.conjTranspose_smul, Matrix.conjTranspose_smul, hH.eq, hsum]
  simp only [star_neg, Complex.star_def, Complex.conj_I, neg_neg]
  have h2 : (starRingEnd ℂ) ((1 : ℂ) / 2) = (1 : ℂ) / 2 := by
    rw [map_div₀, map_one]; congr 1; exact Complex.conj_ofNat 2
  rw [h2]
  ext i j
  simp only [Matrix.add_apply, Matrix.sub_apply, Matrix.smul_apply, Matrix.neg_apply, smul_eq_mul]
  ring

end heff
section martingaleThm
variable {T M : Type} [DecidableEq T] [LT T] [DecidableLT T] [CommMonoid M]

/-- what is assumed of the continuous part: segments compose -/
structure SegLaw (seg : T → T → M) : Prop where
  refl : ∀ a, seg a a = 1
  comp : ∀ a b c, seg a b * seg b c = seg a c

/-- the object is started and everything it remembers is relative to the start time `t0` -/
def Mart.Inv (seg : T → T → M) (t0 : T) (s : Mart T M) : Prop :=
  (∃ tp, s.tPrev = some tp ∧ s.muPrev = seg t0 tp) ∧ ∀ e ∈ s.table, e.2 = seg t0 e.1

theorem precompute_spec (seg : T → T → M) (hseg : SegLaw seg) (t0 : T) :
    ∀ (l : List T) (t : T) (mu : M), mu = seg t0 t → ∀ e ∈ precompute seg t mu l, e.2 = seg t0 e.1 := by
  intro l
  induction l with
  | nil => intro t mu _ e he; cases he
  | cons t1 rest ih =>
    intro t mu hmu e he
    simp only [precompute, List.mem_cons] at he
    have h1 : mu * seg t t1 = seg t0 t1 := by rw [hmu, hseg.comp]
    rcases he with rfl | he
    · exact h1
    · exact ih t1 _ h1 e he

/-- `initialize` (any of its three modes) establishes the invariant; with `cache='keep'` provided the table kept was
computed from the same start time (which is what `set_state` does during `run`) -/
theorem initialize_inv (seg : T → T → M) (hseg : SegLaw seg) (s : Mart T M) (t0 : T) (c : Cache T)
    (hkeep : c = .keep → ∀ e ∈ s.table, e.2 = seg t0 e.1) : (s.initialize seg t0 c).Inv seg t0 := by
  cases c with
  | clear => exact ⟨⟨t0, rfl, (hseg.refl t0).symm⟩, by intro e he; cases he⟩
  | keep => exact ⟨⟨t0, rfl, (hseg.refl t0).symm⟩, hkeep rfl⟩
  | times l =>
    exact ⟨⟨t0, rfl, (hseg.refl t0).symm⟩, precompute_spec seg hseg t0 l t0 1 (hseg.refl t0).symm⟩

theorem lookup_spec (seg : T → T → M) (t0 : T) (s : Mart T M) (h : ∀ e ∈ s.table, e.2 = seg t0 e.1) (t : T) (m : M)
    (hm : s.lookup t = some m) : m = seg t0 t := by
  unfold Mart.lookup at hm
  cases hf : s.table.reverse.find? (fun e => e.1 == t) with
  | none => rw [hf] at hm; cases hm
  | some e =>
    rw [hf] at hm
    simp only [Option.map_some, Option.some.injEq] at hm
    have hmem : e ∈ s.table := List.mem_reverse.mp (List.mem_of_find?_eq_some hf)
    have hk : e.1 = t := by simpa using List.find?_some hf
    rw [← hm, h e hmem, hk]

/-- **one query**: the answer is the product of the jump factors before `t` and of the continuous weight from the
start time to `t` — whatever was asked before — and the invariant is kept, the jump list untouched -/
theorem value_spec (seg : T → T → M) (hseg : SegLaw seg) (t0 : T) (s : Mart T M) (hs : s.Inv seg t0) (t : T) :
    ∃ s', s.value seg t = some (discProd s.disc t * seg t0 t, s') ∧ s'.Inv seg t0 ∧ s'.disc = s.disc := by
  obtain ⟨⟨tp, htp, hmu⟩, htab⟩ := hs
  have hmuC : s.contAt seg tp t = seg t0 t := by
    unfold Mart.contAt
    cases hl : s.lookup t with
    | some m => exact lookup_spec seg t0 s htab t m hl
    | none => simp only []; rw [hmu, hseg.comp]
  unfold Mart.value
  rw [htp]
  simp only [hmuC]
  exact ⟨_, rfl, ⟨⟨t, rfl, rfl⟩, htab⟩, rfl⟩

theorem addCollapse_spec (seg : T → T → M) (t0 : T) (s : Mart T M) (hs : s.Inv seg t0) (time : T) (factor : M) :
    ∃ s', s.addCollapse time factor = some s' ∧ s'.Inv seg t0 ∧ s'.disc = s.disc ++ [(time, factor)] := by
  obtain ⟨⟨tp, htp, hmu⟩, htab⟩ := hs
  unfold Mart.addCollapse
  rw [htp]
  exact ⟨_, rfl, ⟨⟨tp, rfl, hmu⟩, htab⟩, rfl⟩

/-- operations on a started object -/
inductive MOp (T M : Type)
  | value (t : T)
  | collapse (time : T) (factor : M)

/-- run a history; the outputs of the `value` queries, with the jump list in force at each of them -/
def runHistory (seg : T → T → M) : Mart T M → List (MOp T M) → Option (List (T × List (T × M) × M))
  | _, [] => some []
  | s, .value t :: ops =>
    match s.value seg t with
    | none => none
    | some (v, s') => (runHistory seg s' ops).map fun rest => (t, s.disc, v) :: rest
  | s, .collapse time f :: ops =>
    match s.addCollapse time f with
    | none => none
    | some s' => runHistory seg s' ops

/-- **every history**: after `initialize`, for every sequence of queries (times in any order, repeated, tabulated or
not) and collapses, every answer is `discProd (collapses so far) t · seg t0 t`: it does not depend on the other
queries. -/
theorem history_spec (seg : T → T → M) (hseg : SegLaw seg) (t0 : T) (ops : List (MOp T M)) :
    ∀ (s : Mart T M), s.Inv seg t0 → ∃ outs, runHistory seg s ops = some outs ∧
      ∀ o ∈ outs, o.2.2 = discProd o.2.1 o.1 * seg t0 o.1 := by
  induction ops with
  | nil => intro s _; exact ⟨[], rfl, by intro o ho; cases ho⟩
  | cons op ops ih =>
    intro s hs
    cases op with
    | value t =>
      obtain ⟨s', hv, hinv, _⟩ := value_spec seg hseg t0 s hs t
      obtain ⟨outs, hr, ho⟩ := ih s' hinv
      refine ⟨(t, s.disc, discProd s.disc t * seg t0 t) :: outs, ?_, ?_⟩
      · simp only [runHistory, hv, hr, Option.map_some]
      · intro o hmem
        rcases List.mem_cons.mp hmem with rfl | h
        · rfl
        · exact ho o h
    | collapse time f =>
      obtain ⟨s', ha, hinv, _⟩ := addCollapse_spec seg t0 s hs time f
      obtain ⟨outs, hr, ho⟩ := ih s' hinv
      exact ⟨outs, by simp only [runHistory, ha, hr], ho⟩

/-- before `initialize` both operations refuse -/
theorem not_started_refuses (seg : T → T → M) (t : T) (f : M) :
    (Mart.fresh : Mart T M).value seg t = none ∧ (Mart.fresh : Mart T M).addCollapse t f = none := ⟨rfl, rfl⟩
end martingaleThm

end Qv.C16
