import Qv.Model.C16
import Mathlib.Algebra.Order.Field.Basic
import Mathlib.Data.Matrix.Basic
import Mathlib.Data.Matrix.Mul
import Mathlib.LinearAlgebra.Matrix.Hermitian
import Mathlib.Data.Complex.Basic
import Mathlib.Tactic.Ring
import Mathlib.Tactic.Linarith
/-!
# C16 — Monte-Carlo trajectories are realisations of the quantum-jump process: the jump logic

For every squared-norm function of the no-jump evolution, every threshold, every tolerance setting and
every sequence of guesses: what `_find_collapse_time` returns is either within `norm_tol` of the drawn
threshold or within `norm_t_tol` of a bracket that still contains the crossing, and it never reports
success on its last allowed try; `_do_collapse` selects channel k exactly when the scaled draw falls in
the k-th cumulative-rate interval; the effective generator loses norm at the total jump rate; improved
sampling re-parametrises the threshold onto the jump region with total weight one.
-/
set_option linter.unusedVariables false
set_option linter.unusedSectionVars false
namespace Qv.C16

section search
variable {R : Type} [Field R] [LinearOrder R] [IsStrictOrderedRing R]

theorem close_iff (target n2 tol : R) :
    close target n2 tol = true ↔ |target - n2| < tol * target := by
  unfold close
  simp only [Bool.and_eq_true, decide_eq_true_eq, abs_lt]
  constructor
  · rintro ⟨h1, h2⟩; constructor <;> linarith
  · rintro ⟨h1, h2⟩; constructor <;> linarith

/-- what a successful search hands to `_do_collapse` -/
def Good (N : R → R) (o : Opts R) (target : R) (f : Found R) : Prop :=
  (|target - N f.t| < o.normTol * target ∧ f.stateAt = f.t) ∨
  (∃ tp tf, tf - tp < o.normTTol ∧ f.t = tf ∧ target ≤ N tp ∧ N tf ≤ target ∧ (f.stateAt = tp ∨ f.stateAt = tf))

/-- **the bracket invariant**: as long as the bracket `[tPrev, tFinal]` straddles the threshold
(`target ≤ N tPrev`, `N tFinal ≤ target`) and the integrator sits at one of its ends, any sequence of
guesses leads to a good result or to a refusal; success is never reported on the last allowed try. -/
theorem searchLoop_sound (N : R → R) (o : Opts R) (target : R) :
    ∀ (fuel tries : Nat) (tPrev tFinal cur : R) (guesses : List R) (f : Found R),
      target ≤ N tPrev → N tFinal ≤ target → (cur = tPrev ∨ cur = tFinal) →
      searchLoop N o target fuel tries tPrev tFinal cur guesses = some f →
      Good N o target f ∧ f.tries < o.normSteps := by
  intro fuel
  induction fuel with
  | zero => intro tries tPrev tFinal cur guesses f _ _ _ h; simp [searchLoop] at h
  | succ fuel ih =>
    intro tries tPrev tFinal cur guesses f hp hf hc h
    simp only [searchLoop] at h
    split at h
    · rename_i hw
      split at h
      · cases h
      · rename_i hlt
        cases h
        refine ⟨Or.inr ⟨tPrev, tFinal, hw, rfl, hp, hf, hc⟩, ?_⟩
        simp only; omega
    · cases guesses with
      | nil => simp at h
      | cons g gs =>
        simp only at h
        split at h
        · rename_i hcl
          split at h
          · cases h
          · cases h
            refine ⟨Or.inl ⟨(close_iff _ _ _).mp hcl, rfl⟩, ?_⟩
            simp only; omega
        · split at h
          · rename_i hlt
            exact ih _ _ _ _ _ _ hp (le_of_lt hlt) (Or.inr rfl) h
          · rename_i hge
            exact ih _ _ _ _ _ _ (le_of_not_gt hge) hf (Or.inl rfl) h

/-- `_find_collapse_time`, called when the norm has just dropped to or below the threshold -/
theorem findCollapse_sound (N : R → R) (o : Opts R) (target tPrev tFinal : R) (guesses : List R) (f : Found R)
    (hp : target ≤ N tPrev) (hf : N tFinal ≤ target)
    (h : findCollapse N o target tPrev tFinal guesses = some f) :
    Good N o target f ∧ f.tries < o.normSteps :=
  searchLoop_sound N o target _ _ _ _ _ _ f hp hf (Or.inr rfl) h

/-- with a decreasing norm the second alternative pins the true crossing: every time at which the
norm equals the threshold exactly … is at most `norm_t_tol` before the reported time -/
theorem crossing_within_ttol (N : R → R) (hN : ∀ a b, a < b → N b < N a) (target tp tf tc : R)
    (h1 : target ≤ N tp) (h2 : N tf ≤ target) (hc : N tc = target) : tp ≤ tc ∧ tc ≤ tf := by
  constructor
  · by_contra hlt
    have := hN tc tp (lt_of_not_ge hlt)
    rw [hc] at this
    exact absurd h1 (not_le.mpr this)
  · by_contra hlt
    have := hN tf tc (lt_of_not_ge hlt)
    rw [hc] at this
    exact absurd h2 (not_le.mpr this)

/-! ### channel selection -/

theorem searchsorted_spec (a : List R) (v : R) :
    (∀ i (hi : i < searchsorted a v), (hi' : i < a.length) → a[i] < v) ∧
    (∀ (h : searchsorted a v < a.length), v ≤ a[searchsorted a v]) ∧ searchsorted a v ≤ a.length := by
  induction a with
  | nil => simp [searchsorted]
  | cons x xs ih =>
    simp only [searchsorted]
    split
    · rename_i hx
      refine ⟨fun i hi => absurd hi (Nat.not_lt_zero _), fun _ => by simpa using hx, Nat.zero_le _⟩
    · rename_i hx
      obtain ⟨h1, h2, h3⟩ := ih
      refine ⟨?_, ?_, by simpa using h3⟩
      · intro i hi hi'
        cases i with
        | zero => simpa using lt_of_not_ge hx
        | succ i => simpa using h1 i (by omega) (by simpa using hi')
      · intro h
        have := h2 (by simpa using h)
        simpa using this

/-- **the channel rule**: with more than one channel, the channel `k` chosen by `_do_collapse` is
the first whose cumulative rate reaches `total · u`: all earlier cumulative rates are below the scaled
draw, and (when `k` is a channel) the k-th is not -/
theorem channel_rule (rates : List R) (u : R) (hlen : rates.length ≠ 1) :
    let cum := cumsumFrom 0 rates
    let k := channel rates u
    (∀ i (hi : i < k) (hi' : i < cum.length), cum[i] < cum.getLastD 0 * u) ∧
    (∀ (h : k < cum.length), cum.getLastD 0 * u ≤ cum[k]) := by
  intro cum k
  have hk : k = searchsorted cum (cum.getLastD 0 * u) := by
    show channel rates u = _
    unfold channel
    rw [if_neg hlen]
  have := searchsorted_spec cum (cum.getLastD 0 * u)
  rw [← hk] at this
  exact ⟨this.1, this.2.1⟩

theorem single_channel (r : R) (u : R) : channel [r] u = 0 := by simp [channel]

/-! ### improved sampling -/

/-- the threshold of a sampled trajectory, `u·(1 − p₀) + p₀`, ranges over the jump region `[p₀, 1)`
when `u` ranges over `[0, 1)`; and every point of the jump region is reached by exactly one `u` -/
theorem floor_map_range (p0 u : R) (hp : 0 ≤ p0) (hp1 : p0 < 1) (hu : 0 ≤ u) (hu1 : u < 1) :
    p0 ≤ u * (1 - p0) + p0 ∧ u * (1 - p0) + p0 < 1 := by
  have h1 : 0 < 1 - p0 := by linarith
  constructor
  · have := mul_nonneg hu (le_of_lt h1); linarith
  · have := mul_lt_mul_of_pos_right hu1 h1; linarith

theorem floor_map_surjective (p0 r : R) (hp1 : p0 < 1) (hr : p0 ≤ r) (hr1 : r < 1) :
    ∃ u, 0 ≤ u ∧ u < 1 ∧ u * (1 - p0) + p0 = r := by
  have h1 : 0 < 1 - p0 := by linarith
  refine ⟨(r - p0) / (1 - p0), div_nonneg (by linarith) (le_of_lt h1), ?_, ?_⟩
  · rw [div_lt_one h1]; linarith
  · field_simp; ring

/-- the deterministic no-jump trajectory (weight p₀) and the conditioned sample (weight 1 − p₀)
make an unbiased ensemble: the weights sum to one -/
theorem improved_sampling_weights (p0 : R) : p0 + (1 - p0) = 1 := by ring

end search

/-! ### effective generator -/
section heff
open Matrix
variable {n : Type} [Fintype n] [DecidableEq n]

/-- `rhs = −iH − ½ Σ c†c` as built by `MCSolver.__init__` -/
noncomputable def effGen (H : Matrix n n ℂ) (cs : List (Matrix n n ℂ)) : Matrix n n ℂ :=
  (-Complex.I) • H - ((1 : ℂ) / 2) • (cs.map fun c => cᴴ * c).sum

/-- `G† + G = −Σ c†c`: under `ψ' = Gψ` the squared norm decays at the total jump rate,
`d‖ψ‖²/dt = ψ†(G† + G)ψ = −Σ‖cψ‖²` -/
theorem effGen_norm_decay (H : Matrix n n ℂ) (hH : H.IsHermitian) (cs : List (Matrix n n ℂ)) :
    (effGen H cs)ᴴ + effGen H cs = -((cs.map fun c => cᴴ * c).sum) := by
  have hsum : ((cs.map fun c => cᴴ * c).sum)ᴴ = (cs.map fun c => cᴴ * c).sum := by
    induction cs with
    | nil => simp
    | cons c cs ih =>
      rw [List.map_cons, List.sum_cons, Matrix.conjTranspose_add, ih, Matrix.conjTranspose_mul,
        Matrix.conjTranspose_conjTranspose]
  unfold effGen
  rw [Matrix.conjTranspose_sub, Matrix.conjTranspose_smul, Matrix.conjTranspose_smul, hH.eq, hsum]
  simp only [star_neg, Complex.star_def, Complex.conj_I, neg_neg]
  have h2 : (starRingEnd ℂ) ((1 : ℂ) / 2) = (1 : ℂ) / 2 := by
    rw [map_div₀, map_one]; congr 1; exact Complex.conj_ofNat 2
  rw [h2]
  ext i j
  simp only [Matrix.add_apply, Matrix.sub_apply, Matrix.smul_apply, Matrix.neg_apply, smul_eq_mul]
  ring

end heff
end Qv.C16
