import Qv.Model.C10
import Mathlib.Algebra.Module.LinearMap.Basic
import Mathlib.Algebra.Field.Basic
import Mathlib.Tactic.Ring
import Mathlib.Tactic.Linarith
/-!
# C10 — deterministic evolution: what every explicit Runge–Kutta step does, for every tableau

* a linear functional that vanishes on the right-hand side (the trace under a Liouvillian, for any
  time dependence) is conserved exactly by every step of every explicit Runge–Kutta method;
* on `y' = λ y` one step multiplies `y` by the stability polynomial of the tableau evaluated at
  `dt·λ` — so the accuracy of a method on time-independent generators is decided by how close that
  polynomial is to the exponential series, which is checked for the tableaux in the source
  (`Qv.Gen.Tableaux`, regenerated on every run).
-/
set_option linter.unusedVariables false
set_option linter.unusedSectionVars false
namespace Qv.C10

/-! ### conserved linear functionals -/
section invariant
variable {R V W : Type} [CommRing R] [AddCommGroup V] [Module R V] [AddCommGroup W] [Module R W]

theorem accumulate_ker (τ : V →ₗ[R] W) (target : V) (factors : List R) (dt : R) (ks : List V)
    (hk : ∀ k ∈ ks, τ k = 0) : τ (accumulate target factors dt ks) = τ target := by
  unfold accumulate
  have key : ∀ (l : List (R × V)) (acc : V), (∀ p ∈ l, τ p.2 = 0) →
      τ (l.foldl (fun acc p => acc + (dt * p.1) • p.2) acc) = τ acc := by
    intro l
    induction l with
    | nil => intro acc _; rfl
    | cons p l ih =>
      intro acc h
      rw [List.foldl_cons, ih _ (fun q hq => h q (List.mem_cons_of_mem _ hq))]
      rw [map_add, map_smul, h p (List.mem_cons_self), smul_zero, add_zero]
  exact key _ _ (fun p hp => hk p.2 (List.of_mem_zip hp).2)

theorem stagesAux_ker (τ : V →ₗ[R] W) (f : R → V → V) (hf : ∀ t y, τ (f t y) = 0) (t dt : R) (y : V) :
    ∀ (rows : List (List R)) (cs : List R) (ks : List V), (∀ k ∈ ks, τ k = 0) →
      ∀ k ∈ stagesAux f t dt y rows cs ks, τ k = 0 := by
  intro rows
  induction rows with
  | nil => intro cs ks h; simpa [stagesAux] using h
  | cons row rest ih =>
    intro cs ks h
    simp only [stagesAux]
    apply ih
    intro k hk
    rcases List.mem_append.mp hk with h1 | h1
    · exact h k h1
    · rw [List.mem_singleton.mp h1]; exact hf _ _

/-- **every explicit Runge–Kutta step conserves every linear invariant of the right-hand side**:
the trace of a density matrix under any (time-dependent) Liouvillian, for any tableau and step -/
theorem rk_preserves_linear_invariant (tab : Tableau R) (τ : V →ₗ[R] W) (f : R → V → V)
    (hf : ∀ t y, τ (f t y) = 0) (t dt : R) (y : V) : τ (rkStep tab f t dt y) = τ y := by
  unfold rkStep stages
  apply accumulate_ker
  exact stagesAux_ker τ f hf t dt y _ _ [] (fun k hk => absurd hk (List.not_mem_nil))

end invariant

/-! ### the stability polynomial -/
section stab
variable {R : Type} [Field R]

theorem peval_nil (z : R) : peval ([] : List R) z = 0 := rfl
theorem peval_cons (c : R) (p : List R) (z : R) : peval (c :: p) z = c + z * peval p z := rfl

theorem peval_padd (p q : List R) (z : R) : peval (padd p q) z = peval p z + peval q z := by
  induction p generalizing q with
  | nil => simp [padd, peval_nil]
  | cons x p ih =>
    cases q with
    | nil => simp [padd, peval_nil]
    | cons y q => simp only [padd, peval_cons, ih]; ring

theorem peval_psmul (s : R) (p : List R) (z : R) : peval (psmul s p) z = s * peval p z := by
  induction p with
  | nil => simp [psmul, peval_nil]
  | cons x p ih =>
    have : psmul s (x :: p) = (s * x) :: psmul s p := rfl
    rw [this, peval_cons, peval_cons, ih]; ring

theorem peval_pshift (p : List R) (z : R) : peval (pshift p) z = z * peval p z := by
  simp [pshift, peval_cons]

/-- Σ_j a_j u_j as a polynomial -/
def comb (factors : List R) (us : List (List R)) : List R :=
  (List.zip factors us).foldl (fun acc p => padd acc (psmul p.1 p.2)) []

theorem accumulate_scalar (lam dt y : R) (factors : List R) (us : List (List R)) :
    accumulate y factors dt (us.map fun u => lam * y * peval u (dt * lam))
      = y * (1 + (dt * lam) * peval (comb factors us) (dt * lam)) := by
  unfold accumulate comb
  rw [List.zip_map_right, List.foldl_map]
  have key : ∀ (l : List (R × List R)) (av : R) (ap : List R),
      av = y * (1 + (dt * lam) * peval ap (dt * lam)) →
      l.foldl (fun acc p => acc + (dt * p.1) • (lam * y * peval p.2 (dt * lam))) av
        = y * (1 + (dt * lam) * peval (l.foldl (fun acc p => padd acc (psmul p.1 p.2)) ap) (dt * lam)) := by
    intro l
    induction l with
    | nil => intro av ap h; simpa using h
    | cons p l ih =>
      intro av ap h
      rw [List.foldl_cons, List.foldl_cons]
      apply ih
      rw [h, peval_padd, peval_psmul, smul_eq_mul]
      ring
  exact key _ _ _ (by simp [peval_nil])

theorem stagesAux_scalar (lam t dt y : R) :
    ∀ (rows : List (List R)) (cs : List R) (us : List (List R)),
      stagesAux (fun _ v => lam * v) t dt y rows cs (us.map fun u => lam * y * peval u (dt * lam))
        = (stagePolysAux rows us).map fun u => lam * y * peval u (dt * lam) := by
  intro rows
  induction rows with
  | nil => intro cs us; rfl
  | cons row rest ih =>
    intro cs us
    simp only [stagesAux, stagePolysAux]
    rw [accumulate_scalar]
    have : (us.map fun u => lam * y * peval u (dt * lam)) ++ [lam * (y * (1 + dt * lam * peval (comb row us) (dt * lam)))]
        = (us ++ [padd [1] (pshift (comb row us))]).map fun u => lam * y * peval u (dt * lam) := by
      rw [List.map_append, List.map_singleton, peval_padd, peval_pshift]
      simp only [peval_cons, peval_nil]
      congr 2
      ring
    rw [this]
    exact ih _ _

/-- **one step on `y' = λ y` multiplies `y` by the stability polynomial at `dt·λ`** — for every
explicit tableau, every step and every (complex) rate -/
theorem rkStep_linear_scalar (tab : Tableau R) (lam t dt y : R) :
    rkStep tab (fun _ v => lam * v) t dt y = peval (stabPoly tab) (dt * lam) * y := by
  unfold rkStep stages stabPoly stagePolys
  have h := stagesAux_scalar lam t dt y tab.a tab.c []
  simp only [List.map_nil] at h
  rw [h, accumulate_scalar, peval_padd, peval_pshift]
  simp only [peval_cons, peval_nil, comb]
  ring

end stab
end Qv.C10
