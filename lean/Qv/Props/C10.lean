import Qv.Model.C10
import Mathlib.Algebra.Module.LinearMap.Basic
import Mathlib.Algebra.Field.Basic
import Mathlib.Tactic.Ring
import Mathlib.Tactic.Linarith
import Mathlib.Algebra.Order.Ring.Rat
/-!
# C10 — deterministic evolution: what every explicit Runge–Kutta step does, for every tableau

* a linear functional that vanishes on the right-hand side (the trace under a Liouvillian, for any
  time dependence) is conserved exactly by every step of every explicit Runge–Kutta method;
* on `y' = λ y` one step multiplies `y` by the stability polynomial of the tableau evaluated at
  `dt·λ` — so the accuracy of a method on time-independent generators is decided by how close that
  polynomial is to the exponential series, which is checked for the tableaux in the source
  (`Qv.Gen.Tableaux`, regenerated on every run).
-/
set_option linter.unusedVariables false
set_option linter.unusedSectionVars false
namespace Qv.C10

/-! ### conserved linear functionals -/
section invariant
variable {R V W : Type} [CommRing R] [AddCommGroup V] [Module R V] [AddCommGroup W] [Module R W]

theorem accumulate_ker (τ : V →ₗ[R] W) (target : V) (factors : List R) (dt : R) (ks : List V)
    (hk : ∀ k ∈ ks, τ k = 0) : τ (accumulate target factors dt ks) = τ target := by
  unfold accumulate
  have key : ∀ (l : List (R × V)) (acc : V), (∀ p ∈ l, τ p.2 = 0) →
      τ (l.foldl (fun acc p => acc + (dt * p.1) • p.2) acc) = τ acc := by
    intro l
    induction l with
    | nil => intro acc _; rfl
    | cons p l ih =>
      intro acc h
      rw [List.foldl_cons, ih _ (fun q hq => h q (List.mem_cons_of_mem _ hq))]
      rw [map_add, map_smul, h p (List.mem_cons_self), smul_zero, add_zero]
  exact key _ _ (fun p hp => hk p.2 (List.of_mem_zip hp).2)

theorem stagesAux_ker (τ : V →ₗ[R] W) (f : R → V → V) (hf : ∀ t y, τ (f t y) = 0) (t dt : R) (y : V) :
    ∀ (rows : List (List R)) (cs : List R) (ks : List V), (∀ k ∈ ks, τ k = 0) →
      ∀ k ∈ stagesAux f t dt y rows cs ks, τ k = 0 := by
  intro rows
  induction rows with
  | nil => intro cs ks h; simpa [stagesAux] using h
  | cons row rest ih =>
    intro cs ks h
    simp only [stagesAux]
    apply ih
    intro k hk
    rcases List.mem_append.mp hk with h1 | h1
    · exact h k h1
    · rw [List.mem_singleton.mp h1]; exact hf _ _

/-- **every explicit Runge–Kutta step conserves every linear invariant of the right-hand side**:
the trace of a density matrix under any (time-dependent) Liouvillian, for any tableau and step -/
theorem rk_preserves_linear_invariant (tab : Tableau R) (τ : V →ₗ[R] W) (f : R → V → V)
    (hf : ∀ t y, τ (f t y) = 0) (t dt : R) (y : V) : τ (rkStep tab f t dt y) = τ y := by
  unfold rkStep stages
  apply accumulate_ker
  exact stagesAux_ker τ f hf t dt y _ _ [] (fun k hk => absurd hk (List.not_mem_nil))

end invariant

/-! ### the stability polynomial -/
section stab
variable {R : Type} [Field R]

theorem peval_nil (z : R) : peval ([] : List R) z = 0 := rfl
theorem peval_cons (c : R) (p : List R) (z : R) : peval (c :: p) z = c + z * peval p z := rfl

theorem peval_padd (p q : List R) (z : R) : peval (padd p q) z = peval p z + peval q z := by
  induction p generalizing q with
  | nil => simp [padd, peval_nil]
  | cons x p ih =>
    cases q with
    | nil => simp [padd, peval_nil]
    | cons y q => simp only [padd, peval_cons, ih]; ring

theorem peval_psmul (s : R) (p : List R) (z : R) : peval (psmul s p) z = s * peval p z := by
  induction p with
  | nil => simp [psmul, peval_nil]
  | cons x p ih =>
    have : psmul s (x :: p) = (s * x) :: psmul s p := rfl
    rw [this, peval_cons, peval_cons, ih]; ring

theorem peval_pshift (p : List R) (z : R) : peval (pshift p) z = z * peval p z := by
  simp [pshift, peval_cons]

/-- Σ_j a_j u_j as a polynomial -/
def comb (factors : List R) (us : List (List R)) : List R :=
  (List.zip factors us).foldl (fun acc p => padd acc (psmul p.1 p.2)) []

theorem accumulate_scalar (lam dt y : R) (factors : List R) (us : List (List R)) :
    accumulate y factors dt (us.map fun u => lam * y * peval u (dt * lam))
      = y * (1 + (dt * lam) * peval (comb factors us) (dt * lam)) := by
  unfold accumulate comb
  rw [List.zip_map_right, List.foldl_map]
  have key : ∀ (l : List (R × List R)) (av : R) (ap : List R),
      av = y * (1 + (dt * lam) * peval ap (dt * lam)) →
      l.foldl (fun acc p => acc + (dt * p.1) • (lam * y * peval p.2 (dt * lam))) av
        = y * (1 + (dt * lam) * peval (l.foldl (fun acc p => padd acc (psmul p.1 p.2)) ap) (dt * lam)) := by
    intro l
    induction l with
    | nil => intro av ap h; simpa using h
    | cons p l ih =>
      intro av ap h
      rw [List.foldl_cons, List.foldl_cons]
      apply ih
      rw [h, peval_padd, peval_psmul, smul_eq_mul]
      ring
  exact key _ _ _ (by simp [peval_nil])

theorem stagesAux_scalar (lam t dt y : R) :
    ∀ (rows : List (List R)) (cs : List R) (us : List (List R)),
      stagesAux (fun _ v => lam * v) t dt y rows cs (us.map fun u => lam * y * peval u (dt * lam))
        = (stagePolysAux rows us).map fun u => lam * y * peval u (dt * lam) := by
  intro rows
  induction rows with
  | nil => intro cs us; rfl
  | cons row rest ih =>
    intro cs us
    simp only [stagesAux, stagePolysAux]
    rw [accumulate_scalar]
    have : (us.map fun u => lam * y * peval u (dt * lam)) ++ [lam * (y * (1 + dt * lam * peval (comb row us) (dt * lam)))]
        = (us ++ [padd [1] (pshift (comb row us))]).map fun u => lam * y * peval u (dt * lam) := by
      rw [List.map_append, List.map_singleton, peval_padd, peval_pshift]
      simp only [peval_cons, peval_nil]
      congr 2
      ring
    rw [this]
    exact ih _ _

/-- **one step on `y' = λ y` multiplies `y` by the stability polynomial at `dt·λ`** — for every
explicit tableau, every step and every (complex) rate -/
theorem rkStep_linear_scalar (tab : Tableau R) (lam t dt y : R) :
    rkStep tab (fun _ v => lam * v) t dt y = peval (stabPoly tab) (dt * lam) * y := by
  unfold rkStep stages stabPoly stagePolys
  have h := stagesAux_scalar lam t dt y tab.a tab.c []
  simp only [List.map_nil] at h
  rw [h, accumulate_scalar, peval_padd, peval_pshift]
  simp only [peval_cons, peval_nil, comb]
  ring

end stab
/-! ### Butcher's order conditions hold on every rooted tree, not only on the ones that were enumerated -/
section trees

theorem BTree.order_pos (t : BTree) : 1 ≤ t.order := by
  induction t with
  | leaf => simp [BTree.order]
  | graft a b iha ihb => simp only [BTree.order]; omega

theorem treeTable_length (A : List (List Rat)) (n : Nat) : (treeTable A n).length = n := by
  induction n with
  | zero => rfl
  | succ n ih => simp [treeTable, ih]

theorem treeTable_getD_succ (A : List (List Rat)) (n i : Nat) (h : i < n) :
    (treeTable A (n + 1)).getD i [] = (treeTable A n).getD i [] := by
  simp only [treeTable]
  rw [List.getD_eq_getElem?_getD, List.getD_eq_getElem?_getD, List.getElem?_append_left (by rw [treeTable_length]; exact h)]

theorem treeTable_getD_stable (A : List (List Rat)) (n m i : Nat) (h : i < n) (hm : n ≤ m) :
    (treeTable A m).getD i [] = (treeTable A n).getD i [] := by
  induction m with
  | zero => have : n = 0 := by omega
            subst this; rfl
  | succ m ih =>
    rcases Nat.lt_or_ge m n with h1 | h1
    · have : n = m + 1 := by omega
      subst this; rfl
    · rw [treeTable_getD_succ A m i (by omega), ih h1]

theorem treeTable_last (A : List (List Rat)) (n : Nat) :
    (treeTable A (n + 1)).getD n [] = (if n = 0 then [WTree.full A .leaf] else []) ++
      (List.range n).flatMap fun k =>
        ((treeTable A n).getD k []).flatMap fun a => ((treeTable A n).getD (n - 1 - k) []).map fun b => WTree.graft A a b := by
  simp only [treeTable]
  rw [List.getD_eq_getElem?_getD, List.getElem?_append_right (by simp [treeTable_length])]
  simp [treeTable_length]

theorem WTree.graft_full (A : List (List Rat)) (a b : BTree) :
    WTree.graft A (WTree.full A a) (WTree.full A b) = WTree.full A (.graft a b) := rfl

/-- **the enumeration is complete**: every rooted tree (every Butcher product term) with at most `n`
vertices is in the table, with its elementary weights -/
theorem treeTable_complete (A : List (List Rat)) (t : BTree) :
    ∀ n, t.order ≤ n → WTree.full A t ∈ (treeTable A n).getD (t.order - 1) [] := by
  induction t with
  | leaf =>
    intro n hn
    simp only [BTree.order] at hn ⊢
    rw [treeTable_getD_stable A 1 n 0 (by omega) hn, treeTable_last]
    simp
  | graft a b iha ihb =>
    intro n hn
    have ha := BTree.order_pos a
    have hb := BTree.order_pos b
    simp only [BTree.order] at hn ⊢
    obtain ⟨N, hN⟩ : ∃ N, a.order + b.order = N + 1 := ⟨a.order + b.order - 1, by omega⟩
    rw [hN] at hn ⊢
    rw [Nat.add_sub_cancel, treeTable_getD_stable A (N + 1) n N (by omega) hn, treeTable_last]
    apply List.mem_append_right
    rw [List.mem_flatMap]
    refine ⟨a.order - 1, List.mem_range.mpr (by omega), ?_⟩
    rw [List.mem_flatMap]
    refine ⟨WTree.full A a, iha N (by omega), ?_⟩
    rw [List.mem_map]
    refine ⟨WTree.full A b, ?_, WTree.graft_full A a b⟩
    have : N - 1 - (a.order - 1) = b.order - 1 := by omega
    rw [this]
    exact ihb N (by omega)

theorem foldl_max_ge {α : Type} (f : α → Rat) (l : List α) :
    ∀ (acc : Rat), (acc ≤ l.foldl (fun acc w => max acc (f w)) acc) ∧
      ∀ x ∈ l, f x ≤ l.foldl (fun acc w => max acc (f w)) acc := by
  induction l with
  | nil => intro acc; exact ⟨le_refl _, fun x hx => absurd hx List.not_mem_nil⟩
  | cons y l ih =>
    intro acc
    obtain ⟨h1, h2⟩ := ih (max acc (f y))
    refine ⟨le_trans (le_max_left _ _) h1, ?_⟩
    intro x hx
    rcases List.mem_cons.mp hx with rfl | hx
    · exact le_trans (le_max_right _ _) h1
    · exact h2 x hx

/-- **order conditions for every rooted tree**: if the per-size defects (decided by the kernel for the
coefficients in the source, `Qv.Gen.TreeOrder*`) are within `tol` for the sizes `1 … p`, then for *every*
rooted tree `t` with at most `p` vertices `|Σ_i b_i Φ_i(t) − 1/γ(t)| ≤ tol` — the hypothesis of Butcher's
theorem that the method has order `p` on non-linear, time-dependent right-hand sides. -/
theorem order_conditions_all_trees (tab : Tableau Rat) (p : Nat) (tol : Rat)
    (h : ∀ n, n < p → treeDefectAt tab (n + 1) ≤ tol) (t : BTree) (ht : t.order ≤ p) :
    treeResidual tab t ≤ tol := by
  have hpos := BTree.order_pos t
  obtain ⟨n, hn⟩ : ∃ n, t.order = n + 1 := ⟨t.order - 1, by omega⟩
  have hmem := treeTable_complete tab.a t (n + 1) (by omega)
  rw [hn, Nat.add_sub_cancel] at hmem
  have hb := (foldl_max_ge (wResidual tab) ((treeTable tab.a (n + 1)).getD n []) 0).2 _ hmem
  have hd := h n (by omega)
  unfold treeDefectAt at hd
  rw [Nat.add_sub_cancel] at hd
  exact le_trans hb hd

/-- non-vacuity: the bushy tree with three vertices `[•, •]` gives the classical condition `Σ b_i c_i² = 1/3` -/
example : (BTree.graft .leaf (.graft .leaf .leaf)).gamma = 3 := by decide +kernel
example : (BTree.graft (.graft .leaf .leaf) .leaf).gamma = 6 := by decide +kernel

end trees

/-! ## Krylov: the step is unbounded exactly when the Krylov space has closed -/
section krylov

theorem lanczosLoop_spec (small : Nat → Bool) (kd : Nat) (fuel j : Nat) (hf : kd ≤ j + fuel)
    (hj : j ≤ kd) (hpre : ∀ i, i < j → small i = false) :
    let r := lanczosLoop small kd fuel j
    j ≤ r ∧ r ≤ kd ∧ (∀ i, i < r → small i = false) ∧ (r < kd → small r = true) := by
  induction fuel generalizing j with
  | zero =>
    have : j = kd := by omega
    subst this
    simp only [lanczosLoop]
    exact ⟨Nat.le_refl _, Nat.le_refl _, hpre, fun h => absurd h (Nat.lt_irrefl _)⟩
  | succ fuel ih =>
    simp only [lanczosLoop]
    by_cases hc : j < kd ∧ small j = false
    · have hcond : (decide (j < kd) && !small j) = true := by simp [hc.1, hc.2]
      rw [if_pos hcond]
      have hpre' : ∀ i, i < j + 1 → small i = false := by
        intro i hi
        rcases Nat.lt_succ_iff_lt_or_eq.mp hi with h | h
        · exact hpre i h
        · rw [h]; exact hc.2
      obtain ⟨h1, h2, h3, h4⟩ := ih (j + 1) (by omega) (by omega) hpre'
      exact ⟨by omega, h2, h3, h4⟩
    · have hcond : ¬ ((decide (j < kd) && !small j) = true) := by
        intro h
        simp only [Bool.and_eq_true, decide_eq_true_eq, Bool.not_eq_true'] at h
        exact hc h
      rw [if_neg hcond]
      refine ⟨Nat.le_refl _, hj, hpre, ?_⟩
      intro hlt
      by_contra hs
      exact hc ⟨hlt, by simpa using hs⟩

/-- the recursion stops with at most `krylov_dim` vectors exactly when some candidate among the first
`krylov_dim` had a negligible norm: the Krylov space has closed -/
theorem lanczosCount_le_iff (small : Nat → Bool) (kd : Nat) :
    lanczosCount small kd ≤ kd ↔ ∃ j, j < kd ∧ small j = true := by
  obtain ⟨_, h2, h3, h4⟩ := lanczosLoop_spec small kd kd 0 (by omega) (Nat.zero_le _) (fun i hi => absurd hi (Nat.not_lt_zero _))
  unfold lanczosCount
  constructor
  · intro h
    exact ⟨_, by omega, h4 (by omega)⟩
  · rintro ⟨j, hj, hs⟩
    by_contra hc
    have : lanczosLoop small kd kd 0 = kd := by omega
    rw [this] at h3
    rw [h3 j hj] at hs
    exact Bool.false_ne_true hs

/-- **the decision of the integrator**: no step bound exactly when the Krylov space closed within the
first `krylov_dim` candidates, or the vectors built span the whole space -/
theorem stepUnbounded_iff (small : Nat → Bool) (kd N : Nat) :
    stepUnbounded small kd N = true ↔ (∃ j, j < kd ∧ small j = true) ∨ lanczosCount small kd = N := by
  unfold stepUnbounded
  rw [Bool.or_eq_true, decide_eq_true_eq, beq_iff_eq, lanczosCount_le_iff]

/-- the rule before the repair misses a space that closes with exactly `krylov_dim` vectors
(`krylov_dim = 2`, the second candidate negligible, a three-dimensional system) -/
example : stepUnbounded (fun j => j == 1) 2 3 = true ∧ stepUnboundedOld (fun j => j == 1) 2 3 = false := by
  decide

end krylov

end Qv.C10
