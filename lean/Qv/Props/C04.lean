import Qv.Proofs.C04
/-!
# C04 — library calls do not modify the objects handed to them

Theorems about the alias analysis `Qv.C04.analyze` over the IR `Qv.C04.Stmt`: for every function
skeleton the analysis accepts, every execution (any branch taken, any number of loop iterations, any
value written by an in-place update, any object handed back by a call that may return its argument)
leaves every object that existed when the call started exactly as it was.  The skeletons of the
constructors and helpers named in the property are regenerated from /repo into `Qv.Gen.AliasIR` on
every run, with one `decide` obligation each.
-/
namespace Qv.C04

/-- **accepted ⇒ no input is modified**: every object that existed at entry keeps its payload -/
theorem no_input_mutation (body : Stmt) (h : safe body = true) (s s' : St) (he : Exec body s s') :
    ∀ i, i < s.heap.length → s'.heap[i]? = s.heap[i]? := by
  unfold safe at h
  cases ha : analyze body [] with
  | none => rw [ha] at h; cases h
  | some o =>
    have := sound s.heap.length body [] o s s' ha ⟨fun _ hx => absurd hx (List.not_mem_nil), Nat.le_refl _⟩ he
    exact this.2

/-- a declared in-place operation (`__iadd__`, `arguments`, setters, ...) changes at most its
receiver: every object that is not among those the receiver variables refer to — stated as: every
object below any `base` under all the receivers — keeps its payload -/
theorem only_receiver_changes (recv : List Nat) (body : Stmt) (h : safeExcept recv body = true)
    (s s' : St) (base : Nat) (hb : base ≤ s.heap.length) (hr : ∀ x, x ∈ recv → base ≤ s.env x)
    (he : Exec body s s') : ∀ i, i < base → s'.heap[i]? = s.heap[i]? := by
  unfold safeExcept at h
  cases ha : analyze body recv with
  | none => rw [ha] at h; cases h
  | some o => exact (sound base body recv o s s' ha ⟨hr, hb⟩ he).2

/-- the analysis does not refuse for nothing: binding a parameter to a new name and updating it in
place (the `rhs = H; rhs += ...` pattern) is refused, and has an execution that changes the caller's
object -/
theorem alias_then_mutate_refused_and_unsafe :
    safe (.seq (.alias 1 0) (.mutate 1)) = false ∧
    ∃ s s', Exec (.seq (.alias 1 0) (.mutate 1)) s s' ∧ s'.heap[0]? ≠ s.heap[0]? := by
  refine ⟨by decide, ⟨fun _ => 0, [7]⟩, _, Exec.seq (Exec.alias 1 0 _) (Exec.mutate 1 8 _), ?_⟩
  simp [upd]

/-- copying first makes the same update acceptable -/
example : safe (.seq (.fresh 1) (.mutate 1)) = true := by decide
/-- a loop that re-binds a variable to a caller object on a later iteration is refused -/
example : safe (.seq (.fresh 1) (.loop (.seq (.mutate 1) (.alias 1 0)))) = false := by decide
example : safe (.seq (.fresh 1) (.loop (.seq (.mutate 1) (.fresh 1)))) = true := by decide

end Qv.C04
