import Qv.Props.C06
import Mathlib.Algebra.Polynomial.Taylor
import Mathlib.Algebra.BigOperators.Intervals
/-!
# C06 — the table built from a spline reproduces the spline (orders >= 2, `from_PPoly`)

`InterCoefficient.__init__` (orders >= 2) and `from_PPoly` (last column) fill column `k` of the table with
`spline^(i)(t_k) / i!` for `i = order … 0`.  For a piece that is a polynomial `p` of degree at most `order`,
these are the Taylor coefficients of `p` at `t_k`, and the Horner loop of `_call` then returns `p(t)` for
*every* `t`: the coefficient is exactly the piecewise polynomial SciPy built (which interpolates the
samples and is continuous: SciPy's contract, trusted), whatever the break points are.
-/
set_option linter.unusedSectionVars false
set_option linter.unusedVariables false
namespace Qv.C06
open Polynomial

variable {R V : Type} [Field R] [Field V] [Algebra R V]

local notation "emb" => (algebraMap R V : R → V)

/-- the Horner loop over `k` rows is the power sum with the first row as leading coefficient -/
theorem horner_eq_sum (col : Nat → V) (x : R) (k : Nat) :
    horner emb col x k = ∑ i ∈ Finset.range k, col i * emb x ^ (k - 1 - i) := by
  induction k with
  | zero => simp [horner]
  | succ k ih =>
    rw [horner, ih, Finset.sum_range_succ, Finset.sum_mul]
    congr 1
    · apply Finset.sum_congr rfl
      intro i hi
      rw [Finset.mem_range] at hi
      rw [mul_assoc, ← pow_succ]
      congr 2
      omega
    · simp

/-- the column `__init__` / `from_PPoly` writes for a break point `a` of a piece `p`:
row `r` holds `p^(n-r)(a) / (n-r)!` (the Hasse derivative) -/
noncomputable def taylorColumn (p : V[X]) (n : Nat) (a : R) : Nat → V :=
  fun r => (hasseDeriv (n - r) p).eval (emb a)

/-- **the table reproduces the piece**: evaluating the column written at `a` with the Horner loop of
`_call` at offset `t - a` gives `p(t)`, for every polynomial piece of degree at most the order and every
`t` -/
theorem taylorColumn_horner (p : V[X]) (n : Nat) (hdeg : p.natDegree ≤ n) (a t : R) :
    horner emb (taylorColumn p n a) (t - a) (n + 1) = p.eval (emb t) := by
  rw [horner_eq_sum]
  have h1 : p.eval (emb t) = (taylor (emb a) p).eval (emb t - emb a) := by
    rw [taylor_eval]; simp
  have hd : (taylor (emb a) p).natDegree < n + 1 := by
    rw [natDegree_taylor]; omega
  rw [h1, eval_eq_sum_range' hd, ← Finset.sum_range_reflect]
  apply Finset.sum_congr rfl
  intro i hi
  rw [Finset.mem_range] at hi
  simp only [taylorColumn, taylor_coeff, map_sub]
  have e1 : n - (n + 1 - 1 - i) = i := by omega
  have e2 : n + 1 - 1 - (n + 1 - 1 - i) = i := by omega
  rw [e1, e2]

/-- at the break point itself the value is the last row -/
theorem taylorColumn_at_knot (p : V[X]) (n : Nat) (a : R) :
    taylorColumn p n a n = p.eval (emb a) := by
  simp [taylorColumn]

/-- the periodic route builds the table from the splines of the real and of the imaginary part:
columns add (and scale) like the pieces -/
theorem taylorColumn_add (p q : V[X]) (n : Nat) (a : R) (r : Nat) :
    taylorColumn (p + q) n a r = taylorColumn p n a r + taylorColumn q n a r := by
  simp [taylorColumn]

theorem taylorColumn_smul (c : V) (p : V[X]) (n : Nat) (a : R) (r : Nat) :
    taylorColumn (C c * p) n a r = c * taylorColumn p n a r := by
  simp [taylorColumn, ← smul_eq_C_mul]

/-- two neighbouring pieces of a spline agree at their common knot, so the table built this way meets the
hypothesis of `continuous_if_table_continuous` -/
theorem taylorColumn_knot_condition (p q : V[X]) (n : Nat) (hp : p.natDegree ≤ n) (a b : R)
    (hcont : p.eval (emb b) = q.eval (emb b)) :
    horner emb (taylorColumn p n a) (b - a) (n + 1) = taylorColumn q n b n := by
  rw [taylorColumn_horner p n hp, taylorColumn_at_knot, hcont]

/-- non-vacuity: `p = 1 + 2x + 3x²`, order 2, expanded at `a = 1`, evaluated at `t = 3`: `34` -/
example : horner (algebraMap ℚ ℚ) (fun r => ([3, 8, 6] : List ℚ).getD r 0) ((3 : ℚ) - 1) 3 = 34 := by
  norm_num [horner]

end Qv.C06
