import Qv.Proofs.C06
import Mathlib.Tactic.IntervalCases
import Mathlib.Tactic.NormNum
/-!
# C06 — coefficients reproduce the data / function they were built from

Theorems about the model `Qv.C06` of `InterCoefficient` and of the argument plumbing of
`FunctionCoefficient`, for every strictly increasing grid of fewer than 2^64 points (any scale, any
spacing), every value array, every time, every outcome `guess` of the floating-point index formula and
either outcome of the uniformity detection.
-/
set_option linter.unusedSectionVars false
set_option linter.unusedVariables false
namespace Qv.C06

variable {R V : Type} [Field R] [LinearOrder R] [IsStrictOrderedRing R] [Field V] [Algebra R V]

local notation "emb" => (algebraMap R V : R → V)

/-- well-formed coefficient: at least one sample, strictly increasing grid, fewer than 2^64 points -/
structure IC.WF (c : IC R V) : Prop where
  pos : 0 < c.n
  small : c.n ≤ 2 ^ 64
  incr : Increasing c.g c.n

/-- whichever branch `_call` takes to find the interval (index formula + correcting walk, or binary
search), it finds the interval containing `t` -/
theorem index_spec (c : IC R V) (h : c.WF) (t : R) (h0 : c.g 0 < t) (h1 : t < c.g (c.n - 1)) :
    IsIdx c.g c.n t (c.index t) := by
  unfold IC.index
  split
  · have hn : 2 ≤ c.n := by
      by_contra hc
      have : c.n - 1 = 0 := by omega
      rw [this] at h1
      exact absurd (lt_trans h0 h1) (lt_irrefl _)
    exact locate_spec c.g c.n _ t hn (le_of_lt h0) h1
  · exact binarySearch_spec c.g c.n t h.small (le_of_lt h0) h1 h.pos

theorem index_eq (c : IC R V) (h : c.WF) (t : R) (k : Nat) (hk : k + 1 < c.n) (h0 : c.g 0 < t)
    (hl : c.g k ≤ t) (hr : t < c.g (k + 1)) : c.index t = k := by
  have h1 : t < c.g (c.n - 1) := by
    rcases Nat.eq_or_lt_of_le (show k + 1 ≤ c.n - 1 by omega) with e | e
    · rw [← e]; exact hr
    · exact lt_trans hr (h.incr _ _ e (by omega))
  exact isIdx_unique h.incr (index_spec c h t h0 h1) ⟨hk, hl, hr⟩

theorem horner_zero (R : Type) {V : Type} [Field R] [Field V] [Algebra R V] (col : Nat → V) (k : Nat) :
    horner (algebraMap R V : R → V) col (0 : R) (k + 1) = col k := by
  simp [horner]

/-- outside the grid the coefficient is constant: the first / last entry of the constant-term row -/
theorem outside_constant (c : IC R V) (t : R) :
    (t ≤ c.g 0 → c.call emb t = c.poly c.order 0) ∧
    (c.g 0 < t → c.g (c.n - 1) ≤ t → c.call emb t = c.poly c.order (c.n - 1)) := by
  constructor
  · intro h; simp [IC.call, h]
  · intro h0 h1; simp [IC.call, not_le.mpr h0, h1]

/-- **every sample is returned at its sample time**: for any table whose constant-term row holds the
samples (orders 0 and 1 by construction, higher orders because SciPy's spline interpolates), any
increasing grid, any order. -/
theorem call_at_knot (c : IC R V) (h : c.WF) (k : Nat) (hk : k < c.n) :
    c.call emb (c.g k) = c.poly c.order k := by
  unfold IC.call
  by_cases hk0 : k = 0
  · subst hk0; simp
  have h0 : c.g 0 < c.g k := h.incr 0 k (by omega) hk
  rw [if_neg (not_le.mpr h0)]
  by_cases hkl : k = c.n - 1
  · subst hkl; simp
  have hlast : c.g k < c.g (c.n - 1) := h.incr _ _ (by omega) (by omega)
  rw [if_neg (not_le.mpr hlast)]
  have hi : c.index (c.g k) = k :=
    index_eq c h _ k (by omega) h0 (le_refl _) (h.incr _ _ (by omega) (by omega))
  rw [hi]
  split
  · rename_i ho; rw [ho]
  · rw [sub_self]; exact horner_zero R _ _

/-- on `[t_k, t_{k+1})` the coefficient is the polynomial stored in column `k` -/
theorem call_eq_piece (c : IC R V) (h : c.WF) (k : Nat) (hk : k + 1 < c.n) (t : R)
    (hl : c.g k ≤ t) (hr : t < c.g (k + 1)) : c.call emb t = c.piece emb k t := by
  by_cases hk0 : t = c.g k
  · subst hk0
    rw [call_at_knot c h k (by omega)]
    unfold IC.piece
    rw [sub_self]; exact (horner_zero R (fun i => c.poly i k) c.order).symm
  have hlt : c.g k < t := lt_of_le_of_ne hl (Ne.symm hk0)
  have h0 : c.g 0 < t := by
    rcases Nat.eq_zero_or_pos k with e | e
    · rw [e] at hlt; exact hlt
    · exact lt_trans (h.incr 0 k e (by omega)) hlt
  have h1 : t < c.g (c.n - 1) := by
    rcases Nat.eq_or_lt_of_le (show k + 1 ≤ c.n - 1 by omega) with e | e
    · rw [← e]; exact hr
    · exact lt_trans hr (h.incr _ _ e (by omega))
  unfold IC.call IC.piece
  rw [if_neg (not_le.mpr h0), if_neg (not_le.mpr h1), index_eq c h t k hk h0 hl hr]
  split
  · rename_i ho; simp [ho, horner]
  · rfl

/-- order 0 is the step function taking the value of the sample to the left -/
theorem order0_step (g : Nat → R) (n : Nat) (s : Nat → V) (u : Bool) (gs : R → Nat)
    (h : (IC.mk n g 0 (table0 s) u gs).WF) (k : Nat) (hk : k + 1 < n) (t : R)
    (hl : g k ≤ t) (hr : t < g (k + 1)) :
    (IC.mk n g 0 (table0 s) u gs).call emb t = s k := by
  rw [call_eq_piece _ h k hk t hl hr]
  simp [IC.piece, horner, table0]

/-- order 1 is the linear interpolant of the samples, on the closed interval -/
theorem order1_interpolant (g : Nat → R) (n : Nat) (s : Nat → V) (u : Bool) (gs : R → Nat)
    (h : (IC.mk n g 1 (table1 emb g s) u gs).WF) (k : Nat) (hk : k + 1 < n) (t : R)
    (hl : g k ≤ t) (hr : t ≤ g (k + 1)) :
    (IC.mk n g 1 (table1 emb g s) u gs).call emb t
      = s k + emb (t - g k) * ((s (k + 1) - s k) / emb (g (k + 1) - g k)) := by
  rcases lt_or_eq_of_le hr with hr' | hr'
  · rw [call_eq_piece _ h k hk t hl hr']
    simp [IC.piece, horner, table1]
    ring
  · subst hr'
    rw [call_at_knot _ h (k + 1) hk]
    have hne : emb (g (k + 1) - g k) ≠ 0 := by
      have : g (k + 1) - g k ≠ 0 := sub_ne_zero.mpr (ne_of_gt (h.incr k (k + 1) (by omega) hk))
      exact (map_ne_zero (algebraMap R V)).mpr this
    simp only [table1]
    field_simp
    simp

/-- a table that is continuous at the knots gives a coefficient that is one polynomial on each
*closed* interval, hence continuous (the knot condition on SciPy's table is checked per instance by
the correspondence) -/
theorem continuous_if_table_continuous (c : IC R V) (h : c.WF) (k : Nat) (hk : k + 1 < c.n)
    (hknot : c.piece emb k (c.g (k + 1)) = c.poly c.order (k + 1)) (t : R)
    (hl : c.g k ≤ t) (hr : t ≤ c.g (k + 1)) : c.call emb t = c.piece emb k t := by
  rcases lt_or_eq_of_le hr with hr' | hr'
  · exact call_eq_piece c h k hk t hl hr'
  · subst hr'; rw [call_at_knot c h (k + 1) hk, hknot]

theorem horner_add (a b : Nat → V) (x : R) (k : Nat) :
    horner emb (fun i => a i + b i) x k = horner emb a x k + horner emb b x k := by
  induction k with
  | zero => simp [horner]
  | succ k ih => simp only [horner, ih]; ring

/-- `add_inter`: the merged coefficient is the pointwise sum -/
theorem add_inter_pointwise (a b : IC R V) (hn : a.n = b.n) (hg : a.g = b.g) (ho : a.order = b.order)
    (hu : a.uniform = b.uniform) (hgs : a.guess = b.guess) (t : R) :
    (addInter a b).call emb t = a.call emb t + b.call emb t := by
  have hidx : (addInter a b).index t = a.index t := rfl
  have hidxb : b.index t = a.index t := by simp [IC.index, ← hn, ← hg, ← hu, ← hgs]
  unfold IC.call
  rw [hidx, hidxb]
  simp only [addInter, ← hn, ← hg, ← ho]
  by_cases h1 : t ≤ a.g 0
  · simp [h1]
  · by_cases h2 : a.g (a.n - 1) ≤ t
    · simp [h1, h2]
    · by_cases h3 : a.order = 0
      · simp [h1, h2, h3]
      · simp only [h1, h2, h3, if_false]
        exact horner_add _ _ _ _

/-! ### function coefficients: the three ways to give arguments agree -/
section func
variable {A : Type}

theorem get_merge (a u : Dict A) (k : String) : (Dict.merge a u).get k = (u.get k).or (a.get k) := by
  unfold Dict.merge Dict.get
  rw [List.find?_append]
  cases h : List.find? (fun x => x.1 == k) u <;> simp

theorem get_restrict (d : Dict A) (ps : List String) (k : String) :
    (d.restrict ps).get k = if ps.contains k then d.get k else none := by
  unfold Dict.restrict Dict.get
  induction d with
  | nil => simp
  | cons kv d ih =>
    rw [List.filter_cons]
    by_cases hk : (kv.1 == k) = true
    · have e : k = kv.1 := (by simpa using hk : kv.1 = k).symm
      subst e
      by_cases hp : ps.contains kv.1 = true
      · rw [if_pos hp, if_pos hp, List.find?_cons, List.find?_cons]; simp
      · rw [if_neg hp, if_neg hp, ih, if_neg hp]
    · have hb : (kv.1 == k) = false := by simpa using hk
      by_cases hp : ps.contains kv.1 = true
      · rw [if_pos hp, List.find?_cons, List.find?_cons, hb]; exact ih
      · rw [if_neg hp, List.find?_cons, hb]; exact ih

theorem isEmpty_get (d : Dict A) (h : d.isEmpty = true) (k : String) : d.get k = none := by
  cases d with
  | nil => rfl
  | cons a l => simp at h

/-- what the function is called with: the accepted part of the update, then the stored arguments -/
theorem callArgs_get (c : FC A) (dargs kwargs : Dict A) (k : String) :
    (c.callArgs dargs kwargs).get k = ((c.accepted dargs kwargs).get k).or (c.args.get k) := by
  unfold FC.callArgs FC.replace
  cases he : (c.accepted dargs kwargs).isEmpty with
  | true => simp only; rw [isEmpty_get _ he]; rfl
  | false => simp only; exact get_merge _ _ _

/-- arguments given at construction, at call time, by replacement — as a dictionary, as keywords or
both — reach the function as the same dictionary: key by key, what the function is called with is
the update if it supplies an accepted key and the construction value otherwise. -/
theorem three_paths_agree (sig : Sig) (style : Style) (args dargs kwargs : Dict A) (k : String) :
    ((FC.init sig style args).callArgs dargs kwargs).get k
      = (FC.init sig style (Dict.merge args (Dict.merge kwargs dargs))).args.get k := by
  rw [callArgs_get]
  unfold FC.accepted FC.init
  simp only
  generalize (funcParameters sig style).2 = fp
  cases fp with
  | none => exact (get_merge _ _ _).symm
  | some ps =>
    simp only [get_restrict, get_merge]
    split <;> rfl

/-- replacing with nothing the function accepts returns the coefficient itself -/
theorem replace_nothing (c : FC A) : c.replace [] [] = none := by
  unfold FC.replace FC.accepted Dict.merge
  cases c.fparams <;> simp [Dict.restrict]

/-- a function that takes named parameters is only handed parameters it has -/
theorem only_declared_parameters (sig : Sig) (style : Style) (args dargs kwargs : Dict A) (k : String)
    (ps : List String) (hps : (funcParameters sig style).2 = some ps) (hk : ps.contains k = false) :
    ((FC.init sig style args).callArgs dargs kwargs).get k = none := by
  rw [three_paths_agree]
  unfold FC.init
  simp only [hps, get_restrict, hk]
  rfl

end func

/-! non-vacuity: a nanosecond, strongly non-uniform grid is well formed -/
example : (IC.mk 4 (fun i => ([0, 1/10^9, 3/10^9, 7/(2*10^9)] : List ℚ).getD i (i : ℚ)) 0
    (table0 (fun i => (i : ℚ))) true (fun _ => 7)).WF := by
  refine ⟨by decide, by norm_num, ?_⟩
  intro i j hij hj
  have : j < 4 := hj
  interval_cases j <;> interval_cases i <;> norm_num

end Qv.C06
