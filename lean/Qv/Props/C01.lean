import Qv.Model.C01
import Mathlib.Algebra.Ring.Basic
import Mathlib.Algebra.Order.Ring.Nat
import Mathlib.Data.List.Basic
import Mathlib.Data.List.Range
import Mathlib.Data.List.Nodup
import Mathlib.Tactic.Ring
import Mathlib.Tactic.Linarith
import Mathlib.Algebra.BigOperators.Group.List.Basic
import Mathlib.Algebra.BigOperators.Ring.List
import Mathlib.Tactic.SplitIfs
import Mathlib.Algebra.Star.Basic
/-!
# C01 — results do not depend on the storage format

Theorems about the format models of `Qv.C01` over any commutative ring: what each format *means* as a
matrix (`abs`), that the converters and kernels mirrored from the Cython sources preserve / implement
that meaning for every shape and every stored pattern, and that a specialisation the dispatcher builds
from a registered one by inserting conversions computes the same mathematical operation.
-/
set_option linter.unusedVariables false
set_option linter.unusedSectionVars false
namespace Qv.C01

variable {R : Type} [CommRing R]

/-! ### Dense: memory order -/

/-- transposing by flipping the order flag is the transpose -/
theorem Dense.transposeView_abs (d : Dense R) (i j : Nat) : d.transposeView.abs i j = d.abs j i := by
  unfold Dense.transposeView Dense.abs
  cases d.fortran <;> simp <;> ring_nf

theorem Dense.ofFn_abs (rows cols : Nat) (fortran : Bool) (f : Nat → Nat → R) (i j : Nat)
    (hi : i < rows) (hj : j < cols) : (Dense.ofFn rows cols fortran f).abs i j = f i j := by
  unfold Dense.ofFn Dense.abs
  cases fortran
  · simp only [Bool.false_eq_true, if_false]
    have h1 : (i * cols + j) / cols = i := by
      rw [Nat.add_comm, Nat.add_mul_div_right _ _ (by omega), Nat.div_eq_of_lt hj, Nat.zero_add]
    have h2 : (i * cols + j) % cols = j := by
      rw [Nat.add_comm, Nat.add_mul_mod_self_right, Nat.mod_eq_of_lt hj]
    rw [h1, h2]
  · simp only [if_true]
    have h1 : (i + j * rows) % rows = i := by
      rw [Nat.add_mul_mod_self_right, Nat.mod_eq_of_lt hi]
    have h2 : (i + j * rows) / rows = j := by
      rw [Nat.add_mul_div_right _ _ (by omega), Nat.div_eq_of_lt hi, Nat.zero_add]
    rw [h1, h2]

/-- the two memory orders of one matrix mean the same matrix -/
theorem Dense.order_irrelevant (rows cols : Nat) (f : Nat → Nat → R) (i j : Nat) (hi : i < rows) (hj : j < cols) :
    (Dense.ofFn rows cols true f).abs i j = (Dense.ofFn rows cols false f).abs i j := by
  rw [Dense.ofFn_abs _ _ _ _ _ _ hi hj, Dense.ofFn_abs _ _ _ _ _ _ hi hj]

/-! ### rows of (column, value) -/

theorem rowAbs_append (a b : Row R) (j : Nat) : rowAbs (a ++ b) j = rowAbs a j + rowAbs b j := by
  induction a with
  | nil => simp [rowAbs]
  | cons p a ih => obtain ⟨c, v⟩ := p; simp only [List.cons_append, rowAbs, ih]; ring

theorem rowAbs_scale (s : R) (b : Row R) (j : Nat) :
    rowAbs (b.map fun p => (p.1, s * p.2)) j = s * rowAbs b j := by
  induction b with
  | nil => simp [rowAbs]
  | cons p b ih => obtain ⟨c, v⟩ := p; simp only [List.map_cons, rowAbs, ih]; split <;> ring

theorem rowAbs_insertAcc (p : Nat × R) (acc : Row R) (j : Nat) :
    rowAbs (insertAcc p acc) j = rowAbs acc j + (if p.1 = j then p.2 else 0) := by
  induction acc with
  | nil => simp [insertAcc, rowAbs]
  | cons q acc ih =>
    obtain ⟨c, w⟩ := q
    simp only [insertAcc]
    split
    · rename_i h
      subst h
      simp only [rowAbs]
      split <;> ring
    · simp only [rowAbs, ih]; ring

/-- the scatter/gather accumulator sums what it is given, column by column -/
theorem rowAbs_compress (xs : Row R) (j : Nat) : rowAbs (compress xs) j = rowAbs xs j := by
  unfold compress
  have key : ∀ (xs acc : Row R), rowAbs (xs.foldl (fun acc p => insertAcc p acc) acc) j = rowAbs acc j + rowAbs xs j := by
    intro xs
    induction xs with
    | nil => intro acc; simp [rowAbs]
    | cons p xs ih =>
      intro acc
      obtain ⟨c, v⟩ := p
      rw [List.foldl_cons, ih, rowAbs_insertAcc]
      simp only [rowAbs]; ring
  rw [key]; simp [rowAbs]

theorem insertAcc_cols (p : Nat × R) (acc : Row R) (h : (acc.map (·.1)).Nodup) :
    ((insertAcc p acc).map (·.1)).Nodup ∧ ∀ c, c ∈ (insertAcc p acc).map (·.1) → c = p.1 ∨ c ∈ acc.map (·.1) := by
  induction acc with
  | nil => simp [insertAcc]
  | cons q acc ih =>
    obtain ⟨c, w⟩ := q
    simp only [insertAcc]
    split
    · rename_i hc
      refine ⟨by simpa using h, ?_⟩
      intro x hx; right; simpa using hx
    · rename_i hc
      simp only [List.map_cons, List.nodup_cons] at h ⊢
      have := ih h.2
      refine ⟨⟨?_, this.1⟩, ?_⟩
      · intro hmem
        rcases this.2 c hmem with e | e
        · exact hc e
        · exact h.1 e
      · intro x hx
        rcases List.mem_cons.mp hx with e | e
        · right; simp [e]
        · rcases this.2 x e with e' | e'
          · left; exact e'
          · right; simp [e']

/-- … and leaves at most one stored entry per column -/
theorem compress_nodup (xs : Row R) : ((compress xs).map (·.1)).Nodup := by
  unfold compress
  have key : ∀ (xs acc : Row R), (acc.map (·.1)).Nodup → ((xs.foldl (fun acc p => insertAcc p acc) acc).map (·.1)).Nodup := by
    intro xs
    induction xs with
    | nil => intro acc h; simpa using h
    | cons p xs ih => intro acc h; rw [List.foldl_cons]; exact ih _ (insertAcc_cols p acc h).1
  exact key xs [] (by simp)

theorem rowAbs_not_mem (xs : Row R) (j : Nat) (h : j ∉ xs.map (·.1)) : rowAbs xs j = 0 := by
  induction xs with
  | nil => rfl
  | cons p xs ih =>
    obtain ⟨c, v⟩ := p
    simp only [List.map_cons, List.mem_cons, not_or] at h
    simp only [rowAbs, if_neg (Ne.symm h.1), ih h.2, add_zero]

/-- `CSR.to_array` (later entries overwrite) agrees with the sum whenever a row holds each column once -/
theorem rowAssign_eq_rowAbs (xs : Row R) (h : (xs.map (·.1)).Nodup) (j : Nat) : rowAssign xs j = rowAbs xs j := by
  induction xs with
  | nil => rfl
  | cons p xs ih =>
    obtain ⟨c, v⟩ := p
    simp only [List.map_cons, List.nodup_cons] at h
    simp only [rowAssign, rowAbs]
    by_cases hany : (xs.any fun p => p.1 == j) = true
    · rw [if_pos hany, ih h.2]
      have hj : j ∈ xs.map (·.1) := by
        simp only [List.any_eq_true, beq_iff_eq] at hany
        obtain ⟨q, hq, e⟩ := hany
        exact List.mem_map.mpr ⟨q, hq, e⟩
      have : c ≠ j := fun e => h.1 (e ▸ hj)
      simp [this]
    · rw [if_neg hany]
      have hj : j ∉ xs.map (·.1) := by
        intro hm
        apply hany
        obtain ⟨q, hq, e⟩ := List.mem_map.mp hm
        simp only [List.any_eq_true, beq_iff_eq]
        exact ⟨q, hq, e⟩
      rw [rowAbs_not_mem xs j hj, add_zero]

/-! ### converters -/

theorem rowAbs_filterMap_range (n : Nat) (P : Nat → Bool) (val : Nat → R) (j : Nat) :
    rowAbs ((List.range n).filterMap fun k => if P k then some (k, val k) else none) j
      = if j < n ∧ P j = true then val j else 0 := by
  induction n with
  | zero => simp [rowAbs]
  | succ n ih =>
    rw [List.range_succ, List.filterMap_append, rowAbs_append, ih]
    simp only [List.filterMap_cons, List.filterMap_nil]
    by_cases hP : P n = true
    · simp only [hP, if_true, rowAbs]
      by_cases hj : n = j
      · subst hj; simp [hP]
      · have : ¬ (j < n + 1 ∧ P j = true) ↔ ¬ (j < n ∧ P j = true) := by
          constructor <;> intro h ⟨a, b⟩ <;> apply h <;> exact ⟨by omega, b⟩
        by_cases hh : j < n ∧ P j = true
        · have : j < n + 1 ∧ P j = true := ⟨by omega, hh.2⟩
          simp [hh, this, hj]
        · have h2 : ¬ (j < n + 1 ∧ P j = true) := this.mpr hh
          simp [hh, h2, hj]
    · simp only [hP]
      by_cases hh : j < n ∧ P j = true
      · have : j < n + 1 ∧ P j = true := ⟨by omega, hh.2⟩
        simp [hh, this, rowAbs]
      · have h2 : ¬ (j < n + 1 ∧ P j = true) := by
          rintro ⟨a, b⟩
          by_cases e : j = n
          · subst e; exact hP b
          · exact hh ⟨by omega, b⟩
        simp [hh, h2, rowAbs]

/-- **Dense → CSR keeps every entry the tidy-up predicate keeps and nothing else** -/
theorem csrOfDense_abs (keep : R → Bool) (d : Dense R) (i j : Nat) (hi : i < d.rows) (hj : j < d.cols) :
    (csrOfDense keep d).abs i j = if keep (d.abs i j) then d.abs i j else 0 := by
  unfold csrOfDense CSR.abs
  simp only
  rw [List.getD_eq_getElem?_getD, List.getElem?_map, List.getElem?_range hi]
  simp only [Option.map_some, Option.getD_some]
  rw [rowAbs_filterMap_range d.cols (fun k => keep (d.abs i k)) (fun k => d.abs i k) j]
  simp [hj]

/-- **CSR → Dense (either order) keeps every entry**, for rows that hold each column at most once -/
theorem denseOfCsr_abs (m : CSR R) (fortran : Bool) (i j : Nat) (hi : i < m.rows) (hj : j < m.cols)
    (hnd : ∀ row ∈ m.r, (row.map (·.1)).Nodup) : (denseOfCsr m fortran).abs i j = m.abs i j := by
  unfold denseOfCsr CSR.abs
  rw [Dense.ofFn_abs _ _ _ _ _ _ hi hj]
  apply rowAssign_eq_rowAbs
  by_cases h : i < m.r.length
  · rw [List.getD_eq_getElem?_getD, List.getElem?_eq_getElem h, Option.getD_some]
    exact hnd _ (List.getElem_mem h)
  · rw [List.getD_eq_getElem?_getD, List.getElem?_eq_none (by omega)]
    simp

/-- round trip Dense → CSR → Dense, in any pair of memory orders, up to the tidy-up predicate -/
theorem dense_csr_roundtrip (keep : R → Bool) (d : Dense R) (fortran : Bool) (i j : Nat)
    (hi : i < d.rows) (hj : j < d.cols) :
    (denseOfCsr (csrOfDense keep d) fortran).abs i j = if keep (d.abs i j) then d.abs i j else 0 := by
  rw [denseOfCsr_abs _ _ _ _ hi hj, csrOfDense_abs _ _ _ _ hi hj]
  intro row hrow
  unfold csrOfDense at hrow
  simp only [List.mem_map, List.mem_range] at hrow
  obtain ⟨i', _, rfl⟩ := hrow
  rw [List.map_filterMap]
  have : (List.range d.cols).filterMap (fun j => Option.map (fun (p : Nat × R) => p.1)
      (if keep (d.abs i' j) then some (j, d.abs i' j) else none))
      = (List.range d.cols).filter (fun j => keep (d.abs i' j)) := by
    rw [← List.filterMap_eq_filter]
    congr 1
    funext k
    by_cases hk : keep (d.abs i' k) = true <;> simp [hk, Option.guard]
  rw [this]
  exact List.nodup_range.filter _

/-! ### kernels -/

/-- **`add_csr`**: `left + scale·right`, whatever the order of the stored entries, duplicates included -/
theorem addCsr_abs (a b : CSR R) (s : R) (i j : Nat) (hi : i < a.rows) :
    (addCsr a b s).abs i j = a.abs i j + s * b.abs i j := by
  unfold addCsr CSR.abs
  simp only
  rw [List.getD_eq_getElem?_getD, List.getElem?_map, List.getElem?_range hi]
  simp only [Option.map_some, Option.getD_some]
  rw [rowAbs_compress, rowAbs_append, rowAbs_scale]

/-- the result of `add_csr` holds each column at most once per row -/
theorem addCsr_nodup (a b : CSR R) (s : R) : ∀ row ∈ (addCsr a b s).r, (row.map (·.1)).Nodup := by
  intro row hrow
  unfold addCsr at hrow
  simp only [List.mem_map] at hrow
  obtain ⟨i, _, rfl⟩ := hrow
  exact compress_nodup _

theorem rowAbs_flatMap_range (n : Nat) (g : Nat → Row R) (j : Nat) :
    rowAbs ((List.range n).flatMap g) j = ((List.range n).map fun i => rowAbs (g i) j).sum := by
  induction n with
  | zero => simp [rowAbs]
  | succ n ih =>
    rw [List.range_succ, List.flatMap_append, rowAbs_append, ih]
    simp [List.sum_append]

theorem rowAbs_tag (xs : Row R) (i i' j : Nat) :
    rowAbs ((xs.filter fun p => p.1 == j).map fun p => (i', p.2)) i = if i' = i then rowAbs xs j else 0 := by
  induction xs with
  | nil => simp [rowAbs]
  | cons p xs ih =>
    obtain ⟨c, v⟩ := p
    by_cases hc : c = j
    · subst hc
      simp only [List.filter_cons, beq_self_eq_true, if_true, List.map_cons, rowAbs, ih]
      split <;> simp
    · have : (c == j) = false := by simpa using hc
      simp only [List.filter_cons, this, Bool.false_eq_true, if_false, ih, rowAbs, if_neg hc, zero_add]

theorem sum_replicate_zero (n : Nat) : (List.replicate n (0 : R)).sum = 0 := by
  induction n with
  | zero => rfl
  | succ n ih => simp [List.replicate_succ, ih]

theorem sum_single (n i : Nat) (hi : i < n) (x : R) :
    ((List.range n).map fun i' => if i' = i then x else 0).sum = x := by
  induction n with
  | zero => omega
  | succ n ih =>
    rw [List.range_succ, List.map_append, List.sum_append]
    by_cases h : i = n
    · subst h
      have : ((List.range i).map fun i' => if i' = i then x else (0 : R)) = (List.range i).map fun _ => (0 : R) := by
        apply List.map_congr_left
        intro a ha
        have : a ≠ i := by have := List.mem_range.mp ha; omega
        simp [this]
      rw [this]
      simp [sum_replicate_zero]
    · rw [ih (by omega)]
      have : n ≠ i := fun e => h e.symm
      simp [this]

/-- **`transpose_csr`** is the transpose -/
theorem transposeCsr_abs (m : CSR R) (i j : Nat) (hi : i < m.rows) (hj : j < m.cols) :
    (transposeCsr m).abs j i = m.abs i j := by
  unfold transposeCsr CSR.abs
  simp only
  rw [List.getD_eq_getElem?_getD, List.getElem?_map, List.getElem?_range hj]
  simp only [Option.map_some, Option.getD_some]
  rw [rowAbs_flatMap_range]
  have : ((List.range m.rows).map fun i' => rowAbs (((m.r.getD i' []).filter fun p => p.1 == j).map fun p => (i', p.2)) i)
      = (List.range m.rows).map fun i' => if i' = i then rowAbs (m.r.getD i []) j else 0 := by
    apply List.map_congr_left
    intro i' _
    rw [rowAbs_tag]
    split
    · rename_i e; subst e; rfl
    · rfl
  rw [this, sum_single _ _ hi]

theorem rowAbs_flatMap (l : Row R) (g : Nat × R → Row R) (j : Nat) :
    rowAbs (l.flatMap g) j = (l.map fun p => rowAbs (g p) j).sum := by
  induction l with
  | nil => simp [rowAbs]
  | cons p l ih => rw [List.flatMap_cons, rowAbs_append, ih]; simp

theorem rowAbs_kron_inner (brow : Row R) (bc c1 j1 j2 : Nat) (v1 : R) (hj2 : j2 < bc)
    (hb : ∀ p ∈ brow, p.1 < bc) :
    rowAbs (brow.map fun p2 => (c1 * bc + p2.1, v1 * p2.2)) (j1 * bc + j2)
      = if c1 = j1 then v1 * rowAbs brow j2 else 0 := by
  induction brow with
  | nil => simp [rowAbs]
  | cons q brow ih =>
    obtain ⟨c2, v2⟩ := q
    have hc2 : c2 < bc := hb (c2, v2) List.mem_cons_self
    have ih' := ih (fun p hp => hb p (List.mem_cons_of_mem _ hp))
    simp only [List.map_cons, rowAbs, ih']
    have key : (c1 * bc + c2 = j1 * bc + j2) ↔ (c1 = j1 ∧ c2 = j2) := by
      constructor
      · intro h
        have h1 : (c1 * bc + c2) / bc = (j1 * bc + j2) / bc := by rw [h]
        have h2 : (c1 * bc + c2) % bc = (j1 * bc + j2) % bc := by rw [h]
        have hbc : 0 < bc := by omega
        rw [Nat.add_comm, Nat.add_mul_div_right _ _ hbc, Nat.div_eq_of_lt hc2,
          Nat.add_comm (j1 * bc), Nat.add_mul_div_right _ _ hbc, Nat.div_eq_of_lt hj2] at h1
        rw [Nat.add_comm, Nat.add_mul_mod_self_right, Nat.mod_eq_of_lt hc2,
          Nat.add_comm (j1 * bc), Nat.add_mul_mod_self_right, Nat.mod_eq_of_lt hj2] at h2
        exact ⟨by omega, h2⟩
      · rintro ⟨rfl, rfl⟩; rfl
    by_cases h1 : c1 = j1
    · subst h1
      by_cases h2 : c2 = j2
      · subst h2; simp; ring
      · have : ¬ (c1 * bc + c2 = c1 * bc + j2) := fun h => h2 ((key.mp h).2)
        simp [this, h2]
    · have : ¬ (c1 * bc + c2 = j1 * bc + j2) := fun h => h1 ((key.mp h).1)
      simp [this, h1]

theorem sum_scaled_filter (arow : Row R) (j1 : Nat) (B : R) :
    (arow.map fun p1 => if p1.1 = j1 then p1.2 * B else 0).sum = rowAbs arow j1 * B := by
  induction arow with
  | nil => simp [rowAbs]
  | cons p arow ih =>
    obtain ⟨c, v⟩ := p
    simp only [List.map_cons, List.sum_cons, ih, rowAbs]
    split <;> ring

/-- **`kron_csr`** is the Kronecker product: entry (i₁·rows₂ + i₂, j₁·cols₂ + j₂) is a(i₁,j₁)·b(i₂,j₂),
for every stored order, provided the stored columns of `b` are columns of `b` -/
theorem kronCsr_abs (a b : CSR R) (i1 i2 j1 j2 : Nat) (hi1 : i1 < a.rows) (hi2 : i2 < b.rows) (hj2 : j2 < b.cols)
    (hb : ∀ row ∈ b.r, ∀ p ∈ row, p.1 < b.cols) :
    (kronCsr a b).abs (i1 * b.rows + i2) (j1 * b.cols + j2) = a.abs i1 j1 * b.abs i2 j2 := by
  unfold kronCsr CSR.abs
  simp only
  have hlt : i1 * b.rows + i2 < a.rows * b.rows := by
    calc i1 * b.rows + i2 < i1 * b.rows + b.rows := by omega
      _ = (i1 + 1) * b.rows := by ring
      _ ≤ a.rows * b.rows := Nat.mul_le_mul_right _ (by omega)
  rw [List.getD_eq_getElem?_getD, List.getElem?_map, List.getElem?_range hlt]
  simp only [Option.map_some, Option.getD_some]
  have hbr : 0 < b.rows := by omega
  have hd : (i1 * b.rows + i2) / b.rows = i1 := by
    rw [Nat.add_comm, Nat.add_mul_div_right _ _ hbr, Nat.div_eq_of_lt hi2, Nat.zero_add]
  have hm : (i1 * b.rows + i2) % b.rows = i2 := by
    rw [Nat.add_comm, Nat.add_mul_mod_self_right, Nat.mod_eq_of_lt hi2]
  rw [hd, hm, rowAbs_flatMap]
  have hbrow : ∀ p ∈ b.r.getD i2 [], p.1 < b.cols := by
    intro p hp
    by_cases h : i2 < b.r.length
    · rw [List.getD_eq_getElem?_getD, List.getElem?_eq_getElem h, Option.getD_some] at hp
      exact hb _ (List.getElem_mem h) p hp
    · rw [List.getD_eq_getElem?_getD, List.getElem?_eq_none (by omega)] at hp
      simp at hp
  have : ((a.r.getD i1 []).map fun p1 =>
        rowAbs ((b.r.getD i2 []).map fun p2 => (p1.1 * b.cols + p2.1, p1.2 * p2.2)) (j1 * b.cols + j2))
      = (a.r.getD i1 []).map fun p1 => if p1.1 = j1 then p1.2 * rowAbs (b.r.getD i2 []) j2 else 0 := by
    apply List.map_congr_left
    intro p1 _
    exact rowAbs_kron_inner _ _ _ _ _ _ hj2 hbrow
  rw [this, sum_scaled_filter]

theorem rowAbs_scale_mul (s v : R) (b : Row R) (j : Nat) :
    rowAbs (b.map fun p => (p.1, s * (v * p.2))) j = s * (v * rowAbs b j) := by
  induction b with
  | nil => simp [rowAbs]
  | cons p b ih => obtain ⟨c, w⟩ := p; simp only [List.map_cons, rowAbs, ih]; split <;> ring

/-- Σ_{k<n} row(k)·f(k) = Σ over the stored entries, when every stored column is below n -/
theorem sum_rowAbs_mul (row : Row R) (n : Nat) (f : Nat → R) (h : ∀ p ∈ row, p.1 < n) :
    ((List.range n).map fun k => rowAbs row k * f k).sum = (row.map fun p => p.2 * f p.1).sum := by
  induction row with
  | nil => simp [rowAbs, sum_replicate_zero]
  | cons p row ih =>
    obtain ⟨c, v⟩ := p
    have hc : c < n := h (c, v) List.mem_cons_self
    have ih' := ih (fun q hq => h q (List.mem_cons_of_mem _ hq))
    simp only [List.map_cons, List.sum_cons, rowAbs]
    rw [← ih']
    have : ((List.range n).map fun k => ((if c = k then v else 0) + rowAbs row k) * f k)
        = (List.range n).map fun k => (if k = c then v * f c else 0) + rowAbs row k * f k := by
      apply List.map_congr_left
      intro k _
      by_cases e : c = k
      · subst e; simp; ring
      · have : ¬ k = c := fun e' => e e'.symm
        simp [e, this]
    rw [this]
    have hsplit : ∀ (l : List Nat) (g1 g2 : Nat → R), (l.map fun k => g1 k + g2 k).sum = (l.map g1).sum + (l.map g2).sum := by
      intro l g1 g2
      induction l with
      | nil => simp
      | cons a l ihl => simp only [List.map_cons, List.sum_cons, ihl]; ring
    rw [hsplit, sum_single n c hc]

/-- **`matmul_csr`** is the matrix product: entry (i, j) = scale · Σ_k a(i,k)·b(k,j), for every stored
order of both operands, provided the stored columns of `a` are columns of `a` -/
theorem matmulCsr_abs (a b : CSR R) (s : R) (i j : Nat) (hi : i < a.rows)
    (ha : ∀ row ∈ a.r, ∀ p ∈ row, p.1 < a.cols) :
    (matmulCsr a b s).abs i j = s * ((List.range a.cols).map fun k => a.abs i k * b.abs k j).sum := by
  unfold matmulCsr CSR.abs
  simp only
  rw [List.getD_eq_getElem?_getD, List.getElem?_map, List.getElem?_range hi]
  simp only [Option.map_some, Option.getD_some]
  rw [rowAbs_compress, rowAbs_flatMap]
  have harow : ∀ p ∈ a.r.getD i [], p.1 < a.cols := by
    intro p hp
    by_cases h : i < a.r.length
    · rw [List.getD_eq_getElem?_getD, List.getElem?_eq_getElem h, Option.getD_some] at hp
      exact ha _ (List.getElem_mem h) p hp
    · rw [List.getD_eq_getElem?_getD, List.getElem?_eq_none (by omega)] at hp
      simp at hp
  rw [sum_rowAbs_mul (a.r.getD i []) a.cols (fun k => rowAbs (b.r.getD k []) j) harow]
  have : ((a.r.getD i []).map fun p1 => rowAbs ((b.r.getD p1.1 []).map fun p2 => (p2.1, s * (p1.2 * p2.2))) j)
      = (a.r.getD i []).map fun p1 => s * (p1.2 * rowAbs (b.r.getD p1.1 []) j) := by
    apply List.map_congr_left
    intro p1 _
    exact rowAbs_scale_mul _ _ _ _
  rw [this]
  induction (a.r.getD i []) with
  | nil => simp
  | cons p l ih => simp only [List.map_cons, List.sum_cons, ih]; ring

/-! ### Dia -/

/-- **Dense → Dia keeps every entry** (all rows + cols − 1 diagonals; values that would fall outside
the matrix are stored as zero and never read) -/
theorem diaOfDense_abs (d : Dense R) (i j : Nat) (hi : i < d.rows) (hj : j < d.cols) :
    (diaOfDense d).abs i j = d.abs i j := by
  unfold Dia.abs diaOfDense
  simp only
  set k := j + d.rows - 1 - i with hk
  have hkr : k < d.rows + d.cols - 1 := by omega
  have hoff : ((k : Int) - (d.rows : Int) + 1) = (j : Int) - (i : Int) := by omega
  -- the unique diagonal with offset j - i is number k
  have hfind : ((List.range (d.rows + d.cols - 1)).map (diagOf d)).reverse.find?
        (fun dd => dd.1 == (j : Int) - (i : Int)) = some (diagOf d k) := by
    rw [← List.map_reverse, List.find?_map]
    have : (List.range (d.rows + d.cols - 1)).reverse.find?
        ((fun (dd : Int × (Nat → R)) => dd.1 == (j : Int) - (i : Int)) ∘ diagOf d) = some k := by
      apply List.find?_eq_some_iff_append.mpr
      refine ⟨by simp [Function.comp, diagOf, hoff], ?_⟩
      have hmem : k ∈ (List.range (d.rows + d.cols - 1)).reverse := by simp [hkr]
      obtain ⟨as, bs, hsplit⟩ := List.append_of_mem hmem
      refine ⟨as, bs, hsplit, ?_⟩
      intro a ha
      have hne : a ≠ k := by
        have hnd : (List.range (d.rows + d.cols - 1)).reverse.Nodup := List.nodup_reverse.mpr List.nodup_range
        rw [hsplit] at hnd
        intro e
        rw [e] at ha
        have := List.nodup_append.mp hnd
        exact (this.2.2 k ha k (List.mem_cons_self)) rfl
      have : ¬ ((a : Int) - (d.rows : Int) + 1 = (j : Int) - (i : Int)) := by omega
      simpa [Function.comp, diagOf] using this
    rw [this]
    rfl
  rw [hfind]
  simp only [diagOf]
  rw [hoff]
  have h1 : (0 : Int) ≤ (j : Int) - ((j : Int) - (i : Int)) ∧ (j : Int) - ((j : Int) - (i : Int)) < d.rows := by omega
  rw [if_pos h1]
  have : ((j : Int) - ((j : Int) - (i : Int))).toNat = i := by omega
  rw [this]

/-! ### the dispatcher -/

/-! ### `matmul_dia` is the matrix product -/
section diaMatmulThm
variable {R : Type} [CommSemiring R]

theorem find_reverse_nodup (ds : List (Int × (Nat → R))) (h : (ds.map (·.1)).Nodup) (o : Int) (j : Nat) :
    (match ds.reverse.find? (fun d => d.1 == o) with | some d => d.2 j | none => 0)
      = (ds.map fun d => if d.1 = o then d.2 j else 0).sum := by
  induction ds with
  | nil => simp
  | cons d ds ih =>
    rw [List.map_cons, List.nodup_cons] at h
    rw [List.reverse_cons, List.find?_append, List.map_cons, List.sum_cons]
    by_cases hd : d.1 = o
    · have hnone : ds.reverse.find? (fun d => d.1 == o) = none := by
        rw [List.find?_eq_none]
        intro x hx hxo
        have : x.1 = o := by simpa using hxo
        exact h.1 (List.mem_map.mpr ⟨x, List.mem_reverse.mp hx, by rw [this, hd]⟩)
      have hzero : (ds.map fun d => if d.1 = o then d.2 j else 0).sum = 0 := by
        have := ih h.2
        rw [hnone] at this
        exact this.symm
      simp [hnone, hd, hzero]
    · have : ([d].find? fun d => d.1 == o) = none := by simp [hd]
      rw [this, Option.or_none, if_neg hd, zero_add]
      exact ih h.2

theorem Dia.abs_eq_sum (m : Dia R) (h : (m.diags.map (·.1)).Nodup) (i j : Nat) :
    m.abs i j = (m.diags.map fun d => if d.1 = (j : Int) - (i : Int) then d.2 j else 0).sum := by
  unfold Dia.abs
  exact find_reverse_nodup m.diags h _ j

theorem foldl_add_eq_sum (l : List R) : l.foldl (· + ·) 0 = l.sum := by
  rw [List.sum_eq_foldl]

theorem sum_filterMap_ite {α : Type} (l : List α) (c : α → Prop) [DecidablePred c] (t : α → R) :
    (l.filterMap fun x => if c x then some (t x) else none).sum = (l.map fun x => if c x then t x else 0).sum := by
  induction l with
  | nil => simp
  | cons x l ih =>
    by_cases h : c x
    · simp [List.filterMap_cons, h, ih]
    · simp [List.filterMap_cons, h, ih]

theorem sum_flatMap' {α : Type} (l : List α) (g : α → List R) :
    (l.flatMap g).sum = (l.map fun x => (g x).sum).sum := by
  induction l with
  | nil => simp
  | cons x l ih => simp [List.flatMap_cons, ih]

theorem sum_map_ite_nodup (l : List Int) (h : l.Nodup) (a : Int) (f : Int → R) :
    (l.map fun o => if o = a then f o else 0).sum = if a ∈ l then f a else 0 := by
  induction l with
  | nil => simp
  | cons x l ih =>
    rw [List.nodup_cons] at h
    rw [List.map_cons, List.sum_cons, ih h.2]
    by_cases hx : x = a
    · subst hx; simp [h.1]
    · have : a ≠ x := fun e => hx e.symm
      simp [hx, this]

theorem sum_map_zero' {α : Type} (l : List α) (f : α → R) (h : ∀ x ∈ l, f x = 0) : (l.map f).sum = 0 := by
  induction l with
  | nil => simp
  | cons x l ih =>
    rw [List.map_cons, List.sum_cons, h x List.mem_cons_self, ih (fun y hy => h y (List.mem_cons_of_mem _ hy)), add_zero]

theorem sum_comm_list {α β : Type} (l1 : List α) (l2 : List β) (f : α → β → R) :
    (l1.map fun x => (l2.map fun y => f x y).sum).sum = (l2.map fun y => (l1.map fun x => f x y).sum).sum := by
  induction l1 with
  | nil => simp
  | cons x l1 ih =>
    rw [List.map_cons, List.sum_cons, ih]
    simp only [List.map_cons, List.sum_cons]
    rw [← List.sum_map_add]

theorem sum_range_single (n : Nat) (K : Int) (g : Nat → R) :
    ((List.range n).map fun (k : Nat) => if ((k : Nat) : Int) = K then g k else 0).sum
      = if 0 ≤ K ∧ K < n then g K.toNat else 0 := by
  induction n with
  | zero =>
    have : ¬ (0 ≤ K ∧ K < (0 : Nat)) := by omega
    simp [this]
  | succ n ih =>
    rw [List.range_succ, List.map_append, List.sum_append, ih]
    simp only [List.map_cons, List.map_nil, List.sum_cons, List.sum_nil, add_zero]
    by_cases h1 : (n : Int) = K
    · have h2 : ¬ (0 ≤ K ∧ K < (n : Nat)) := by omega
      have h3 : 0 ≤ K ∧ K < ((n + 1 : Nat) : Int) := by omega
      have h4 : K.toNat = n := by omega
      rw [if_neg h2, if_pos h1, if_pos h3, h4, zero_add]
    · rw [if_neg h1, add_zero]
      by_cases h2 : 0 ≤ K ∧ K < (n : Nat)
      · have h3 : 0 ≤ K ∧ K < ((n + 1 : Nat) : Int) := by omega
        rw [if_pos h2, if_pos h3]
      · have h3 : ¬ (0 ≤ K ∧ K < ((n + 1 : Nat) : Int)) := by omega
        rw [if_neg h2, if_neg h3]

theorem diaOutValue_eq (L Rm : Dia R) (scale : R) (o : Int) (col : Nat) :
    diaOutValue L Rm scale o col = (L.diags.map fun dl => (Rm.diags.map fun dr =>
      if dl.1 + dr.1 = o then diaPairTerm L.rows L.cols Rm.rows Rm.cols scale dl dr col else 0).sum).sum := by
  unfold diaOutValue
  rw [foldl_add_eq_sum, sum_flatMap']
  congr 1
  apply List.map_congr_left
  intro dl _
  exact sum_filterMap_ite Rm.diags (fun dr => dl.1 + dr.1 = o) _

/-- the term of one pair of diagonals, with the loop bounds resolved: the pair contributes to entry (i, j)
exactly when the intermediate index k = i + (left offset) is a column of the left operand -/
theorem diaPairTerm_eq (L Rm : Dia R) (scale : R) (hdim : L.cols = Rm.rows) (dl dr : Int × (Nat → R))
    (i j : Nat) (hi : i < L.rows) (hj : j < Rm.cols) (hsum : dl.1 + dr.1 = (j : Int) - (i : Int)) :
    diaPairTerm L.rows L.cols Rm.rows Rm.cols scale dl dr j
      = if 0 ≤ (i : Int) + dl.1 ∧ (i : Int) + dl.1 < L.cols then scale * dl.2 ((i : Int) + dl.1).toNat * dr.2 j else 0 := by
  unfold diaPairTerm
  have hk : (j : Int) - dr.1 = (i : Int) + dl.1 := by omega
  simp only [hk]
  have hiff : (max (max (max 0 dl.1 + dr.1) (max 0 dr.1)) (max 0 (dl.1 + dr.1)) ≤ (j : Int) ∧
      (j : Int) < min (min (min (L.cols : Int) (L.rows + dl.1) + dr.1) (min (Rm.cols : Int) (Rm.rows + dr.1)))
        (min (Rm.cols : Int) (L.rows + (dl.1 + dr.1)))) ↔ (0 ≤ (i : Int) + dl.1 ∧ (i : Int) + dl.1 < L.cols) := by
    have : (L.cols : Int) = Rm.rows := by exact_mod_cast hdim
    omega
  by_cases h : 0 ≤ (i : Int) + dl.1 ∧ (i : Int) + dl.1 < L.cols
  · rw [if_pos (hiff.mpr h), if_pos h]
  · rw [if_neg (fun h' => h (hiff.mp h')), if_neg h]

theorem sum_mul_sum_list {α β : Type} (l1 : List α) (l2 : List β) (f : α → R) (g : β → R) :
    (l1.map f).sum * (l2.map g).sum = (l1.map fun x => (l2.map fun y => f x * g y).sum).sum := by
  rw [← List.sum_map_mul_right]
  congr 1
  apply List.map_congr_left
  intro x _
  rw [← List.sum_map_mul_left]

theorem inner_k_sum (n i j : Nat) (dl dr : Int × (Nat → R)) :
    ((List.range n).map fun (k : Nat) =>
        (if dl.1 = ((k : Nat) : Int) - (i : Int) then dl.2 k else 0) * (if dr.1 = (j : Int) - ((k : Nat) : Int) then dr.2 j else 0)).sum
      = if dl.1 + dr.1 = (j : Int) - (i : Int) then
          (if 0 ≤ (i : Int) + dl.1 ∧ (i : Int) + dl.1 < n then dl.2 ((i : Int) + dl.1).toNat * dr.2 j else 0) else 0 := by
  have hrw : ∀ k : Nat, (if dl.1 = ((k : Nat) : Int) - (i : Int) then dl.2 k else 0) * (if dr.1 = (j : Int) - ((k : Nat) : Int) then dr.2 j else 0)
      = if ((k : Nat) : Int) = (i : Int) + dl.1 then (if dr.1 = (j : Int) - ((k : Nat) : Int) then dl.2 k * dr.2 j else 0) else 0 := by
    intro k
    by_cases h1 : dl.1 = ((k : Nat) : Int) - (i : Int)
    · have h1' : ((k : Nat) : Int) = (i : Int) + dl.1 := by omega
      rw [if_pos h1, if_pos h1']
      by_cases h2 : dr.1 = (j : Int) - ((k : Nat) : Int)
      · rw [if_pos h2, if_pos h2]
      · rw [if_neg h2, if_neg h2, mul_zero]
    · have h1' : ¬ ((k : Nat) : Int) = (i : Int) + dl.1 := by omega
      rw [if_neg h1, if_neg h1', zero_mul]
  simp only [hrw]
  rw [sum_range_single n ((i : Int) + dl.1) (fun k => if dr.1 = (j : Int) - ((k : Nat) : Int) then dl.2 k * dr.2 j else 0)]
  by_cases hb : 0 ≤ (i : Int) + dl.1 ∧ (i : Int) + dl.1 < n
  · have hK : (((i : Int) + dl.1).toNat : Int) = (i : Int) + dl.1 := Int.toNat_of_nonneg hb.1
    rw [if_pos hb]
    by_cases hs : dl.1 + dr.1 = (j : Int) - (i : Int)
    · have : dr.1 = (j : Int) - ((((i : Int) + dl.1).toNat : Nat) : Int) := by omega
      rw [if_pos hs, if_pos hb, if_pos this]
    · have : ¬ dr.1 = (j : Int) - ((((i : Int) + dl.1).toNat : Nat) : Int) := by omega
      rw [if_neg hs, if_neg this]
  · rw [if_neg hb]
    by_cases hs : dl.1 + dr.1 = (j : Int) - (i : Int)
    · rw [if_pos hs, if_neg hb]
    · rw [if_neg hs]

/-- **`matmul_dia` is the matrix product**: for every pair of diagonal-format operands with distinct stored
offsets (in any order, with arbitrary values stored outside the rectangle), every scale and every entry,
`(L · R)[i, j] = scale · Σ_k L[i, k] R[k, j]` — the column bounds of the kernel select exactly the terms
whose intermediate index exists. -/
theorem matmulDia_abs (L Rm : Dia R) (scale : R) (hdim : L.cols = Rm.rows)
    (hL : (L.diags.map (·.1)).Nodup) (hR : (Rm.diags.map (·.1)).Nodup)
    (i j : Nat) (hi : i < L.rows) (hj : j < Rm.cols) :
    (matmulDia L Rm scale).abs i j = scale * ((List.range L.cols).map fun k => L.abs i k * Rm.abs k j).sum := by
  -- the value the kernel accumulates on the diagonal j - i at column j
  have hV : diaOutValue L Rm scale ((j : Int) - (i : Int)) j
      = scale * ((List.range L.cols).map fun k => L.abs i k * Rm.abs k j).sum := by
    rw [diaOutValue_eq]
    have hterm : ∀ dl dr : Int × (Nat → R),
        (if dl.1 + dr.1 = (j : Int) - (i : Int) then diaPairTerm L.rows L.cols Rm.rows Rm.cols scale dl dr j else 0)
          = scale * (if dl.1 + dr.1 = (j : Int) - (i : Int) then
              (if 0 ≤ (i : Int) + dl.1 ∧ (i : Int) + dl.1 < L.cols then dl.2 ((i : Int) + dl.1).toNat * dr.2 j else 0) else 0) := by
      intro dl dr
      by_cases hs : dl.1 + dr.1 = (j : Int) - (i : Int)
      · rw [if_pos hs, if_pos hs, diaPairTerm_eq L Rm scale hdim dl dr i j hi hj hs]
        by_cases hb : 0 ≤ (i : Int) + dl.1 ∧ (i : Int) + dl.1 < L.cols
        · rw [if_pos hb, if_pos hb, mul_assoc]
        · rw [if_neg hb, if_neg hb, mul_zero]
      · rw [if_neg hs, if_neg hs, mul_zero]
    simp only [hterm]
    simp only [List.sum_map_mul_left]
    congr 1
    -- right-hand side: expand the two entries as sums over the stored diagonals and exchange the sums
    have hexp : ∀ k : Nat, L.abs i k * Rm.abs k j
        = (L.diags.map fun dl => (Rm.diags.map fun dr =>
            (if dl.1 = ((k : Nat) : Int) - (i : Int) then dl.2 k else 0) * (if dr.1 = (j : Int) - ((k : Nat) : Int) then dr.2 j else 0)).sum).sum := by
      intro k
      rw [Dia.abs_eq_sum L hL, Dia.abs_eq_sum Rm hR, sum_mul_sum_list]
    simp only [hexp]
    rw [sum_comm_list (List.range L.cols) L.diags]
    congr 1
    apply List.map_congr_left
    intro dl _
    rw [sum_comm_list (List.range L.cols) Rm.diags]
    congr 1
    apply List.map_congr_left
    intro dr _
    exact (inner_k_sum L.cols i j dl dr).symm
  -- the diagonal j - i of the result holds that value (or is absent, and the value is zero)
  have hnod : ((matmulDia L Rm scale).diags.map (·.1)).Nodup := by
    simp only [matmulDia, List.map_map]
    have : ((fun (p : Int × (Nat → R)) => p.1) ∘ fun o => (o, diaOutValue L Rm scale o)) = id := by
      funext o; rfl
    rw [this, List.map_id]
    apply List.Nodup.filter
    apply List.Nodup.map _ List.nodup_range
    intro a b hab
    simp only at hab
    omega
  rw [Dia.abs_eq_sum _ hnod]
  simp only [matmulDia, List.map_map]
  have hfun : ((fun (d : Int × (Nat → R)) => if d.1 = (j : Int) - (i : Int) then d.2 j else 0) ∘ fun o => (o, diaOutValue L Rm scale o))
      = fun o => if o = (j : Int) - (i : Int) then diaOutValue L Rm scale o j else 0 := by
    funext o; rfl
  rw [hfun, sum_map_ite_nodup _ _ _ (fun o => diaOutValue L Rm scale o j)]
  · split_ifs with hmem
    · exact hV
    · -- no pair of stored offsets sums to j - i: every term of the value is absent
      rw [← hV, diaOutValue_eq]
      symm
      apply sum_map_zero'
      intro dl hdl
      apply sum_map_zero'
      intro dr hdr
      rw [if_neg]
      intro hs
      apply hmem
      rw [List.mem_filter]
      refine ⟨List.mem_map.mpr ⟨j + (L.rows - 1 - i), List.mem_range.mpr (by omega), by omega⟩, ?_⟩
      rw [List.any_eq_true]
      refine ⟨dl, hdl, ?_⟩
      rw [List.any_eq_true]
      exact ⟨dr, hdr, by simpa using hs⟩
  · apply List.Nodup.filter
    apply List.Nodup.map _ List.nodup_range
    intro a b hab
    simp only at hab
    omega

end diaMatmulThm

/-! ### `transpose_dia` / `adjoint_dia` -/
section diaTransposeThm
variable {R : Type} [CommSemiring R]

theorem find_reverse_eq_find (ds : List (Int × (Nat → R))) (h : (ds.map (·.1)).Nodup) (o : Int) :
    ds.reverse.find? (fun d => d.1 == o) = ds.find? (fun d => d.1 == o) := by
  induction ds with
  | nil => rfl
  | cons d ds ih =>
    rw [List.map_cons, List.nodup_cons] at h
    rw [List.reverse_cons, List.find?_append, List.find?_cons]
    by_cases hd : d.1 = o
    · have hnone : ds.reverse.find? (fun d => d.1 == o) = none := by
        rw [List.find?_eq_none]
        intro x hx hxo
        have : x.1 = o := by simpa using hxo
        exact h.1 (List.mem_map.mpr ⟨x, List.mem_reverse.mp hx, by rw [this, hd]⟩)
      simp [hnone, hd]
    · have : (d.1 == o) = false := by simpa using hd
      simp only [this]
      rw [ih h.2]
      simp [hd]

/-- **`transpose_dia` / `adjoint_dia` give the (conjugate) transpose**: entry (i, j) of the result is `f` of entry
(j, i) of the operand, for every diagonal-format matrix with distinct stored offsets in any order, whatever is stored
outside the rectangle. -/
theorem mapTransposeDia_abs (f : R → R) (hf : f 0 = 0) (m : Dia R) (h : (m.diags.map (·.1)).Nodup)
    (i j : Nat) (hi : i < m.cols) (hj : j < m.rows) :
    (mapTransposeDia f m).abs i j = f (m.abs j i) := by
  unfold Dia.abs mapTransposeDia
  simp only [List.map_reverse, List.reverse_reverse]
  rw [List.find?_map, find_reverse_eq_find m.diags h]
  have hp : ((fun (d : Int × (Nat → R)) => d.1 == (j : Int) - (i : Int)) ∘ fun (d : Int × (Nat → R)) =>
      (-d.1, fun (j : Nat) => if (j : Int) < -d.1 ∨ (j : Int) + d.1 ≥ (m.cols : Int) then 0 else f (d.2 ((j : Int) + d.1).toNat)))
      = fun d => d.1 == (i : Int) - (j : Int) := by
    funext d
    simp only [Function.comp]
    by_cases hd : d.1 = (i : Int) - (j : Int)
    · have : -d.1 = (j : Int) - (i : Int) := by omega
      simp [hd, this]
    · have : ¬ -d.1 = (j : Int) - (i : Int) := by omega
      simp [hd, this]
  rw [hp]
  cases hfind : m.diags.find? (fun d => d.1 == (i : Int) - (j : Int)) with
  | none => simp [hf]
  | some d =>
    have hd : d.1 = (i : Int) - (j : Int) := by
      have := List.find?_some hfind
      simpa using this
    simp only [Option.map_some]
    have hcond : ¬ ((j : Int) < -d.1 ∨ (j : Int) + d.1 ≥ (m.cols : Int)) := by omega
    rw [if_neg hcond]
    have : ((j : Int) + d.1).toNat = i := by omega
    rw [this]

end diaTransposeThm

/-! ### `iadd_dense` -/
section denseIaddThm
variable {R : Type} [CommSemiring R]

theorem lt_mul_of_lt {i j a b : Nat} (hi : i < a) (hj : j < b) : i * b + j < a * b := by
  calc i * b + j < i * b + b := by omega
    _ = (i + 1) * b := by rw [Nat.succ_mul]
    _ ≤ a * b := Nat.mul_le_mul_right _ hi

theorem div_of_mul_add {i j b : Nat} (hj : j < b) : (i * b + j) / b = i := by
  rw [Nat.mul_comm, Nat.mul_add_div (by omega), Nat.div_eq_of_lt hj, Nat.add_zero]

theorem mod_of_mul_add {i j b : Nat} (hj : j < b) : (i * b + j) % b = j := by
  rw [Nat.mul_comm, Nat.mul_add_mod, Nat.mod_eq_of_lt hj]

/-- **`iadd_dense` adds entry by entry in all four combinations of memory orders**, for every shape -/
theorem iaddDense_abs (l r : Dense R) (s : R) (hr : r.rows = l.rows) (hc : r.cols = l.cols)
    (i j : Nat) (hi : i < l.rows) (hj : j < l.cols) :
    (iaddDense l r s).abs i j = l.abs i j + s * r.abs i j := by
  unfold iaddDense
  cases hl : l.fortran <;> cases hrf : r.fortran <;> simp only [Dense.abs, hl, hrf, hr, hc, beq_self_eq_true, if_true,
    Bool.false_eq_true, if_false, beq_iff_eq, reduceCtorEq]
  · -- both C-ordered
    rw [if_pos (lt_mul_of_lt hi hj)]
  · -- left C, right Fortran: dim1 = cols, dim2 = rows
    rw [if_pos (lt_mul_of_lt hi hj), div_of_mul_add hj, mod_of_mul_add hj]
  · -- left Fortran, right C: dim1 = rows, dim2 = cols
    have h1 : i + j * l.rows = j * l.rows + i := Nat.add_comm _ _
    rw [h1, if_pos (lt_mul_of_lt hj hi), div_of_mul_add hi, mod_of_mul_add hi, Nat.add_comm j (i * l.cols)]
  · -- both Fortran-ordered
    have h1 : i + j * l.rows = j * l.rows + i := Nat.add_comm _ _
    rw [h1, if_pos (by rw [Nat.mul_comm l.rows l.cols]; exact lt_mul_of_lt hj hi)]
end denseIaddThm

/-! ### `matmul_csr_dense_dense` -/
section csrDenseThm
variable {R : Type} [CommRing R]

theorem Dense.reorder_abs (d : Dense R) (i j : Nat) (hi : i < d.rows) (hj : j < d.cols) :
    d.reorder.abs i j = d.abs i j := by
  unfold Dense.reorder
  exact Dense.ofFn_abs d.rows d.cols (!d.fortran) d.abs i j hi hj

theorem rowDot_eq_sum (row : Row R) (vec : Nat → R) : rowDot row vec = (row.map fun p => p.2 * vec p.1).sum := by
  unfold rowDot
  rw [List.sum_eq_foldl]

theorem rowDot_scaled (row : Row R) (s : R) (vec : Nat → R) :
    rowDot (row.map fun q => (q.1, s * q.2)) vec = s * rowDot row vec := by
  rw [rowDot_eq_sum, rowDot_eq_sum, List.map_map, ← List.sum_map_mul_left]
  congr 1
  apply List.map_congr_left
  intro q _
  simp only [Function.comp]
  ring

/-- the loops of `matmul_csr_dense_dense` accumulate `scale · A · B` into `out`, in either common memory order -/
theorem csrDenseCore_abs (a : CSR R) (b out : Dense R) (s : R) (hord : b.fortran = out.fortran)
    (hor : out.rows = a.rows) (hoc : out.cols = b.cols) (hbr : b.rows = a.cols)
    (hcol : ∀ row ∈ a.r, ∀ p ∈ row, p.1 < a.cols) (i j : Nat) (hi : i < a.rows) (hj : j < b.cols) :
    (csrDenseCore a b out s).abs i j = out.abs i j + s * ((List.range a.cols).map fun k => a.abs i k * b.abs k j).sum := by
  have hrow : ∀ p ∈ a.r.getD i [], p.1 < a.cols := by
    intro p hp
    by_cases hlen : i < a.r.length
    · have : a.r.getD i [] = a.r[i] := by simp [List.getD_eq_getElem?_getD, hlen]
      rw [this] at hp
      exact hcol _ (List.getElem_mem hlen) p hp
    · have : a.r.getD i [] = [] := by simp [List.getD_eq_getElem?_getD, Nat.le_of_not_lt hlen]
      rw [this] at hp
      exact absurd hp List.not_mem_nil
  unfold csrDenseCore
  cases hb : b.fortran
  · -- C order
    have ho : out.fortran = false := by rw [← hord, hb]
    simp only [Bool.false_eq_true, if_false, Dense.abs, ho, hoc]
    rw [if_pos (lt_mul_of_lt hi hj), div_of_mul_add hj, mod_of_mul_add hj, rowDot_scaled, rowDot_eq_sum,
      ← sum_rowAbs_mul (a.r.getD i []) a.cols (fun k => b.data (k * b.cols + j)) hrow]
    simp only [CSR.abs, hb, Bool.false_eq_true, if_false]
  · -- Fortran order
    have ho : out.fortran = true := by rw [← hord, hb]
    simp only [if_true, Dense.abs, ho, hor]
    have h1 : i + j * a.rows = j * a.rows + i := Nat.add_comm _ _
    rw [h1, if_pos (by rw [Nat.mul_comm a.rows b.cols]; exact lt_mul_of_lt hj hi), div_of_mul_add hi, mod_of_mul_add hi,
      rowDot_eq_sum, ← sum_rowAbs_mul (a.r.getD i []) a.cols (fun k => b.data (j * b.rows + k)) hrow]
    simp only [CSR.abs, hb, if_true]
    congr 3
    apply List.map_congr_left
    intro k _
    rw [Nat.add_comm (j * b.rows) k]

/-- **`matmul_csr_dense_dense` computes `scale · A · B + out`** for a CSR left operand with its stored entries in any
order (duplicates adding up) and every combination of memory orders of `right` and `out`, including the two branches
that reorder an operand or compute in a reordered copy of `out` and copy back. -/
theorem matmulCsrDense_abs (a : CSR R) (b out : Dense R) (s : R)
    (hor : out.rows = a.rows) (hoc : out.cols = b.cols) (hbr : b.rows = a.cols)
    (hcol : ∀ row ∈ a.r, ∀ p ∈ row, p.1 < a.cols) (i j : Nat) (hi : i < a.rows) (hj : j < b.cols) :
    (matmulCsrDense a b out s).abs i j = out.abs i j + s * ((List.range a.cols).map fun k => a.abs i k * b.abs k j).sum := by
  unfold matmulCsrDense
  by_cases heq : b.fortran = out.fortran
  · rw [if_pos (by simpa using heq)]
    exact csrDenseCore_abs a b out s heq hor hoc hbr hcol i j hi hj
  · rw [if_neg (by simpa using heq)]
    cases hb : b.fortran
    · -- right C-ordered, out Fortran-ordered: right is reordered
      have ho : out.fortran = true := by
        cases h : out.fortran
        · exact absurd (hb.trans h.symm) heq
        · rfl
      simp only [Bool.false_eq_true, if_false]
      have hbf : b.reorder.fortran = out.fortran := by simp [Dense.reorder, Dense.ofFn, hb, ho]
      have hbr' : b.reorder.rows = a.cols := by simpa [Dense.reorder, Dense.ofFn] using hbr
      have hbc' : b.reorder.cols = b.cols := by simp [Dense.reorder, Dense.ofFn]
      rw [csrDenseCore_abs a b.reorder out s hbf hor (by rw [hbc']; exact hoc) hbr' hcol i j hi (by rw [hbc']; exact hj)]
      congr 3
      apply List.map_congr_left
      intro k hk
      rw [Dense.reorder_abs b k j (by rw [hbr]; exact List.mem_range.mp hk) hj]
    · -- right Fortran-ordered, out C-ordered: accumulate in a reordered copy of out, reorder back, copy
      have ho : out.fortran = false := by
        cases h : out.fortran
        · rfl
        · exact absurd (hb.trans h.symm) heq
      simp only [if_true]
      have hX : ∀ (X : Dense R), X.rows = out.rows → X.cols = out.cols → X.reorder.fortran = false →
          ({ out with data := fun p => if p < a.rows * b.cols then X.reorder.data p else out.data p } : Dense R).abs i j = X.abs i j := by
        intro X hxr hxc hxf
        simp only [Dense.abs, ho, Bool.false_eq_true, if_false]
        rw [hoc, if_pos (lt_mul_of_lt hi hj)]
        have := Dense.reorder_abs X i j (by rw [hxr, hor]; exact hi) (by rw [hxc, hoc]; exact hj)
        simp only [Dense.abs, hxf, Bool.false_eq_true, if_false] at this
        have hrc : X.reorder.cols = b.cols := by simp [Dense.reorder, Dense.ofFn, hxc, hoc]
        rw [hrc] at this
        exact this
      have horr : out.reorder.rows = a.rows := by simpa [Dense.reorder, Dense.ofFn] using hor
      have horc : out.reorder.cols = b.cols := by simpa [Dense.reorder, Dense.ofFn] using hoc
      have horf : b.fortran = out.reorder.fortran := by simp [Dense.reorder, Dense.ofFn, hb, ho]
      have hcore_rows : (csrDenseCore a b out.reorder s).rows = out.rows := by
        unfold csrDenseCore; split <;> simp [Dense.reorder, Dense.ofFn]
      have hcore_cols : (csrDenseCore a b out.reorder s).cols = out.cols := by
        unfold csrDenseCore; split <;> simp [Dense.reorder, Dense.ofFn]
      have hcore_f : (csrDenseCore a b out.reorder s).reorder.fortran = false := by
        unfold csrDenseCore; split <;> simp [Dense.reorder, Dense.ofFn, ho]
      rw [hX _ hcore_rows hcore_cols hcore_f, csrDenseCore_abs a b out.reorder s horf horr horc hbr hcol i j hi hj,
        Dense.reorder_abs out i j (by rw [hor]; exact hi) (by rw [hoc]; exact hj)]
end csrDenseThm

/-! ### `matmul_dia_dense_dense` -/
section diaDenseThm
variable {R : Type} [CommRing R]

/-- the bounds of the accumulation loop select, for output row `row`, exactly the column `k = row + offset` when it
exists: the contributions of all stored diagonals add up to row `row` of `L` times the column of `B` -/
theorem diaRowTerm_sum (L : Dia R) (h : (L.diags.map (·.1)).Nodup) (fast : Bool) (hfast : fast = true → L.rows = L.cols)
    (row : Nat) (hrow : row < L.rows) (bcol : Nat → R) :
    (L.diags.map fun d => diaRowTerm L.rows L.cols fast d row bcol).sum
      = ((List.range L.cols).map fun k => L.abs row k * bcol k).sum := by
  have hexp : ∀ k : Nat, L.abs row k * bcol k
      = (L.diags.map fun d => (if ((k : Nat) : Int) = (row : Int) + d.1 then d.2 k * bcol k else 0)).sum := by
    intro k
    rw [Dia.abs_eq_sum L h, ← List.sum_map_mul_right]
    congr 1
    apply List.map_congr_left
    intro d _
    by_cases hd : d.1 = (k : Int) - (row : Int)
    · have : ((k : Nat) : Int) = (row : Int) + d.1 := by omega
      rw [if_pos hd, if_pos this]
    · have : ¬ ((k : Nat) : Int) = (row : Int) + d.1 := by omega
      rw [if_neg hd, if_neg this, zero_mul]
  simp only [hexp]
  rw [sum_comm_list (List.range L.cols) L.diags]
  congr 1
  apply List.map_congr_left
  intro d _
  rw [sum_range_single L.cols ((row : Int) + d.1) (fun k => d.2 k * bcol k)]
  unfold diaRowTerm
  simp only []
  have hk : max 0 d.1 + ((row : Int) - max 0 (-d.1)) = (row : Int) + d.1 := by omega
  rw [hk]
  cases hf : fast
  · simp only [Bool.false_eq_true, if_false]
    have hiff : (0 ≤ (row : Int) - max 0 (-d.1) ∧ (row : Int) - max 0 (-d.1) <
        min (min (L.cols : Int) ((L.rows : Int) + d.1) - max 0 d.1) (min (L.rows : Int) ((L.cols : Int) - d.1) - max 0 (-d.1)))
        ↔ (0 ≤ (row : Int) + d.1 ∧ (row : Int) + d.1 < L.cols) := by
      have : (row : Int) < L.rows := by exact_mod_cast hrow
      omega
    by_cases hc : 0 ≤ (row : Int) + d.1 ∧ (row : Int) + d.1 < L.cols
    · rw [if_pos (hiff.mpr hc), if_pos hc]
    · rw [if_neg (fun h' => hc (hiff.mp h')), if_neg hc]
  · simp only [if_true]
    have hsq : (L.rows : Int) = L.cols := by exact_mod_cast hfast hf
    have hiff : (0 ≤ (row : Int) - max 0 (-d.1) ∧ (row : Int) - max 0 (-d.1) < (L.cols : Int) - (Int.natAbs d.1 : Nat))
        ↔ (0 ≤ (row : Int) + d.1 ∧ (row : Int) + d.1 < L.cols) := by
      have : (row : Int) < L.rows := by exact_mod_cast hrow
      omega
    by_cases hc : 0 ≤ (row : Int) + d.1 ∧ (row : Int) + d.1 < L.cols
    · rw [if_pos (hiff.mpr hc), if_pos hc]
    · rw [if_neg (fun h' => hc (hiff.mp h')), if_neg hc]

theorem diaDenseCore_abs (L : Dia R) (b t : Dense R) (h : (L.diags.map (·.1)).Nodup)
    (htr : t.rows = L.rows) (htc : t.cols = b.cols) (i j : Nat) (hi : i < L.rows) (hj : j < b.cols) :
    (diaDenseCore L b t).abs i j = t.abs i j + ((List.range L.cols).map fun k => L.abs i k * b.abs k j).sum := by
  unfold diaDenseCore
  have hfast : ((L.rows == L.cols) && (!b.fortran || b.rows == 1) && (!t.fortran || L.rows == 1)) = true → L.rows = L.cols := by
    intro hh
    simp only [Bool.and_eq_true, beq_iff_eq] at hh
    exact hh.1.1
  have key := diaRowTerm_sum L h ((L.rows == L.cols) && (!b.fortran || b.rows == 1) && (!t.fortran || L.rows == 1)) hfast i hi (fun k => b.abs k j)
  cases ht : t.fortran
  · simp only [ht] at key
    simp only [Dense.abs, ht, Bool.false_eq_true, if_false, htc]
    rw [if_pos (lt_mul_of_lt hi hj), div_of_mul_add hj, mod_of_mul_add hj, foldl_add_eq_sum]
    simp only [Dense.abs] at key
    rw [key]
  · simp only [ht] at key
    simp only [Dense.abs, ht, if_true, htr]
    have h1 : i + j * L.rows = j * L.rows + i := Nat.add_comm _ _
    rw [h1, if_pos (by rw [Nat.mul_comm L.rows b.cols]; exact lt_mul_of_lt hj hi), div_of_mul_add hi, mod_of_mul_add hi,
      foldl_add_eq_sum]
    simp only [Dense.abs] at key
    rw [key]
end diaDenseThm

section diaDenseFinal
variable {R : Type} [CommRing R] [DecidableEq R]

theorem zeros_abs (rows cols : Nat) (f : Bool) (i j : Nat) (hi : i < rows) (hj : j < cols) :
    (Dense.ofFn rows cols f fun _ _ => (0 : R)).abs i j = 0 :=
  Dense.ofFn_abs rows cols f (fun _ _ => 0) i j hi hj

/-- **`matmul_dia_dense_dense` computes `scale · L · B (+ out)`** for a diagonal-format left operand with distinct stored
offsets in any order, in all three accumulation branches (square fast track, both Fortran-ordered, mixed orders) and all
four ways the result is delivered (into `out` directly, added to `out` with a scale, fresh, fresh and scaled). -/
theorem matmulDiaDense_abs (L : Dia R) (b : Dense R) (s : R) (out : Option (Dense R)) (h : (L.diags.map (·.1)).Nodup)
    (hout : ∀ o, out = some o → o.rows = L.rows ∧ o.cols = b.cols) (i j : Nat) (hi : i < L.rows) (hj : j < b.cols) :
    (matmulDiaDense L b s out).abs i j
      = (match out with | some o => o.abs i j | none => 0) + s * ((List.range L.cols).map fun k => L.abs i k * b.abs k j).sum := by
  have hz : ∀ f, (diaDenseCore L b (Dense.ofFn L.rows b.cols f fun _ _ => 0)).abs i j
      = ((List.range L.cols).map fun k => L.abs i k * b.abs k j).sum := by
    intro f
    rw [diaDenseCore_abs L b _ h (by simp [Dense.ofFn]) (by simp [Dense.ofFn]) i j hi hj, zeros_abs L.rows b.cols f i j hi hj, zero_add]
  unfold matmulDiaDense
  cases out with
  | some o =>
    obtain ⟨hor, hoc⟩ := hout o rfl
    simp only []
    by_cases hs : s = 1
    · rw [if_pos hs, hs, one_mul]
      exact diaDenseCore_abs L b o h hor hoc i j hi hj
    · rw [if_neg hs]
      rw [iaddDense_abs o _ s (by unfold diaDenseCore; simp [Dense.ofFn, hor]) (by unfold diaDenseCore; simp [Dense.ofFn, hoc]) i j
        (by rw [hor]; exact hi) (by rw [hoc]; exact hj), hz]
  | none =>
    simp only [zero_add]
    by_cases hs : s = 1
    · rw [if_pos hs, hs, one_mul]
      exact hz _
    · rw [if_neg hs]
      have hT := hz b.fortran
      cases hb : b.fortran
      · simp only [Dense.abs, diaDenseCore, Dense.ofFn, hb, Bool.false_eq_true, if_false] at hT ⊢
        rw [if_pos (lt_mul_of_lt hi hj)] at hT ⊢
        rw [if_pos (lt_mul_of_lt hi hj), hT]
      · simp only [Dense.abs, diaDenseCore, Dense.ofFn, hb, if_true] at hT ⊢
        have h1 : i + j * L.rows = j * L.rows + i := Nat.add_comm _ _
        have hlt : j * L.rows + i < L.rows * b.cols := by rw [Nat.mul_comm L.rows b.cols]; exact lt_mul_of_lt hj hi
        rw [h1, if_pos hlt] at hT ⊢
        rw [if_pos hlt, hT]
end diaDenseFinal

/-! ### `matmul_dense_dia_dense` -/
section denseDiaThm
variable {R : Type} [CommRing R]

theorem diaColTerm_sum (Rm : Dia R) (h : (Rm.diags.map (·.1)).Nodup) (fast : Bool) (hfast : fast = true → Rm.rows = Rm.cols)
    (c : Nat) (hc : c < Rm.cols) (arow : Nat → R) :
    (Rm.diags.map fun d => diaColTerm Rm.rows Rm.cols fast d c arow).sum
      = ((List.range Rm.rows).map fun k => arow k * Rm.abs k c).sum := by
  have hexp : ∀ k : Nat, arow k * Rm.abs k c
      = (Rm.diags.map fun d => (if ((k : Nat) : Int) = (c : Int) - d.1 then d.2 c * arow k else 0)).sum := by
    intro k
    rw [Dia.abs_eq_sum Rm h, ← List.sum_map_mul_left]
    congr 1
    apply List.map_congr_left
    intro d _
    by_cases hd : d.1 = (c : Int) - (k : Int)
    · have : ((k : Nat) : Int) = (c : Int) - d.1 := by omega
      rw [if_pos hd, if_pos this, mul_comm]
    · have : ¬ ((k : Nat) : Int) = (c : Int) - d.1 := by omega
      rw [if_neg hd, if_neg this, mul_zero]
  simp only [hexp]
  rw [sum_comm_list (List.range Rm.rows) Rm.diags]
  congr 1
  apply List.map_congr_left
  intro d _
  rw [sum_range_single Rm.rows ((c : Int) - d.1) (fun k => d.2 c * arow k)]
  unfold diaColTerm
  simp only []
  have hk1 : max 0 d.1 + ((c : Int) - max 0 d.1) = (c : Int) := by omega
  have hk2 : max 0 (-d.1) + ((c : Int) - max 0 d.1) = (c : Int) - d.1 := by omega
  rw [hk1, hk2, Int.toNat_natCast]
  cases hf : fast
  · simp only [Bool.false_eq_true, if_false]
    have hiff : (0 ≤ (c : Int) - max 0 d.1 ∧ (c : Int) - max 0 d.1 < min (Rm.cols : Int) ((Rm.rows : Int) + d.1) - max 0 d.1)
        ↔ (0 ≤ (c : Int) - d.1 ∧ (c : Int) - d.1 < Rm.rows) := by
      have : (c : Int) < Rm.cols := by exact_mod_cast hc
      omega
    by_cases hcnd : 0 ≤ (c : Int) - d.1 ∧ (c : Int) - d.1 < Rm.rows
    · rw [if_pos (hiff.mpr hcnd), if_pos hcnd]
    · rw [if_neg (fun h' => hcnd (hiff.mp h')), if_neg hcnd]
  · simp only [if_true]
    have hsq : (Rm.rows : Int) = Rm.cols := by exact_mod_cast hfast hf
    have hiff : (0 ≤ (c : Int) - max 0 d.1 ∧ (c : Int) - max 0 d.1 < (Rm.cols : Int) - (Int.natAbs d.1 : Nat))
        ↔ (0 ≤ (c : Int) - d.1 ∧ (c : Int) - d.1 < Rm.rows) := by
      have : (c : Int) < Rm.cols := by exact_mod_cast hc
      omega
    by_cases hcnd : 0 ≤ (c : Int) - d.1 ∧ (c : Int) - d.1 < Rm.rows
    · rw [if_pos (hiff.mpr hcnd), if_pos hcnd]
    · rw [if_neg (fun h' => hcnd (hiff.mp h')), if_neg hcnd]

theorem denseDiaCore_abs (a : Dense R) (Rm : Dia R) (t : Dense R) (h : (Rm.diags.map (·.1)).Nodup)
    (htr : t.rows = a.rows) (htc : t.cols = Rm.cols) (i j : Nat) (hi : i < a.rows) (hj : j < Rm.cols) :
    (denseDiaCore a Rm t).abs i j = t.abs i j + ((List.range Rm.rows).map fun k => a.abs i k * Rm.abs k j).sum := by
  unfold denseDiaCore
  have hfast : ((Rm.rows == Rm.cols) && (a.fortran || a.cols == 1) && (t.fortran || Rm.cols == 1)) = true → Rm.rows = Rm.cols := by
    intro hh
    simp only [Bool.and_eq_true, beq_iff_eq] at hh
    exact hh.1.1
  have key := diaColTerm_sum Rm h ((Rm.rows == Rm.cols) && (a.fortran || a.cols == 1) && (t.fortran || Rm.cols == 1)) hfast j hj (fun k => a.abs i k)
  cases ht : t.fortran
  · simp only [ht] at key
    simp only [Dense.abs, ht, Bool.false_eq_true, if_false, htc]
    rw [if_pos (lt_mul_of_lt hi hj), div_of_mul_add hj, mod_of_mul_add hj, foldl_add_eq_sum]
    simp only [Dense.abs] at key
    rw [key]
  · simp only [ht] at key
    simp only [Dense.abs, ht, if_true, htr]
    have h1 : i + j * a.rows = j * a.rows + i := Nat.add_comm _ _
    rw [h1, if_pos (by rw [Nat.mul_comm a.rows Rm.cols]; exact lt_mul_of_lt hj hi), div_of_mul_add hi, mod_of_mul_add hi,
      foldl_add_eq_sum]
    simp only [Dense.abs] at key
    rw [key]
end denseDiaThm

section denseDiaFinal
variable {R : Type} [CommRing R] [DecidableEq R]

/-- **`matmul_dense_dia_dense` computes `scale · A · R (+ out)`** for a diagonal-format right operand with distinct stored
offsets, in all three accumulation branches and all four ways the result is delivered. -/
theorem matmulDenseDia_abs (a : Dense R) (Rm : Dia R) (s : R) (out : Option (Dense R)) (h : (Rm.diags.map (·.1)).Nodup)
    (hout : ∀ o, out = some o → o.rows = a.rows ∧ o.cols = Rm.cols) (i j : Nat) (hi : i < a.rows) (hj : j < Rm.cols) :
    (matmulDenseDia a Rm s out).abs i j
      = (match out with | some o => o.abs i j | none => 0) + s * ((List.range Rm.rows).map fun k => a.abs i k * Rm.abs k j).sum := by
  have hz : ∀ f, (denseDiaCore a Rm (Dense.ofFn a.rows Rm.cols f fun _ _ => 0)).abs i j
      = ((List.range Rm.rows).map fun k => a.abs i k * Rm.abs k j).sum := by
    intro f
    rw [denseDiaCore_abs a Rm _ h (by simp [Dense.ofFn]) (by simp [Dense.ofFn]) i j hi hj, zeros_abs a.rows Rm.cols f i j hi hj, zero_add]
  unfold matmulDenseDia
  cases out with
  | some o =>
    obtain ⟨hor, hoc⟩ := hout o rfl
    simp only []
    by_cases hs : s = 1
    · rw [if_pos hs, hs, one_mul]
      exact denseDiaCore_abs a Rm o h hor hoc i j hi hj
    · rw [if_neg hs]
      rw [iaddDense_abs o _ s (by unfold denseDiaCore; simp [Dense.ofFn, hor]) (by unfold denseDiaCore; simp [Dense.ofFn, hoc]) i j
        (by rw [hor]; exact hi) (by rw [hoc]; exact hj), hz]
  | none =>
    simp only [zero_add]
    by_cases hs : s = 1
    · rw [if_pos hs, hs, one_mul]
      exact hz _
    · rw [if_neg hs]
      have hT := hz a.fortran
      cases hb : a.fortran
      · simp only [Dense.abs, denseDiaCore, Dense.ofFn, hb, Bool.false_eq_true, if_false] at hT ⊢
        rw [if_pos (lt_mul_of_lt hi hj)] at hT ⊢
        rw [if_pos (lt_mul_of_lt hi hj), hT]
      · simp only [Dense.abs, denseDiaCore, Dense.ofFn, hb, if_true] at hT ⊢
        have h1 : i + j * a.rows = j * a.rows + i := Nat.add_comm _ _
        have hlt : j * a.rows + i < a.rows * Rm.cols := by rw [Nat.mul_comm a.rows Rm.cols]; exact lt_mul_of_lt hj hi
        rw [h1, if_pos hlt] at hT ⊢
        rw [if_pos hlt, hT]
end denseDiaFinal

/-! ### `add_dia` -/
section diaAddThm
variable {R : Type} [CommRing R]

/-- value a list of stored diagonals holds at offset `o`, column `c` (diagonals with the same offset adding up) -/
def diagVal (ds : List (Int × (Nat → R))) (o : Int) (c : Nat) : R := (ds.map fun d => if d.1 = o then d.2 c else 0).sum

theorem diagVal_nil (o : Int) (c : Nat) : diagVal ([] : List (Int × (Nat → R))) o c = 0 := by simp [diagVal]
theorem diagVal_cons (d : Int × (Nat → R)) (ds) (o : Int) (c : Nat) :
    diagVal (d :: ds) o c = (if d.1 = o then d.2 c else 0) + diagVal ds o c := by simp [diagVal]

theorem diagVal_scaled (s : R) (ds : List (Int × (Nat → R))) (o : Int) (c : Nat) :
    diagVal (ds.map fun d => (d.1, fun c => s * d.2 c)) o c = s * diagVal ds o c := by
  induction ds with
  | nil => simp [diagVal]
  | cons d ds ih =>
    rw [List.map_cons, diagVal_cons, diagVal_cons, ih]
    by_cases h : d.1 = o
    · simp only [h, if_true]; ring
    · simp only [h, if_false]; ring

/-- the merge adds the two operands diagonal value by diagonal value, whatever the order of the stored offsets -/
theorem addDiaMerge_val (s : R) : ∀ (fuel : Nat) (l r : List (Int × (Nat → R))), l.length + r.length ≤ fuel →
    ∀ (o : Int) (c : Nat), diagVal (addDiaMerge s fuel l r) o c = diagVal l o c + s * diagVal r o c := by
  intro fuel
  induction fuel with
  | zero =>
    intro l r h o c
    have hl : l = [] := List.eq_nil_of_length_eq_zero (by omega)
    have hr : r = [] := List.eq_nil_of_length_eq_zero (by omega)
    subst hl; subst hr
    simp [addDiaMerge, diagVal]
  | succ fuel ih =>
    intro l r h o c
    cases l with
    | nil =>
      simp only [addDiaMerge]
      rw [diagVal_scaled, diagVal_nil, zero_add]
    | cons dl l =>
      cases r with
      | nil => simp only [addDiaMerge]; rw [diagVal_nil, mul_zero, add_zero]
      | cons dr r =>
        simp only [addDiaMerge]
        simp only [List.length_cons] at h
        split
        · next heq =>
          rw [diagVal_cons, ih l r (by omega), diagVal_cons, diagVal_cons]
          by_cases ho : dl.1 = o
          · have : dr.1 = o := by rw [← heq]; exact ho
            simp only [ho, this, if_true]; ring
          · have : ¬ dr.1 = o := by rw [← heq]; exact ho
            simp only [ho, this, if_false]; ring
        · split
          · rw [diagVal_cons, ih l (dr :: r) (by simp only [List.length_cons]; omega)]
            simp only [diagVal_cons]
            ring
          · rw [diagVal_cons, ih (dl :: l) r (by simp only [List.length_cons]; omega)]
            simp only [diagVal_cons]
            by_cases ho : dr.1 = o
            · simp only [ho, if_true]; ring
            · simp only [ho, if_false]; ring

/-- strictly increasing offsets, all above a bound -/
def IncAbove (b : Int) : List (Int × (Nat → R)) → Prop
  | [] => True
  | d :: ds => b < d.1 ∧ IncAbove d.1 ds

theorem IncAbove.mono {b b' : Int} (h : b' ≤ b) : ∀ {ds : List (Int × (Nat → R))}, IncAbove b ds → IncAbove b' ds
  | [], _ => trivial
  | _ :: _, hd => ⟨by have := hd.1; omega, hd.2⟩

theorem incAbove_scaled (s : R) (b : Int) : ∀ (ds : List (Int × (Nat → R))), IncAbove b ds →
    IncAbove b (ds.map fun d => (d.1, fun c => s * d.2 c))
  | [], _ => trivial
  | d :: ds, h => ⟨h.1, incAbove_scaled s d.1 ds h.2⟩

theorem addDiaMerge_inc (s : R) : ∀ (fuel : Nat) (b : Int) (l r : List (Int × (Nat → R))), l.length + r.length ≤ fuel →
    IncAbove b l → IncAbove b r → IncAbove b (addDiaMerge s fuel l r) := by
  intro fuel
  induction fuel with
  | zero => intro b l r _ _ _; simp [addDiaMerge, IncAbove]
  | succ fuel ih =>
    intro b l r h hl hr
    cases l with
    | nil => simp only [addDiaMerge]; exact incAbove_scaled s b r hr
    | cons dl l =>
      cases r with
      | nil => simpa [addDiaMerge] using hl
      | cons dr r =>
        simp only [addDiaMerge]
        simp only [List.length_cons] at h
        split
        · next heq =>
          exact ⟨hl.1, ih dl.1 l r (by omega) hl.2 (by rw [heq]; exact hr.2)⟩
        · next hne =>
          split
          · next hle =>
            have hlt : dl.1 < dr.1 := by omega
            exact ⟨hl.1, ih dl.1 l (dr :: r) (by simp only [List.length_cons]; omega) hl.2 ⟨hlt, hr.2⟩⟩
          · next hgt =>
            have hlt : dr.1 < dl.1 := by omega
            exact ⟨hr.1, ih dr.1 (dl :: l) r (by simp only [List.length_cons]; omega) ⟨hlt, hl.2⟩ hr.2⟩

theorem incAbove_nodup : ∀ (b : Int) (ds : List (Int × (Nat → R))), IncAbove b ds →
    (ds.map (·.1)).Nodup ∧ ∀ x ∈ ds.map (·.1), b < x
  | _, [], _ => ⟨List.nodup_nil, fun x hx => absurd hx List.not_mem_nil⟩
  | b, d :: ds, h => by
    obtain ⟨hn, hall⟩ := incAbove_nodup d.1 ds h.2
    refine ⟨?_, ?_⟩
    · rw [List.map_cons, List.nodup_cons]
      exact ⟨fun hmem => by have := hall _ hmem; omega, hn⟩
    · intro x hx
      rw [List.map_cons, List.mem_cons] at hx
      rcases hx with rfl | hx
      · exact h.1
      · have := hall x hx
        have := h.1
        omega

/-- **`add_dia` is `left + scale · right`** entry by entry, for diagonal-format operands whose stored offsets
increase (and the result's offsets increase again, so it needs no re-sorting) -/
theorem addDia_abs (L Rm : Dia R) (s : R) (b : Int) (hL : IncAbove b L.diags) (hR : IncAbove b Rm.diags) (i j : Nat) :
    (addDia L Rm s).abs i j = L.abs i j + s * Rm.abs i j ∧ IncAbove b (addDia L Rm s).diags := by
  have hinc := addDiaMerge_inc s (L.diags.length + Rm.diags.length) b L.diags Rm.diags (Nat.le_refl _) hL hR
  refine ⟨?_, hinc⟩
  rw [Dia.abs_eq_sum _ (incAbove_nodup b _ hinc).1, Dia.abs_eq_sum L (incAbove_nodup b _ hL).1, Dia.abs_eq_sum Rm (incAbove_nodup b _ hR).1]
  exact addDiaMerge_val s _ L.diags Rm.diags (Nat.le_refl _) _ j
end diaAddThm

section diaInnerThm
variable {R : Type} [CommRing R]

/-- apply a function to every stored value -/
def Dia.mapv (f : R → R) (m : Dia R) : Dia R :=
  { m with diags := m.diags.map fun d => (d.1, fun c => f (d.2 c)) }

theorem Dia.mapv_offsets (f : R → R) (m : Dia R) : (m.mapv f).diags.map (·.1) = m.diags.map (·.1) := by
  simp [Dia.mapv, List.map_map, Function.comp_def]

/-- a function that keeps 0 commutes with the meaning of a diagonal-format matrix -/
theorem Dia.mapv_abs (f : R → R) (hf : f 0 = 0) (m : Dia R) (i j : Nat) : (m.mapv f).abs i j = f (m.abs i j) := by
  unfold Dia.abs Dia.mapv
  simp only [← List.map_reverse, List.find?_map, Function.comp_def]
  cases h : (m.diags.reverse.find? fun d => d.1 == (j : Int) - (i : Int)) with
  | none => simp [hf]
  | some d => simp

/-- summing over the rows of a ket = summing over its stored diagonals (row r is kept on offset −r) -/
theorem ket_sum (K : Dia R) (n : Nat) (hn : (K.diags.map (·.1)).Nodup)
    (hr : ∀ d ∈ K.diags, -(n : Int) < d.1 ∧ d.1 ≤ 0) (g : Nat → R) :
    ((List.range n).map fun i => K.abs i 0 * g i).sum = (K.diags.map fun d => d.2 0 * g (-d.1).toNat).sum := by
  have hexp : ∀ i : Nat, K.abs i 0 * g i
      = (K.diags.map fun d => (if ((i : Nat) : Int) = -d.1 then d.2 0 * g i else 0)).sum := by
    intro i
    rw [Dia.abs_eq_sum K hn, ← List.sum_map_mul_right]
    congr 1
    apply List.map_congr_left
    intro d _
    by_cases hd : d.1 = ((0 : Nat) : Int) - (i : Int)
    · have : ((i : Nat) : Int) = -d.1 := by omega
      rw [if_pos hd, if_pos this]
    · have : ¬ ((i : Nat) : Int) = -d.1 := by omega
      rw [if_neg hd, if_neg this, zero_mul]
  simp only [hexp]
  rw [sum_comm_list (List.range n) K.diags]
  congr 1
  apply List.map_congr_left
  intro d hd
  rw [sum_range_single n (-d.1) (fun i => d.2 0 * g i)]
  have := hr d hd
  rw [if_pos (by omega)]

/-- summing over the columns of a bra = summing over its stored diagonals (column c is kept on offset c) -/
theorem bra_sum (B : Dia R) (n : Nat) (hn : (B.diags.map (·.1)).Nodup)
    (hr : ∀ d ∈ B.diags, 0 ≤ d.1 ∧ d.1 < (n : Int)) (g : Nat → R) :
    ((List.range n).map fun j => B.abs 0 j * g j).sum = (B.diags.map fun d => d.2 d.1.toNat * g d.1.toNat).sum := by
  have hexp : ∀ j : Nat, B.abs 0 j * g j
      = (B.diags.map fun d => (if ((j : Nat) : Int) = d.1 then d.2 j * g j else 0)).sum := by
    intro j
    rw [Dia.abs_eq_sum B hn, ← List.sum_map_mul_right]
    congr 1
    apply List.map_congr_left
    intro d _
    by_cases hd : d.1 = (j : Int) - ((0 : Nat) : Int)
    · have : ((j : Nat) : Int) = d.1 := by omega
      rw [if_pos hd, if_pos this]
    · have : ¬ ((j : Nat) : Int) = d.1 := by omega
      rw [if_neg hd, if_neg this, zero_mul]
  simp only [hexp]
  rw [sum_comm_list (List.range n) B.diags]
  congr 1
  apply List.map_congr_left
  intro d hd
  rw [sum_range_single n d.1 (fun j => d.2 j * g j)]
  have := hr d hd
  rw [if_pos (by omega)]

/-- well-formed ket of `n` rows in diagonal storage: distinct offsets, all inside the matrix -/
def KetWF (K : Dia R) (n : Nat) : Prop :=
  (K.diags.map (·.1)).Nodup ∧ ∀ d ∈ K.diags, -(n : Int) < d.1 ∧ d.1 ≤ 0
/-- well-formed bra of `n` columns -/
def BraWF (B : Dia R) (n : Nat) : Prop :=
  (B.diags.map (·.1)).Nodup ∧ ∀ d ∈ B.diags, 0 ≤ d.1 ∧ d.1 < (n : Int)

theorem KetWF.mapv {K : Dia R} {n : Nat} (h : KetWF K n) (f : R → R) : KetWF (K.mapv f) n := by
  refine ⟨by rw [Dia.mapv_offsets]; exact h.1, ?_⟩
  intro d hd
  simp only [Dia.mapv, List.mem_map] at hd
  obtain ⟨d', hd', rfl⟩ := hd
  exact h.2 d' hd'

/-- **`inner_dia` with `left` given as a ket is `Σ_r conj(left_r) · right_r`** -/
theorem innerDiaCore_ket (conj : R → R) (hc : conj 0 = 0) (left right : Dia R) (n : Nat)
    (hl : KetWF left n) (hrt : KetWF right n) :
    innerDiaCore conj true left right = ((List.range n).map fun r => conj (left.abs r 0) * right.abs r 0).sum := by
  have h1 : ∀ r : Nat, conj (left.abs r 0) * right.abs r 0 = right.abs r 0 * (left.mapv conj).abs r 0 := by
    intro r; rw [Dia.mapv_abs conj hc, mul_comm]
  simp only [h1]
  rw [ket_sum right n hrt.1 hrt.2]
  unfold innerDiaCore
  congr 1
  apply List.map_congr_left
  intro dr hdr
  have hb := hrt.2 dr hdr
  rw [Dia.abs_eq_sum _ (hl.mapv conj).1, ← List.sum_map_mul_left]
  simp only [Dia.mapv, List.map_map, Function.comp_def, if_true]
  congr 1
  apply List.map_congr_left
  intro dl _
  by_cases hd : dl.1 - dr.1 = 0
  · have : dl.1 = ((0 : Nat) : Int) - (((-dr.1).toNat : Nat) : Int) := by omega
    rw [if_pos hd, if_pos this, mul_comm]
  · have : ¬ dl.1 = ((0 : Nat) : Int) - (((-dr.1).toNat : Nat) : Int) := by omega
    rw [if_neg hd, if_neg this, mul_zero]

/-- **`inner_dia` with `left` given as a bra is `Σ_c left_c · right_c`** -/
theorem innerDiaCore_bra (conj : R → R) (left right : Dia R) (n : Nat)
    (hl : BraWF left n) (hrt : KetWF right n) :
    innerDiaCore conj false left right = ((List.range n).map fun c => left.abs 0 c * right.abs c 0).sum := by
  have h1 : ∀ c : Nat, left.abs 0 c * right.abs c 0 = right.abs c 0 * left.abs 0 c := fun c => mul_comm _ _
  simp only [h1]
  rw [ket_sum right n hrt.1 hrt.2]
  unfold innerDiaCore
  congr 1
  apply List.map_congr_left
  intro dr hdr
  have hb := hrt.2 dr hdr
  rw [Dia.abs_eq_sum _ hl.1, ← List.sum_map_mul_left]
  simp only [Bool.false_eq_true, if_false]
  congr 1
  apply List.map_congr_left
  intro dl hdl
  have hbl := hl.2 dl hdl
  by_cases hd : dl.1 + dr.1 = 0
  · have h2 : dl.1 = (((-dr.1).toNat : Nat) : Int) - ((0 : Nat) : Int) := by omega
    have h3 : (-dr.1).toNat = dl.1.toNat := by omega
    rw [if_pos hd, if_pos h2, h3, mul_comm]
  · have : ¬ dl.1 = (((-dr.1).toNat : Nat) : Int) - ((0 : Nat) : Int) := by omega
    rw [if_neg hd, if_neg this, mul_zero]

/-- the entry of `op` picked by the triple loop for a pair (row of the left state, row of the right state) -/
theorem op_entry_sum (op : Dia R) (ho : (op.diags.map (·.1)).Nodup) (a b : Int) (ha : 0 ≤ a) (hb : b ≤ 0) (x : R) :
    x * op.abs a.toNat (-b).toNat
      = (op.diags.map fun dop => if a + b + dop.1 = 0 then x * dop.2 (-b).toNat else 0).sum := by
  rw [Dia.abs_eq_sum op ho, ← List.sum_map_mul_left]
  congr 1
  apply List.map_congr_left
  intro dop _
  by_cases hd : a + b + dop.1 = 0
  · have : dop.1 = (((-b).toNat : Nat) : Int) - ((a.toNat : Nat) : Int) := by omega
    rw [if_pos hd, if_pos this]
  · have : ¬ dop.1 = (((-b).toNat : Nat) : Int) - ((a.toNat : Nat) : Int) := by omega
    rw [if_neg hd, if_neg this, mul_zero]

/-- **`inner_op_dia` with `left` given as a ket is `Σ_r Σ_c conj(left_r) · op_rc · right_c`** for an operator of any
shape (square, wide or tall) -/
theorem innerOpDiaCore_ket (conj : R → R) (hc : conj 0 = 0) (left op right : Dia R)
    (hl : KetWF left op.rows) (hrt : KetWF right op.cols) (ho : (op.diags.map (·.1)).Nodup) :
    innerOpDiaCore conj true left op right
      = ((List.range op.rows).map fun r => conj (left.abs r 0) *
          ((List.range op.cols).map fun c => op.abs r c * right.abs c 0).sum).sum := by
  -- rows of the left state → its diagonals
  have h1 : ∀ r : Nat, conj (left.abs r 0) * ((List.range op.cols).map fun c => op.abs r c * right.abs c 0).sum
      = (left.mapv conj).abs r 0 * ((List.range op.cols).map fun c => right.abs c 0 * op.abs r c).sum := by
    intro r
    rw [Dia.mapv_abs conj hc]
    congr 2
    apply List.map_congr_left
    intro c _
    exact mul_comm _ _
  simp only [h1]
  rw [ket_sum (left.mapv conj) op.rows (hl.mapv conj).1 (hl.mapv conj).2]
  -- columns → diagonals of the right state
  simp only [ket_sum right op.cols hrt.1 hrt.2]
  simp only [Dia.mapv, List.map_map, Function.comp_def]
  -- the loops run over the right state first
  unfold innerOpDiaCore
  rw [sum_comm_list right.diags left.diags]
  congr 1
  apply List.map_congr_left
  intro dl hdl
  have hbl := hl.2 dl hdl
  rw [← List.sum_map_mul_left]
  congr 1
  apply List.map_congr_left
  intro dr hdr
  have hbr := hrt.2 dr hdr
  simp only [if_true]
  have key := op_entry_sum op ho (-dl.1) dr.1 (by omega) hbr.2 (conj (dl.2 0) * dr.2 0)
  rw [← mul_assoc, key]

/-- **`inner_op_dia` with `left` given as a bra is `Σ_r Σ_c left_r · op_rc · right_c`** -/
theorem innerOpDiaCore_bra (conj : R → R) (left op right : Dia R)
    (hl : BraWF left op.rows) (hrt : KetWF right op.cols) (ho : (op.diags.map (·.1)).Nodup) :
    innerOpDiaCore conj false left op right
      = ((List.range op.rows).map fun r => left.abs 0 r *
          ((List.range op.cols).map fun c => op.abs r c * right.abs c 0).sum).sum := by
  have h1 : ∀ r : Nat, left.abs 0 r * ((List.range op.cols).map fun c => op.abs r c * right.abs c 0).sum
      = left.abs 0 r * ((List.range op.cols).map fun c => right.abs c 0 * op.abs r c).sum := by
    intro r
    congr 2
    apply List.map_congr_left
    intro c _
    exact mul_comm _ _
  simp only [h1]
  rw [bra_sum left op.rows hl.1 hl.2]
  simp only [ket_sum right op.cols hrt.1 hrt.2]
  unfold innerOpDiaCore
  rw [sum_comm_list right.diags left.diags]
  congr 1
  apply List.map_congr_left
  intro dl hdl
  have hbl := hl.2 dl hdl
  rw [← List.sum_map_mul_left]
  congr 1
  apply List.map_congr_left
  intro dr hdr
  have hbr := hrt.2 dr hdr
  simp only [Bool.false_eq_true, if_false]
  have key := op_entry_sum op ho dl.1 dr.1 hbl.1 hbr.2 (dl.2 dl.1.toNat * dr.2 0)
  rw [← mul_assoc, key]

/-- the ket / bra decision of `inner_op_dia` and `inner_dia`: from the shapes, except for 1x1 operands where the
caller's flag decides (the two readings then differ by the conjugation only) -/
theorem innerIsKet_spec (leftRows leftCols n : Nat) (flag : Bool) (hn : n ≠ 1) :
    (leftRows = n → innerIsKet leftRows n flag = true) ∧
    (leftRows = 1 → innerIsKet leftRows n flag = false) := by
  unfold innerIsKet
  constructor
  · intro h; simp [hn, h]
  · intro h; subst h; simp [hn]; omega
/-- the hypotheses are met by the kets the library builds (one stored diagonal per non-zero row) -/
example : KetWF (R := Int) { rows := 3, cols := 1, diags := [(0, fun _ => 2), (-2, fun _ => 5)] } 3 := by
  refine ⟨by decide, ?_⟩
  intro d hd
  simp only [List.mem_cons, List.not_mem_nil, or_false] at hd
  rcases hd with rfl | rfl <;> simp
end diaInnerThm

section diaFind
variable {R : Type} [CommRing R]

theorem find?_reverse_nodup (l : List (Int × (Nat → R))) (h : (l.map (·.1)).Nodup) (o : Int) :
    l.reverse.find? (fun d => d.1 == o) = l.find? (fun d => d.1 == o) := by
  induction l with
  | nil => rfl
  | cons x t ih =>
    rw [List.map_cons, List.nodup_cons] at h
    rw [List.reverse_cons, List.find?_append, ih h.2]
    by_cases hx : x.1 = o
    · have hnone : t.find? (fun d => d.1 == o) = none := by
        rw [List.find?_eq_none]
        intro y hy hyo
        have : y.1 = o := by simpa using hyo
        exact h.1 (List.mem_map.mpr ⟨y, hy, by rw [this, hx]⟩)
      simp [hnone, hx]
    · simp [hx]

/-- the meaning of a diagonal-format matrix through the stored diagonal of the right offset -/
theorem Dia.abs_find (m : Dia R) (h : (m.diags.map (·.1)).Nodup) (i j : Nat) :
    m.abs i j = match m.diags.find? (fun d => d.1 == (j : Int) - (i : Int)) with
      | some d => d.2 j
      | none => 0 := by
  unfold Dia.abs
  rw [find?_reverse_nodup m.diags h]
  rfl

theorem find?_of_mem_nodup (l : List (Int × (Nat → R))) (h : (l.map (·.1)).Nodup) (d : Int × (Nat → R))
    (hd : d ∈ l) (o : Int) (ho : d.1 = o) : l.find? (fun e => e.1 == o) = some d := by
  induction l with
  | nil => cases hd
  | cons x t ih =>
    rw [List.map_cons, List.nodup_cons] at h
    rcases List.mem_cons.mp hd with rfl | hmem
    · simp [ho]
    · have hx : x.1 ≠ o := by
        intro hxo
        exact h.1 (List.mem_map.mpr ⟨d, hmem, by rw [ho, hxo]⟩)
      have hb : (x.1 == o) = false := by simpa using hx
      rw [List.find?_cons, hb]
      exact ih h.2 hmem

end diaFind

section diaHermThm
variable {R : Type} [CommRing R] [StarRing R] [DecidableEq R]

/-- the kernel's comparisons with the tolerance taken to zero -/
def exactConjEq (a b : R) : Bool := decide (a = star b)
def exactIsZero (a : R) : Bool := decide (a = 0)

/-- square, distinct stored offsets, every stored diagonal inside the matrix -/
def Dia.SquareWF (m : Dia R) : Prop :=
  m.rows = m.cols ∧ (m.diags.map (·.1)).Nodup ∧ ∀ d ∈ m.diags, -(m.rows : Int) < d.1 ∧ d.1 < (m.rows : Int)

/-- what a successful check of the stored diagonal `d` (number `di`, offset ≠ 0) says about its entries -/
theorem diagOk_spec (m : Dia R) (hwf : m.SquareWF) (di : Nat) (d : Int × (Nat → R)) (hd : m.diags[di]? = some d)
    (ho : d.1 ≠ 0) (hok : diagOk exactConjEq exactIsZero m di d = true) (j : Nat) (hj : j < m.rows)
    (hi0 : 0 ≤ (j : Int) - d.1) (hi1 : (j : Int) - d.1 < m.rows) :
    (m.diags.find? (fun e => e.1 == -d.1) = none → d.2 j = 0) ∧
    (∀ e ei, m.diags[ei]? = some e → e.1 = -d.1 → di < ei → d.2 j = star (e.2 ((j : Int) - d.1).toNat)) := by
  obtain ⟨hsq, hnd, hrg⟩ := hwf
  have hfun : (fun (e : Int × (Nat → R)) => d.1 == -e.1) = (fun e => e.1 == -d.1) := by
    funext e
    by_cases h : e.1 = -d.1
    · have h2 : d.1 = -e.1 := by omega
      rw [beq_iff_eq.mpr h2, beq_iff_eq.mpr h]
    · have h2 : d.1 ≠ -e.1 := by omega
      rw [beq_eq_false_iff_ne.mpr h2, beq_eq_false_iff_ne.mpr h]
  unfold diagOk at hok
  simp only [ho, if_false, hfun] at hok
  -- the column `j` is inside the range the loop runs over
  have hstart : (max 0 d.1).toNat ≤ j := by omega
  have hlen : j - (max 0 d.1).toNat < (min (m.cols : Int) ((m.rows : Int) + d.1)).toNat - (max 0 d.1).toNat := by
    have : (m.rows : Int) = m.cols := by exact_mod_cast hsq
    omega
  have hcol : j - (max 0 d.1).toNat + (max 0 d.1).toNat = j := by omega
  constructor
  · intro hnone
    have hany : (m.diags.take di).any (fun e => e.1 == -d.1) = false := by
      rw [List.any_eq_false]
      intro e he
      have := List.find?_eq_none.mp hnone e (List.mem_of_mem_take he)
      simpa using this
    simp only [hany, Bool.false_eq_true, if_false, hnone] at hok
    have := List.all_eq_true.mp hok (j - (max 0 d.1).toNat) (List.mem_range.mpr hlen)
    rw [hcol] at this
    simpa [exactIsZero] using this
  · intro e ei he heo hlt
    have hmem : e ∈ m.diags := List.mem_of_getElem? he
    have hfind := find?_of_mem_nodup m.diags hnd e hmem (-d.1) heo
    have hany : (m.diags.take di).any (fun x => x.1 == -d.1) = false := by
      rw [List.any_eq_false]
      intro x hx hxo
      have hxo' : x.1 = -d.1 := by simpa using hxo
      -- x sits at an index < di and carries the offset of e, which sits at ei > di
      obtain ⟨k, hk, hxk⟩ := List.getElem_of_mem hx
      have hk' : k < di := by
        have := List.length_take_le di m.diags
        omega
      have hxk' : m.diags[k]? = some x := by
        rw [List.getElem_take] at hxk
        have hkl : k < m.diags.length := by
          have := List.length_take_le' di m.diags
          omega
        rw [List.getElem?_eq_getElem hkl, hxk]
      have hxe : x = e := by
        have h1 := find?_of_mem_nodup m.diags hnd x (List.mem_of_getElem? hxk') (-d.1) hxo'
        rw [hfind] at h1
        exact (Option.some.inj h1).symm
      -- same element at two different indices contradicts distinct offsets
      have hkl : k < m.diags.length := (List.getElem?_eq_some_iff.mp hxk').1
      have hel : ei < m.diags.length := (List.getElem?_eq_some_iff.mp he).1
      have h2 : (m.diags.map (·.1))[k]'(by simpa using hkl) = (m.diags.map (·.1))[ei]'(by simpa using hel) := by
        simp only [List.getElem_map]
        have a1 := (List.getElem?_eq_some_iff.mp hxk').2
        have a2 := (List.getElem?_eq_some_iff.mp he).2
        rw [a1, a2, hxe]
      have := (List.Nodup.getElem_inj_iff hnd).mp h2
      omega
    simp only [hany, Bool.false_eq_true, if_false, hfind] at hok
    have := List.all_eq_true.mp hok (j - (max 0 d.1).toNat) (List.mem_range.mpr hlen)
    rw [hcol] at this
    have hmir : j - (max 0 d.1).toNat + (max 0 e.1).toNat = ((j : Int) - d.1).toNat := by omega
    rw [hmir] at this
    simpa [exactConjEq] using this
theorem beq_neg_swap (a b : Int) : (a == -b) = (b == -a) := by
  by_cases h : b = -a
  · have h2 : a = -b := by omega
    rw [beq_iff_eq.mpr h2, beq_iff_eq.mpr h]
  · have h2 : a ≠ -b := by omega
    rw [beq_eq_false_iff_ne.mpr h2, beq_eq_false_iff_ne.mpr h]

theorem ishermDia_all (m : Dia R) (hsq : m.rows = m.cols) :
    ishermDia exactConjEq exactIsZero m = true ↔
      ∀ di d, m.diags[di]? = some d → diagOk exactConjEq exactIsZero m di d = true := by
  unfold ishermDia
  rw [if_neg (not_not.mpr hsq), List.all_eq_true]
  constructor
  · intro h di d hd
    have hlt : di < m.diags.length := (List.getElem?_eq_some_iff.mp hd).1
    have := h di (List.mem_range.mpr hlt)
    rw [hd] at this
    exact this
  · intro h di hdi
    have hlt : di < m.diags.length := List.mem_range.mp hdi
    rw [List.getElem?_eq_getElem hlt]
    exact h di _ (List.getElem?_eq_getElem hlt)

/-- **`isherm_dia` answers "Hermitian" only for Hermitian matrices** … -/
theorem ishermDia_sound (m : Dia R) (hwf : m.SquareWF) (h : ishermDia exactConjEq exactIsZero m = true)
    (i j : Nat) (hi : i < m.rows) (hj : j < m.rows) : m.abs i j = star (m.abs j i) := by
  have hall := (ishermDia_all m hwf.1).mp h
  obtain ⟨hsq, hnd, hrg⟩ := id hwf
  rw [Dia.abs_find m hnd i j, Dia.abs_find m hnd j i]
  by_cases hij : i = j
  · subst hij
    cases hf : m.diags.find? (fun d => d.1 == (i : Int) - (i : Int)) with
    | none => simp
    | some d =>
      simp only []
      have hmem := List.mem_of_find?_eq_some hf
      have hd0 : d.1 = 0 := by
        have := List.find?_some hf
        simp only [beq_iff_eq] at this
        omega
      obtain ⟨di, hdi⟩ := List.getElem?_of_mem hmem
      have hok := hall di d hdi
      unfold diagOk at hok
      simp only [hd0, if_true] at hok
      have := List.all_eq_true.mp hok i (List.mem_range.mpr (by omega))
      simpa [exactConjEq] using this
  · cases hf : m.diags.find? (fun d => d.1 == (j : Int) - (i : Int)) with
    | none =>
      cases hg : m.diags.find? (fun d => d.1 == (i : Int) - (j : Int)) with
      | none => simp
      | some e =>
        simp only []
        have hmem := List.mem_of_find?_eq_some hg
        have he : e.1 = (i : Int) - (j : Int) := by
          have := List.find?_some hg
          simpa using this
        obtain ⟨ei, hei⟩ := List.getElem?_of_mem hmem
        have hspec := diagOk_spec m hwf ei e hei (by omega) (hall ei e hei) i hi (by omega) (by omega)
        have hnone : m.diags.find? (fun x => x.1 == -e.1) = none := by
          have : -e.1 = (j : Int) - (i : Int) := by omega
          rw [this]; exact hf
        rw [hspec.1 hnone, star_zero]
    | some d =>
      have hmemd := List.mem_of_find?_eq_some hf
      have hd : d.1 = (j : Int) - (i : Int) := by
        have := List.find?_some hf
        simpa using this
      obtain ⟨di, hdi⟩ := List.getElem?_of_mem hmemd
      have hspecd := diagOk_spec m hwf di d hdi (by omega) (hall di d hdi) j hj (by omega) (by omega)
      cases hg : m.diags.find? (fun d => d.1 == (i : Int) - (j : Int)) with
      | none =>
        simp only []
        have hnone : m.diags.find? (fun x => x.1 == -d.1) = none := by
          have : -d.1 = (i : Int) - (j : Int) := by omega
          rw [this]; exact hg
        rw [hspecd.1 hnone, star_zero]
      | some e =>
        simp only []
        have hmeme := List.mem_of_find?_eq_some hg
        have he : e.1 = (i : Int) - (j : Int) := by
          have := List.find?_some hg
          simpa using this
        obtain ⟨ei, hei⟩ := List.getElem?_of_mem hmeme
        have hspece := diagOk_spec m hwf ei e hei (by omega) (hall ei e hei) i hi (by omega) (by omega)
        have hne : di ≠ ei := by
          intro heq
          rw [heq, hei] at hdi
          have : e = d := Option.some.inj hdi
          rw [this] at he
          omega
        have hcol1 : ((j : Int) - d.1).toNat = i := by omega
        have hcol2 : ((i : Int) - e.1).toNat = j := by omega
        rcases Nat.lt_or_gt_of_ne hne with hlt | hgt
        · have := hspecd.2 e ei hei (by omega) hlt
          rw [hcol1] at this
          exact this
        · have := hspece.2 d di hdi (by omega) hgt
          rw [hcol2] at this
          rw [this, star_star]

/-- … **and for every Hermitian matrix** (exact arithmetic, any stored order of the diagonals) -/
theorem ishermDia_complete (m : Dia R) (hwf : m.SquareWF)
    (H : ∀ i j, i < m.rows → j < m.rows → m.abs i j = star (m.abs j i)) :
    ishermDia exactConjEq exactIsZero m = true := by
  obtain ⟨hsq, hnd, hrg⟩ := id hwf
  rw [ishermDia_all m hsq]
  intro di d hdi
  have hmem : d ∈ m.diags := List.mem_of_getElem? hdi
  have hb := hrg d hmem
  unfold diagOk
  by_cases ho : d.1 = 0
  · simp only [ho, if_true]
    rw [List.all_eq_true]
    intro c hc
    have hc' : c < m.rows := by have := List.mem_range.mp hc; omega
    have hH := H c c hc' hc'
    have hfind := find?_of_mem_nodup m.diags hnd d hmem ((c : Int) - (c : Int)) (by omega)
    rw [Dia.abs_find m hnd c c, hfind] at hH
    simpa [exactConjEq] using hH
  · simp only [ho, if_false]
    have hfun : (fun (e : Int × (Nat → R)) => d.1 == -e.1) = (fun e => e.1 == -d.1) := by
      funext e; exact beq_neg_swap _ _
    rw [hfun]
    split
    · rfl
    · have hcols : (m.rows : Int) = m.cols := by exact_mod_cast hsq
      cases hg : m.diags.find? (fun e => e.1 == -d.1) with
      | some e =>
        simp only []
        rw [List.all_eq_true]
        intro c hc
        have hc' := List.mem_range.mp hc
        have he : e.1 = -d.1 := by
          have := List.find?_some hg
          simpa using this
        have hmeme := List.mem_of_find?_eq_some hg
        -- the entry in row i, column j and its mirror image
        have hjlt : c + (max 0 d.1).toNat < m.rows := by omega
        have hilt : ((((c + (max 0 d.1).toNat : Nat) : Int) - d.1).toNat) < m.rows := by omega
        have hH := H (((c + (max 0 d.1).toNat : Nat) : Int) - d.1).toNat (c + (max 0 d.1).toNat) hilt hjlt
        have hf1 := find?_of_mem_nodup m.diags hnd d hmem
          (((c + (max 0 d.1).toNat : Nat) : Int) - (((((c + (max 0 d.1).toNat : Nat) : Int) - d.1).toNat : Nat) : Int)) (by omega)
        have hf2 := find?_of_mem_nodup m.diags hnd e hmeme
          ((((((c + (max 0 d.1).toNat : Nat) : Int) - d.1).toNat : Nat) : Int) - ((c + (max 0 d.1).toNat : Nat) : Int)) (by omega)
        rw [Dia.abs_find m hnd, Dia.abs_find m hnd, hf1, hf2] at hH
        have hmir : c + (max 0 e.1).toNat = (((c + (max 0 d.1).toNat : Nat) : Int) - d.1).toNat := by omega
        rw [hmir]
        simpa [exactConjEq] using hH
      | none =>
        simp only []
        rw [List.all_eq_true]
        intro c hc
        have hc' := List.mem_range.mp hc
        have hjlt : c + (max 0 d.1).toNat < m.rows := by omega
        have hilt : ((((c + (max 0 d.1).toNat : Nat) : Int) - d.1).toNat) < m.rows := by omega
        have hH := H (((c + (max 0 d.1).toNat : Nat) : Int) - d.1).toNat (c + (max 0 d.1).toNat) hilt hjlt
        have hf1 := find?_of_mem_nodup m.diags hnd d hmem
          (((c + (max 0 d.1).toNat : Nat) : Int) - (((((c + (max 0 d.1).toNat : Nat) : Int) - d.1).toNat : Nat) : Int)) (by omega)
        have hf2 : m.diags.find? (fun x => x.1 == ((((((c + (max 0 d.1).toNat : Nat) : Int) - d.1).toNat : Nat) : Int) - ((c + (max 0 d.1).toNat : Nat) : Int))) = none := by
          have : ((((((c + (max 0 d.1).toNat : Nat) : Int) - d.1).toNat : Nat) : Int) - ((c + (max 0 d.1).toNat : Nat) : Int)) = -d.1 := by omega
          rw [this]; exact hg
        rw [Dia.abs_find m hnd, Dia.abs_find m hnd, hf1, hf2] at hH
        simpa [exactIsZero] using hH

/-- **`isherm_dia` decides Hermiticity** (tolerance taken to zero): for a square matrix stored by diagonals with
distinct offsets inside the matrix, in *any* stored order, the kernel's loop returns true exactly when every entry is
the conjugate of its mirror image. -/
theorem ishermDia_iff (m : Dia R) (hwf : m.SquareWF) :
    ishermDia exactConjEq exactIsZero m = true ↔
      ∀ i j, i < m.rows → j < m.rows → m.abs i j = star (m.abs j i) :=
  ⟨fun h i j hi hj => ishermDia_sound m hwf h i j hi hj, ishermDia_complete m hwf⟩

/-- a matrix that is not square is never reported Hermitian -/
theorem ishermDia_nonsquare (m : Dia R) (h : m.rows ≠ m.cols) : ishermDia exactConjEq exactIsZero m = false := by
  unfold ishermDia; rw [if_pos h]
end diaHermThm

section diaExpectThm
variable {R : Type} [CommRing R]

theorem sum_range_window (n a len : Nat) (h : a + len ≤ n) (f : Nat → R) :
    ((List.range n).map fun c => if a ≤ c ∧ c < a + len then f c else 0).sum
      = ((List.range len).map fun i => f (i + a)).sum := by
  induction len with
  | zero =>
    simp only [List.range_zero, List.map_nil, List.sum_nil]
    apply sum_map_zero'
    intro c _
    rw [if_neg (by omega)]
  | succ len ih =>
    have hsplit : ∀ c : Nat, (if a ≤ c ∧ c < a + (len + 1) then f c else 0)
        = (if a ≤ c ∧ c < a + len then f c else 0) + (if ((c : Nat) : Int) = ((a + len : Nat) : Int) then f c else 0) := by
      intro c
      by_cases h1 : a ≤ c ∧ c < a + len
      · rw [if_pos h1, if_pos (by omega), if_neg (by omega), add_zero]
      · by_cases h2 : c = a + len
        · rw [if_neg h1, if_pos (by omega), if_pos (by omega), zero_add]
        · rw [if_neg h1, if_neg (by omega), if_neg (by omega), add_zero]
    simp only [hsplit]
    rw [List.sum_map_add, ih (by omega), sum_range_single n ((a + len : Nat) : Int) f, if_pos (by omega),
      List.range_succ, List.map_append, List.sum_append]
    simp only [List.map_cons, List.map_nil, List.sum_cons, List.sum_nil, add_zero, Int.toNat_natCast]
    rw [Nat.add_comm len a]

theorem sum4_comm {α β γ δ : Type} (l1 : List α) (l2 : List β) (l3 : List γ) (l4 : List δ) (F : α → β → γ → δ → R) :
    (l1.map fun r => (l2.map fun c => (l3.map fun a => (l4.map fun b => F r c a b).sum).sum).sum).sum
      = (l3.map fun a => (l4.map fun b => (l1.map fun r => (l2.map fun c => F r c a b).sum).sum).sum).sum := by
  calc _ = (l1.map fun r => (l3.map fun a => (l2.map fun c => (l4.map fun b => F r c a b).sum).sum).sum).sum := by
        congr 1; apply List.map_congr_left; intro r _
        exact sum_comm_list l2 l3 _
    _ = (l3.map fun a => (l1.map fun r => (l2.map fun c => (l4.map fun b => F r c a b).sum).sum).sum).sum :=
        sum_comm_list l1 l3 _
    _ = (l3.map fun a => (l1.map fun r => (l4.map fun b => (l2.map fun c => F r c a b).sum).sum).sum).sum := by
        congr 1; apply List.map_congr_left; intro a _
        congr 1; apply List.map_congr_left; intro r _
        exact sum_comm_list l2 l4 _
    _ = _ := by
        congr 1; apply List.map_congr_left; intro a _
        exact sum_comm_list l1 l4 _

/-- **`trace_dia` is the trace** -/
theorem traceDia_abs (m : Dia R) (h : (m.diags.map (·.1)).Nodup) :
    traceDia m = ((List.range m.cols).map fun i => m.abs i i).sum := by
  unfold traceDia
  have : ∀ i : Nat, m.abs i i = match m.diags.find? (fun d => d.1 == 0) with
      | some d => d.2 i
      | none => 0 := by
    intro i
    rw [Dia.abs_find m h i i, sub_self]
  simp only [this]
  cases m.diags.find? (fun d => d.1 == 0) with
  | none => simp
  | some d => rfl

/-- **`expect_dia` on a ket is `Σ_r Σ_c conj(ψ_r) op_rc ψ_c`** -/
theorem expectDiaKet_abs (conj : R → R) (hc : conj 0 = 0) (op state : Dia R) (hsq : op.rows = op.cols)
    (hs : KetWF state op.cols) (ho : (op.diags.map (·.1)).Nodup) :
    expectDiaKet conj op state
      = ((List.range op.rows).map fun r => conj (state.abs r 0) *
          ((List.range op.cols).map fun c => op.abs r c * state.abs c 0).sum).sum :=
  innerOpDiaCore_ket conj hc state op state (by rw [hsq]; exact hs) hs ho

/-- the contribution of one pair of stored diagonals to `tr(op · state)` -/
theorem dm_pair_sum (n : Nat) (dop ds : Int × (Nat → R)) (hop : -(n : Int) < dop.1 ∧ dop.1 < n)
    (hds : -(n : Int) < ds.1 ∧ ds.1 < n) :
    ((List.range n).map fun (r : Nat) => ((List.range n).map fun (c : Nat) =>
        (if dop.1 = (c : Int) - (r : Int) then dop.2 c else 0) * (if ds.1 = (r : Int) - (c : Int) then ds.2 r else 0)).sum).sum
      = if dop.1 = -ds.1 then
          ((List.range (min (min (n : Int) ((n : Int) + dop.1) - max 0 dop.1) (min (n : Int) ((n : Int) + ds.1) - max 0 ds.1)).toNat).map fun i =>
            dop.2 (i + (max 0 dop.1).toNat) * ds.2 (i + (max 0 ds.1).toNat)).sum
        else 0 := by
  by_cases ho : dop.1 = -ds.1
  · rw [if_pos ho, sum_comm_list (List.range n) (List.range n)]
    have hinner : ∀ c : Nat, ((List.range n).map fun (r : Nat) =>
        (if dop.1 = (c : Int) - (r : Int) then dop.2 c else 0) * (if ds.1 = (r : Int) - (c : Int) then ds.2 r else 0)).sum
        = if 0 ≤ (c : Int) - dop.1 ∧ (c : Int) - dop.1 < n then dop.2 c * ds.2 ((c : Int) - dop.1).toNat else 0 := by
      intro c
      rw [← sum_range_single n ((c : Int) - dop.1) (fun r => dop.2 c * ds.2 r)]
      congr 1
      apply List.map_congr_left
      intro r _
      by_cases hr : ((r : Nat) : Int) = (c : Int) - dop.1
      · rw [if_pos (by omega), if_pos (by omega), if_pos hr]
      · rw [if_neg (by omega), zero_mul, if_neg hr]
    simp only [hinner]
    have hwin : ∀ c : Nat, c ∈ List.range n →
        (if 0 ≤ (c : Int) - dop.1 ∧ (c : Int) - dop.1 < n then dop.2 c * ds.2 ((c : Int) - dop.1).toNat else 0)
        = (if (max 0 dop.1).toNat ≤ c ∧ c < (max 0 dop.1).toNat +
              (min (min (n : Int) ((n : Int) + dop.1) - max 0 dop.1) (min (n : Int) ((n : Int) + ds.1) - max 0 ds.1)).toNat
            then dop.2 c * ds.2 ((c : Int) - dop.1).toNat else 0) := by
      intro c hc
      have hcn := List.mem_range.mp hc
      by_cases h1 : 0 ≤ (c : Int) - dop.1 ∧ (c : Int) - dop.1 < n
      · rw [if_pos h1, if_pos (by omega)]
      · rw [if_neg h1, if_neg (by omega)]
    rw [List.map_congr_left hwin,
      sum_range_window n _ _ (by omega) (fun c => dop.2 c * ds.2 ((c : Int) - dop.1).toNat)]
    congr 1
    apply List.map_congr_left
    intro i hi
    have hin := List.mem_range.mp hi
    have : (((i + (max 0 dop.1).toNat : Nat) : Int) - dop.1).toNat = i + (max 0 ds.1).toNat := by omega
    rw [this]
  · rw [if_neg ho]
    apply sum_map_zero'
    intro r _
    apply sum_map_zero'
    intro c _
    by_cases h1 : dop.1 = (c : Int) - (r : Int)
    · rw [if_pos h1, if_neg (by omega), mul_zero]
    · rw [if_neg h1, zero_mul]

/-- **`expect_dia` on a density matrix is `tr(op · state) = Σ_r Σ_c op_rc · state_cr`**, for any stored order of the
diagonals of both -/
theorem expectDiaDm_abs (op state : Dia R) (hop : op.SquareWF) (hst : state.SquareWF) (hn : state.rows = op.rows) :
    expectDiaDm op state
      = ((List.range op.rows).map fun r => ((List.range op.rows).map fun c => op.abs r c * state.abs c r).sum).sum := by
  obtain ⟨hsq1, hnd1, hrg1⟩ := hop
  obtain ⟨hsq2, hnd2, hrg2⟩ := hst
  have hexp : ∀ r c : Nat, op.abs r c * state.abs c r
      = (op.diags.map fun dop => (state.diags.map fun ds =>
          (if dop.1 = (c : Int) - (r : Int) then dop.2 c else 0) * (if ds.1 = (r : Int) - (c : Int) then ds.2 r else 0)).sum).sum := by
    intro r c
    rw [Dia.abs_eq_sum op hnd1, Dia.abs_eq_sum state hnd2, sum_mul_sum_list]
  simp only [hexp]
  rw [sum4_comm]
  unfold expectDiaDm
  congr 1
  apply List.map_congr_left
  intro dop hdop
  congr 1
  apply List.map_congr_left
  intro ds hds
  have h1 := hrg1 dop hdop
  have h2 := hrg2 ds hds
  rw [dm_pair_sum op.rows dop ds h1 (by rw [← hn]; exact h2)]
  have e1 : (op.cols : Int) = op.rows := by exact_mod_cast hsq1.symm
  have e2 : (state.cols : Int) = op.rows := by rw [← hn]; exact_mod_cast hsq2.symm
  have e3 : (state.rows : Int) = op.rows := by exact_mod_cast hn
  simp only [e1, e2, e3]
end diaExpectThm

section csrExpectThm
variable {R : Type} [CommRing R]

/-- a ket in CSR storage: every row holds at most one entry, in column 0 -/
def CSR.KetWF (m : CSR R) : Prop := ∀ row ∈ m.r, row.length ≤ 1 ∧ ∀ p ∈ row, p.1 = 0

theorem ket_row_abs (row : Row R) (h : row.length ≤ 1 ∧ ∀ p ∈ row, p.1 = 0) :
    rowAbs row 0 = match rowHead? row with | none => 0 | some v => v := by
  match row, h with
  | [], _ => simp [rowAbs, rowHead?]
  | [p], h =>
    obtain ⟨c, v⟩ := p
    have : c = 0 := h.2 (c, v) List.mem_cons_self
    subst this
    simp [rowAbs, rowHead?]
  | _ :: _ :: _, h => simp at h

theorem CSR.ket_abs (m : CSR R) (h : m.KetWF) (i : Nat) :
    m.abs i 0 = match rowHead? (m.r.getD i []) with | none => 0 | some v => v := by
  unfold CSR.abs
  by_cases hi : i < m.r.length
  · apply ket_row_abs
    have hget : m.r.getD i [] = m.r[i] := by simp [List.getD_eq_getElem?_getD, hi]
    rw [hget]
    exact h _ (List.getElem_mem hi)
  · have : m.r.getD i [] = [] := by
      simp [List.getD_eq_getElem?_getD, List.getElem?_eq_none (by omega : m.r.length ≤ i)]
    rw [this]; simp [rowAbs, rowHead?]

theorem rowFirst_eq_rowAbs (row : Row R) (h : (row.map (·.1)).Nodup) (j : Nat) : rowFirst row j = rowAbs row j := by
  induction row with
  | nil => simp [rowFirst, rowAbs]
  | cons p row ih =>
    obtain ⟨c, v⟩ := p
    rw [List.map_cons, List.nodup_cons] at h
    by_cases hc : c = j
    · subst hc
      have : rowAbs row c = 0 := rowAbs_not_mem row c h.1
      simp [rowFirst, rowAbs, this]
    · have hb : ((c, v).1 == j) = false := by simpa using hc
      have := ih h.2
      unfold rowFirst at this ⊢
      rw [List.find?_cons, hb]
      simp only [rowAbs, hc, if_false, zero_add]
      exact this

/-- the sum over the stored entries of an operator row against a ket read through its row heads -/
theorem op_row_ket_sum (oprow : Row R) (state : CSR R) (hs : state.KetWF) (n : Nat) (h : ∀ p ∈ oprow, p.1 < n) :
    (oprow.map (ketTimes state)).sum
      = ((List.range n).map fun c => rowAbs oprow c * state.abs c 0).sum := by
  rw [sum_rowAbs_mul oprow n (fun c => state.abs c 0) h]
  congr 1
  apply List.map_congr_left
  intro p _
  unfold ketTimes
  rw [CSR.ket_abs state hs p.1]
  cases rowHead? (state.r.getD p.1 []) with
  | none => simp
  | some w => rfl

/-- **`expect_csr` on a ket is `Σ_r conj(ψ_r) Σ_c op_rc ψ_c`**, whatever the order of (and duplicates among) the
stored entries of the operator's rows -/
theorem expectCsrKet_abs (conj : R → R) (hc : conj 0 = 0) (op state : CSR R) (hs : state.KetWF)
    (hop : ∀ i, ∀ p ∈ op.r.getD i [], p.1 < state.rows) :
    expectCsrKet conj op state
      = ((List.range state.rows).map fun r => conj (state.abs r 0) *
          ((List.range state.rows).map fun c => op.abs r c * state.abs c 0).sum).sum := by
  unfold expectCsrKet
  congr 1
  apply List.map_congr_left
  intro row _
  rw [CSR.ket_abs state hs row]
  cases hh : rowHead? (state.r.getD row []) with
  | none => simp [hc]
  | some h =>
    simp only []
    rw [op_row_ket_sum (op.r.getD row []) state hs state.rows (hop row)]
    rfl

/-- **`expect_csr` on a density matrix is `tr(op · state)`**: operator rows in any order with duplicates summed, state
rows holding each column once -/
theorem expectCsrDm_abs (op state : CSR R) (hst : ∀ i, ((state.r.getD i []).map (·.1)).Nodup)
    (hop : ∀ i, ∀ p ∈ op.r.getD i [], p.1 < op.rows) :
    expectCsrDm op state
      = ((List.range op.rows).map fun r => ((List.range op.rows).map fun c => op.abs r c * state.abs c r).sum).sum := by
  unfold expectCsrDm
  congr 1
  apply List.map_congr_left
  intro row _
  unfold CSR.abs
  rw [sum_rowAbs_mul (op.r.getD row []) op.rows (fun c => rowAbs (state.r.getD c []) row) (hop row)]
  congr 1
  apply List.map_congr_left
  intro p _
  rw [rowFirst_eq_rowAbs _ (hst p.1)]

/-- **`expect_super_csr` is the trace of the operator `op · state` un-stacked**: the rows k(n+1) of the superoperator
against the column-stacked state -/
theorem expectSuperCsr_abs (n : Nat) (op state : CSR R) (hs : state.KetWF)
    (hop : ∀ i, ∀ p ∈ op.r.getD i [], p.1 < n * n) :
    expectSuperCsr n op state
      = ((List.range n).map fun k => ((List.range (n * n)).map fun c => op.abs (k * (n + 1)) c * state.abs c 0).sum).sum := by
  unfold expectSuperCsr
  congr 1
  apply List.map_congr_left
  intro k _
  rw [op_row_ket_sum (op.r.getD (k * (n + 1)) []) state hs (n * n) (hop _)]
  rfl

/-- **`inner_op_csr` with `left` given as a ket** -/
theorem innerOpCsrKet_abs (conj : R → R) (hc : conj 0 = 0) (left op right : CSR R) (hl : left.KetWF) (hr : right.KetWF)
    (hop : ∀ i, ∀ p ∈ op.r.getD i [], p.1 < op.cols) :
    innerOpCsrKet conj left op right
      = ((List.range op.rows).map fun r => conj (left.abs r 0) *
          ((List.range op.cols).map fun c => op.abs r c * right.abs c 0).sum).sum := by
  unfold innerOpCsrKet
  congr 1
  apply List.map_congr_left
  intro row _
  rw [CSR.ket_abs left hl row]
  cases hh : rowHead? (left.r.getD row []) with
  | none => simp [hc]
  | some h =>
    simp only []
    rw [op_row_ket_sum (op.r.getD row []) right hr op.cols (hop row)]
    rfl

/-- **`inner_op_csr` with `left` given as a bra** (its stored entries in any order, duplicates summed) -/
theorem innerOpCsrBra_abs (left op right : CSR R) (hr : right.KetWF)
    (hl : ∀ q ∈ left.r.getD 0 [], q.1 < op.rows) (hop : ∀ i, ∀ p ∈ op.r.getD i [], p.1 < op.cols) :
    innerOpCsrBra left op right
      = ((List.range op.rows).map fun r => left.abs 0 r *
          ((List.range op.cols).map fun c => op.abs r c * right.abs c 0).sum).sum := by
  unfold innerOpCsrBra CSR.abs
  rw [sum_rowAbs_mul (left.r.getD 0 []) op.rows
    (fun r => ((List.range op.cols).map fun c => rowAbs (op.r.getD r []) c * rowAbs (right.r.getD c []) 0).sum) hl]
  congr 1
  apply List.map_congr_left
  intro q _
  rw [op_row_ket_sum (op.r.getD q.1 []) right hr op.cols (hop q.1)]
  rfl

/-- **`inner_csr` with `left` given as a ket** -/
theorem innerCsrKet_abs (conj : R → R) (hc : conj 0 = 0) (left right : CSR R) (hl : left.KetWF) (hr : right.KetWF) :
    innerCsrKet conj left right = ((List.range left.rows).map fun r => conj (left.abs r 0) * right.abs r 0).sum := by
  unfold innerCsrKet
  congr 1
  apply List.map_congr_left
  intro row _
  rw [CSR.ket_abs left hl row, CSR.ket_abs right hr row]
  cases rowHead? (left.r.getD row []) <;> cases rowHead? (right.r.getD row []) <;> simp [hc]

/-- **`inner_csr` with `left` given as a bra** -/
theorem innerCsrBra_abs (left right : CSR R) (hr : right.KetWF) (n : Nat) (hl : ∀ q ∈ left.r.getD 0 [], q.1 < n) :
    innerCsrBra left right = ((List.range n).map fun c => left.abs 0 c * right.abs c 0).sum := by
  unfold innerCsrBra
  exact op_row_ket_sum (left.r.getD 0 []) right hr n hl
end csrExpectThm

/-- **a specialisation constructed by inserting conversions computes the same operation**: if the
registered implementation refines `f` on the meanings and every converter preserves the meaning, so
does the constructed one — for every requested combination of operand and output formats -/
theorem constructed_refines {M : Type} (L : Layer M) {a b c a' b' c' : L.Fmt} (f : M → M → M)
    (impl : L.Repr a → L.Repr b → L.Repr c) (himpl : ∀ x y, L.abs (impl x y) = f (L.abs x) (L.abs y))
    (ca : L.Repr a' → L.Repr a) (hca : ∀ x, L.abs (ca x) = L.abs x)
    (cb : L.Repr b' → L.Repr b) (hcb : ∀ x, L.abs (cb x) = L.abs x)
    (cc : L.Repr c → L.Repr c') (hcc : ∀ x, L.abs (cc x) = L.abs x)
    (x : L.Repr a') (y : L.Repr b') :
    L.abs (constructed L impl ca cb cc x y) = f (L.abs x) (L.abs y) := by
  unfold constructed
  rw [hcc, himpl, hca, hcb]

/-- chains of converters preserve the meaning: any conversion path the dispatcher stores does -/
theorem chain_preserves {M : Type} (L : Layer M) {a b c : L.Fmt}
    (c1 : L.Repr a → L.Repr b) (h1 : ∀ x, L.abs (c1 x) = L.abs x)
    (c2 : L.Repr b → L.Repr c) (h2 : ∀ x, L.abs (c2 x) = L.abs x) (x : L.Repr a) :
    L.abs (c2 (c1 x)) = L.abs x := by rw [h2, h1]

end Qv.C01
