import Qv.Proofs.C05
/-!
# C05 — time-dependent operators evaluate pointwise in time

Theorems about the element algebra behind `QobjEvo` interpreted over square matrices on any
commutative star ring (so for all complex scalars), for every element kind and mixture, every
transform stack and every expression tree: evaluating the result of an operation at `t` equals the
operation applied to the values at `t`.  Tied to `_element.pyx` / `qobjevo.pyx` by the tree
correspondence in harness/c05.py.
-/
set_option linter.unusedSectionVars false
namespace Qv.C05

open Matrix

variable {n : Type} [Fintype n] [DecidableEq n] {R : Type} [CommRing R] [StarRing R]

local notation "𝔸" => matrixAlg n R

/-- every element of a QobjEvo is well formed -/
def WFQ (q : QEvo R (Matrix n n R)) : Prop := ∀ e ∈ q, WF e

theorem foldl_add_eq (f : Elem R (Matrix n n R) → Matrix n n R) (q : List (Elem R (Matrix n n R)))
    (a : Matrix n n R) : q.foldl (fun acc e => acc + f e) a = a + (q.map f).sum := by
  induction q generalizing a with
  | nil => simp
  | cons e q ih => simp [ih, add_assoc]

theorem eval_eq_sum (t : Int) (q : QEvo R (Matrix n n R)) : q.eval 𝔸 t = (q.map (val t)).sum := by
  have := foldl_add_eq (val t) q 0
  rw [zero_add] at this
  exact this

/-- `(A + B)(t) = A(t) + B(t)` -/
theorem eval_add (t : Int) (x y : QEvo R (Matrix n n R)) :
    (x.add y).eval 𝔸 t = x.eval 𝔸 t + y.eval 𝔸 t := by
  simp [eval_eq_sum, QEvo.add]

/-- `(z·A)(t) = z·A(t)` -/
theorem eval_mulScalar (t : Int) (z : R) (x : QEvo R (Matrix n n R)) (hx : WFQ x) :
    (x.mulScalar 𝔸 z).eval 𝔸 t = z • x.eval 𝔸 t ∧ WFQ (x.mulScalar 𝔸 z) := by
  induction x with
  | nil => exact ⟨by simp [eval_eq_sum, QEvo.mulScalar], by intro e he; simp [QEvo.mulScalar] at he⟩
  | cons e x ih =>
    obtain ⟨a, b⟩ := val_mulScalar t z e (hx e List.mem_cons_self)
    obtain ⟨c, d⟩ := ih (fun e' he' => hx e' (List.mem_cons_of_mem _ he'))
    refine ⟨?_, ?_⟩
    · simp only [eval_eq_sum, QEvo.mulScalar, List.map_cons, List.sum_cons] at c ⊢
      rw [a, c, smul_add]
    · intro e' he'
      simp only [QEvo.mulScalar, List.map_cons, List.mem_cons] at he'
      rcases he' with h | h
      · rw [h]; exact b
      · exact d e' h

/-- `(A @ B)(t) = A(t) @ B(t)` (all pairs of element kinds) -/
theorem eval_matmul (t : Int) (x y : QEvo R (Matrix n n R)) (hx : WFQ x) (hy : WFQ y) :
    (QEvo.matmul 𝔸 x y).eval 𝔸 t = x.eval 𝔸 t * y.eval 𝔸 t ∧ WFQ (QEvo.matmul 𝔸 x y) := by
  have row : ∀ (l : Elem R (Matrix n n R)), WF l → ∀ (ys : QEvo R (Matrix n n R)), WFQ ys →
      ((ys.map fun r => Elem.matmul 𝔸 l r).map (val t)).sum = val t l * (ys.map (val t)).sum ∧
      WFQ (ys.map fun r => Elem.matmul 𝔸 l r) := by
    intro l hl ys
    induction ys with
    | nil => intro _; exact ⟨by simp, by intro e he; simp at he⟩
    | cons r ys ih =>
      intro hys
      obtain ⟨a, b⟩ := val_matmul t l r hl (hys r List.mem_cons_self)
      obtain ⟨c, d⟩ := ih (fun e he => hys e (List.mem_cons_of_mem _ he))
      refine ⟨?_, ?_⟩
      · simp only [List.map_cons, List.sum_cons]
        rw [a, c, mul_add]
      · intro e he
        simp only [List.map_cons, List.mem_cons] at he
        rcases he with h | h
        · rw [h]; exact b
        · exact d e h
  induction x with
  | nil => exact ⟨by simp [eval_eq_sum, QEvo.matmul], by intro e he; simp [QEvo.matmul] at he⟩
  | cons l x ih =>
    obtain ⟨a, b⟩ := row l (hx l List.mem_cons_self) y hy
    obtain ⟨c, d⟩ := ih (fun e he => hx e (List.mem_cons_of_mem _ he))
    refine ⟨?_, ?_⟩
    · simp only [eval_eq_sum, QEvo.matmul, List.flatMap_cons, List.map_append, List.sum_append,
        List.map_cons, List.sum_cons] at c ⊢
      rw [a, c, add_mul]
    · intro e he
      simp only [QEvo.matmul, List.flatMap_cons, List.mem_append] at he
      rcases he with h | h
      · exact b e h
      · exact d e h

/-- `A.dag()(t) = A(t)†`, `A.trans()(t) = A(t)ᵀ`, `A.conj()(t) = conj A(t)` -/
theorem eval_linearMap (t : Int) (g : Tr) (x : QEvo R (Matrix n n R)) (hx : WFQ x) :
    (x.linearMap 𝔸 g).eval 𝔸 t = g.ap 𝔸 (x.eval 𝔸 t) ∧ WFQ (x.linearMap 𝔸 g) := by
  induction x with
  | nil => exact ⟨by simp [eval_eq_sum, QEvo.linearMap, ap_zero], by intro e he; simp [QEvo.linearMap] at he⟩
  | cons e x ih =>
    obtain ⟨a, b⟩ := val_linearMap t g e (hx e List.mem_cons_self)
    obtain ⟨c, d⟩ := ih (fun e' he' => hx e' (List.mem_cons_of_mem _ he'))
    refine ⟨?_, ?_⟩
    · simp only [eval_eq_sum, QEvo.linearMap, List.map_cons, List.sum_cons] at c ⊢
      rw [a, c, ap_add]
    · intro e' he'
      simp only [QEvo.linearMap, List.map_cons, List.mem_cons] at he'
      rcases he' with h | h
      · rw [h]; exact b
      · exact d e' h

/-- the value an expression denotes at time `t`, computed on the values of its leaves -/
def Expr.denote (t : Int) : Expr R (Matrix n n R) → Matrix n n R
  | .leaf q => q.eval 𝔸 t
  | .add x y => x.denote t + y.denote t
  | .sub x y => x.denote t - y.denote t
  | .neg x => -x.denote t
  | .smul z x => z • x.denote t
  | .mul x y => x.denote t * y.denote t
  | .tr g x => g.ap 𝔸 (x.denote t)

def Expr.WFL : Expr R (Matrix n n R) → Prop
  | .leaf q => WFQ q
  | .add x y => x.WFL ∧ y.WFL
  | .sub x y => x.WFL ∧ y.WFL
  | .neg x => x.WFL
  | .smul _ x => x.WFL
  | .mul x y => x.WFL ∧ y.WFL
  | .tr _ x => x.WFL

/-- **Pointwise evaluation of every expression tree**: building the time-dependent operator with the
library's algebra and evaluating it at `t` equals evaluating the leaves at `t` and combining the
values. -/
theorem tree_pointwise (t : Int) (e : Expr R (Matrix n n R)) (h : e.WFL) :
    (e.build 𝔸 (-1)).eval 𝔸 t = e.denote t ∧ WFQ (e.build 𝔸 (-1)) := by
  induction e with
  | leaf q => exact ⟨rfl, h⟩
  | add x y ihx ihy =>
    obtain ⟨a, b⟩ := ihx h.1; obtain ⟨c, d⟩ := ihy h.2
    refine ⟨by simp only [Expr.build, Expr.denote]; rw [eval_add, a, c], ?_⟩
    intro e he
    rcases List.mem_append.mp he with h1 | h1
    · exact b e h1
    · exact d e h1
  | sub x y ihx ihy =>
    obtain ⟨a, b⟩ := ihx h.1; obtain ⟨c, d⟩ := ihy h.2
    obtain ⟨m1, m2⟩ := eval_mulScalar t (-1) _ d
    refine ⟨by simp only [Expr.build, Expr.denote]; rw [eval_add, a, m1, c]; simp [sub_eq_add_neg], ?_⟩
    intro e he
    rcases List.mem_append.mp he with h1 | h1
    · exact b e h1
    · exact m2 e h1
  | neg x ih =>
    obtain ⟨a, b⟩ := ih h
    obtain ⟨m1, m2⟩ := eval_mulScalar t (-1) _ b
    exact ⟨by simp only [Expr.build, Expr.denote]; rw [m1, a]; simp, m2⟩
  | smul z x ih =>
    obtain ⟨a, b⟩ := ih h
    obtain ⟨m1, m2⟩ := eval_mulScalar t z _ b
    exact ⟨by simp only [Expr.build, Expr.denote]; rw [m1, a], m2⟩
  | mul x y ihx ihy =>
    obtain ⟨a, b⟩ := ihx h.1; obtain ⟨c, d⟩ := ihy h.2
    obtain ⟨m1, m2⟩ := eval_matmul t _ _ b d
    exact ⟨by simp only [Expr.build, Expr.denote]; rw [m1, a, c], m2⟩
  | tr g x ih =>
    obtain ⟨a, b⟩ := ih h
    obtain ⟨m1, m2⟩ := eval_linearMap t g _ b
    exact ⟨by simp only [Expr.build, Expr.denote]; rw [m1, a], m2⟩

/-- leaves as the constructors produce them are well formed (no product elements yet) -/
theorem wf_basic_leaf (q : QEvo R (Matrix n n R))
    (h : ∀ e ∈ q, match e with | .prod _ _ _ _ => False | _ => True) : WFQ q := by
  intro e he
  have := h e he
  cases e <;> simp_all [WF]

/-! Non-vacuity and the repaired defect: multiplying `(f(t) @ B).dag()` by `i` (exact Gaussian
integer instance).  With the factor handed to the right operand unconjugated — the behaviour before
the `fix:` commit — the value would be `-i · X(t)†`. -/
example :
    let A := giAlg
    let f : Int → GM2 := fun t => ⟨⟨1, 0⟩, ⟨t, 0⟩, ⟨0, 0⟩, ⟨1, 0⟩⟩
    let B : GM2 := ⟨⟨0, 0⟩, ⟨1, 0⟩, ⟨1, 0⟩, ⟨0, 0⟩⟩
    let x : Elem GI GM2 := (Elem.matmul A (.func f) (.const B)).linearMap A .dag
    (x.mulScalar A ⟨0, 1⟩).value A 3 = A.smul ⟨0, 1⟩ (x.value A 3) := by decide

end Qv.C05
