import Qv.Proofs.C03
import Mathlib.Data.Complex.BigOperators
import Mathlib.Tactic.Linarith
/-!
# C03 — cached Hermitian / unitary flags never contradict the matrix

* `rule_sound_*`: for every operation of the catalogue, *any* propagation rule that passes
  `ruleAllowed` (the obligation re-checked on every run for the rules tabulated from /repo, see
  `Qv/Gen/FlagRules.lean`) yields a sound cache from sound operand caches — for complex matrices of
  every size.
* `history_sound`: hence, for every finite program of operations and flag reads, every cache of
  every object stays sound.
-/
set_option linter.unusedSectionVars false
namespace Qv.C03

open Matrix

/- `Nonempty n`: a `Qobj` has at least one row (qutip rejects empty objects); it is what makes
"A Hermitian, z not real ⇒ A + z·1 not Hermitian" true. -/
variable {n : Type} [Fintype n] [DecidableEq n] [Nonempty n]

/-- a quantum object: matrix and the two tri-state caches -/
structure Obj (n : Type) where
  mat : Matrix n n ℂ
  h : Tri
  u : Tri

def Obj.Sound (o : Obj n) : Prop := Qv.C03.Sound o.h o.mat.IsHermitian ∧ Qv.C03.Sound o.u (U o.mat)

/-- the propagation rules in force (one per catalogue entry used below) -/
structure Rules where
  addH : Tri → Tri → Tri
  subH : Tri → Tri → Tri
  negH : Tri → Tri → Tri
  negU : Tri → Tri → Tri
  matmulH : Tri → Tri → Tri
  matmulU : Tri → Tri → Tri
  dagH : Tri → Tri → Tri
  dagU : Tri → Tri → Tri
  powH : Tri → Tri → Tri
  powU : Tri → Tri → Tri
  mulRealH : Tri → Tri → Tri
  saddRealH : Tri → Tri → Tri
  saddImagH : Tri → Tri → Tri

structure Rules.Allowed (R : Rules) : Prop where
  addH : ruleAllowed .addH R.addH = true
  subH : ruleAllowed .subH R.subH = true
  negH : ruleAllowed .negH R.negH = true
  negU : ruleAllowed .negU R.negU = true
  matmulH : ruleAllowed .matmulH R.matmulH = true
  matmulU : ruleAllowed .matmulU R.matmulU = true
  dagH : ruleAllowed .dagH R.dagH = true
  dagU : ruleAllowed .dagU R.dagU = true
  powH : ruleAllowed .powH R.powH = true
  powU : ruleAllowed .powU R.powU = true
  mulRealH : ruleAllowed .mulRealH R.mulRealH = true
  saddRealH : ruleAllowed .saddRealH R.saddRealH = true
  saddImagH : ruleAllowed .saddImagH R.saddImagH = true

/-- a rule that passes `ruleAllowed` for an operation whose strongest claim is "nothing" claims nothing -/
theorem allowed_none {op : Op} {r : Tri → Tri → Tri} (hr : ruleAllowed op r = true)
    (hmax : ∀ a b, maxRule op a b = none) (a b : Tri) (P : Prop) : Sound (r a b) P :=
  allowed_sound hr a b (by rw [hmax]; exact sound_none _)

inductive Step (n : Type)
  | add (i j : Nat) | sub (i j : Nat) | neg (i : Nat) | matmul (i j : Nat) | dag (i : Nat)
  | pow (i : Nat) (k : Nat) | mulReal (i : Nat) (r : ℝ)
  | sadd (i : Nat) (z : ℂ)            -- a number next to a square object: A + z·1
  | readH (i : Nat) | readU (i : Nat)
  | fresh (A : Matrix n n ℂ)          -- a new object with empty caches

open Classical in
/-- one step of a program over a store of objects (results are appended; reads fill a cache with the
truth, as `isherm` / `isunitary` do) -/
noncomputable def exec (R : Rules) (st : List (Obj n)) : Step n → List (Obj n)
  | .add i j => match st[i]?, st[j]? with
    | some x, some y => st ++ [⟨x.mat + y.mat, R.addH x.h y.h, none⟩]
    | _, _ => st
  | .sub i j => match st[i]?, st[j]? with
    | some x, some y => st ++ [⟨x.mat - y.mat, R.subH x.h y.h, none⟩]
    | _, _ => st
  | .neg i => match st[i]? with
    | some x => st ++ [⟨-x.mat, R.negH x.h none, R.negU x.u none⟩]
    | none => st
  | .matmul i j => match st[i]?, st[j]? with
    | some x, some y => st ++ [⟨x.mat * y.mat, R.matmulH x.h y.h, R.matmulU x.u y.u⟩]
    | _, _ => st
  | .dag i => match st[i]? with
    | some x => st ++ [⟨x.matᴴ, R.dagH x.h none, R.dagU x.u none⟩]
    | none => st
  | .pow i k => match st[i]? with
    | some x => st ++ [⟨x.mat ^ (k + 1), R.powH x.h none, R.powU x.u none⟩]
    | none => st
  | .mulReal i r => match st[i]? with
    | some x => if r = 0 then st else st ++ [⟨(r : ℂ) • x.mat, R.mulRealH x.h none, none⟩]
    | none => st
  | .sadd i z => match st[i]? with
    | some x => st ++ [⟨x.mat + z • (1 : Matrix n n ℂ),
        if z.im = 0 then R.saddRealH x.h none else R.saddImagH x.h none, none⟩]
    | none => st
  | .readH i => match st[i]? with
    | some x => st.set i { x with h := some (decide x.mat.IsHermitian) }
    | none => st
  | .readU i => match st[i]? with
    | some x => st.set i { x with u := some (decide (U x.mat)) }
    | none => st
  | .fresh A => st ++ [⟨A, none, none⟩]

noncomputable def run (R : Rules) (st : List (Obj n)) (prog : List (Step n)) : List (Obj n) :=
  prog.foldl (exec R) st

theorem sound_append {st : List (Obj n)} (hs : ∀ o ∈ st, o.Sound) {o : Obj n} (ho : o.Sound) :
    ∀ x ∈ st ++ [o], x.Sound := by
  intro x hx
  rcases List.mem_append.mp hx with h | h
  · exact hs x h
  · simp at h; subst h; exact ho

theorem mem_of_getElem? {st : List (Obj n)} {i : Nat} {x : Obj n} (h : st[i]? = some x) : x ∈ st :=
  List.mem_of_getElem? h

theorem exec_sound (R : Rules) (hR : R.Allowed) (st : List (Obj n)) (hs : ∀ o ∈ st, o.Sound)
    (s : Step n) : ∀ o ∈ exec R st s, o.Sound := by
  cases s with
  | add i j =>
    simp only [exec]
    split
    · rename_i x y hx hy
      have sx := hs x (mem_of_getElem? hx); have sy := hs y (mem_of_getElem? hy)
      exact sound_append hs ⟨allowed_sound hR.addH _ _ (addH_sound _ _ _ _ sx.1 sy.1), sound_none _⟩
    · exact hs
  | sub i j =>
    simp only [exec]
    split
    · rename_i x y hx hy
      have sx := hs x (mem_of_getElem? hx); have sy := hs y (mem_of_getElem? hy)
      exact sound_append hs ⟨allowed_sound hR.subH _ _ (subH_sound _ _ _ _ sx.1 sy.1), sound_none _⟩
    · exact hs
  | neg i =>
    simp only [exec]
    split
    · rename_i x hx
      have sx := hs x (mem_of_getElem? hx)
      exact sound_append hs ⟨allowed_sound hR.negH _ _ (negH_sound _ _ _ sx.1),
        allowed_sound hR.negU _ _ (negU_sound _ _ _ sx.2)⟩
    · exact hs
  | matmul i j =>
    simp only [exec]
    split
    · rename_i x y hx hy
      have sx := hs x (mem_of_getElem? hx); have sy := hs y (mem_of_getElem? hy)
      exact sound_append hs ⟨allowed_none hR.matmulH (by intro a b; rfl) _ _ _,
        allowed_sound hR.matmulU _ _ (matmulU_sound _ _ _ _ sx.2 sy.2)⟩
    · exact hs
  | dag i =>
    simp only [exec]
    split
    · rename_i x hx
      have sx := hs x (mem_of_getElem? hx)
      exact sound_append hs ⟨allowed_sound hR.dagH _ _ (dagH_sound _ _ _ sx.1),
        allowed_sound hR.dagU _ _ (dagU_sound _ _ _ sx.2)⟩
    · exact hs
  | pow i k =>
    simp only [exec]
    split
    · rename_i x hx
      have sx := hs x (mem_of_getElem? hx)
      exact sound_append hs ⟨allowed_sound hR.powH _ _ (powH_sound _ _ _ _ sx.1),
        allowed_sound hR.powU _ _ (powU_sound _ _ _ _ sx.2)⟩
    · exact hs
  | mulReal i r =>
    simp only [exec]
    split
    · rename_i x hx
      have sx := hs x (mem_of_getElem? hx)
      split
      · exact hs
      · rename_i hr
        exact sound_append hs ⟨allowed_sound hR.mulRealH _ _ (mulRealH_sound _ r hr _ _ sx.1), sound_none _⟩
    · exact hs
  | sadd i z =>
    simp only [exec]
    split
    · rename_i x hx
      have sx := hs x (mem_of_getElem? hx)
      refine sound_append hs ⟨?_, sound_none _⟩
      show Qv.C03.Sound (if z.im = 0 then R.saddRealH x.h none else R.saddImagH x.h none) _
      split
      · rename_i hz
        have hzr : z = ((z.re : ℝ) : ℂ) := Complex.ext (by simp) (by simpa using hz)
        rw [hzr]
        exact allowed_sound hR.saddRealH _ _ (saddRealH_sound _ z.re _ _ sx.1)
      · rename_i hz
        exact allowed_sound hR.saddImagH _ _ (saddImagH_sound _ z hz _ _ sx.1)
    · exact hs
  | readH i =>
    simp only [exec]
    split
    · rename_i x hx
      have sx := hs x (mem_of_getElem? hx)
      intro o ho
      rcases List.mem_or_eq_of_mem_set ho with h | h
      · exact hs o h
      · subst h
        refine ⟨?_, sx.2⟩
        intro b hb
        simp only [Option.some.injEq] at hb
        subst hb
        simp
    · exact hs
  | readU i =>
    simp only [exec]
    split
    · rename_i x hx
      have sx := hs x (mem_of_getElem? hx)
      intro o ho
      rcases List.mem_or_eq_of_mem_set ho with h | h
      · exact hs o h
      · subst h
        refine ⟨sx.1, ?_⟩
        intro b hb
        simp only [Option.some.injEq] at hb
        subst hb
        simp
    · exact hs
  | fresh A =>
    exact sound_append hs ⟨sound_none _, sound_none _⟩

/-- **No sequence of operations and flag inspections produces a cache that contradicts the matrix**,
as long as the propagation rules in force pass `ruleAllowed` (the per-run obligation). -/
theorem history_sound (R : Rules) (hR : R.Allowed) (prog : List (Step n)) :
    ∀ (st : List (Obj n)), (∀ o ∈ st, o.Sound) → ∀ o ∈ run R st prog, o.Sound := by
  induction prog with
  | nil => intro st hs; exact hs
  | cons s prog ih =>
    intro st hs
    exact ih (exec R st s) (exec_sound R hR st hs s)

/-- The consumers that trust a cached `isherm = True` are exact: the diagonal, hence the trace, of a
Hermitian matrix is real, so casting them to real loses nothing. -/
theorem consumers_exact (o : Obj n) (ho : o.Sound) (hh : o.h = some true) :
    (∀ i, (o.mat i i).im = 0) ∧ o.mat.trace.im = 0 ∧ o.matᴴ = o.mat := by
  have hH : o.mat.IsHermitian := (ho.1 true hh).mp rfl
  have hd : ∀ i, (o.mat i i).im = 0 := by
    intro i
    have := congrFun (congrFun hH.eq i) i
    simp only [conjTranspose_apply] at this
    have h2 := congrArg Complex.im this
    simp at h2
    linarith
  refine ⟨hd, ?_, hH.eq⟩
  simp only [Matrix.trace, Matrix.diag, Complex.im_sum]
  exact Finset.sum_eq_zero (fun i _ => hd i)

/-! The rules of the repaired code (as tabulated on the pinned tree after the `fix:` commits) are an
instance; the over-claiming rule `a and b` for the unitary flag of a product is rejected. -/
example : ruleAllowed .matmulU (fun a b => if a.isSome && b.isSome && (a == some true || b == some true)
    then pyAnd a b else none) = true := by decide
example : ruleAllowed .matmulU pyAnd = false := by decide
example : overclaims .matmulU pyAnd = [(some false, none, some false), (some false, some false, some false)] := by
  decide

end Qv.C03
