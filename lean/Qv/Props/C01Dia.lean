import Qv.Model.C01
/-!
# C01 — diagonals stored entirely outside the matrix hold no entry

SciPy accepts a `dia_matrix` with offsets beyond the shape.  Since the repair of the pinned tree
(`Dia.__init__`) such diagonals are dropped at construction.  In the model an entry `(i, j)` inside the
matrix is read from the last stored diagonal with offset `j - i`; that offset lies strictly between
`-rows` and `cols`, so dropping every diagonal outside that range changes no entry — the matrix the
object stands for is the same before and after, for every list of diagonals (repeated offsets, any
order, junk values in the slots outside the matrix).
-/
namespace Qv.C01

variable {R : Type} [OfNat R 0]

/-- what `Dia.__init__` keeps: the diagonals that cross the matrix -/
def Dia.dropOutside (m : Dia R) : Dia R :=
  { m with diags := m.diags.filter fun d => decide (d.1 < (m.cols : Int) ∧ -(m.rows : Int) < d.1) }

theorem find?_filter_of_imp {α : Type} (p q : α → Bool) (h : ∀ x, p x = true → q x = true) (l : List α) :
    (l.filter q).find? p = l.find? p := by
  induction l with
  | nil => rfl
  | cons a l ih =>
    by_cases hq : q a = true
    · rw [List.filter_cons_of_pos hq, List.find?_cons, List.find?_cons, ih]
    · have hp : p a = false := by
        cases hpa : p a with
        | false => rfl
        | true => exact absurd (h a hpa) hq
      rw [List.filter_cons_of_neg hq, List.find?_cons, hp, ih]

/-- **dropping the diagonals outside the matrix changes no entry of the matrix** -/
theorem Dia.dropOutside_abs (m : Dia R) (i j : Nat) (hi : i < m.rows) (hj : j < m.cols) :
    m.dropOutside.abs i j = m.abs i j := by
  unfold Dia.abs Dia.dropOutside
  simp only
  rw [← List.filter_reverse]
  rw [find?_filter_of_imp]
  intro d hd
  have ho : d.1 = (j : Int) - (i : Int) := by simpa using hd
  simp only [decide_eq_true_eq]
  omega

/-- the shape is kept -/
theorem Dia.dropOutside_shape (m : Dia R) : m.dropOutside.rows = m.rows ∧ m.dropOutside.cols = m.cols :=
  ⟨rfl, rfl⟩

/-- every diagonal that is kept crosses the matrix: the loop bounds of the kernels (`max(0, offset)` up
to `min(cols, rows + offset)`) are then a non-empty or empty *ordinary* range, never a negative length -/
theorem Dia.dropOutside_in_range (m : Dia R) (d : Int × (Nat → R)) (hd : d ∈ m.dropOutside.diags) :
    max 0 d.1 ≤ min (m.cols : Int) (m.rows + d.1) ∨ (m.rows = 0 ∨ m.cols = 0) := by
  unfold Dia.dropOutside at hd
  simp only [List.mem_filter, decide_eq_true_eq] at hd
  omega

/-- non-vacuity: the 3x3 identity written with offsets [5, -5, 0] (junk on the outer ones) -/
example :
    let m : Dia Int := { rows := 3, cols := 3, diags := [(5, fun _ => 7), (-5, fun _ => 7), (0, fun _ => 1)] }
    m.dropOutside.diags.map (·.1) = [0] ∧ m.dropOutside.abs 1 1 = 1 ∧ m.dropOutside.abs 0 2 = 0 := by
  decide

end Qv.C01
