import Mathlib.LinearAlgebra.Matrix.Vec
import Mathlib.LinearAlgebra.Matrix.Kronecker
import Mathlib.LinearAlgebra.Matrix.Trace
import Mathlib.LinearAlgebra.Matrix.ConjTranspose
import Mathlib.LinearAlgebra.Matrix.Hermitian
import Mathlib.Data.Complex.Basic
import Mathlib.Tactic.Ring
import Mathlib.Tactic.Abel
import Mathlib.Tactic.Module
/-!
# C07 — superoperator constructors implement the operator identities they stand for

Stated in Mathlib's vocabulary (`⊗ₖ`, `Matrix.vec` = column stacking, `conjTranspose`, `trace`) for
square matrices of *every* size over ℂ.  The formulas are the ones of `superoperator.py`
(`spre A = 1 ⊗ A`, `spost A = Aᵀ ⊗ 1`, `sprepost A B = Bᵀ ⊗ A`, the assembly of `liouvillian` and
`lindblad_dissipator`); the executable copy of these formulas (Qv.Model.C07) is compared with the real
constructors on exact inputs by harness/c07.py.
-/
namespace Qv.C07

open Matrix Kronecker

variable {n : Type} [Fintype n] [DecidableEq n]

/-- the formulas of the constructors -/
def spreS (A : Matrix n n ℂ) : Matrix (n × n) (n × n) ℂ := (1 : Matrix n n ℂ) ⊗ₖ A
def spostS (A : Matrix n n ℂ) : Matrix (n × n) (n × n) ℂ := Aᵀ ⊗ₖ (1 : Matrix n n ℂ)
def sprepostS (A B : Matrix n n ℂ) : Matrix (n × n) (n × n) ℂ := Bᵀ ⊗ₖ A

/-- left multiplication: `spre(A) vec(X) = vec(A X)` -/
theorem spre_vec (A X : Matrix n n ℂ) : spreS A *ᵥ vec X = vec (A * X) := by
  unfold spreS
  rw [kronecker_mulVec_vec]; simp

/-- right multiplication: `spost(A) vec(X) = vec(X A)` -/
theorem spost_vec (A X : Matrix n n ℂ) : spostS A *ᵥ vec X = vec (X * A) := by
  unfold spostS
  rw [kronecker_mulVec_vec]; simp

/-- sandwich: `sprepost(A, B) vec(X) = vec(A X B)` -/
theorem sprepost_vec (A B X : Matrix n n ℂ) : sprepostS A B *ᵥ vec X = vec (A * X * B) := by
  unfold sprepostS
  rw [kronecker_mulVec_vec]; simp

/-- stacking and unstacking are mutually inverse (column stacking is a bijection) -/
theorem stack_unstack_inverse : Function.Bijective (vec : Matrix n n ℂ → n × n → ℂ) := vec_bijective

/-- the Lindblad generator as an operator expression -/
noncomputable def lind (H : Matrix n n ℂ) (cs : List (Matrix n n ℂ)) (X : Matrix n n ℂ) : Matrix n n ℂ :=
  (-Complex.I) • (H * X - X * H) +
    (cs.map fun c => c * X * cᴴ - (1 / 2 : ℂ) • (cᴴ * c * X) - (1 / 2 : ℂ) • (X * (cᴴ * c))).sum

/-- the superoperator assembled by `liouvillian` -/
noncomputable def liouvS (H : Matrix n n ℂ) (cs : List (Matrix n n ℂ)) : Matrix (n × n) (n × n) ℂ :=
  (-Complex.I) • (spreS H - spostS H) +
    (cs.map fun c => sprepostS c cᴴ - (1 / 2 : ℂ) • spreS (cᴴ * c) - (1 / 2 : ℂ) • spostS (cᴴ * c)).sum

/-- **`liouvillian(H, c_ops)` acts on a column-stacked operator as the master-equation right-hand
side acts on the operator** — for every H, every list of collapse operators and every X. -/
theorem liouvillian_vec (H : Matrix n n ℂ) (cs : List (Matrix n n ℂ)) (X : Matrix n n ℂ) :
    liouvS H cs *ᵥ vec X = vec (lind H cs X) := by
  unfold liouvS lind
  rw [add_mulVec, smul_mulVec, sub_mulVec, spre_vec, spost_vec, vec_add, vec_smul, vec_sub]
  congr 1
  induction cs with
  | nil => simp
  | cons c cs ih =>
    simp only [List.map_cons, List.sum_cons, add_mulVec, vec_add, ih]
    congr 1
    rw [sub_mulVec, sub_mulVec, smul_mulVec, smul_mulVec, sprepost_vec, spre_vec, spost_vec,
      vec_sub, vec_sub, vec_smul, vec_smul]

/-- **Every generator sends every operator to a traceless one** (the evolution preserves the trace),
for arbitrary H and collapse operators. -/
theorem liouvillian_traceless (H : Matrix n n ℂ) (cs : List (Matrix n n ℂ)) (X : Matrix n n ℂ) :
    (lind H cs X).trace = 0 := by
  unfold lind
  rw [trace_add, trace_smul, trace_sub, trace_mul_comm H X, sub_self, smul_zero, zero_add, trace_list_sum]
  apply List.sum_eq_zero
  intro t ht
  simp only [List.map_map, List.mem_map, Function.comp] at ht
  obtain ⟨c, _, rfl⟩ := ht
  rw [trace_sub, trace_sub, trace_smul, trace_smul]
  have h1 : (c * X * cᴴ).trace = (cᴴ * c * X).trace := by
    rw [trace_mul_comm (c * X) cᴴ, Matrix.mul_assoc]
  have h2 : (X * (cᴴ * c)).trace = (cᴴ * c * X).trace := trace_mul_comm _ _
  rw [h1, h2]
  simp only [smul_eq_mul]
  ring

/-- **For a Hermitian Hamiltonian the generator commutes with taking the adjoint** (the evolution
preserves Hermiticity). -/
theorem liouvillian_adjoint_commute (H : Matrix n n ℂ) (hH : H.IsHermitian) (cs : List (Matrix n n ℂ))
    (X : Matrix n n ℂ) : (lind H cs X)ᴴ = lind H cs Xᴴ := by
  unfold lind
  rw [conjTranspose_add, conjTranspose_smul, conjTranspose_sub, conjTranspose_mul, conjTranspose_mul,
    hH.eq]
  congr 1
  · simp only [star_neg, Complex.star_def, Complex.conj_I, neg_neg]
    rw [← neg_sub (H * Xᴴ) (Xᴴ * H), smul_neg, neg_smul]
  · induction cs with
    | nil => simp
    | cons c cs ih =>
      simp only [List.map_cons, List.sum_cons, conjTranspose_add, ih]
      congr 1
      simp only [conjTranspose_sub, conjTranspose_smul, conjTranspose_mul, conjTranspose_conjTranspose,
        Matrix.mul_assoc]
      have : star (1 / 2 : ℂ) = 1 / 2 := by simp
      rw [this]
      abel

/-! ### the dissipator with a counting field and with two different operators -/

/-- `lindblad_dissipator(a, b, chi)` as an operator expression: `z a X b† − ½ a†b X − ½ X a†b`, `z = e^{iχ}` -/
noncomputable def dissChi (z : ℂ) (a b : Matrix n n ℂ) (X : Matrix n n ℂ) : Matrix n n ℂ :=
  z • (a * X * bᴴ) - (1 / 2 : ℂ) • (aᴴ * b * X) - (1 / 2 : ℂ) • (X * (aᴴ * b))

/-- the superoperator assembled by `lindblad_dissipator` -/
noncomputable def dissChiS (z : ℂ) (a b : Matrix n n ℂ) : Matrix (n × n) (n × n) ℂ :=
  z • sprepostS a bᴴ - (1 / 2 : ℂ) • spreS (aᴴ * b) - (1 / 2 : ℂ) • spostS (aᴴ * b)

/-- **`lindblad_dissipator(a, b, chi)` acts on a column-stacked operator as the operator expression** — the counting
field multiplies the jump term and nothing else -/
theorem dissipator_chi_vec (z : ℂ) (a b X : Matrix n n ℂ) : dissChiS z a b *ᵥ vec X = vec (dissChi z a b X) := by
  unfold dissChiS dissChi
  rw [sub_mulVec, sub_mulVec, smul_mulVec, smul_mulVec, smul_mulVec, sprepost_vec, spre_vec, spost_vec,
    vec_sub, vec_sub, vec_smul, vec_smul, vec_smul]

/-- with a counting field the generator no longer conserves the trace: it changes by `(z − 1) tr(a X a†)` — and it
does conserve it for `z = 1` -/
theorem dissipator_chi_trace (z : ℂ) (a X : Matrix n n ℂ) :
    (dissChi z a a X).trace = (z - 1) * (a * X * aᴴ).trace := by
  unfold dissChi
  rw [trace_sub, trace_sub, trace_smul, trace_smul, trace_smul]
  have h1 : (aᴴ * a * X).trace = (a * X * aᴴ).trace := by
    rw [trace_mul_comm (a * X) aᴴ, Matrix.mul_assoc]
  have h2 : (X * (aᴴ * a)).trace = (a * X * aᴴ).trace := by rw [trace_mul_comm, h1]
  rw [h1, h2]
  simp only [smul_eq_mul]
  ring

/-- the dissipator of a Hermitian operator with a counting field is a Hermiticity-preserving map only for a real
factor: `D(X)† = D̄(X†)` with the conjugate factor -/
theorem dissipator_chi_adjoint (z : ℂ) (a X : Matrix n n ℂ) :
    (dissChi z a a X)ᴴ = dissChi (star z) a a Xᴴ := by
  unfold dissChi
  simp only [conjTranspose_sub, conjTranspose_smul, conjTranspose_mul, conjTranspose_conjTranspose, Matrix.mul_assoc]
  have : star (1 / 2 : ℂ) = 1 / 2 := by simp
  rw [this]
  abel

end Qv.C07
