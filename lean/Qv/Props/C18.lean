import Qv.Model.C18
import Mathlib.Data.Matrix.Basic
import Mathlib.Data.Matrix.Mul
import Mathlib.LinearAlgebra.Matrix.Trace
import Mathlib.LinearAlgebra.Matrix.Hermitian
import Mathlib.Data.Complex.Basic
import Mathlib.Data.List.Perm.Basic
import Mathlib.Data.List.Nodup
import Mathlib.Algebra.Module.LinearMap.Basic
import Mathlib.Tactic.Ring
import Mathlib.Tactic.NoncommRing
import Mathlib.Tactic.Linarith
/-!
# C18 — every steady-state method returns a normalised fixed point: the exact part

What `steadystate.py` does *around* the numerical linear algebra, proved for every generator, weight,
dimension and permutation: the constrained system of the direct method has exactly the normalised
null vectors as solutions; replacing a row by the trace functional (hierarchy solver) likewise;
reordering rows/columns and undoing it with `argsort` returns the solution of the original system;
symmetrising and dividing by the trace give a Hermitian unit-trace operator; `Q·L⁻¹·Q` satisfies the
defining relations of the pseudo-inverse.  The numerical solvers themselves are validated, not proved.
-/
set_option linter.unusedVariables false
set_option linter.unusedSectionVars false
namespace Qv.C18
open Matrix

/-! ### the trace constraint of `_steadystate_direct` -/
section constraint
variable {K V : Type} [Field K] [AddCommGroup V] [Module K V]

/-- `(A + w·e₀·τ) x = w·e₀  ⇔  A x = 0 ∧ τ x = 1` whenever the generator preserves the trace
(`τ ∘ A = 0`), `e₀` is a diagonal position (`τ e₀ = 1`) and the weight is not zero: the linear system
handed to the solver has exactly the unit-trace stationary states as solutions. -/
theorem constraint_row_lemma (A : V →ₗ[K] V) (τ : V →ₗ[K] K) (e₀ : V) (w : K)
    (hτA : ∀ x, τ (A x) = 0) (hτe : τ e₀ = 1) (hw : w ≠ 0) (x : V) :
    A x + (w * τ x) • e₀ = w • e₀ ↔ (A x = 0 ∧ τ x = 1) := by
  constructor
  · intro h
    have h2 := congrArg τ h
    simp only [map_add, map_smul, hτA, hτe, smul_eq_mul, mul_one, zero_add] at h2
    have ht : τ x = 1 := by
      have : w * τ x = w * 1 := by rw [mul_one]; exact h2
      exact mul_left_cancel₀ hw this
    refine ⟨?_, ht⟩
    rw [ht, mul_one] at h
    exact add_eq_right.mp h
  · rintro ⟨h0, h1⟩
    rw [h0, h1, mul_one, zero_add]

end constraint

/-! ### row replaced by the trace functional (hierarchy steady state) -/
section rowrepl
variable {K : Type} [Field K] {n : Type} [Fintype n] [DecidableEq n]

theorem row_replacement_lemma (M : Matrix n n K) (τ : n → K) (i₀ : n) (hτ : τ i₀ = 1)
    (hτM : τ ᵥ* M = 0) (x : n → K) :
    (M.updateRow i₀ τ) *ᵥ x = Pi.single i₀ 1 ↔ (M *ᵥ x = 0 ∧ τ ⬝ᵥ x = 1) := by
  constructor
  · intro h
    have hrow : ∀ j, j ≠ i₀ → (M *ᵥ x) j = 0 := by
      intro j hj
      have := congrFun h j
      simp only [Matrix.mulVec, Matrix.updateRow_ne hj, Pi.single_apply, if_neg hj] at this
      exact this
    have h0 : τ ⬝ᵥ x = 1 := by
      have := congrFun h i₀
      simpa [Matrix.mulVec, Matrix.updateRow_self] using this
    refine ⟨?_, h0⟩
    have hsum : τ ⬝ᵥ (M *ᵥ x) = 0 := by
      rw [Matrix.dotProduct_mulVec, hτM, zero_dotProduct]
    have : τ ⬝ᵥ (M *ᵥ x) = (M *ᵥ x) i₀ := by
      unfold dotProduct
      rw [Finset.sum_eq_single i₀]
      · rw [hτ, one_mul]
      · intro b _ hb; rw [hrow b hb, mul_zero]
      · intro h; exact absurd (Finset.mem_univ _) h
    funext j
    by_cases hj : j = i₀
    · subst hj; rw [← this, hsum]; rfl
    · exact hrow j hj
  · rintro ⟨hM, h1⟩
    funext j
    by_cases hj : j = i₀
    · subst hj
      simp [Matrix.mulVec, Matrix.updateRow_self, h1]
    · have := congrFun hM j
      simp only [Matrix.mulVec, Matrix.updateRow_ne hj, Pi.single_apply, if_neg hj]
      exact this

end rowrepl

/-! ### reordering: solving the permuted system and undoing the permutation -/
section perm
variable {K : Type} [Field K] {n : Type} [Fintype n] [DecidableEq n]

/-- `use_rcm`: rows and columns permuted by σ, right-hand side by σ; the solution of the permuted
system, read through σ⁻¹, solves the original system (and conversely) -/
theorem rcm_solve (L : Matrix n n K) (b : n → K) (σ : Equiv.Perm n) (y : n → K) :
    (L.submatrix σ σ) *ᵥ y = b ∘ σ ↔ L *ᵥ (y ∘ σ.symm) = b := by
  have key : (L.submatrix σ σ) *ᵥ y = (L *ᵥ (y ∘ σ.symm)) ∘ σ := by
    funext i
    simp only [Matrix.mulVec, dotProduct, Matrix.submatrix_apply, Function.comp]
    rw [← Equiv.sum_comp σ (fun k => L (σ i) k * y (σ.symm k))]
    simp
  rw [key]
  constructor
  · intro h; funext i
    have := congrFun h (σ.symm i)
    simpa using this
  · intro h; rw [h]

/-- `use_wbm`: only the equations (rows) are permuted; the unknowns are untouched -/
theorem wbm_solve (L : Matrix n n K) (b : n → K) (σ : Equiv.Perm n) (y : n → K) :
    (L.submatrix σ id) *ᵥ y = b ∘ σ ↔ L *ᵥ y = b := by
  have key : (L.submatrix σ id) *ᵥ y = (L *ᵥ y) ∘ σ := by
    funext i; simp [Matrix.mulVec, dotProduct]
  rw [key]
  constructor
  · intro h; funext i
    have := congrFun h (σ.symm i)
    simpa using this
  · intro h; rw [h]

end perm

/-! ### list level: `np.argsort(perm)` undoes `permute.indices(·, perm)` -/

theorem scatter_length {α : Type} [Inhabited α] (perm : List Nat) (x : List α) :
    (scatter perm x).length = x.length := by simp [scatter]

theorem argsort_length (perm : List Nat) : (argsort perm).length = perm.length := by simp [argsort]

theorem unscatter_scatter {α : Type} [Inhabited α] (perm : List Nat) (x : List α)
    (hp : perm.Perm (List.range x.length)) : scatter (argsort perm) (scatter perm x) = x := by
  have hlen : perm.length = x.length := by simpa using hp.length_eq
  have hnd : perm.Nodup := hp.nodup_iff.mpr List.nodup_range
  have hmem : ∀ j, j < x.length → j ∈ perm := fun j hj => hp.mem_iff.mpr (List.mem_range.mpr hj)
  have hlt : ∀ i (hi : i < perm.length), perm[i] < x.length := fun i hi =>
    List.mem_range.mp (hp.mem_iff.mp (List.getElem_mem hi))
  apply List.ext_getElem
  · simp [scatter]
  · intro j h1 h2
    simp only [scatter, List.length_map, List.length_range, List.getElem_map, List.getElem_range]
    have hj : j < perm.length := by omega
    -- the position of j in argsort perm is perm[j]
    have hpos : (argsort perm).idxOf j = perm[j] := by
      have hq : (argsort perm)[perm[j]]'(by rw [argsort_length, hlen]; exact hlt j hj) = j := by
        simp only [argsort, List.getElem_map, List.getElem_range]
        exact hnd.idxOf_getElem j hj
      have hqnd : (argsort perm).Nodup := by
        unfold argsort
        refine (List.nodup_map_iff_inj_on List.nodup_range).mpr ?_
        intro a ha b hb hab
        have ha' : a ∈ perm := hmem a (by rw [← hlen]; exact List.mem_range.mp ha)
        have hb' : b ∈ perm := hmem b (by rw [← hlen]; exact List.mem_range.mp hb)
        have := congrArg (fun i => perm[i]?) hab
        simp only [List.getElem?_idxOf ha', List.getElem?_idxOf hb'] at this
        exact Option.some.inj this
      have h3 := hqnd.idxOf_getElem perm[j] (by rw [argsort_length, hlen]; exact hlt j hj)
      rw [hq] at h3
      exact h3
    rw [hpos]
    have hpj : perm[j] < x.length := hlt j hj
    have hpj' : perm[j] < ((List.range x.length).map fun j => x.getD (perm.idxOf j) default).length := by
      simpa using hpj
    rw [List.getD_eq_getElem?_getD, List.getElem?_eq_getElem hpj', Option.getD_some]
    simp only [List.getElem_map, List.getElem_range]
    rw [hnd.idxOf_getElem j hj, List.getD_eq_getElem?_getD, List.getElem?_eq_getElem h2, Option.getD_some]

/-! ### post-processing -/
section post
variable {n : Type} [Fintype n] [DecidableEq n]

/-- `(ρ + ρ†)/2` is Hermitian and keeps a unit trace -/
theorem symmetrise (ρ : Matrix n n ℂ) (h : ρ.trace = 1) :
    (((1 : ℂ) / 2) • (ρ + ρᴴ)).IsHermitian ∧ (((1 : ℂ) / 2) • (ρ + ρᴴ)).trace = 1 := by
  constructor
  · unfold Matrix.IsHermitian
    rw [Matrix.conjTranspose_smul, Matrix.conjTranspose_add, Matrix.conjTranspose_conjTranspose, add_comm]
    congr 1
    simp
  · rw [Matrix.trace_smul, Matrix.trace_add, Matrix.trace_conjTranspose, h]
    simp
    norm_num

/-- dividing by the trace normalises (and removes any global phase of a null vector) -/
theorem normalise_by_trace (ρ : Matrix n n ℂ) (h : ρ.trace ≠ 0) : ((ρ.trace)⁻¹ • ρ).trace = 1 := by
  rw [Matrix.trace_smul, smul_eq_mul, inv_mul_cancel₀ h]

end post

/-! ### pseudo-inverse: `R = Q · L⁻¹ · Q` with `Q = 1 − P` -/
section pinv
variable {A : Type} [Ring A]

/-- for the projector `P = |ρ⟩⟩⟨⟨1|` (idempotent, commuting with the shifted generator `L`) and an
inverse `LI` of `L`, `R = Q LI Q` satisfies `L R = Q = R L`, `P R = 0 = R P` -/
theorem pseudo_inverse_relations (L LI P : A) (hP : P * P = P) (hc : P * L = L * P)
    (h1 : L * LI = 1) (h2 : LI * L = 1) :
    let Q := 1 - P
    let R := Q * LI * Q
    L * R = Q ∧ R * L = Q ∧ P * R = 0 ∧ R * P = 0 := by
  intro Q R
  have hQQ : Q * Q = Q := by
    show (1 - P) * (1 - P) = 1 - P
    rw [mul_sub, mul_one, sub_mul, one_mul, hP, sub_self, sub_zero]
  have hPQ : P * Q = 0 := by show P * (1 - P) = 0; rw [mul_sub, mul_one, hP, sub_self]
  have hQP : Q * P = 0 := by show (1 - P) * P = 0; rw [sub_mul, one_mul, hP, sub_self]
  have hQL : Q * L = L * Q := by
    show (1 - P) * L = L * (1 - P)
    rw [sub_mul, mul_sub, one_mul, mul_one, hc]
  refine ⟨?_, ?_, ?_, ?_⟩
  · show L * (Q * LI * Q) = Q
    rw [← mul_assoc, ← mul_assoc, ← hQL, mul_assoc Q L LI, h1, mul_one, hQQ]
  · show Q * LI * Q * L = Q
    rw [mul_assoc, hQL, ← mul_assoc, mul_assoc Q LI L, h2, mul_one, hQQ]
  · show P * (Q * LI * Q) = 0
    rw [← mul_assoc, ← mul_assoc, hPQ, zero_mul, zero_mul]
  · show Q * LI * Q * P = 0
    rw [mul_assoc, hQP, mul_zero]

end pinv

end Qv.C18
