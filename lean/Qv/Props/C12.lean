import Qv.Proofs.C12
import Qv.Gen.ResultFlags
/-!
# C12 — result objects report exactly what was computed, aligned with the time list

Theorems about the model of `Result` and of the `Solver.run` loop, for every option set, every list
of expectation operations and every trajectory of (time, state) pairs produced by an integrator
that reuses its buffer.  `copy_rule` uses the `requires_copy` flags regenerated from result.py.
-/
namespace Qv.C12

variable {S V : Type}

/-- One time per integrator output, and every expectation list has exactly that length with entry k
equal to the operation evaluated on the state at time k. -/
theorem lengths_and_alignment (o : Opts) (cs cf : Bool) (eops : List (Int → S → V))
    (he : eops.length = o.nEops) (traj : List (Int × S)) :
    (runLoop o cs cf eops traj).times = traj.map Prod.fst ∧
    (runLoop o cs cf eops traj).eData.length = o.nEops ∧
    ∀ (i : Nat) (f : Int → S → V), eops[i]? = some f →
      (runLoop o cs cf eops traj).eData[i]? = some (traj.map (fun tx => f tx.1 tx.2)) := by
  have h := loopInv_run o cs cf eops he traj
  refine ⟨h.times, h.edata_len, fun i f hf => h.edata i f hf ?_⟩
  have : i < eops.length := by
    rcases Nat.lt_or_ge i eops.length with hlt | hge
    · exact hlt
    · rw [List.getElem?_eq_none hge] at hf; cases hf
  omega

/-- States are stored exactly when the options and the presence of expectation operations say so. -/
theorem states_stored_iff (o : Opts) (cs cf : Bool) (eops : List (Int → S → V))
    (he : eops.length = o.nEops) (traj : List (Int × S)) :
    (runLoop o cs cf eops traj).states.length = if storesStates o then traj.length else 0 :=
  (loopInv_run o cs cf eops he traj).states_len

/-- **Entry k belongs to time k**: with the copy rule of the source (both storing processors ask for a
copy), every stored state read after the run — when the integrator's buffer holds something else —
is the state of its own time. -/
theorem entry_k_belongs_to_time_k (o : Opts) (eops : List (Int → S → V)) (he : eops.length = o.nEops)
    (traj : List (Int × S)) (buf : S) (hs : storesStates o = true) :
    (runLoop o Qv.Gen.ResultFlags.copyStates Qv.Gen.ResultFlags.copyFinal eops traj).states.map (deref buf)
      = traj.map Prod.snd := by
  have hc : requiresCopy o Qv.Gen.ResultFlags.copyStates Qv.Gen.ResultFlags.copyFinal = true := by
    simp [requiresCopy, hs, Qv.Gen.ResultFlags.copy_rule_ok.1]
  rw [(loopInv_run o _ _ eops he traj).states_val hc hs]
  simp [deref, Function.comp_def]

/-- The final state is available exactly when requested or when states are stored (and something was
computed), and it is the state of the last time. -/
theorem final_state_spec (o : Opts) (eops : List (Int → S → V)) (he : eops.length = o.nEops)
    (traj : List (Int × S)) (buf : S) :
    (runLoop o Qv.Gen.ResultFlags.copyStates Qv.Gen.ResultFlags.copyFinal eops traj).finalState buf =
      if o.storeFinal || storesStates o then (traj.getLast?).map Prod.snd else none := by
  have h := loopInv_run o Qv.Gen.ResultFlags.copyStates Qv.Gen.ResultFlags.copyFinal eops he traj
  unfold Res.finalState
  by_cases hs : storesStates o = true
  · have hc : requiresCopy o Qv.Gen.ResultFlags.copyStates Qv.Gen.ResultFlags.copyFinal = true := by
      simp [requiresCopy, hs, Qv.Gen.ResultFlags.copy_rule_ok.1]
    have hf : finalProc o = false := by simp [finalProc, hs]
    rw [h.final_none hf, h.states_val hc hs]
    simp [hs, List.getLast?_map, deref, Option.map_map, Function.comp_def]
  · have hs' : storesStates o = false := by simpa using hs
    have hlen := h.states_len
    simp only [hs', Bool.false_eq_true, if_false] at hlen
    have hnil : (runLoop o Qv.Gen.ResultFlags.copyStates Qv.Gen.ResultFlags.copyFinal eops traj).states = [] :=
      List.eq_nil_of_length_eq_zero hlen
    by_cases hf : o.storeFinal = true
    · have hfp : finalProc o = true := by simp [finalProc, hf, hs']
      have hc : requiresCopy o Qv.Gen.ResultFlags.copyStates Qv.Gen.ResultFlags.copyFinal = true := by
        simp [requiresCopy, hfp, Qv.Gen.ResultFlags.copy_rule_ok.2]
      rw [h.final_some hfp hc, hnil]
      cases hl : traj.getLast? <;> simp [hf, deref]
    · have hf' : o.storeFinal = false := by simpa using hf
      have hfp : finalProc o = false := by simp [finalProc, hf']
      rw [h.final_none hfp, hnil]
      simp [hf', hs']

/-- Without the copy (a processor that stores the handed-in object although the integrator reuses
its buffer) every stored entry would show the *last* state: the copy rule is what the property needs. -/
theorem alias_shows_last_state (o : Opts) (eops : List (Int → S → V)) (traj : List (Int × S)) (buf : S)
    (hs : storesStates o = true) :
    (runLoop o false false eops traj).states.map (deref buf) = traj.map (fun _ => buf) := by
  have hc : requiresCopy o false false = false := by simp [requiresCopy]
  have key : ∀ (traj : List (Int × S)) (r : Res S V), (r.states.map (deref buf) = r.states.map (fun _ => buf)) →
      ((traj.foldl (fun r tx => r.add o false false eops tx.1 tx.2) r).states.map (deref buf)
        = r.states.map (fun _ => buf) ++ traj.map (fun _ => buf)) := by
    intro traj
    induction traj with
    | nil => intro r h; simpa using h
    | cons tx traj ih =>
      intro r h
      simp only [List.foldl_cons]
      rw [ih]
      · simp [Res.add, hs, hc]
      · simp [Res.add, hs, hc, h, deref]
  have := key traj (Res.init o) (by simp [Res.init])
  simpa [runLoop, Res.init] using this

/-! Non-vacuity: a concrete run with a buffer-reusing integrator (final buffer content 99). -/
example :
    let o : Opts := { storeStates := some true, storeFinal := false, nEops := 1 }
    let r := runLoop o true true [fun t (x : Nat) => x + t.toNat] [(0, 10), (1, 20), (2, 30)]
    r.states.map (deref 99) = [10, 20, 30] ∧ r.finalState 99 = some 30 ∧ r.eData = [[10, 21, 32]] := by
  decide

end Qv.C12
