import Qv.Model.C08
import Mathlib.LinearAlgebra.Matrix.PosDef
import Mathlib.LinearAlgebra.Matrix.Trace
import Mathlib.LinearAlgebra.Matrix.Hermitian
import Mathlib.Data.Complex.Basic
import Mathlib.Analysis.Complex.Order
import Mathlib.Analysis.RCLike.Basic
import Mathlib.Analysis.Complex.Basic
/-!
# C08 — channel representations describe one and the same map

* `shuffle_involution`: the index shuffle between supermatrix and Choi matrix
  (`reshape(s,s,s,s).transpose(3,1,2,0)`) is an involution on every entry, for every dimension: going
  to the other representation and back returns the original matrix.
* facts about the map a Kraus set represents (Mathlib, complex matrices of every size, also
  rectangular Kraus operators): trace preservation when Σ K†K = 1, Hermiticity preservation, and
  positivity (the easy half of Choi's theorem) — the definitions the predicates `istp`, `ishp`,
  `iscp` must agree with on every representation.
Tied to `superop_reps.py` by harness/c08.py (exact correspondence of the shuffle; every representation
applied to the full operator basis; predicate verdicts against the definitions).
-/
namespace Qv.C08

theorem div_mul_add {n d b : Nat} (hb : b < n) : (d * n + b) / n = d := by
  have hn : 0 < n := by omega
  rw [Nat.mul_comm, Nat.mul_add_div hn, Nat.div_eq_of_lt hb, Nat.add_zero]

theorem mod_mul_add {n d b : Nat} (hb : b < n) : (d * n + b) % n = b := by
  rw [Nat.mul_comm, Nat.mul_add_mod, Nat.mod_eq_of_lt hb]

/-- **The supermatrix ↔ Choi shuffle squares to the identity**, entry by entry, for every n. -/
theorem shuffle_involution (n : Nat) (m : Nat → Nat → Int) (r c : Nat) (hr : r < n * n) (hc : c < n * n) :
    shuffleEntry n (shuffleEntry n m) r c = m r c := by
  have hn : 0 < n := by
    rcases Nat.eq_zero_or_pos n with h | h
    · subst h; simp at hr
    · exact h
  have hrm : r % n < n := Nat.mod_lt _ hn
  have hcm : c % n < n := Nat.mod_lt _ hn
  have hrd : r / n < n := Nat.div_lt_of_lt_mul (by rw [Nat.mul_comm]; exact hr)
  have hcd : c / n < n := Nat.div_lt_of_lt_mul (by rw [Nat.mul_comm]; exact hc)
  unfold shuffleEntry
  simp only [div_mul_add hrm, mod_mul_add hrm, div_mul_add hrd, mod_mul_add hrd]
  congr 1
  · exact Nat.div_add_mod' r n
  · exact Nat.div_add_mod' c n

/-- the shuffle only reads entries inside the matrix -/
theorem shuffle_in_bounds (n r c : Nat) (hr : r < n * n) (hc : c < n * n) :
    (c % n) * n + r % n < n * n ∧ (c / n) * n + r / n < n * n := by
  have hn : 0 < n := by
    rcases Nat.eq_zero_or_pos n with h | h
    · subst h; simp at hr
    · exact h
  have h1 : r % n < n := Nat.mod_lt _ hn
  have h2 : c % n < n := Nat.mod_lt _ hn
  have h3 : r / n < n := Nat.div_lt_of_lt_mul (by rw [Nat.mul_comm]; exact hr)
  have h4 : c / n < n := Nat.div_lt_of_lt_mul (by rw [Nat.mul_comm]; exact hc)
  constructor
  · calc c % n * n + r % n < c % n * n + n := by omega
      _ = (c % n + 1) * n := by rw [Nat.succ_mul]
      _ ≤ n * n := Nat.mul_le_mul_right _ h2
  · calc c / n * n + r / n < c / n * n + n := by omega
      _ = (c / n + 1) * n := by rw [Nat.succ_mul]
      _ ≤ n * n := Nat.mul_le_mul_right _ h4

open Matrix
open scoped ComplexOrder

variable {n m : Type} [Fintype n] [DecidableEq n] [Fintype m] [DecidableEq m]

/-- the map a Kraus set represents (Kraus operators may be rectangular: input n, output m) -/
def krausMap (Ks : List (Matrix m n ℂ)) (X : Matrix n n ℂ) : Matrix m m ℂ :=
  (Ks.map fun K => K * X * Kᴴ).sum

/-- **Trace preservation**: if Σ K†K = 1 the map preserves the trace of every operator. -/
theorem kraus_trace_preserving (Ks : List (Matrix m n ℂ)) (h : (Ks.map fun K => Kᴴ * K).sum = 1)
    (X : Matrix n n ℂ) : (krausMap Ks X).trace = X.trace := by
  have key : ∀ (Ks : List (Matrix m n ℂ)),
      (krausMap Ks X).trace = ((Ks.map fun K => Kᴴ * K).sum * X).trace := by
    intro Ks
    induction Ks with
    | nil => simp [krausMap]
    | cons K Ks ih =>
      simp only [krausMap, List.map_cons, List.sum_cons, trace_add, Matrix.add_mul] at ih ⊢
      rw [ih, trace_mul_comm (K * X) Kᴴ, ← Matrix.mul_assoc]
  rw [key, h, Matrix.one_mul]

/-- **Hermiticity preservation**: a Kraus map commutes with taking the adjoint. -/
theorem kraus_hermiticity_preserving (Ks : List (Matrix m n ℂ)) (X : Matrix n n ℂ) :
    (krausMap Ks X)ᴴ = krausMap Ks Xᴴ := by
  induction Ks with
  | nil => simp [krausMap]
  | cons K Ks ih =>
    simp only [krausMap, List.map_cons, List.sum_cons, conjTranspose_add] at ih ⊢
    rw [ih, conjTranspose_mul, conjTranspose_mul, conjTranspose_conjTranspose, Matrix.mul_assoc]

/-- **Positivity** (easy half of Choi's theorem): a Kraus map sends positive semidefinite operators
to positive semidefinite operators. -/
theorem kraus_positive (Ks : List (Matrix m n ℂ)) (X : Matrix n n ℂ) (hX : X.PosSemidef) :
    (krausMap Ks X).PosSemidef := by
  induction Ks with
  | nil => simpa [krausMap] using PosSemidef.zero
  | cons K Ks ih =>
    simp only [krausMap, List.map_cons, List.sum_cons] at ih ⊢
    exact (hX.mul_mul_conjTranspose_same K).add ih

end Qv.C08
