import Qv.Model.C08
import Mathlib.LinearAlgebra.Matrix.PosDef
import Mathlib.LinearAlgebra.Matrix.Trace
import Mathlib.LinearAlgebra.Matrix.Hermitian
import Mathlib.Data.Complex.Basic
import Mathlib.Analysis.Complex.Order
import Mathlib.Analysis.RCLike.Basic
import Mathlib.Analysis.Complex.Basic
/-!
# C08 — channel representations describe one and the same map

* `shuffle_involution`: the index shuffle between supermatrix and Choi matrix
  (`reshape(s,s,s,s).transpose(3,1,2,0)`) is an involution on every entry, for every dimension: going
  to the other representation and back returns the original matrix.
* facts about the map a Kraus set represents (Mathlib, complex matrices of every size, also
  rectangular Kraus operators): trace preservation when Σ K†K = 1, Hermiticity preservation, and
  positivity (the easy half of Choi's theorem) — the definitions the predicates `istp`, `ishp`,
  `iscp` must agree with on every representation.
Tied to `superop_reps.py` by harness/c08.py (exact correspondence of the shuffle; every representation
applied to the full operator basis; predicate verdicts against the definitions).
-/
set_option linter.unusedSectionVars false
set_option linter.unusedVariables false
namespace Qv.C08

theorem div_mul_add {n d b : Nat} (hb : b < n) : (d * n + b) / n = d := by
  have hn : 0 < n := by omega
  rw [Nat.mul_comm, Nat.mul_add_div hn, Nat.div_eq_of_lt hb, Nat.add_zero]

theorem mod_mul_add {n d b : Nat} (hb : b < n) : (d * n + b) % n = b := by
  rw [Nat.mul_comm, Nat.mul_add_mod, Nat.mod_eq_of_lt hb]

/-- **The supermatrix ↔ Choi shuffle squares to the identity**, entry by entry, for every n. -/
theorem shuffle_involution (n : Nat) (m : Nat → Nat → Int) (r c : Nat) (hr : r < n * n) (hc : c < n * n) :
    shuffleEntry n (shuffleEntry n m) r c = m r c := by
  have hn : 0 < n := by
    rcases Nat.eq_zero_or_pos n with h | h
    · subst h; simp at hr
    · exact h
  have hrm : r % n < n := Nat.mod_lt _ hn
  have hcm : c % n < n := Nat.mod_lt _ hn
  have hrd : r / n < n := Nat.div_lt_of_lt_mul (by rw [Nat.mul_comm]; exact hr)
  have hcd : c / n < n := Nat.div_lt_of_lt_mul (by rw [Nat.mul_comm]; exact hc)
  unfold shuffleEntry
  simp only [div_mul_add hrm, mod_mul_add hrm, div_mul_add hrd, mod_mul_add hrd]
  congr 1
  · exact Nat.div_add_mod' r n
  · exact Nat.div_add_mod' c n

/-- the shuffle only reads entries inside the matrix -/
theorem shuffle_in_bounds (n r c : Nat) (hr : r < n * n) (hc : c < n * n) :
    (c % n) * n + r % n < n * n ∧ (c / n) * n + r / n < n * n := by
  have hn : 0 < n := by
    rcases Nat.eq_zero_or_pos n with h | h
    · subst h; simp at hr
    · exact h
  have h1 : r % n < n := Nat.mod_lt _ hn
  have h2 : c % n < n := Nat.mod_lt _ hn
  have h3 : r / n < n := Nat.div_lt_of_lt_mul (by rw [Nat.mul_comm]; exact hr)
  have h4 : c / n < n := Nat.div_lt_of_lt_mul (by rw [Nat.mul_comm]; exact hc)
  constructor
  · calc c % n * n + r % n < c % n * n + n := by omega
      _ = (c % n + 1) * n := by rw [Nat.succ_mul]
      _ ≤ n * n := Nat.mul_le_mul_right _ h2
  · calc c / n * n + r / n < c / n * n + n := by omega
      _ = (c / n + 1) * n := by rw [Nat.succ_mul]
      _ ≤ n * n := Nat.mul_le_mul_right _ h4

open Matrix
open scoped ComplexOrder

variable {n m : Type} [Fintype n] [DecidableEq n] [Fintype m] [DecidableEq m]

/-- the map a Kraus set represents (Kraus operators may be rectangular: input n, output m) -/
def krausMap (Ks : List (Matrix m n ℂ)) (X : Matrix n n ℂ) : Matrix m m ℂ :=
  (Ks.map fun K => K * X * Kᴴ).sum

/-- **Trace preservation**: if Σ K†K = 1 the map preserves the trace of every operator. -/
theorem kraus_trace_preserving (Ks : List (Matrix m n ℂ)) (h : (Ks.map fun K => Kᴴ * K).sum = 1)
    (X : Matrix n n ℂ) : (krausMap Ks X).trace = X.trace := by
  have key : ∀ (Ks : List (Matrix m n ℂ)),
      (krausMap Ks X).trace = ((Ks.map fun K => Kᴴ * K).sum * X).trace := by
    intro Ks
    induction Ks with
    | nil => simp [krausMap]
    | cons K Ks ih =>
      simp only [krausMap, List.map_cons, List.sum_cons, trace_add, Matrix.add_mul] at ih ⊢
      rw [ih, trace_mul_comm (K * X) Kᴴ, ← Matrix.mul_assoc]
  rw [key, h, Matrix.one_mul]

/-- **Hermiticity preservation**: a Kraus map commutes with taking the adjoint. -/
theorem kraus_hermiticity_preserving (Ks : List (Matrix m n ℂ)) (X : Matrix n n ℂ) :
    (krausMap Ks X)ᴴ = krausMap Ks Xᴴ := by
  induction Ks with
  | nil => simp [krausMap]
  | cons K Ks ih =>
    simp only [krausMap, List.map_cons, List.sum_cons, conjTranspose_add] at ih ⊢
    rw [ih, conjTranspose_mul, conjTranspose_mul, conjTranspose_conjTranspose, Matrix.mul_assoc]

/-- **Positivity** (easy half of Choi's theorem): a Kraus map sends positive semidefinite operators
to positive semidefinite operators. -/
theorem kraus_positive (Ks : List (Matrix m n ℂ)) (X : Matrix n n ℂ) (hX : X.PosSemidef) :
    (krausMap Ks X).PosSemidef := by
  induction Ks with
  | nil => simpa [krausMap] using PosSemidef.zero
  | cons K Ks ih =>
    simp only [krausMap, List.map_cons, List.sum_cons] at ih ⊢
    exact (hX.mul_mul_conjTranspose_same K).add ih

/-! ### the Choi matrix and the supermatrix of a map, with the library's index conventions

Column stacking: `vec(X)` has index `(column, row)`.  The supermatrix acts as `S · vec(X)`; the Choi
matrix is `Σ_{jl} |j⟩⟨l| ⊗ E(|j⟩⟨l|)`, i.e. index `(input, output)`; `kraus_to_choi` is
`Σ_K vec(K) vec(K)†`. -/
section choi

/-- apply a map given by its Choi matrix: `E(X)_{ik} = Σ_{jl} J[(j,i),(l,k)] X_{jl}` -/
def choiApply (J : Matrix (n × m) (n × m) ℂ) (X : Matrix n n ℂ) : Matrix m m ℂ :=
  fun i k => ∑ j, ∑ l, J (j, i) (l, k) * X j l

/-- apply a map given by its supermatrix: `vec(E(X)) = S · vec(X)` with column stacking -/
def superApply (S : Matrix (m × m) (n × n) ℂ) (X : Matrix n n ℂ) : Matrix m m ℂ :=
  fun i k => ∑ l, ∑ j, S (k, i) (l, j) * X j l

/-- the shuffle `reshape(s0,s1,s0,s1).transpose(3,1,2,0)` on pairs of indices -/
def shuffleM (S : Matrix (m × m) (n × n) ℂ) : Matrix (n × m) (n × m) ℂ :=
  fun p q => S (q.2, p.2) (q.1, p.1)

/-- **supermatrix and Choi matrix related by the shuffle describe the same map** -/
theorem super_apply_eq_choi_apply (S : Matrix (m × m) (n × n) ℂ) (X : Matrix n n ℂ) :
    choiApply (shuffleM S) X = superApply S X := by
  funext i k
  simp only [choiApply, superApply, shuffleM]
  exact Finset.sum_comm

/-- the pair form of the shuffle is the executable `shuffleEntry` under the row-major encoding
`(a, b) ↦ a·n + b` of index pairs -/
theorem shuffleEntry_pairs (N : Nat) (f : Nat → Nat → Nat → Nat → Int) (a b c d : Nat)
    (ha : a < N) (hb : b < N) (hc : c < N) (hd : d < N) :
    shuffleEntry N (fun r c => f (r / N) (r % N) (c / N) (c % N)) (a * N + b) (c * N + d) = f d b c a := by
  unfold shuffleEntry
  simp only [div_mul_add hb, mod_mul_add hb, div_mul_add hd, mod_mul_add hd, div_mul_add ha, mod_mul_add ha]

/-- `kraus_to_choi`: `J = Σ_K vec(K) vec(K)†`, `vec(K)_{(j,i)} = K_{ij}` -/
def choiOfKraus (Ks : List (Matrix m n ℂ)) : Matrix (n × m) (n × m) ℂ :=
  (Ks.map fun K => vecMulVec (fun p : n × m => K p.2 p.1) (star fun p : n × m => K p.2 p.1)).sum

/-- **the Choi matrix built from a Kraus set applies as the Kraus map** -/
theorem choi_of_kraus_apply (Ks : List (Matrix m n ℂ)) (X : Matrix n n ℂ) :
    choiApply (choiOfKraus Ks) X = krausMap Ks X := by
  induction Ks with
  | nil =>
    funext i k
    simp [choiApply, choiOfKraus, krausMap]
  | cons K Ks ih =>
    have hadd : choiApply (choiOfKraus (K :: Ks)) X
        = K * X * Kᴴ + choiApply (choiOfKraus Ks) X := by
      funext i k
      simp only [choiApply, choiOfKraus, List.map_cons, List.sum_cons, Matrix.add_apply, add_mul, Finset.sum_add_distrib]
      congr 1
      simp only [vecMulVec_apply, Pi.star_apply, Matrix.mul_apply, conjTranspose_apply, Finset.sum_mul]
      rw [Finset.sum_comm]
      refine Finset.sum_congr rfl fun l _ => Finset.sum_congr rfl fun j _ => ?_
      ring
    rw [hadd, ih]
    simp [krausMap]

/-- **a Choi matrix built from Kraus operators is positive semidefinite** (complete positivity in the
Choi picture) -/
theorem choi_of_kraus_posSemidef (Ks : List (Matrix m n ℂ)) : (choiOfKraus Ks).PosSemidef := by
  induction Ks with
  | nil => simpa [choiOfKraus] using PosSemidef.zero
  | cons K Ks ih =>
    simp only [choiOfKraus, List.map_cons, List.sum_cons] at ih ⊢
    exact (posSemidef_vecMulVec_self_star _).add ih

/-- **Hermiticity preservation in the Choi picture**: a Hermitian Choi matrix gives a map that
commutes with the adjoint -/
theorem choi_hermitian_preserves (J : Matrix (n × m) (n × m) ℂ) (hJ : J.IsHermitian) (X : Matrix n n ℂ) :
    (choiApply J X)ᴴ = choiApply J Xᴴ := by
  funext i k
  simp only [choiApply, conjTranspose_apply, star_sum, star_mul']
  rw [Finset.sum_comm]
  refine Finset.sum_congr rfl fun l _ => Finset.sum_congr rfl fun j _ => ?_
  have := congrFun (congrFun hJ (l, i)) (j, k)
  simp only [conjTranspose_apply] at this
  rw [this]

/-- **trace preservation in the Choi picture**: the map preserves every trace exactly when the partial
trace of the Choi matrix over the output space is the identity on the input space -/
theorem choi_trace_preserving_iff (J : Matrix (n × m) (n × m) ℂ) :
    (∀ X : Matrix n n ℂ, (choiApply J X).trace = X.trace) ↔
      ∀ j l, ∑ i, J (j, i) (l, i) = if j = l then 1 else 0 := by
  have expand : ∀ X : Matrix n n ℂ, (choiApply J X).trace = ∑ j, ∑ l, (∑ i, J (j, i) (l, i)) * X j l := by
    intro X
    simp only [Matrix.trace, Matrix.diag_apply, choiApply]
    rw [Finset.sum_comm]
    refine Finset.sum_congr rfl fun j _ => ?_
    rw [Finset.sum_comm]
    refine Finset.sum_congr rfl fun l _ => ?_
    rw [Finset.sum_mul]
  constructor
  · intro h j l
    have := h (Matrix.single j l (1 : ℂ))
    rw [expand] at this
    simp only [Matrix.single_apply, mul_ite, mul_one, mul_zero] at this
    rw [Finset.sum_eq_single j, Finset.sum_eq_single l] at this
    · simp only [and_self, if_true] at this
      rw [this]
      by_cases hjl : j = l
      · subst hjl; simp [Matrix.trace_single_eq_same]
      · simp [Matrix.trace_single_eq_of_ne _ _ _ hjl, hjl]
    · intro b _ hb; simp [hb.symm]
    · intro h'; exact absurd (Finset.mem_univ _) h'
    · intro b _ hb
      refine Finset.sum_eq_zero fun l' _ => ?_
      simp [hb.symm]
    · intro h'; exact absurd (Finset.mem_univ _) h'
  · intro h X
    rw [expand]
    simp only [h, ite_mul, one_mul, zero_mul, Finset.sum_ite_eq, Finset.mem_univ, if_true, Matrix.trace, Matrix.diag_apply]

end choi

/-! ## The chi (process) matrix

`to_chi` writes the Choi matrix in a basis of operators: `J = Σ_ab χ_ab vec(B_a) vec(B_b)†`
(`_chi_to_choi`: `B χ B†` with the vectorised basis operators as columns).  Whatever the basis
operators are, the map is then `X ↦ Σ_ab χ_ab B_a X B_b†` — the formula of the user guide.  With the
complex conjugates of the basis operators in the columns (what the library did before its repair) the
same statement holds for the conjugated operators, which for the Pauli basis differ from the Pauli
operators in the sign of every `σ_y`. -/
section chi
variable {ι : Type} [Fintype ι]

/-- `vec(K)` with column stacking: index `(column, row)` -/
def vecOf (K : Matrix m n ℂ) : n × m → ℂ := fun p => K p.2 p.1

theorem choiApply_vecMulVec (A B : Matrix m n ℂ) (X : Matrix n n ℂ) :
    choiApply (vecMulVec (vecOf A) (star (vecOf B))) X = A * X * Bᴴ := by
  funext i k
  simp only [choiApply, vecOf, vecMulVec_apply, Pi.star_apply, Matrix.mul_apply, conjTranspose_apply,
    Finset.sum_mul]
  rw [Finset.sum_comm]
  refine Finset.sum_congr rfl fun l _ => Finset.sum_congr rfl fun j _ => ?_
  ring

theorem choiApply_add (J K : Matrix (n × m) (n × m) ℂ) (X : Matrix n n ℂ) :
    choiApply (J + K) X = choiApply J X + choiApply K X := by
  funext i k
  simp [choiApply, add_mul, Finset.sum_add_distrib]

theorem choiApply_smul (c : ℂ) (J : Matrix (n × m) (n × m) ℂ) (X : Matrix n n ℂ) :
    choiApply (c • J) X = c • choiApply J X := by
  funext i k
  simp [choiApply, Finset.mul_sum, mul_assoc]

theorem choiApply_zero (X : Matrix n n ℂ) : choiApply (0 : Matrix (n × m) (n × m) ℂ) X = 0 := by
  funext i k
  simp [choiApply]

theorem choiApply_sum {κ : Type} (s : Finset κ) (f : κ → Matrix (n × m) (n × m) ℂ) (X : Matrix n n ℂ) :
    choiApply (∑ a ∈ s, f a) X = ∑ a ∈ s, choiApply (f a) X := by
  classical
  induction s using Finset.induction_on with
  | empty => simp [choiApply_zero]
  | insert a s ha ih => rw [Finset.sum_insert ha, Finset.sum_insert ha, choiApply_add, ih]

/-- `_chi_to_choi`: the Choi matrix of a process matrix `χ` in the operator basis `B` -/
def choiOfChi (B : ι → Matrix m n ℂ) (χ : Matrix ι ι ℂ) : Matrix (n × m) (n × m) ℂ :=
  ∑ a, ∑ b, χ a b • vecMulVec (vecOf (B a)) (star (vecOf (B b)))

/-- **the process matrix applies by the textbook formula**, for every operator basis, every `χ`, every
operator -/
theorem choi_of_chi_apply (B : ι → Matrix m n ℂ) (χ : Matrix ι ι ℂ) (X : Matrix n n ℂ) :
    choiApply (choiOfChi B χ) X = ∑ a, ∑ b, χ a b • (B a * X * (B b)ᴴ) := by
  unfold choiOfChi
  rw [choiApply_sum]
  refine Finset.sum_congr rfl fun a _ => ?_
  rw [choiApply_sum]
  refine Finset.sum_congr rfl fun b _ => ?_
  rw [choiApply_smul, choiApply_vecMulVec]

/-- a Kraus set is the special case of a diagonal process matrix with unit entries -/
theorem choi_of_chi_diag_one (B : ι → Matrix m n ℂ) [DecidableEq ι] (X : Matrix n n ℂ) :
    choiApply (choiOfChi B (1 : Matrix ι ι ℂ)) X = ∑ a, B a * X * (B a)ᴴ := by
  rw [choi_of_chi_apply]
  refine Finset.sum_congr rfl fun a _ => ?_
  rw [Finset.sum_eq_single a]
  · simp
  · intro b _ hb; simp [Matrix.one_apply_ne hb.symm]
  · intro h; exact absurd (Finset.mem_univ _) h

/-- what the library computed before its repair: the conjugated operators in the columns give the
formula for the conjugated operators (for the Pauli basis: `σ_y ↦ -σ_y`) -/
theorem choi_of_chi_conj_basis (B : ι → Matrix m n ℂ) (χ : Matrix ι ι ℂ) (X : Matrix n n ℂ) :
    choiApply (choiOfChi (fun a => (B a).map star) χ) X
      = ∑ a, ∑ b, χ a b • ((B a).map star * X * ((B b).map star)ᴴ) :=
  choi_of_chi_apply _ χ X

/-- the conjugated Pauli basis differs from the Pauli basis exactly in the sign of `σ_y` -/
example : (!![0, -Complex.I; Complex.I, 0] : Matrix (Fin 2) (Fin 2) ℂ).map star
    = - !![0, -Complex.I; Complex.I, 0] := by
  ext i j
  fin_cases i <;> fin_cases j <;> simp

end chi

end Qv.C08
