import Qv.Model.C20
import Mathlib.Data.Matrix.Basic
import Mathlib.Data.Matrix.Mul
import Mathlib.Analysis.Real.Sqrt
import Mathlib.Analysis.SpecialFunctions.Trigonometric.Basic
import Mathlib.Data.Complex.Basic
import Mathlib.LinearAlgebra.Matrix.PosDef
import Mathlib.LinearAlgebra.Matrix.Trace
import Mathlib.LinearAlgebra.Matrix.Notation
import Mathlib.Analysis.RCLike.Basic
import Mathlib.Analysis.Complex.Basic
import Mathlib.Tactic.Ring
import Mathlib.Algebra.BigOperators.Field
import Mathlib.Tactic.LinearCombination
import Mathlib.Tactic.Linarith
import Mathlib.Tactic.FinCases
/-!
# C20 — named constructors satisfy their definitions

Entry-level closed forms (`Qv.C20`, compared with the constructors' output by harness/c20.py) and the
algebra they imply, for every dimension, offset, spin and angle.
-/
set_option linter.unusedVariables false
set_option linter.unusedSectionVars false
namespace Qv.C20
open Matrix

/-! ### ladder and spin operators: the algebra of the squared entries -/

/-- `a a† − a† a` has diagonal `|a(m,m+1)|² − |a(m−1,m)|²`: it is 1 inside the truncated space … -/
theorem ladder_commutator_sq (offset m : Nat) (hm : 0 < m) :
    (destroySq offset m (m + 1) : Int) - destroySq offset (m - 1) m = 1 := by
  have : m - 1 + 1 = m := by omega
  simp [destroySq, this]

/-- … and `1 + offset` in the first row (the state below `offset` is not in the space) -/
theorem ladder_commutator_first (offset : Nat) : destroySq offset 0 1 = 1 + offset := by
  simp [destroySq]

/-- `a† a` = `num` away from the first row: `|a(k−1,k)|² = k + offset` -/
theorem num_eq_adag_a (offset k : Nat) (hk : 0 < k) : destroySq offset (k - 1) k = numDiag offset k := by
  have : k - 1 + 1 = k := by omega
  simp [destroySq, numDiag, this]

/-- the ladder acts on number states with the square-root matrix element -/
theorem ladder_action (offset n : Nat) : destroySq offset n (n + 1) = (n + 1) + offset ∧
    createSq offset (n + 1) n = (n + 1) + offset := by
  simp [destroySq, createSq]

theorem jq_closed (J c : Nat) : jq J c = 4 * (c : Int) * ((J : Int) + 1 - c) := by
  unfold jq; ring

/-- the entries under the square root are non-negative inside the multiplet and vanish at both ends -/
theorem jq_nonneg (J c : Nat) (hc : c ≤ J + 1) : 0 ≤ jq J c := by
  rw [jq_closed]
  have : (0 : Int) ≤ (J : Int) + 1 - c := by omega
  positivity

theorem jq_ends (J : Nat) : jq J 0 = 0 ∧ jq J (J + 1) = 0 := by
  constructor <;> (rw [jq_closed]; push_cast; ring)

/-- `[J₊, J₋] = 2 J_z` on the diagonal: `|J₊(k,k+1)|² − |J₊(k−1,k)|² = 2 m_k` (times four) — for every
spin, including the two ends of the multiplet where one of the terms is absent (it is zero by
`jq_ends`) -/
theorem angular_momentum_sq (J k : Nat) : jq J (k + 1) - jq J k = 4 * jzTwice J k := by
  unfold jq jzTwice; push_cast; ring

/-- `[J_z, J₊] = J₊`: neighbouring `m` differ by one -/
theorem jz_step (J k : Nat) : jzTwice J k - jzTwice J (k + 1) = 2 := by
  unfold jzTwice; push_cast; ring

/-- Casimir: `J₋J₊ + J_z² + J_z = j(j+1)` on the diagonal (times four) -/
theorem casimir_sq (J k : Nat) : jq J k + jzTwice J k * jzTwice J k + 2 * jzTwice J k = (J : Int) * (J + 2) := by
  unfold jq jzTwice; ring

/-- number states are normalised: exactly one entry, equal to one -/
theorem basis_normalised (N n offset : Nat) (h1 : offset ≤ n) (h2 : n < N + offset) :
    ((List.range N).map (fun k => basisEntry n offset k)).sum = 1 := by
  have key : ∀ (N : Nat), ((List.range N).map (fun k => basisEntry n offset k)).sum = if n < N + offset then 1 else 0 := by
    intro N
    induction N with
    | zero => simp; omega
    | succ N ih =>
      rw [List.range_succ, List.map_append, List.sum_append, ih]
      simp only [List.map_cons, List.map_nil, List.sum_cons, List.sum_nil, basisEntry]
      by_cases h : n < N + offset
      · have : ¬ (N + offset = n) := by omega
        simp [h, this]; omega
      · by_cases h' : N + offset = n
        · simp [h, h']; omega
        · simp [h, h']; omega
  rw [key, if_pos h2]

/-! ### fixed gates: the tables are unitary (and Hermitian where the constructor says so) -/

theorem gates_unitary : gates.all (fun g => unitaryScaled g.m g.scaleSq) = true := by decide +kernel

theorem hermitian_gates :
    (gates.filter (fun g => isHermitian g.m)).map (·.name)
      = ["cnot", "csign", "cz_gate", "cy_gate", "swap", "snot", "fredkin", "toffoli"] := by decide +kernel


/-! ### from squared entries to operators: matrices with one super-diagonal -/

/-- the matrix with `√(d c)` at (c−1, c) and zero elsewhere — `destroy`, `J₊`, `tunneling` parts … -/
noncomputable def superDiag (N : Nat) (d : Nat → ℝ) : Matrix (Fin N) (Fin N) ℝ :=
  fun r c => if r.val + 1 = c.val then Real.sqrt (d c.val) else 0

theorem superDiag_mul_transpose (N : Nat) (d : Nat → ℝ) (hd : ∀ c, c < N → 0 ≤ d c) (r c : Fin N) :
    (superDiag N d * (superDiag N d)ᵀ) r c = if r = c ∧ r.val + 1 < N then d (r.val + 1) else 0 := by
  simp only [Matrix.mul_apply, Matrix.transpose_apply, superDiag]
  by_cases h : r = c ∧ r.val + 1 < N
  · rw [if_pos h]
    obtain ⟨rfl, hr⟩ := h
    rw [Finset.sum_eq_single ⟨r.val + 1, hr⟩]
    · simp [Real.mul_self_sqrt (hd _ hr)]
    · intro b _ hb
      have : ¬ (r.val + 1 = b.val) := fun e => hb (Fin.ext e.symm)
      simp [this]
    · intro h; exact absurd (Finset.mem_univ _) h
  · rw [if_neg h]
    apply Finset.sum_eq_zero
    intro b _
    by_cases h1 : r.val + 1 = b.val
    · by_cases h2 : c.val + 1 = b.val
      · exfalso; apply h
        exact ⟨Fin.ext (by omega), by have := b.isLt; omega⟩
      · simp [h2]
    · simp [h1]

theorem superDiag_transpose_mul (N : Nat) (d : Nat → ℝ) (hd : ∀ c, c < N → 0 ≤ d c) (r c : Fin N) :
    ((superDiag N d)ᵀ * superDiag N d) r c = if r = c ∧ 0 < r.val then d r.val else 0 := by
  simp only [Matrix.mul_apply, Matrix.transpose_apply, superDiag]
  by_cases h : r = c ∧ 0 < r.val
  · rw [if_pos h]
    obtain ⟨rfl, hr⟩ := h
    rw [Finset.sum_eq_single ⟨r.val - 1, by have := r.isLt; omega⟩]
    · have : r.val - 1 + 1 = r.val := by omega
      simp [this, Real.mul_self_sqrt (hd _ r.isLt)]
    · intro b _ hb
      have : ¬ (b.val + 1 = r.val) := fun e => hb (Fin.ext (by simp; omega))
      simp [this]
    · intro h; exact absurd (Finset.mem_univ _) h
  · rw [if_neg h]
    apply Finset.sum_eq_zero
    intro b _
    by_cases h1 : b.val + 1 = r.val
    · by_cases h2 : b.val + 1 = c.val
      · exfalso; apply h
        exact ⟨Fin.ext (by omega), by omega⟩
      · simp [h2]
    · simp [h1]

/-- **truncated commutation relation**: for `a = destroy(N, offset)`, `[a, a†]` is diagonal with
entries 1, except `1 + offset` in the first row (for N > 1) and `−(N − 1 + offset)` in the last -/
theorem destroy_commutator (N offset : Nat) (r c : Fin N) :
    let a := superDiag N (fun k => (destroySq offset (k - 1) k : ℝ))
    (a * aᵀ - aᵀ * a) r c =
      if r = c then
        (if r.val + 1 < N then ((r.val + 1 + offset : Nat) : ℝ) else 0) - (if 0 < r.val then ((r.val + offset : Nat) : ℝ) else 0)
      else 0 := by
  intro a
  have hd : ∀ k, k < N → (0 : ℝ) ≤ (destroySq offset (k - 1) k : ℝ) := fun k _ => Nat.cast_nonneg _
  rw [Matrix.sub_apply, superDiag_mul_transpose N _ hd, superDiag_transpose_mul N _ hd]
  by_cases h : r = c
  · subst h
    simp only [true_and, if_true]
    have e1 : destroySq offset (r.val + 1 - 1) (r.val + 1) = r.val + 1 + offset := by simp [destroySq]
    by_cases h0 : 0 < r.val
    · have e2 : destroySq offset (r.val - 1) r.val = r.val + offset := by
        have : r.val - 1 + 1 = r.val := by omega
        simp [destroySq, this]
      simp only [e1, e2, h0, if_true]
    · simp only [e1, h0, if_false]
  · simp [h]

/-- **angular-momentum algebra** `[J₊, J₋] = 2 J_z` for every spin j = J/2 (J₊ holds √(jq J c)/2) -/
theorem jplus_commutator (J : Nat) (r c : Fin (J + 1)) :
    let jp := superDiag (J + 1) (fun k => ((jq J k : Int) : ℝ) / 4)
    (jp * jpᵀ - jpᵀ * jp) r c = if r = c then ((jzTwice J r.val : Int) : ℝ) else 0 := by
  intro jp
  have hd : ∀ k, k < J + 1 → (0 : ℝ) ≤ ((jq J k : Int) : ℝ) / 4 := by
    intro k hk
    have := jq_nonneg J k (by omega)
    have h' : (0 : ℝ) ≤ ((jq J k : Int) : ℝ) := by exact_mod_cast this
    positivity
  rw [Matrix.sub_apply, superDiag_mul_transpose _ _ hd, superDiag_transpose_mul _ _ hd]
  by_cases h : r = c
  · subst h
    simp only [true_and, if_true]
    have step := angular_momentum_sq J r.val
    have ends := jq_ends J
    by_cases h1 : r.val + 1 < J + 1 <;> by_cases h0 : 0 < r.val
    · simp only [h1, h0, if_true]
      have : ((jq J (r.val + 1) : Int) : ℝ) - ((jq J r.val : Int) : ℝ) = 4 * ((jzTwice J r.val : Int) : ℝ) := by
        exact_mod_cast congrArg (fun z : Int => (z : ℝ)) step
      linarith
    · have hr : r.val = 0 := by omega
      simp only [h1, h0, if_true, if_false]
      rw [hr] at step ⊢
      have : ((jq J (0 + 1) : Int) : ℝ) - ((jq J 0 : Int) : ℝ) = 4 * ((jzTwice J 0 : Int) : ℝ) := by
        exact_mod_cast congrArg (fun z : Int => (z : ℝ)) step
      rw [ends.1] at this
      simp at this ⊢
      linarith
    · have hr : r.val = J := by have := r.isLt; omega
      simp only [h1, h0, if_true, if_false]
      rw [hr] at step ⊢
      have : ((jq J (J + 1) : Int) : ℝ) - ((jq J J : Int) : ℝ) = 4 * ((jzTwice J J : Int) : ℝ) := by
        exact_mod_cast congrArg (fun z : Int => (z : ℝ)) step
      rw [ends.2] at this
      simp at this ⊢
      linarith
    · have hr : r.val = 0 := by omega
      have hJ : J = 0 := by have := r.isLt; omega
      subst hJ
      simp [h1, h0, hr, jzTwice]
  · simp [h]


/-! ### rotation gates: group law, period 4π, unitarity — for every angle -/
open Complex

/-- `rx(φ)` as written in `gates.py` -/
noncomputable def rx (φ : ℝ) : Matrix (Fin 2) (Fin 2) ℂ :=
  !![(Real.cos (φ / 2) : ℂ), -I * (Real.sin (φ / 2) : ℂ); -I * (Real.sin (φ / 2) : ℂ), (Real.cos (φ / 2) : ℂ)]

/-- `ry(φ)` -/
noncomputable def ry (φ : ℝ) : Matrix (Fin 2) (Fin 2) ℂ :=
  !![(Real.cos (φ / 2) : ℂ), -(Real.sin (φ / 2) : ℂ); (Real.sin (φ / 2) : ℂ), (Real.cos (φ / 2) : ℂ)]

/-- `rz(φ)` -/
noncomputable def rz (φ : ℝ) : Matrix (Fin 2) (Fin 2) ℂ :=
  !![Complex.exp (-I * (φ / 2 : ℝ)), 0; 0, Complex.exp (I * (φ / 2 : ℝ))]

theorem conj_cos_half (a : ℝ) : (starRingEnd ℂ) (Complex.cos ((a : ℂ) / 2)) = Complex.cos ((a : ℂ) / 2) := by
  have : ((a : ℂ) / 2) = ((a / 2 : ℝ) : ℂ) := by push_cast; ring
  rw [this, ← Complex.ofReal_cos, Complex.conj_ofReal]

theorem conj_sin_half (a : ℝ) : (starRingEnd ℂ) (Complex.sin ((a : ℂ) / 2)) = Complex.sin ((a : ℂ) / 2) := by
  have : ((a : ℂ) / 2) = ((a / 2 : ℝ) : ℂ) := by push_cast; ring
  rw [this, ← Complex.ofReal_sin, Complex.conj_ofReal]

theorem rx_add (a b : ℝ) : rx a * rx b = rx (a + b) := by
  ext i j
  fin_cases i <;> fin_cases j <;>
    simp [rx, Matrix.mul_apply, Fin.sum_univ_two, add_div, Complex.cos_add, Complex.sin_add] <;>
    first | ring1 | linear_combination (Complex.sin ((a : ℂ) / 2) * Complex.sin ((b : ℂ) / 2)) * Complex.I_sq

theorem ry_add (a b : ℝ) : ry a * ry b = ry (a + b) := by
  ext i j
  fin_cases i <;> fin_cases j <;>
    simp [ry, Matrix.mul_apply, Fin.sum_univ_two, add_div, Complex.cos_add, Complex.sin_add] <;>
    ring

theorem rz_add (a b : ℝ) : rz a * rz b = rz (a + b) := by
  ext i j
  fin_cases i <;> fin_cases j <;>
    simp [rz, Matrix.mul_apply, Fin.sum_univ_two, ← Complex.exp_add] <;> ring_nf

theorem rx_zero : rx 0 = 1 := by
  ext i j; fin_cases i <;> fin_cases j <;> simp [rx]

theorem ry_zero : ry 0 = 1 := by
  ext i j; fin_cases i <;> fin_cases j <;> simp [ry]

theorem rx_conjTranspose (a : ℝ) : (rx a)ᴴ = rx (-a) := by
  ext i j
  fin_cases i <;> fin_cases j <;>
    simp [rx, Matrix.conjTranspose_apply, neg_div, conj_cos_half, conj_sin_half]

theorem ry_conjTranspose (a : ℝ) : (ry a)ᴴ = ry (-a) := by
  ext i j
  fin_cases i <;> fin_cases j <;>
    simp [ry, Matrix.conjTranspose_apply, neg_div, conj_cos_half, conj_sin_half]

/-- rotations are unitary for every angle -/
theorem rx_unitary (a : ℝ) : rx a * (rx a)ᴴ = 1 := by
  rw [rx_conjTranspose, rx_add, add_neg_cancel, rx_zero]

theorem ry_unitary (a : ℝ) : ry a * (ry a)ᴴ = 1 := by
  rw [ry_conjTranspose, ry_add, add_neg_cancel, ry_zero]

/-- SU(2) rotations have period 4π: a turn by 2π is −1, not +1 -/
theorem rx_two_pi (a : ℝ) : rx (a + 2 * Real.pi) = -rx a := by
  have h : (a + 2 * Real.pi) / 2 = a / 2 + Real.pi := by ring
  ext i j
  fin_cases i <;> fin_cases j <;> simp [rx, h, Real.cos_add_pi, Real.sin_add_pi]

theorem ry_two_pi (a : ℝ) : ry (a + 2 * Real.pi) = -ry a := by
  have h : (a + 2 * Real.pi) / 2 = a / 2 + Real.pi := by ring
  ext i j
  fin_cases i <;> fin_cases j <;> simp [ry, h, Real.cos_add_pi, Real.sin_add_pi]

/-! ### random objects: the post-processing makes the advertised class, whatever was drawn -/
open scoped ComplexOrder

variable {n : Type} [Fintype n] [DecidableEq n]

/-- `rand_herm`: `(M + M†)/2` is Hermitian for every M -/
theorem herm_part_isHermitian (M : Matrix n n ℂ) : (((1 : ℂ) / 2) • (M + Mᴴ)).IsHermitian := by
  unfold Matrix.IsHermitian
  rw [Matrix.conjTranspose_smul, Matrix.conjTranspose_add, Matrix.conjTranspose_conjTranspose, add_comm]
  congr 1
  simp

/-- `rand_dm`: `G G† / tr(G G†)` is positive semidefinite with unit trace for every G ≠ 0 -/
theorem ginibre_dm (G : Matrix n n ℂ) (h : (G * Gᴴ).trace ≠ 0) :
    (((G * Gᴴ).trace)⁻¹ • (G * Gᴴ)).PosSemidef ∧ (((G * Gᴴ).trace)⁻¹ • (G * Gᴴ)).trace = 1 := by
  have hp : (G * Gᴴ).PosSemidef := Matrix.posSemidef_self_mul_conjTranspose G
  have ht : 0 ≤ (G * Gᴴ).trace := hp.trace_nonneg
  refine ⟨hp.smul (inv_nonneg.mpr ht), ?_⟩
  rw [Matrix.trace_smul, smul_eq_mul, inv_mul_cancel₀ h]

/-- `rand_stochastic`: dividing each column of a matrix by its sum gives unit column sums -/
theorem column_normalised (M : Matrix n n ℝ) (c : n) (h : (∑ r, M r c) ≠ 0) :
    (∑ r, M r c / (∑ r', M r' c)) = 1 := by
  rw [← Finset.sum_div, div_self h]

end Qv.C20
