import Qv.Gen.Tableaux
/-! Regenerated on every run by harness/translate_tableaux.py from /repo — do not edit. -/
set_option maxRecDepth 100000
namespace Qv.Gen.Tableaux
open Qv.C10

theorem euler_trees_1 : treeDefectAt euler 1 ≤ ((1 : Rat) / 100000000000000) := by decide +kernel
theorem rk4_trees_1 : treeDefectAt rk4 1 ≤ ((1 : Rat) / 100000000000000) := by decide +kernel
theorem rk4_trees_2 : treeDefectAt rk4 2 ≤ ((1 : Rat) / 100000000000000) := by decide +kernel
theorem rk4_trees_3 : treeDefectAt rk4 3 ≤ ((1 : Rat) / 100000000000000) := by decide +kernel
theorem rk4_trees_4 : treeDefectAt rk4 4 ≤ ((1 : Rat) / 100000000000000) := by decide +kernel
theorem vern7_trees_1 : treeDefectAt vern7 1 ≤ ((1 : Rat) / 100000000000000) := by decide +kernel
theorem vern7_trees_2 : treeDefectAt vern7 2 ≤ ((1 : Rat) / 100000000000000) := by decide +kernel
theorem vern7_trees_3 : treeDefectAt vern7 3 ≤ ((1 : Rat) / 100000000000000) := by decide +kernel
theorem vern7_trees_4 : treeDefectAt vern7 4 ≤ ((1 : Rat) / 100000000000000) := by decide +kernel
theorem vern7_trees_5 : treeDefectAt vern7 5 ≤ ((1 : Rat) / 100000000000000) := by decide +kernel
theorem vern7_trees_6 : treeDefectAt vern7 6 ≤ ((1 : Rat) / 100000000000000) := by decide +kernel
theorem vern7_trees_7 : treeDefectAt vern7 7 ≤ ((1 : Rat) / 100000000000000) := by decide +kernel
theorem vern9_trees_1 : treeDefectAt vern9 1 ≤ ((1 : Rat) / 100000000000000) := by decide +kernel
theorem vern9_trees_2 : treeDefectAt vern9 2 ≤ ((1 : Rat) / 100000000000000) := by decide +kernel
theorem vern9_trees_3 : treeDefectAt vern9 3 ≤ ((1 : Rat) / 100000000000000) := by decide +kernel
theorem vern9_trees_4 : treeDefectAt vern9 4 ≤ ((1 : Rat) / 100000000000000) := by decide +kernel
theorem vern9_trees_5 : treeDefectAt vern9 5 ≤ ((1 : Rat) / 100000000000000) := by decide +kernel
theorem vern9_trees_6 : treeDefectAt vern9 6 ≤ ((1 : Rat) / 100000000000000) := by decide +kernel
theorem vern9_trees_7 : treeDefectAt vern9 7 ≤ ((1 : Rat) / 100000000000000) := by decide +kernel

end Qv.Gen.Tableaux
