import Qv.Gen.Tableaux
/-! Regenerated on every run by harness/translate_tableaux.py from /repo — do not edit. -/
set_option maxRecDepth 100000
namespace Qv.Gen.Tableaux
open Qv.C10

theorem vern9_trees_9 : treeDefectAt vern9 9 ≤ ((1 : Rat) / 100000000000000) := by decide +kernel

end Qv.Gen.Tableaux
