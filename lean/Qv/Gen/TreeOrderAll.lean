import Qv.Props.C10
import Qv.Gen.TreeOrder
import Qv.Gen.TreeOrder_vern9_8
import Qv.Gen.TreeOrder_vern9_9
/-! Regenerated on every run by harness/translate_tableaux.py from /repo — do not edit. -/
namespace Qv.Gen.Tableaux
open Qv.C10

theorem euler_shape : shapeOk euler = true := by decide +kernel
/-- every rooted tree with at most 1 vertices satisfies the order condition of `euler` as it stands in the source -/
theorem euler_order_conditions (t : BTree) (ht : t.order ≤ 1) : treeResidual euler t ≤ ((1 : Rat) / 100000000000000) :=
  order_conditions_all_trees euler 1 ((1 : Rat) / 100000000000000) (fun n hn => match n, hn with | 0, _ => euler_trees_1 | n + 1, h => absurd h (by omega)) t ht

theorem rk4_shape : shapeOk rk4 = true := by decide +kernel
/-- every rooted tree with at most 4 vertices satisfies the order condition of `rk4` as it stands in the source -/
theorem rk4_order_conditions (t : BTree) (ht : t.order ≤ 4) : treeResidual rk4 t ≤ ((1 : Rat) / 100000000000000) :=
  order_conditions_all_trees rk4 4 ((1 : Rat) / 100000000000000) (fun n hn => match n, hn with | 0, _ => rk4_trees_1 | 1, _ => rk4_trees_2 | 2, _ => rk4_trees_3 | 3, _ => rk4_trees_4 | n + 4, h => absurd h (by omega)) t ht

theorem vern7_shape : shapeOk vern7 = true := by decide +kernel
/-- every rooted tree with at most 7 vertices satisfies the order condition of `vern7` as it stands in the source -/
theorem vern7_order_conditions (t : BTree) (ht : t.order ≤ 7) : treeResidual vern7 t ≤ ((1 : Rat) / 100000000000000) :=
  order_conditions_all_trees vern7 7 ((1 : Rat) / 100000000000000) (fun n hn => match n, hn with | 0, _ => vern7_trees_1 | 1, _ => vern7_trees_2 | 2, _ => vern7_trees_3 | 3, _ => vern7_trees_4 | 4, _ => vern7_trees_5 | 5, _ => vern7_trees_6 | 6, _ => vern7_trees_7 | n + 7, h => absurd h (by omega)) t ht

theorem vern9_shape : shapeOk vern9 = true := by decide +kernel
/-- every rooted tree with at most 9 vertices satisfies the order condition of `vern9` as it stands in the source -/
theorem vern9_order_conditions (t : BTree) (ht : t.order ≤ 9) : treeResidual vern9 t ≤ ((1 : Rat) / 100000000000000) :=
  order_conditions_all_trees vern9 9 ((1 : Rat) / 100000000000000) (fun n hn => match n, hn with | 0, _ => vern9_trees_1 | 1, _ => vern9_trees_2 | 2, _ => vern9_trees_3 | 3, _ => vern9_trees_4 | 4, _ => vern9_trees_5 | 5, _ => vern9_trees_6 | 6, _ => vern9_trees_7 | 7, _ => vern9_trees_8 | 8, _ => vern9_trees_9 | n + 9, h => absurd h (by omega)) t ht

end Qv.Gen.Tableaux
