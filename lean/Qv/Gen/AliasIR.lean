import Qv.Model.C04
/-! Regenerated on every run by harness/translate_alias.py from /repo — do not edit. -/
namespace Qv.Gen.AliasIR
open Qv.C04

/-- `qutip/solver/solver_base.py` Solver_init (13 statements, 11 variables) -/
def ir_Solver_init : Stmt := (.seq (.fresh 0) (.seq (.choice (.seq (.fresh 5) (.mutate 0)) .skip) (.seq (.alias 6 2) (.seq (.mutate 0) (.seq (.fresh 7) (.seq (.mutate 0) (.seq (.fresh 8) (.seq (.mutate 0) (.seq (.fresh 9) (.seq (.mutate 0) (.mutate 5)))))))))))
theorem ok_Solver_init : safeExcept [3, 4, 5, 6, 7, 8, 9, 10] ir_Solver_init = true := by decide

/-- `qutip/solver/sesolve.py` SESolver_init (5 statements, 7 variables) -/
def ir_SESolver_init : Stmt := (.seq (.fresh 0) (.seq (.fresh 3) (.seq (.choice .skip .skip) (.seq (.fresh 6) (.choice .skip .skip)))))
theorem ok_SESolver_init : safeExcept [3, 4, 5, 6] ir_SESolver_init = true := by decide

/-- `qutip/solver/mesolve.py` MESolver_init (18 statements, 11 variables) -/
def ir_MESolver_init : Stmt := (.seq (.fresh 0) (.seq (.fresh 4) (.seq (.choice .skip .skip) (.seq (.choice .skip (.fresh 2)) (.seq (.choice (.fresh 2) .skip) (.seq (.loop (.seq (.havoc 7) (.choice .skip .skip))) (.seq (.fresh 8) (.seq (.mutate 0) (.seq (.choice (.alias 9 1) (.fresh 9)) (.seq (.loop (.havoc 7)) (.fresh 9)))))))))))
theorem ok_MESolver_init : safeExcept [4, 5, 6, 7, 8, 9, 10] ir_MESolver_init = true := by decide

/-- `qutip/solver/mcsolve.py` MCSolver_init (38 statements, 16 variables) -/
def ir_MCSolver_init : Stmt := (.seq (.fresh 0) (.seq (.fresh 4) (.seq (.choice (.fresh 2) .skip) (.seq (.loop (.havoc 7)) (.seq (.fresh 2) (.seq (.choice (.seq (.loop (.havoc 7)) (.seq (.fresh 8) (.seq (.mutate 0) (.seq (.alias 9 8) (.seq (.mutate 0) (.seq (.fresh 10) (.loop (.seq (.havoc 7) (.seq (.fresh 11) (.choice (.mutate 10) (.fresh 10))))))))))) (.seq (.alias 8 2) (.seq (.mutate 0) (.seq (.loop (.havoc 7)) (.seq (.fresh 9) (.seq (.mutate 0) (.seq (.fresh 10) (.loop (.seq (.havoc 12) (.choice (.mutate 10) (.fresh 10))))))))))) (.seq (.fresh 13) (.seq (.mutate 0) (.seq (.alias 14 3) (.seq (.mutate 0) (.havoc 15)))))))))))
theorem ok_MCSolver_init : safeExcept [4, 5, 6, 7, 8, 9, 10, 11, 12, 13, 14, 15] ir_MCSolver_init = true := by decide

/-- `qutip/solver/mcsolve.py` _MCRHS_init (7 statements, 7 variables) -/
def ir__MCRHS_init : Stmt := (.seq (.fresh 0) (.seq (.alias 4 1) (.seq (.mutate 0) (.seq (.alias 5 2) (.seq (.mutate 0) (.seq (.alias 6 3) (.mutate 0)))))))
theorem ok__MCRHS_init : safeExcept [4, 5, 6] ir__MCRHS_init = true := by decide

/-- `qutip/solver/mcsolve.py` _MCRHS_arguments (7 statements, 7 variables) -/
def ir__MCRHS_arguments : Stmt := (.seq (.mutate 2) (.seq (.loop (.seq (.alias 4 3) (.mutate 4))) (.loop (.seq (.alias 6 5) (.mutate 6)))))
theorem ok__MCRHS_arguments : safeExcept [0, 2, 3, 4, 5, 6] ir__MCRHS_arguments = true := by decide

/-- `qutip/solver/multitraj.py` _MultiTrajRHS_arguments (1 statements, 3 variables) -/
def ir__MultiTrajRHS_arguments : Stmt := (.mutate 2)
theorem ok__MultiTrajRHS_arguments : safeExcept [0, 2] ir__MultiTrajRHS_arguments = true := by decide

/-- `qutip/solver/solver_base.py` Solver_argument (3 statements, 4 variables) -/
def ir_Solver_argument : Stmt := (.choice (.seq (.mutate 2) (.mutate 3)) .skip)
theorem ok_Solver_argument : safeExcept [0, 2, 3] ir_Solver_argument = true := by decide

/-- `qutip/solver/nm_mcsolve.py` NonMarkovianMCSolver_init (33 statements, 19 variables) -/
def ir_NonMarkovianMCSolver_init : Stmt := (.seq (.fresh 0) (.seq (.alias 4 3) (.seq (.mutate 0) (.seq (.fresh 5) (.seq (.mutate 0) (.seq (.fresh 6) (.seq (.mutate 0) (.seq (.loop (.seq (.havoc 7) (.seq (.havoc 8) (.seq (.choice .skip .skip) (.seq (.choice (.fresh 8) .skip) (.seq (.choice .skip .skip) (.seq (.mutate 5) (.mutate 6)))))))) (.seq (.havoc 12) (.seq (.havoc 13) (.seq (.choice (.seq (.mutate 5) (.mutate 6)) .skip) (.seq (.fresh 14) (.seq (.mutate 0) (.seq (.fresh 15) (.seq (.mutate 0) (.seq (.loop (.havoc 8)) (.seq (.fresh 16) (.seq (.mutate 0) (.seq (.loop (.seq (.havoc 7) (.havoc 17))) (.fresh 18))))))))))))))))))))
theorem ok_NonMarkovianMCSolver_init : safeExcept [4, 5, 6, 7, 8, 9, 10, 11, 12, 13, 14, 15, 16, 17, 18] ir_NonMarkovianMCSolver_init = true := by decide

/-- `qutip/solver/multitraj.py` MultiTrajSolver_init (17 statements, 11 variables) -/
def ir_MultiTrajSolver_init : Stmt := (.seq (.fresh 0) (.seq (.choice (.seq (.havoc 4) (.mutate 0)) (.choice (.seq (.alias 4 1) (.mutate 0)) .skip)) (.seq (.alias 6 2) (.seq (.mutate 0) (.seq (.fresh 7) (.seq (.mutate 0) (.seq (.fresh 8) (.seq (.mutate 0) (.seq (.fresh 9) (.seq (.mutate 0) (.seq (.fresh 10) (.mutate 0))))))))))))
theorem ok_MultiTrajSolver_init : safeExcept [3, 4, 5, 6, 7, 8, 9, 10] ir_MultiTrajSolver_init = true := by decide

/-- `qutip/solver/brmesolve.py` BRSolver_init (42 statements, 24 variables) -/
def ir_BRSolver_init : Stmt := (.seq (.fresh 0) (.seq (.fresh 6) (.seq (.fresh 7) (.seq (.mutate 0) (.seq (.alias 8 4) (.seq (.mutate 0) (.seq (.alias 9 5) (.seq (.mutate 0) (.seq (.choice .skip .skip) (.seq (.fresh 1) (.seq (.choice .skip (.fresh 3)) (.seq (.choice (.fresh 3) .skip) (.seq (.loop (.seq (.havoc 12) (.choice .skip .skip))) (.seq (.choice .skip (.fresh 2)) (.seq (.choice .skip .skip) (.seq (.choice (.fresh 2) .skip) (.seq (.loop (.seq (.havoc 13) (.seq (.havoc 14) (.seq (.choice .skip .skip) (.choice .skip .skip))))) (.seq (.fresh 17) (.seq (.mutate 0) (.seq (.fresh 18) (.seq (.mutate 0) (.seq (.fresh 19) (.seq (.mutate 0) (.seq (.fresh 7) (.seq (.mutate 0) (.seq (.fresh 20) (.seq (.mutate 0) (.seq (.fresh 21) (.seq (.mutate 0) (.seq (.fresh 22) (.seq (.mutate 0) (.mutate 7))))))))))))))))))))))))))))))))
theorem ok_BRSolver_init : safeExcept [6, 7, 8, 9, 10, 11, 12, 13, 14, 15, 16, 17, 18, 19, 20, 21, 22, 23] ir_BRSolver_init = true := by decide

/-- `qutip/solver/stochastic.py` StochasticSolver_init (22 statements, 14 variables) -/
def ir_StochasticSolver_init : Stmt := (.seq (.fresh 0) (.seq (.alias 6 3) (.seq (.mutate 0) (.seq (.choice .skip .skip) (.seq (.fresh 9) (.choice (.seq (.fresh 10) (.seq (.mutate 0) (.seq (.loop (.seq (.havoc 11) (.seq (.choice (.mutate 10) (.fresh 10)) (.mutate 0)))) (.seq (.fresh 13) (.mutate 0))))) (.seq (.loop (.havoc 11)) (.seq (.fresh 10) (.seq (.mutate 0) (.seq (.fresh 13) (.mutate 0)))))))))))
theorem ok_StochasticSolver_init : safeExcept [6, 7, 8, 9, 10, 11, 12, 13] ir_StochasticSolver_init = true := by decide

/-- `qutip/solver/stochastic.py` _StochasticRHS_init (45 statements, 18 variables) -/
def ir__StochasticRHS_init : Stmt := (.seq (.fresh 0) (.seq (.choice .skip .skip) (.seq (.fresh 8) (.seq (.mutate 0) (.seq (.choice (.fresh 3) .skip) (.seq (.loop (.havoc 9)) (.seq (.fresh 10) (.seq (.mutate 0) (.seq (.choice (.fresh 4) .skip) (.seq (.loop (.havoc 9)) (.seq (.fresh 11) (.seq (.mutate 0) (.seq (.loop (.havoc 9)) (.seq (.choice .skip .skip) (.seq (.loop (.havoc 9)) (.seq (.choice .skip .skip) (.seq (.alias 12 1) (.seq (.mutate 0) (.seq (.alias 13 5) (.seq (.mutate 0) (.seq (.fresh 14) (.seq (.mutate 0) (.seq (.choice (.seq (.fresh 3) (.seq (.loop (.seq (.havoc 9) (.seq (.mutate 3) (.mutate 3)))) (.seq (.alias 10 3) (.mutate 0)))) .skip) (.choice (.seq (.fresh 16) (.seq (.mutate 0) (.seq (.fresh 17) (.mutate 0)))) (.seq (.havoc 16) (.seq (.mutate 0) (.seq (.havoc 17) (.mutate 0))))))))))))))))))))))))))))
theorem ok__StochasticRHS_init : safeExcept [6, 7, 8, 9, 10, 11, 12, 13, 14, 15, 16, 17] ir__StochasticRHS_init = true := by decide

/-- `qutip/solver/floquet.py` FMESolver_init (24 statements, 20 variables) -/
def ir_FMESolver_init : Stmt := (.seq (.fresh 0) (.seq (.alias 7 6) (.seq (.mutate 0) (.seq (.choice (.seq (.alias 9 1) (.mutate 0)) .skip) (.seq (.choice .skip (.fresh 5)) (.seq (.fresh 10) (.seq (.mutate 0) (.seq (.havoc 11) (.seq (.havoc 12) (.seq (.loop (.seq (.havoc 13) (.havoc 14))) (.seq (.choice .skip .skip) (.seq (.fresh 16) (.seq (.mutate 0) (.seq (.fresh 17) (.seq (.mutate 0) (.seq (.fresh 18) (.seq (.mutate 0) (.seq (.fresh 19) (.mutate 0)))))))))))))))))))
theorem ok_FMESolver_init : safeExcept [7, 8, 9, 10, 11, 12, 13, 14, 15, 16, 17, 18, 19] ir_FMESolver_init = true := by decide

/-- `qutip/solver/krylovsolve.py` krylovsolve (10 statements, 11 variables) -/
def ir_krylovsolve : Stmt := (.seq (.havoc 7) (.seq (.havoc 8) (.seq (.havoc 9) (.seq (.fresh 0) (.seq (.choice (.fresh 9) (.fresh 9)) (.seq (.mutate 9) (.seq (.mutate 9) (.fresh 10))))))))
theorem ok_krylovsolve : safeExcept [10] ir_krylovsolve = true := by decide

/-- `qutip/solver/sesolve.py` sesolve (6 statements, 11 variables) -/
def ir_sesolve : Stmt := (.seq (.havoc 6) (.seq (.havoc 7) (.seq (.havoc 8) (.seq (.havoc 8) (.seq (.fresh 0) (.fresh 10))))))
theorem ok_sesolve : safeExcept [10] ir_sesolve = true := by decide

/-- `qutip/solver/mesolve.py` mesolve (19 statements, 16 variables) -/
def ir_mesolve : Stmt := (.seq (.havoc 7) (.seq (.havoc 8) (.seq (.havoc 9) (.seq (.havoc 9) (.seq (.fresh 0) (.seq (.choice .skip (.fresh 3)) (.seq (.choice (.fresh 3) .skip) (.seq (.loop (.havoc 13)) (.seq (.fresh 3) (.seq (.choice (.choice (.fresh 14) (.fresh 14)) (.havoc 14)) (.seq (.choice .skip .skip) (.fresh 15))))))))))))
theorem ok_mesolve : safeExcept [11, 12, 13, 14, 15] ir_mesolve = true := by decide

/-- `qutip/solver/mcsolve.py` mcsolve (19 statements, 22 variables) -/
def ir_mcsolve : Stmt := (.seq (.havoc 9) (.seq (.havoc 6) (.seq (.havoc 7) (.seq (.fresh 0) (.seq (.choice (.fresh 3) .skip) (.seq (.loop (.havoc 16)) (.seq (.fresh 3) (.seq (.choice (.seq (.choice (.fresh 9) .skip) (.seq (.loop (.havoc 17)) (.fresh 9))) .skip) (.seq (.choice .skip .skip) (.seq (.choice .skip .skip) (.seq (.fresh 20) (.havoc 21))))))))))))
theorem ok_mcsolve : safeExcept [14, 15, 16, 17, 18, 19, 20, 21] ir_mcsolve = true := by decide

/-- `qutip/solver/nm_mcsolve.py` nm_mcsolve (15 statements, 20 variables) -/
def ir_nm_mcsolve : Stmt := (.seq (.havoc 6) (.seq (.havoc 7) (.seq (.fresh 0) (.seq (.choice (.seq (.choice (.fresh 9) .skip) (.seq (.loop (.havoc 14)) (.fresh 9))) .skip) (.seq (.loop (.seq (.havoc 16) (.havoc 17))) (.seq (.fresh 3) (.seq (.fresh 18) (.havoc 19))))))))
theorem ok_nm_mcsolve : safeExcept [14, 15, 16, 17, 18, 19] ir_nm_mcsolve = true := by decide

/-- `qutip/solver/brmesolve.py` brmesolve (45 statements, 30 variables) -/
def ir_brmesolve : Stmt := (.seq (.choice (.seq (.alias 6 4) (.seq (.fresh 4) (.seq (.choice (.havoc 5) .skip) (.seq (.choice (.havoc 7) .skip) (.seq (.choice (.havoc 4) .skip) (.choice (.havoc 8) .skip)))))) .skip) (.seq (.havoc 8) (.seq (.choice .skip (.fresh 7)) (.seq (.fresh 0) (.seq (.choice .skip (.fresh 5)) (.seq (.choice (.fresh 5) .skip) (.seq (.loop (.havoc 17)) (.seq (.fresh 5) (.seq (.fresh 18) (.seq (.choice .skip (.fresh 3)) (.seq (.loop (.seq (.havoc 19) (.seq (.havoc 20) (.seq (.choice (.fresh 19) .skip) (.choice (.mutate 18) (.choice (.mutate 18) (.choice (.mutate 18) (.choice (.mutate 18) (.choice (.seq (.havoc 27) (.seq (.choice (.fresh 28) (.fresh 28)) (.mutate 18))) .skip))))))))) (.fresh 29))))))))))))
theorem ok_brmesolve : safeExcept [11, 12, 13, 14, 15, 16, 17, 18, 19, 20, 21, 22, 23, 24, 25, 26, 27, 28, 29] ir_brmesolve = true := by decide

/-- `qutip/solver/stochastic.py` smesolve (13 statements, 17 variables) -/
def ir_smesolve : Stmt := (.seq (.havoc 9) (.seq (.fresh 0) (.seq (.choice (.fresh 4) .skip) (.seq (.choice (.fresh 3) .skip) (.seq (.loop (.havoc 15)) (.seq (.fresh 3) (.seq (.loop (.havoc 15)) (.seq (.fresh 4) (.fresh 16)))))))))
theorem ok_smesolve : safeExcept [14, 15, 16] ir_smesolve = true := by decide

/-- `qutip/solver/stochastic.py` ssesolve (8 statements, 16 variables) -/
def ir_ssesolve : Stmt := (.seq (.havoc 8) (.seq (.fresh 0) (.seq (.choice (.fresh 3) .skip) (.seq (.loop (.havoc 14)) (.seq (.fresh 3) (.fresh 15))))))
theorem ok_ssesolve : safeExcept [13, 14, 15] ir_ssesolve = true := by decide

/-- `qutip/solver/result.py` _BaseResult_init (16 statements, 10 variables) -/
def ir__BaseResult_init : Stmt := (.seq (.fresh 0) (.seq (.alias 4 2) (.seq (.mutate 0) (.seq (.choice (.fresh 3) .skip) (.seq (.alias 5 3) (.seq (.mutate 0) (.seq (.fresh 6) (.seq (.mutate 0) (.seq (.fresh 7) (.seq (.mutate 0) (.seq (.fresh 8) (.seq (.choice (.mutate 8) .skip) (.seq (.alias 9 8) (.mutate 0))))))))))))))
theorem ok__BaseResult_init : safeExcept [4, 5, 6, 7, 8, 9] ir__BaseResult_init = true := by decide

/-- `qutip/solver/result.py` Result_init (20 statements, 17 variables) -/
def ir_Result_init : Stmt := (.seq (.fresh 0) (.seq (.havoc 6) (.seq (.loop (.havoc 7)) (.seq (.fresh 8) (.seq (.mutate 0) (.seq (.fresh 9) (.seq (.mutate 0) (.seq (.loop (.seq (.havoc 7) (.seq (.havoc 10) (.seq (.havoc 11) (.seq (.mutate 9) (.mutate 0)))))) (.seq (.fresh 14) (.seq (.mutate 0) (.seq (.fresh 15) (.seq (.mutate 0) (.seq (.fresh 16) (.mutate 0))))))))))))))
theorem ok_Result_init : safeExcept [6, 7, 8, 9, 10, 11, 12, 13, 14, 15, 16] ir_Result_init = true := by decide

/-- `qutip/solver/multitrajresult.py` MultiTrajResult_init (34 statements, 22 variables) -/
def ir_MultiTrajResult_init : Stmt := (.seq (.fresh 0) (.seq (.havoc 6) (.seq (.mutate 0) (.seq (.fresh 7) (.seq (.mutate 0) (.seq (.fresh 8) (.seq (.mutate 0) (.seq (.fresh 9) (.seq (.mutate 0) (.seq (.fresh 10) (.seq (.mutate 0) (.seq (.fresh 11) (.seq (.mutate 0) (.seq (.fresh 12) (.seq (.mutate 0) (.seq (.choice (.seq (.loop (.havoc 14)) (.seq (.fresh 15) (.mutate 0))) (.seq (.fresh 15) (.mutate 0))) (.seq (.fresh 16) (.seq (.mutate 0) (.seq (.fresh 17) (.seq (.mutate 0) (.seq (.fresh 18) (.seq (.mutate 0) (.seq (.fresh 19) (.seq (.mutate 0) (.seq (.fresh 20) (.seq (.mutate 0) (.seq (.fresh 21) (.mutate 0))))))))))))))))))))))))))))
theorem ok_MultiTrajResult_init : safeExcept [6, 7, 8, 9, 10, 11, 12, 13, 14, 15, 16, 17, 18, 19, 20, 21] ir_MultiTrajResult_init = true := by decide

/-- `qutip/solver/multitrajresult.py` MultiTrajResult_add (0 statements, 2 variables) -/
def ir_MultiTrajResult_add : Stmt := .skip
theorem ok_MultiTrajResult_add : safeExcept [] ir_MultiTrajResult_add = true := by decide

/-- `qutip/solver/multitrajresult.py` _TrajectorySum_merge (33 statements, 10 variables) -/
def ir__TrajectorySum_merge : Stmt := (.seq (.choice .skip .skip) (.seq (.choice .skip .skip) (.seq (.fresh 5) (.seq (.choice (.seq (.choice (.seq (.loop (.havoc 6)) (.mutate 5)) .skip) (.seq (.choice (.mutate 5) .skip) (.seq (.loop (.havoc 7)) (.seq (.mutate 5) (.seq (.loop (.havoc 7)) (.mutate 5)))))) .skip) (.seq (.choice (.seq (.loop (.seq (.havoc 6) (.havoc 8))) (.mutate 5)) (.mutate 5)) (.seq (.choice (.mutate 5) (.mutate 5)) (.seq (.loop (.seq (.havoc 7) (.havoc 9))) (.seq (.mutate 5) (.seq (.loop (.seq (.havoc 7) (.havoc 9))) (.mutate 5))))))))))
theorem ok__TrajectorySum_merge : safeExcept [4, 5, 6, 7, 8, 9] ir__TrajectorySum_merge = true := by decide

/-- `qutip/solver/solver_base.py` solver_deprecation (29 statements, 5 variables) -/
def ir_solver_deprecation : Stmt := (.seq (.choice (.fresh 1) (.fresh 1)) (.seq (.choice (.seq (.mutate 0) (.mutate 1)) .skip) (.seq (.choice (.mutate 0) .skip) (.seq (.choice (.mutate 0) .skip) (.seq (.choice (.mutate 0) .skip) (.seq (.choice (.mutate 0) .skip) (.seq (.choice (.mutate 0) .skip) (.seq (.choice (.mutate 0) .skip) (.seq (.choice (.seq (.mutate 0) (.mutate 1)) .skip) (.seq (.choice (.seq (.mutate 0) (.mutate 1)) .skip) (.seq (.choice (.seq (.mutate 0) (.mutate 1)) .skip) (.seq (.choice .skip .skip) (.choice .skip .skip)))))))))))))
theorem ok_solver_deprecation : safeExcept [0, 3, 4] ir_solver_deprecation = true := by decide

/-- `qutip/solver/parallel.py` get_map (4 statements, 5 variables) -/
def ir_get_map : Stmt := (.seq (.havoc 2) (.choice (.fresh 4) (.fresh 4)))
theorem ok_get_map : safeExcept [1, 2, 3, 4] ir_get_map = true := by decide

/-- `qutip/core/environment.py` ExponentialBosonicEnvironment_init (20 statements, 14 variables) -/
def ir_ExponentialBosonicEnvironment_init : Stmt := (.seq (.fresh 0) (.seq (.havoc 9) (.seq (.choice .skip .skip) (.seq (.loop (.havoc 10)) (.seq (.choice .skip .skip) (.seq (.fresh 5) (.seq (.choice (.seq (.loop (.seq (.havoc 11) (.havoc 12))) (.seq (.mutate 5) (.seq (.loop (.seq (.havoc 11) (.havoc 12))) (.mutate 5)))) .skip) (.seq (.choice (.havoc 5) .skip) (.seq (.alias 13 5) (.mutate 0))))))))))
theorem ok_ExponentialBosonicEnvironment_init : safeExcept [9, 10, 11, 12, 13] ir_ExponentialBosonicEnvironment_init = true := by decide

/-- `qutip/core/environment.py` ExponentialFermionicEnvironment_init (17 statements, 14 variables) -/
def ir_ExponentialFermionicEnvironment_init : Stmt := (.seq (.fresh 0) (.seq (.havoc 9) (.seq (.choice .skip .skip) (.seq (.loop (.havoc 10)) (.seq (.choice .skip .skip) (.seq (.fresh 11) (.seq (.mutate 0) (.choice (.seq (.loop (.seq (.havoc 12) (.havoc 13))) (.seq (.mutate 11) (.seq (.loop (.seq (.havoc 12) (.havoc 13))) (.mutate 11)))) .skip))))))))
theorem ok_ExponentialFermionicEnvironment_init : safeExcept [9, 10, 11, 12, 13] ir_ExponentialFermionicEnvironment_init = true := by decide

end Qv.Gen.AliasIR
