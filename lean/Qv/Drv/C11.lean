import Qv.Drv.Util
import Qv.Model.C11
open Lean
namespace Qv.Drv.C11
open Qv.C11 Qv.Drv

def m2Json (m : M2) : Json := jInts [m.a, m.b, m.c, m.d]

def prop (j : Json) : Except String Json := do
  let cte ← getBool j "cte"
  let memo ← getNat j "memoize"
  let qs ← (← getArr j "queries").toList.mapM fun q => do
    let a ← q.getArr?
    match a.toList with
    | [t, s] => pure ((← t.getInt?), (← s.getInt?), (none : Option Nat))
    | [t, s, w] => pure ((← t.getInt?), (← s.getInt?), (match w.getNat? with | .ok n => some n | .error _ => none))
    | _ => throw "bad query"
  let As := fun w => m2Alg cte w
  let (q, us) := callsW As ⟨init (As none) cte memo, none⟩ qs
  pure <| Json.mkObj [("answers", Json.arr (us.map m2Json).toArray), ("times", jInts q.p.times),
    ("t_last", (q.p.sol.tl : Json))]

end Qv.Drv.C11
