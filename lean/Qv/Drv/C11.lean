import Qv.Drv.Util
import Qv.Model.C11
open Lean
namespace Qv.Drv.C11
open Qv.C11 Qv.Drv

def m2Json (m : M2) : Json := jInts [m.a, m.b, m.c, m.d]

def prop (j : Json) : Except String Json := do
  let cte ← getBool j "cte"
  let memo ← getNat j "memoize"
  let qs ← (← getArr j "queries").toList.mapM fun q => do
    let l ← intList (← q.getArr?)
    match l with
    | [t, s] => pure (t, s)
    | _ => throw "bad query"
  let A := m2Alg cte
  let (p, us) := calls A (init A cte memo) qs
  pure <| Json.mkObj [("answers", Json.arr (us.map m2Json).toArray), ("times", jInts p.times),
    ("t_last", (p.sol.tl : Json))]

end Qv.Drv.C11
