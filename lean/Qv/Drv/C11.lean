import Qv.Drv.Util
import Qv.Model.C11
open Lean
namespace Qv.Drv.C11
open Qv.C11 Qv.Drv

def m2Json (m : M2) : Json := jInts [m.a, m.b, m.c, m.d]

def prop (j : Json) : Except String Json := do
  let cte ← getBool j "cte"
  let memo ← getNat j "memoize"
  let qs ← (← getArr j "queries").toList.mapM fun q => do
    let a ← q.getArr?
    match a.toList with
    | [t, s] => pure ((← t.getInt?), (← s.getInt?), (none : Option Nat))
    | [t, s, w] => pure ((← t.getInt?), (← s.getInt?), (match w.getNat? with | .ok n => some n | .error _ => none))
    | _ => throw "bad query"
  let As := fun w => m2Alg cte w
  let (q, us) := callsW As ⟨init (As none) cte memo, none⟩ qs
  pure <| Json.mkObj [("answers", Json.arr (us.map m2Json).toArray), ("times", jInts q.p.times),
    ("t_last", (q.p.sol.tl : Json))]

/-! `C11.options`: {"S": {key: default}, "I": {method: {key: default}}, "method": m0,
"ops": [["set", {key: value | null, ("method": m)}], ["item", key, value | null], ["method", m]]}; values are strings.
One output per operation: the options object afterwards as {"method": m, "vals": [[key, value], ...]} (keys of S and of
the method's integrator, sorted by the caller) or "KeyError". -/
def objPairs (j : Json) : Except String (List (String × Json)) := do
  match j with
  | .obj kvs => pure (kvs.toList)
  | _ => throw "object expected"

def optionsJ (j : Json) : Except String Json := do
  let sPairs ← objPairs (← j.getObjVal? "S")
  let sD ← sPairs.mapM fun (k, v) => do pure (k, ← v.getStr?)
  let iPairs ← objPairs (← j.getObjVal? "I")
  let iD ← iPairs.mapM fun (m, o) => do
    let kv ← objPairs o
    pure (m, ← kv.mapM fun (k, v) => do pure (k, ← v.getStr?))
  let sp : OptSpec String String String := {
    S := fun k => (sD.lookup k).isSome,
    I := fun m k => ((iD.lookup m).getD []).lookup k |>.isSome,
    dS := fun k => (sD.lookup k).getD "",
    dI := fun m k => (((iD.lookup m).getD []).lookup k).getD "" }
  let allKeys := (sD.map (·.1)) ++ (iD.flatMap fun p => p.2.map (·.1))
  let show_ := fun (st : OptState String String String) =>
    Json.mkObj [("method", (st.method : Json)),
      ("vals", Json.arr ((allKeys.eraseDups.filterMap fun k => (st.vals k).map fun w => Json.arr #[(k : Json), (w : Json)]).toArray))]
  let mut st : OptState String String String := OptState.default sp (← getStr j "method")
  let mut out : Array Json := #[]
  for op in (← getArr j "ops") do
    let a ← op.getArr?
    let kind ← (a[0]!).getStr?
    if kind == "set" then
      let kv ← objPairs a[1]!
      let meth := match kv.lookup "method" with
        | some (.str m) => some m
        | _ => none
      let rest := kv.filter fun p => p.1 != "method"
      let vals : List (String × Option String) := rest.map fun (k, v) => (k, match v with | .str s => some s | _ => none)
      let nw : NewOpts String String String := { method := meth, opts := fun k => vals.lookup k, keys := vals.map (·.1) }
      match setOptions sp st nw with
      | none => out := out.push "KeyError"
      | some s' => st := s'; out := out.push (show_ st)
    else if kind == "item" then
      let k ← (a[1]!).getStr?
      let v := match a[2]! with | .str s => some s | _ => none
      match setItem sp st k v with
      | none => out := out.push "KeyError"
      | some s' => st := s'; out := out.push (show_ st)
    else
      st := setMethod sp st (← (a[1]!).getStr?)
      out := out.push (show_ st)
  pure (Json.arr out)

end Qv.Drv.C11
