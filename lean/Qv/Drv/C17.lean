import Qv.Drv.Util
import Qv.Model.C17
open Lean
namespace Qv.Drv.C17
open Qv.C17 Qv.Drv

def wienerJ (j : Json) : Except String Json := do
  let dW ← getRatList j "dW"
  pure <| jRats (wiener dW)

def coarsenJ (j : Json) : Except String Json := do
  let dW ← getRatList j "dW"
  let n ← getNat j "n"
  pure <| jRats (coarsen n (dW.length + 1) dW)

/-- states are indices 0,1,2,…; `e` is the table of expectation values at those states -/
def measJ (j : Json) : Except String Json := do
  let e ← getRatList j "e"
  let dW ← getRatList j "dW"
  let dt ← getRat j "dt"
  let ef := fun (i : Nat) => e.getD i 0
  let states := traj (fun (i : Nat) (_ : Rat) => i + 1) 0 dW
  let m := measStart ef dt states dW
  let back := replayMeas (fun (i : Nat) (_ : Rat) => i + 1) ef dt 0 m
  pure <| Json.mkObj [("measurement", jRats m), ("recovered", jRats back.2), ("nstates", (back.1.length : Nat))]

/-- `{"dW": [increments], "calls": [step indices]}` → the values `W(t)` returns along that history -/
def wienerCallsJ (j : Json) : Except String Json := do
  let dW ← getRatList j "dW"
  let calls ← getNatList j "calls"
  pure <| jRats (runCalls (WState.call (fun k => dW.getD k 0)) ⟨0, 0⟩ calls)

end Qv.Drv.C17
