import Qv.Drv.Util
import Qv.Model.C20
open Lean
namespace Qv.Drv.C20
open Qv.C20 Qv.Drv

def natMat (n : Nat) (f : Nat → Nat → Nat) : Json :=
  Json.arr ((List.range n).map fun r => jNats ((List.range n).map fun c => f r c)).toArray
def intMat (n : Nat) (f : Nat → Nat → Int) : Json :=
  Json.arr ((List.range n).map fun r => jInts ((List.range n).map fun c => f r c)).toArray

def ladderJ (j : Json) : Except String Json := do
  let n ← getNat j "N"
  let off ← getNat j "offset"
  pure <| Json.mkObj [("destroySq", natMat n (destroySq off)), ("createSq", natMat n (createSq off)),
    ("numDiag", jNats ((List.range n).map (numDiag off)))]

def spinJ (j : Json) : Except String Json := do
  let J ← getNat j "J"
  pure <| Json.mkObj [("jplusSq4", intMat (J + 1) (jplusSq4 J)), ("jzTwice", jInts ((List.range (J + 1)).map (jzTwice J)))]

def gateJ (g : Gate) : Json :=
  Json.mkObj [("name", g.name), ("scaleSq", (g.scaleSq : Json)),
    ("m", Json.arr (g.m.map fun row => Json.arr (row.map fun (z : GI) => Json.arr #[(z.re : Json), (z.im : Json)]).toArray).toArray),
    ("hermitian", isHermitian g.m)]

def gatesJ (_ : Json) : Except String Json := pure <| Json.arr (gates.map gateJ).toArray

def hadamardJ (j : Json) : Except String Json := do
  let n ← getNat j "N"
  pure <| intMat (2 ^ n) hadamardSign

def basisJ (j : Json) : Except String Json := do
  let n ← getNat j "N"
  pure <| jNats ((List.range n).map (basisEntry (← getNat j "n") (← getNat j "offset")))

end Qv.Drv.C20
