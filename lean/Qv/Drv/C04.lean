import Qv.Drv.Util
import Qv.Model.C04
open Lean
namespace Qv.Drv.C04
open Qv.C04 Qv.Drv

partial def stmtOf (j : Json) : Except String Stmt := do
  match j with
  | .arr a =>
    let tag ← (a.getD 0 Json.null).getStr?
    match tag with
    | "fresh" => pure (.fresh (← (a.getD 1 Json.null).getNat?))
    | "alias" => pure (.alias (← (a.getD 1 Json.null).getNat?) (← (a.getD 2 Json.null).getNat?))
    | "havoc" => pure (.havoc (← (a.getD 1 Json.null).getNat?))
    | "mutate" => pure (.mutate (← (a.getD 1 Json.null).getNat?))
    | "seq" => pure (.seq (← stmtOf (a.getD 1 Json.null)) (← stmtOf (a.getD 2 Json.null)))
    | "choice" => pure (.choice (← stmtOf (a.getD 1 Json.null)) (← stmtOf (a.getD 2 Json.null)))
    | "loop" => pure (.loop (← stmtOf (a.getD 1 Json.null)))
    | "skip" => pure .skip
    | t => throw ("bad stmt tag " ++ t)
  | _ => throw "stmt = array"

/-- {ir, recv:[vars]} -> {safe, own} -/
def analyzeJ (j : Json) : Except String Json := do
  let st ← stmtOf (← j.getObjVal? "ir")
  let recv := (getNatList j "recv").toOption.getD []
  match analyze st recv with
  | some own => pure <| Json.mkObj [("safe", true), ("own", jNats own.eraseDups)]
  | none => pure <| Json.mkObj [("safe", false)]

end Qv.Drv.C04
