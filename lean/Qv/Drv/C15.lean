import Qv.Drv.Util
import Qv.Model.C15
open Lean
namespace Qv.Drv.C15
open Qv.C15 Qv.Drv

abbrev Store := List (Nat × MT Rat)

def get (st : Store) (k : Nat) : Except String (MT Rat) :=
  match st.lookup k with
  | some m => .ok m
  | none => .error s!"no object {k}"

def put (st : Store) (k : Nat) (m : MT Rat) : Store := (k, m) :: st.filter (·.1 != k)

def errJson : Err → Json
  | .typeError => "TypeError"
  | .zeroDiv => "ZeroDivisionError"
  | .valueError => "ValueError"

def optJ {α} (f : α → Json) : Option α → Json
  | none => Json.null
  | some a => f a

def parseTraj (j : Json) : Except String (Traj Rat) := do
  pure { x := ← getRat j "x", s := ← getRatList j "s", f := ← getOptRat j "f" }

def stepOp (st : Store) (j : Json) : Except String (Store × Json) := do
  let op ← getStr j "op"
  let k ← getNat j "k"
  let missing := (op != "new" && op != "merge" && (st.lookup k).isNone) ||
    (op == "merge" && (match getNat j "a", getNat j "b" with
      | .ok a, .ok b => (st.lookup a).isNone || (st.lookup b).isNone
      | _, _ => true))
  if missing then return (st, "NoObject")
  match op with
  | "new" =>
    let o : Opts := { keep := ← getBool j "keep", storeStates := ← getOptBool j "ss",
                      storeFinal := ← getBool j "sf", hasEops := ← getBool j "eops" }
    pure (put st k (fresh o), "ok")
  | "add" =>
    let m ← get st k
    match add m (← getNat j "seed") (← parseTraj j) (← getRat j "w") with
    | .ok m => pure (put st k m, "ok")
    | .error e => pure (st, errJson e)
  | "add_det" =>
    let m ← get st k
    match addDet m (← parseTraj j) (← getRat j "w") with
    | .ok m => pure (put st k m, "ok")
    | .error e => pure (st, errJson e)
  | "avg" =>
    let m ← get st k
    let (m, r) := readAvg m
    pure (put st k m, optJ (fun (c : Rat × Rat) => Json.arr #[jRat c.1, jRat c.2]) r)
  | "states" =>
    let m ← get st k
    let (m, r) := readStates m
    pure (put st k m, optJ jRats r)
  | "final" =>
    let m ← get st k
    let (m, r) := readFinal m
    match r with
    | .ok v => pure (put st k m, optJ jRat v)
    | .error e => pure (put st k m, errJson e)
  | "merge" =>
    let a ← get st (← getNat j "a")
    let b ← get st (← getNat j "b")
    match merge a b (← getOptRat j "p") with
    | .ok (n, a', b') =>
      let st := put (put st (← getNat j "a") a') (← getNat j "b") b'
      pure (put st k n, "ok")
    | .error e => pure (st, errJson e)
  | "info" =>
    let m ← get st k
    let rw := m.relW.map (fun w => w / (m.num : Rat))
    pure (st, Json.mkObj [("num", m.num), ("seeds", jNats m.seeds), ("runs_weights", jRats rw),
      ("det_weights", jRats m.detW), ("runs_e", jRats m.runsE), ("has_runs", m.hasRuns),
      ("ntraj_kept", m.trajs.length)])
  | _ => .error ("bad op " ++ op)

def history (j : Json) : Except String Json := do
  let ops ← getArr j "ops"
  let mut st : Store := []
  let mut outs : Array Json := #[]
  for o in ops do
    let (st', out) ← stepOp st o
    st := st'
    outs := outs.push out
  pure (Json.arr outs)

/-- {a: [keys…], b: [keys…]} → does `merge` accept the two key orders (after / before the repair) -/
def dictMergeJ (j : Json) : Except String Json := do
  let ka ← (← getArr j "a").toList.mapM fun x => x.getStr?
  let kb ← (← getArr j "b").toList.mapM fun x => x.getStr?
  let a : KeyedSums Int := ka.map fun k => (k, 0)
  let b : KeyedSums Int := kb.map fun k => (k, 0)
  pure <| Json.mkObj [("mergeable", Json.bool (mergeable a b)), ("mergeable_old_rule", Json.bool (mergeableOld a b))]

end Qv.Drv.C15
