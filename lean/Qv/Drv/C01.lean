import Qv.Drv.Util
import Qv.Model.C01
open Lean
namespace Qv.Drv.C01
open Qv.C01 Qv.Drv

/-- Gaussian integers (driver only) -/
structure CI where
  re : Int
  im : Int
deriving BEq, Inhabited, DecidableEq

instance : Add CI := ⟨fun a b => ⟨a.re + b.re, a.im + b.im⟩⟩
instance : Mul CI := ⟨fun a b => ⟨a.re * b.re - a.im * b.im, a.re * b.im + a.im * b.re⟩⟩
instance : OfNat CI 0 := ⟨⟨0, 0⟩⟩
instance : OfNat CI 1 := ⟨⟨1, 0⟩⟩

def ciOf (j : Json) : Except String CI := do
  match j with
  | .arr #[a, b] => pure ⟨← a.getInt?, ← b.getInt?⟩
  | _ => throw "complex = [re, im]"
def ciJ (c : CI) : Json := Json.arr #[(c.re : Json), (c.im : Json)]

def matOf (j : Json) (k : String) : Except String (List (List CI)) := do
  (← getArr j k).toList.mapM fun r => do (← r.getArr?).toList.mapM ciOf

def denseOfMat (m : List (List CI)) (rows cols : Nat) (fortran : Bool) : Dense CI :=
  Dense.ofFn rows cols fortran fun i j => (m.getD i []).getD j 0

def absJ (rows cols : Nat) (f : Nat → Nat → CI) : Json :=
  Json.arr ((List.range rows).map fun i => Json.arr ((List.range cols).map fun j => ciJ (f i j)).toArray).toArray

def rowsOf (j : Json) (k : String) : Except String (List (Row CI)) := do
  (← getArr j k).toList.mapM fun r => do
    (← r.getArr?).toList.mapM fun e => do
      match e with
      | .arr #[c, v] => pure (← c.getNat?, ← ciOf v)
      | _ => throw "entry = [col, [re, im]]"

def rowsJ (rs : List (Row CI)) : Json :=
  Json.arr (rs.map fun r => Json.arr (r.map fun p => Json.arr #[(p.1 : Json), ciJ p.2]).toArray).toArray

def csrOf (j : Json) (k : String) : Except String (CSR CI) := do
  let o ← j.getObjVal? k
  pure { rows := ← getNat o "rows", cols := ← getNat o "cols", r := ← rowsOf o "r" }

/-- {m, rows, cols, fortran} -> stored rows of csr.from_dense (nothing dropped) and the round trip -/
def csrOfDenseJ (j : Json) : Except String Json := do
  let rows ← getNat j "rows"
  let cols ← getNat j "cols"
  let d := denseOfMat (← matOf j "m") rows cols (← getBool j "fortran")
  let c := csrOfDense (fun (v : CI) => v.re != 0 || v.im != 0) d
  pure <| Json.mkObj [("r", rowsJ c.r), ("back_c", absJ rows cols (denseOfCsr c false).abs), ("back_f", absJ rows cols (denseOfCsr c true).abs),
    ("transposed_view", absJ cols rows d.transposeView.abs)]

def denseOfCsrJ (j : Json) : Except String Json := do
  let c ← csrOf j "a"
  pure <| Json.mkObj [("sum", absJ c.rows c.cols c.abs), ("assign", absJ c.rows c.cols (denseOfCsr c (← getBool j "fortran")).abs)]

def addCsrJ (j : Json) : Except String Json := do
  let a ← csrOf j "a"
  let b ← csrOf j "b"
  let s ← ciOf (← j.getObjVal? "scale")
  let out := addCsr a b s
  pure <| Json.mkObj [("abs", absJ out.rows out.cols out.abs), ("r", rowsJ out.r)]

def transposeCsrJ (j : Json) : Except String Json := do
  let a ← csrOf j "a"
  let out := transposeCsr a
  pure <| Json.mkObj [("abs", absJ out.rows out.cols out.abs), ("r", rowsJ out.r)]

def matmulCsrJ (j : Json) : Except String Json := do
  let a ← csrOf j "a"
  let b ← csrOf j "b"
  let s ← ciOf (← j.getObjVal? "scale")
  let out := matmulCsr a b s
  pure <| Json.mkObj [("abs", absJ out.rows out.cols out.abs), ("r", rowsJ out.r)]

def kronCsrJ (j : Json) : Except String Json := do
  let a ← csrOf j "a"
  let b ← csrOf j "b"
  let out := kronCsr a b
  pure <| Json.mkObj [("abs", absJ out.rows out.cols out.abs), ("r", rowsJ out.r)]

def diaOf (j : Json) (k : String) : Except String (Dia CI) := do
  let o ← j.getObjVal? k
  let ds ← (← getArr o "diags").toList.mapM fun d => do
    match d with
    | .arr #[off, vals] => do
      let vs ← (← vals.getArr?).toList.mapM ciOf
      pure ((← off.getInt?), fun (col : Nat) => vs.getD col 0)
    | _ => throw "diag = [offset, values]"
  pure { rows := ← getNat o "rows", cols := ← getNat o "cols", diags := ds }

def diaAbsJ (j : Json) : Except String Json := do
  let d ← diaOf j "a"
  pure <| absJ d.rows d.cols d.abs

def diaOfDenseJ (j : Json) : Except String Json := do
  let rows ← getNat j "rows"
  let cols ← getNat j "cols"
  let d := denseOfMat (← matOf j "m") rows cols (← getBool j "fortran")
  let out := diaOfDense d
  pure <| Json.mkObj [("abs", absJ rows cols out.abs),
    ("diags", Json.arr (out.diags.map fun p => Json.arr #[(p.1 : Json), Json.arr ((List.range cols).map fun c => ciJ (p.2 c)).toArray]).toArray)]

def matmulDiaJ (j : Json) : Except String Json := do
  let a ← diaOf j "a"
  let b ← diaOf j "b"
  let s ← ciOf (← j.getObjVal? "scale")
  let out := matmulDia a b s
  pure <| Json.mkObj [("abs", absJ out.rows out.cols out.abs), ("offsets", Json.arr (out.diags.map fun p => (p.1 : Json)).toArray)]

def transposeDiaJ (j : Json) : Except String Json := do
  let a ← diaOf j "a"
  let conj ← getBool j "conj"
  let out := mapTransposeDia (fun (z : CI) => if conj then ⟨z.re, -z.im⟩ else z) a
  pure <| Json.mkObj [("abs", absJ out.rows out.cols out.abs), ("offsets", Json.arr (out.diags.map fun p => (p.1 : Json)).toArray)]

def denseBufOf (j : Json) (k : String) : Except String (Dense CI) := do
  let o ← j.getObjVal? k
  let buf ← (← getArr o "data").toList.mapM ciOf
  pure { rows := ← getNat o "rows", cols := ← getNat o "cols", fortran := ← getBool o "fortran", data := fun p => buf.getD p 0 }

def iaddDenseJ (j : Json) : Except String Json := do
  let l ← denseBufOf j "l"
  let r ← denseBufOf j "r"
  let s ← ciOf (← j.getObjVal? "scale")
  let out := iaddDense l r s
  pure <| Json.mkObj [("data", Json.arr ((List.range (out.rows * out.cols)).map fun p => ciJ (out.data p)).toArray),
    ("abs", absJ out.rows out.cols out.abs)]

def matmulCsrDenseJ (j : Json) : Except String Json := do
  let a ← csrOf j "a"
  let b ← denseBufOf j "b"
  let o ← denseBufOf j "out"
  let s ← ciOf (← j.getObjVal? "scale")
  let out := matmulCsrDense a b o s
  pure <| Json.mkObj [("data", Json.arr ((List.range (out.rows * out.cols)).map fun p => ciJ (out.data p)).toArray),
    ("abs", absJ out.rows out.cols out.abs)]

def matmulDiaDenseJ (j : Json) : Except String Json := do
  let a ← diaOf j "a"
  let b ← denseBufOf j "b"
  let s ← ciOf (← j.getObjVal? "scale")
  let o : Option (Dense CI) ← (match j.getObjVal? "out" with
    | .ok (.null) => pure none
    | .ok _ => do pure (some (← denseBufOf j "out"))
    | .error _ => pure none)
  let out := matmulDiaDense a b s o
  pure <| Json.mkObj [("data", Json.arr ((List.range (out.rows * out.cols)).map fun p => ciJ (out.data p)).toArray),
    ("abs", absJ out.rows out.cols out.abs), ("fortran", out.fortran)]

def matmulDenseDiaJ (j : Json) : Except String Json := do
  let a ← denseBufOf j "a"
  let b ← diaOf j "b"
  let s ← ciOf (← j.getObjVal? "scale")
  let o : Option (Dense CI) ← (match j.getObjVal? "out" with
    | .ok (.null) => pure none
    | .ok _ => do pure (some (← denseBufOf j "out"))
    | .error _ => pure none)
  let out := matmulDenseDia a b s o
  pure <| Json.mkObj [("data", Json.arr ((List.range (out.rows * out.cols)).map fun p => ciJ (out.data p)).toArray),
    ("abs", absJ out.rows out.cols out.abs), ("fortran", out.fortran)]

def addDiaJ (j : Json) : Except String Json := do
  let a ← diaOf j "a"
  let b ← diaOf j "b"
  let s ← ciOf (← j.getObjVal? "scale")
  let out := addDia a b s
  pure <| Json.mkObj [("abs", absJ out.rows out.cols out.abs), ("offsets", Json.arr (out.diags.map fun p => (p.1 : Json)).toArray)]

def ciConj (z : CI) : CI := ⟨z.re, -z.im⟩

/-- {left, right, scalar_is_ket} -> <left|right> by the loops of `inner_dia` -/
def innerDiaJ (j : Json) : Except String Json := do
  let l ← diaOf j "left"
  let r ← diaOf j "right"
  pure <| Json.mkObj [("value", ciJ (innerDia ciConj l r (← getBool j "scalar_is_ket")))]

/-- {left, op, right, scalar_is_ket} -> <left|op|right> by the loops of `inner_op_dia` -/
def innerOpDiaJ (j : Json) : Except String Json := do
  let l ← diaOf j "left"
  let o ← diaOf j "op"
  let r ← diaOf j "right"
  pure <| Json.mkObj [("value", ciJ (innerOpDia ciConj l o r (← getBool j "scalar_is_ket")))]

/-- {a} -> the answer of the loops of `isherm_dia` with exact comparisons -/
def ishermDiaJ (j : Json) : Except String Json := do
  let a ← diaOf j "a"
  pure <| Json.mkObj [("isherm", ishermDia (fun (x y : CI) => x == ciConj y) (fun (x : CI) => x == (0 : CI)) a)]

/-- {a} -> trace by the loop of `trace_dia` -/
def traceDiaJ (j : Json) : Except String Json := do
  let a ← diaOf j "a"
  pure <| Json.mkObj [("value", ciJ (traceDia a))]

/-- {op, state} -> `expect_dia`: the ket loops when the state has one column, the density-matrix loops otherwise -/
def expectDiaJ (j : Json) : Except String Json := do
  let o ← diaOf j "op"
  let st ← diaOf j "state"
  pure <| Json.mkObj [("value", ciJ (if st.cols = 1 then expectDiaKet ciConj o st else expectDiaDm o st))]

/-- {op, state} -> `expect_csr`: the ket loop when the state has one column, the density-matrix loop otherwise -/
def expectCsrJ (j : Json) : Except String Json := do
  let o ← csrOf j "op"
  let st ← csrOf j "state"
  pure <| Json.mkObj [("value", ciJ (if st.cols = 1 then expectCsrKet ciConj o st else expectCsrDm o st))]

/-- {op, state, n} -> `expect_super_csr` -/
def expectSuperCsrJ (j : Json) : Except String Json := do
  let o ← csrOf j "op"
  let st ← csrOf j "state"
  pure <| Json.mkObj [("value", ciJ (expectSuperCsr (← getNat j "n") o st))]

/-- {left, right, scalar_is_ket} -> `inner_csr` (the 1x1 special case is left to the oracle) -/
def innerCsrJ (j : Json) : Except String Json := do
  let l ← csrOf j "left"
  let r ← csrOf j "right"
  pure <| Json.mkObj [("value", ciJ (if l.rows = 1 then innerCsrBra l r else innerCsrKet ciConj l r))]

/-- {left, op, right} -> `inner_op_csr` -/
def innerOpCsrJ (j : Json) : Except String Json := do
  let l ← csrOf j "left"
  let o ← csrOf j "op"
  let r ← csrOf j "right"
  pure <| Json.mkObj [("value", ciJ (if l.rows = 1 then innerOpCsrBra l o r else innerOpCsrKet ciConj l o r))]

end Qv.Drv.C01
