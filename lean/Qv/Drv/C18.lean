import Qv.Drv.Util
import Qv.Model.C18
open Lean
namespace Qv.Drv.C18
open Qv.C18 Qv.Drv

/-- complex integers (driver only) -/
structure CI where
  re : Int
  im : Int
deriving BEq, Inhabited

instance : Add CI := ⟨fun a b => ⟨a.re + b.re, a.im + b.im⟩⟩
instance : OfNat CI 0 := ⟨⟨0, 0⟩⟩

def ciOf (j : Json) : Except String CI := do
  match j with
  | .arr #[a, b] => pure ⟨← a.getInt?, ← b.getInt?⟩
  | _ => throw "complex = [re, im]"
def ciJ (c : CI) : Json := Json.arr #[(c.re : Json), (c.im : Json)]

def scatterJ (j : Json) : Except String Json := do
  let perm ← getNatList j "perm"
  let x ← getIntList j "x"
  pure <| Json.mkObj [("scattered", jInts (scatter perm x)), ("argsort", jNats (argsort perm)),
    ("back", jInts (scatter (argsort perm) (scatter perm x)))]

def scatterMatJ (j : Json) : Except String Json := do
  let m ← (← getArr j "m").toList.mapM fun r => do intList (← r.getArr?)
  let rp := (getNatList j "rperm").toOption
  let cp := (getNatList j "cperm").toOption
  pure <| Json.arr ((scatterMat rp cp m).map jInts).toArray

def constraintJ (j : Json) : Except String Json := do
  let n ← getNat j "n"
  let A ← (← getArr j "A").toList.mapM fun r => do (← r.getArr?).toList.mapM ciOf
  let w ← getInt j "w"
  let (L, b) := constraintSystem n A (⟨w, 0⟩ : CI)
  pure <| Json.mkObj [("L", Json.arr (L.map fun r => Json.arr (r.map ciJ).toArray).toArray),
    ("b", Json.arr (b.map ciJ).toArray)]

end Qv.Drv.C18
