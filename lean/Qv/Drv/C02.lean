import Qv.Drv.Util
import Qv.Model.C02
open Lean
namespace Qv.Drv.C02
open Qv.C02 Qv.Drv

partial def nlOf : Json → Except String NL
  | .arr a => do pure (.list (← a.toList.mapM nlOf))
  | j => do pure (.num (← j.getInt?))

partial def nlJ : NL → Json
  | .num n => (n : Json)
  | .list l => Json.arr (l.map nlJ).toArray

def errJ : Err → Json
  | .valueError => "ValueError" | .typeError => "TypeError" | .notImplemented => "NotImplementedError"

def dimsJ (d : Dims) : Json :=
  Json.mkObj [("as_list", nlJ d.asList), ("type", d.type), ("shape", jNats [d.shape.1, d.shape.2]),
    ("issuper", d.issuper), ("superrep", match d.superrep with | some r => (r : Json) | none => Json.null),
    ("issquare", d.issquare)]

def specOf (j : Json) (k : String) : Except String (List NL) := do
  match ← nlOf (← j.getObjVal? k) with
  | .list l => pure l
  | _ => throw "spec must be a list"

def getRep (j : Json) : Option String :=
  match j.getObjVal? "rep" with
  | .ok (.str s) => some s
  | _ => none

def dims (j : Json) : Except String Json := do
  let tidy ← getBool j "tidy"
  match dimsOfSpec tidy (getRep j) 32 (← specOf j "spec") with
  | .ok d => pure (dimsJ d)
  | .error e => pure (Json.mkObj [("error", errJ e)])

def matmul (j : Json) : Except String Json := do
  let tidy ← getBool j "tidy"
  match dimsOfSpec tidy none 32 (← specOf j "a"), dimsOfSpec tidy none 32 (← specOf j "b") with
  | .ok a, .ok b =>
    let eq := a.beq b
    match a.matmul b with
    | .ok d => pure (Json.mkObj [("eq", eq), ("matmul", dimsJ d)])
    | .error e => pure (Json.mkObj [("eq", eq), ("matmul", Json.mkObj [("error", errJ e)])])
  | _, _ => pure (Json.mkObj [("error", "operand")])

/-- {tidy, A, l, r, lket, rket}: is `A.matrix_element(l, r)` accepted; {a, b, aket, bket} → overlap -/
def matrixElement (j : Json) : Except String Json := do
  let tidy ← getBool j "tidy"
  match dimsOfSpec tidy none 32 (← specOf j "A"), dimsOfSpec tidy none 32 (← specOf j "l"), dimsOfSpec tidy none 32 (← specOf j "r") with
  | .ok A, .ok l, .ok r =>
    let lket ← getBool j "lket"
    let rket ← getBool j "rket"
    pure (Json.mkObj [("matrix_element", matrixElementOk A lket l rket r), ("overlap", overlapOk lket l rket r)])
  | _, _, _ => pure (Json.mkObj [("error", "operand")])

end Qv.Drv.C02
