import Qv.Drv.Util
import Qv.Model.C12
import Qv.Gen.ResultFlags
open Lean
namespace Qv.Drv.C12
open Qv.C12 Qv.Drv

/-- structure of the result of a run with `T` output times -/
def result (j : Json) : Except String Json := do
  let o : Opts := { storeStates := ← getOptBool j "ss", storeFinal := ← getBool j "sf", nEops := ← getNat j "nEops" }
  let T ← getNat j "T"
  let traj : List (Int × Nat) := (List.range T).map fun (k : Nat) => ((k : Int), k + 100)
  let eops : List (Int → Nat → Nat) := (List.range o.nEops).map fun i => fun _ x => x + i
  let r := runLoop o Qv.Gen.ResultFlags.copyStates Qv.Gen.ResultFlags.copyFinal eops traj
  pure <| Json.mkObj [("ntimes", r.times.length), ("nstates", r.states.length),
    ("final", (r.finalState 0).isSome), ("nexpect", jNats (r.eData.map List.length))]

end Qv.Drv.C12
