import Qv.Drv.Util
import Qv.Model.C19
open Lean
namespace Qv.Drv.C19
open Qv.C19 Qv.Drv

def jLabel (l : List Nat) : Json := jNats l
def jOptLabel : Option (List Nat) → Json
  | some l => jNats l
  | none => Json.null

def labelsJ (j : Json) : Except String Json := do
  let dims ← getNatList j "dims"
  let depth ← getNat j "depth"
  let ls := labels dims depth
  pure <| Json.mkObj [("labels", Json.arr (ls.map jLabel).toArray),
    ("next", Json.arr (ls.map fun l => Json.arr ((List.range dims.length).map fun k => jOptLabel (next dims depth l k)).toArray).toArray),
    ("prev", Json.arr (ls.map fun l => Json.arr ((List.range dims.length).map fun k => jOptLabel (prev l k)).toArray).toArray),
    ("idx", Json.arr (ls.map fun l => jOptNat (idx dims depth l)).toArray)]

def boolList (j : Json) (k : String) : Except String (List Bool) := do
  (← getArr j k).toList.mapM (·.getBool?)

def signsJ (j : Json) : Except String Json := do
  let l ← getNatList j "label"
  let ferm ← boolList j "ferm"
  let odd ← getBool j "odd"
  let k ← getNat j "k"
  pure <| Json.mkObj [("sign1", if sign1Neg l ferm odd then (-1 : Int) else (1 : Int)),
    ("sign2", if sign2Neg l ferm odd k then (-1 : Int) else (1 : Int))]

def kindOf (s : String) : Except String Kind :=
  match s with | "R" => pure .R | "I" => pure .I | "RI" => pure .RI | _ => throw "kind"
def kindStr : Kind → String | .R => "R" | .I => "I" | .RI => "RI"

def cexpOf (j : Json) : Except String (CExp Int) := do
  pure ⟨← kindOf (← getStr j "kind"), ← getInt j "ck", (getInt j "ck2").toOption.getD 0⟩

def combineJ (j : Json) : Except String Json := do
  let a ← cexpOf (← j.getObjVal? "a")
  let b ← cexpOf (← j.getObjVal? "b")
  let c := combine a b
  pure <| Json.mkObj [("kind", kindStr c.kind), ("ck", (c.ck : Json)), ("ck2", (c.ck2 : Json))]

end Qv.Drv.C19
