import Qv.Drv.Util
import Qv.Model.C08
open Lean
namespace Qv.Drv.C08
open Qv.C08 Qv.Drv

def shuffleJ (j : Json) : Except String Json := do
  let n ← getNat j "n"
  let rows ← (← getArr j "m").toList.mapM fun r => do intList (← r.getArr?)
  let m : Nat → Nat → Int := fun r c => (rows.getD r []).getD c 0
  pure <| Json.mkObj [("out", Json.arr ((shuffle n m).map jInts).toArray)]

end Qv.Drv.C08
