import Qv.Drv.Util
import Qv.Model.C03
open Lean
namespace Qv.Drv.C03
open Qv.C03 Qv.Drv

def opOf : String → Option Op
  | "addH" => some .addH | "subH" => some .subH | "negH" => some .negH | "negU" => some .negU
  | "mulRealH" => some .mulRealH | "mulImagH" => some .mulImagH | "mulUnitU" => some .mulUnitU
  | "mulNonUnitU" => some .mulNonUnitU | "matmulH" => some .matmulH | "matmulU" => some .matmulU
  | "dagH" => some .dagH | "dagU" => some .dagU | "transH" => some .transH | "transU" => some .transU
  | "conjH" => some .conjH | "conjU" => some .conjU | "powH" => some .powH | "powU" => some .powU
  | "pow0H" => some .pow0H | "pow0U" => some .pow0U | "kronH" => some .kronH | "kronU" => some .kronU
  | "invH" => some .invH | "invU" => some .invU | "expmH" => some .expmH
  | "copyH" => some .copyH | "copyU" => some .copyU
  | "saddRealH" => some .saddRealH | "saddImagH" => some .saddImagH
  | _ => none

def triOf : Json → Tri
  | .bool b => some b
  | _ => none

def triJ : Tri → Json
  | none => Json.null
  | some b => Json.bool b

def overclaimsJ (j : Json) : Except String Json := do
  let opS ← getStr j "op"
  let some op := opOf opS | throw ("unknown op " ++ opS)
  let rows ← getArr j "table"
  let t ← rows.toList.mapM fun r => do
    let a ← r.getArr?
    pure (a.toList.map triOf)
  let bad := overclaims op (tableRule t)
  pure <| Json.mkObj [("allowed", ruleAllowed op (tableRule t)),
    ("overclaims", Json.arr (bad.map (fun x => Json.arr #[triJ x.1, triJ x.2.1, triJ x.2.2])).toArray),
    ("max", Json.arr (triAll.map (fun a => Json.arr (triAll.map (fun b => triJ (maxRule op a b))).toArray)).toArray)]

end Qv.Drv.C03
