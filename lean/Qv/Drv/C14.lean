import Qv.Drv.Util
import Qv.Model.C14
open Lean
namespace Qv.Drv.C14
open Qv.C14 Qv.Drv

def parseCfg (j : Json) : Except String (Cfg × List Step) := do
  let steps ← (← getArr j "sched").toList.mapM fun s => do
    pure (⟨← getNatList s "comp", ← getNat s "tick"⟩ : Step)
  pure ({ n := ← getNat j "n", workers := ← getNat j "workers", raises := ← getNatList j "raises",
          failFast := ← getBool j "fail_fast", reducer := ← getBool j "reducer",
          stopAfter := ← getOptNat j "stop_after", timeout := ← getOptNat j "timeout",
          drain := ← getBool j "drain" }, steps)

def evJson : Ev → Json
  | .submit i => Json.arr #["S", i]
  | .ok i => Json.arr #["D", i]
  | .err i => Json.arr #["E", i]
  | .reduce i => Json.arr #["R", i]
  | .cancel i => Json.arr #["X", i]
  | .waitFirst => Json.arr #["W1"]
  | .waitAll => Json.arr #["WA"]

def resJson : Option (List (Option Nat)) → Json
  | none => Json.null
  | some l => Json.arr (l.map jOptNat).toArray

def outJson : Outcome → Json
  | .ret r => Json.mkObj [("kind", "return"), ("results", resJson r)]
  | .raiseFirst i => Json.mkObj [("kind", "raise"), ("index", i)]
  | .mapExceptions e r => Json.mkObj [("kind", "map_exceptions"), ("errors", jNats e), ("results", resJson r)]

def pmap (j : Json) : Except String Json := do
  let (c, sched) ← parseCfg j
  let s := run c sched
  pure <| Json.mkObj [("trace", Json.arr (s.trace.reverse.map evJson).toArray),
    ("outcome", outJson (outcome c s)), ("terminated", s.pc == PC.done)]

def serial (j : Json) : Except String Json := do
  let (c, sched) ← parseCfg j
  let s := serialRun c sched
  pure <| Json.mkObj [("ran", jNats s.ran), ("reduced", jNats s.reduced),
    ("outcome", outJson (serialOutcome c s))]

end Qv.Drv.C14
