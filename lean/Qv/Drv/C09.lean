import Qv.Drv.Util
import Qv.Model.C09
open Lean
namespace Qv.Drv.C09
open Qv.C09 Qv.Drv

def getMat (j : Json) (k : String) : Except String (Nat → Nat → Int) := do
  let rows ← (← getArr j k).toList.mapM fun r => do intList (← r.getArr?)
  pure fun r c => (rows.getD r []).getD c 0

def matJ (m : List (List Int)) : Json := Json.arr (m.map jInts).toArray

def ptraceJ (j : Json) : Except String Json := do
  let dims ← getNatList j "dims"
  let sel ← getNatList j "sel"
  let m ← getMat j "m"
  pure <| Json.mkObj [("out", matJ (ptrace dims sel m)),
    ("split", Json.arr ((List.range (size dims)).map (fun n =>
      let p := i2kt (table sel 0 dims).1 n; Json.arr #[(p.1 : Json), (p.2 : Json)])).toArray)]

def permuteJ (j : Json) : Except String Json := do
  let dims ← getNatList j "dims"
  let order ← getNatList j "order"
  let m ← getMat j "m"
  pure <| Json.mkObj [("out", matJ (permuteMat dims order m)),
    ("index", jNats ((List.range (size dims)).map (single dims (cumprod dims order)))),
    ("new_dims", jNats (newDims dims order))]

end Qv.Drv.C09
