import Qv.Drv.Util
import Qv.Model.C05
open Lean
namespace Qv.Drv.C05
open Qv.C05 Qv.Drv

def giOf (l : List Int) : Except String GI :=
  match l with
  | [a, b] => .ok ⟨a, b⟩
  | _ => .error "bad gaussian integer"

def gm2Of (l : List Int) : Except String GM2 :=
  match l with
  | [a, b, c, d, e, f, g, h] => .ok ⟨⟨a, b⟩, ⟨c, d⟩, ⟨e, f⟩, ⟨g, h⟩⟩
  | _ => .error "bad matrix"

def gm2J (m : GM2) : Json := jInts [m.a.re, m.a.im, m.b.re, m.b.im, m.c.re, m.c.im, m.d.re, m.d.im]

/-- polynomial with Gaussian-integer coefficients, lowest degree first -/
def polyEval (cs : List GI) (t : Int) : GI :=
  cs.foldr (fun c acc => c.add (GI.mul ⟨t, 0⟩ acc)) ⟨0, 0⟩

partial def parse (j : Json) : Except String (Expr GI GM2) := do
  let k ← getStr j "k"
  match k with
  | "const" => pure (.leaf [.const (← gm2Of (← getIntList j "m"))])
  | "evo" =>
    let cs ← (← getArr j "c").toList.mapM fun c => do giOf (← intList (← c.getArr?))
    let clamp : Int → Int := match getIntList j "clamp" with
      | .ok [lo, hi] => fun t => if t < lo then lo else if hi < t then hi else t
      | _ => id
    pure (.leaf [.evo (← gm2Of (← getIntList j "m")) (fun t => polyEval cs (clamp t))])
  | "func" =>
    let a ← gm2Of (← getIntList j "a")
    let b ← gm2Of (← getIntList j "b")
    pure (.leaf [.func (fun t => giAlg.add a (giAlg.smul ⟨t, 0⟩ b))])
  | "add" => pure (.add (← parse (← j.getObjVal? "x")) (← parse (← j.getObjVal? "y")))
  | "sub" => pure (.sub (← parse (← j.getObjVal? "x")) (← parse (← j.getObjVal? "y")))
  | "mul" => pure (.mul (← parse (← j.getObjVal? "x")) (← parse (← j.getObjVal? "y")))
  | "neg" => pure (.neg (← parse (← j.getObjVal? "x")))
  | "smul" => pure (.smul (← giOf (← getIntList j "z")) (← parse (← j.getObjVal? "x")))
  | "tr" =>
    let g ← getStr j "g"
    let x ← parse (← j.getObjVal? "x")
    match g with
    | "dag" => pure (.tr .dag x)
    | "trans" => pure (.tr .trans x)
    | "conj" => pure (.tr .conj x)
    | _ => throw "bad transform"
  | _ => throw ("bad node " ++ k)

def tree (j : Json) : Except String Json := do
  let e ← parse (← j.getObjVal? "tree")
  let ts ← getIntList j "t"
  let q := e.build giAlg ⟨-1, 0⟩
  pure <| Json.mkObj [("values", Json.arr (ts.map (fun t => gm2J (q.eval giAlg t))).toArray),
    ("nelements", q.length)]

end Qv.Drv.C05
