import Qv.Drv.Util
import Qv.Model.C06
open Lean
namespace Qv.Drv.C06
open Qv.C06 Qv.Drv

/-- complex rationals (driver only) -/
structure CQ where
  re : Rat
  im : Rat
deriving BEq

instance : Add CQ := ⟨fun a b => ⟨a.re + b.re, a.im + b.im⟩⟩
instance : Sub CQ := ⟨fun a b => ⟨a.re - b.re, a.im - b.im⟩⟩
instance : Mul CQ := ⟨fun a b => ⟨a.re * b.re - a.im * b.im, a.re * b.im + a.im * b.re⟩⟩
instance : Div CQ := ⟨fun a b =>
  let d := b.re * b.re + b.im * b.im
  ⟨(a.re * b.re + a.im * b.im) / d, (a.im * b.re - a.re * b.im) / d⟩⟩
instance : OfNat CQ 0 := ⟨⟨0, 0⟩⟩

def embQ (r : Rat) : CQ := ⟨r, 0⟩
def cqJ (c : CQ) : Json := Json.arr #[jRat c.re, jRat c.im]

def cqOf (j : Json) : Except String CQ := do
  match j with
  | .arr #[a, b] => pure ⟨← parseRat (← a.getStr?), ← parseRat (← b.getStr?)⟩
  | _ => throw "complex = [re, im]"

def cqList (j : Json) (k : String) : Except String (List CQ) := do
  (← getArr j k).toList.mapM cqOf

/-- {grid, poly:[rows], uniform, guess, t} -> value of `_call` and the interval index used -/
def callJ (j : Json) : Except String Json := do
  let grid ← getRatList j "grid"
  let rows ← (← getArr j "poly").toList.mapM fun r => do
    match r with
    | .arr a => a.toList.mapM cqOf
    | _ => throw "row"
  let uniform ← getBool j "uniform"
  let guess ← getNat j "guess"
  let ts ← getRatList j "ts"
  let c : IC Rat CQ := IC.mk grid.length (fun i => grid.getD i 0) (rows.length - 1)
    (fun r k => (rows.getD r []).getD k 0) uniform (fun _ => guess)
  pure <| Json.arr (ts.map fun t => cqJ (c.call embQ t)).toArray

/-- {grid, samples, order (0|1), uniform, guess, ts} -> values from the order-0 / order-1 tables -/
def interJ (j : Json) : Except String Json := do
  let grid ← getRatList j "grid"
  let s ← cqList j "samples"
  let order ← getNat j "order"
  let uniform ← getBool j "uniform"
  let guess ← getNat j "guess"
  let ts ← getRatList j "ts"
  let g := fun i => grid.getD i 0
  let sf := fun i => s.getD i 0
  let order := min order (grid.length - 1)
  let c : IC Rat CQ := IC.mk grid.length g order
    (if order = 0 then table0 sf else table1 embQ g sf) uniform (fun _ => guess)
  pure <| Json.arr (ts.map fun t => cqJ (c.call embQ t)).toArray

def dictOf (j : Json) (k : String) : Except String (Dict Int) := do
  (← getArr j k).toList.mapM fun kv => do
    match kv with
    | .arr #[a, b] => pure (← a.getStr?, ← b.getInt?)
    | _ => throw "dict entry = [key, int]"

def dedupe (d : Dict Int) : List (String × Int) :=
  d.foldl (fun acc kv => if acc.any (·.1 == kv.1) then acc else acc ++ [kv]) []

def dictJ (d : Dict Int) : Json :=
  Json.mkObj ((dedupe d).map fun kv => (kv.1, (kv.2 : Json)))

/-- {params, hasKw, style, args, dargs, kwargs} -> {pythonic, fparams, stored, called, same} -/
def funcArgsJ (j : Json) : Except String Json := do
  let params ← (← getArr j "params").toList.mapM (·.getStr?)
  let hasKw ← getBool j "hasKw"
  let style ← match ← getStr j "style" with
    | "auto" => pure Style.auto
    | "pythonic" => pure Style.pythonic
    | "dict" => pure Style.dict
    | _ => throw "style"
  let args ← dictOf j "args"
  let dargs ← dictOf j "dargs"
  let kwargs ← dictOf j "kwargs"
  let c := FC.init { params := params, hasKw := hasKw } style args
  pure <| Json.mkObj [
    ("pythonic", c.pythonic),
    ("fparams", match c.fparams with
      | some ps => Json.arr (ps.map (fun (s : String) => (s : Json))).toArray
      | none => Json.null),
    ("stored", dictJ c.args),
    ("called", dictJ (c.callArgs dargs kwargs)),
    ("same", (c.replace dargs kwargs).isNone)]

end Qv.Drv.C06
