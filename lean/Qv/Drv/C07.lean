import Qv.Drv.Util
import Qv.Model.C07
open Lean
namespace Qv.Drv.C07
open Qv.C07 Qv.Drv

def matOf (j : Json) : Except String Mat := do
  let rows ← j.getArr?
  rows.toList.mapM fun r => do
    let cells ← r.getArr?
    cells.toList.mapM fun c => do
      match ← intList (← c.getArr?) with
      | [a, b] => pure (⟨a, b⟩ : GI)
      | _ => throw "bad entry"

def matJ (m : Mat) : Json :=
  Json.arr (m.map fun r => Json.arr (r.map fun z => jInts [z.re, z.im]).toArray).toArray

def superJ (j : Json) : Except String Json := do
  let kind ← getStr j "kind"
  let a ← matOf (← j.getObjVal? "a")
  match kind with
  | "spre" => pure (matJ (spre a))
  | "spost" => pure (matJ (spost a))
  | "sprepost" => do
    let b ← matOf (← j.getObjVal? "b")
    pure (matJ (sprepost a b))
  | "dissipator2" => pure (matJ (dissipator2 a))
  | "dissipator_chi2" => do
    -- {a, b, z: [re, im]} with z = e^{i chi} a Gaussian unit
    let b ← matOf (← j.getObjVal? "b")
    let z ← (← j.getObjVal? "z").getArr?
    pure (matJ (dissipatorChi2 ⟨← (z[0]!).getInt?, ← (z[1]!).getInt?⟩ a b))
  | _ => throw "bad kind"

def liouvJ (j : Json) : Except String Json := do
  let h ← matOf (← j.getObjVal? "h")
  let cs ← (← getArr j "cs").toList.mapM matOf
  pure (matJ (liouvillian2 h cs))

end Qv.Drv.C07
