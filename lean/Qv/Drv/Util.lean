import Lean.Data.Json
/-! JSON helpers shared by the driver front-ends (not part of any proof). -/
open Lean
namespace Qv.Drv

def getNat (j : Json) (k : String) : Except String Nat := do
  let v ← j.getObjVal? k
  v.getNat?

def getInt (j : Json) (k : String) : Except String Int := do
  let v ← j.getObjVal? k
  v.getInt?

def getBool (j : Json) (k : String) : Except String Bool := do
  let v ← j.getObjVal? k
  v.getBool?

def getStr (j : Json) (k : String) : Except String String := do
  let v ← j.getObjVal? k
  v.getStr?

def getArr (j : Json) (k : String) : Except String (Array Json) := do
  let v ← j.getObjVal? k
  v.getArr?

def getOptNat (j : Json) (k : String) : Except String (Option Nat) :=
  match j.getObjVal? k with
  | .ok .null => .ok none
  | .ok v => do let n ← v.getNat?; pure (some n)
  | .error _ => .ok none

def natList (a : Array Json) : Except String (List Nat) :=
  a.toList.mapM (·.getNat?)

def intList (a : Array Json) : Except String (List Int) :=
  a.toList.mapM (·.getInt?)

def getNatList (j : Json) (k : String) : Except String (List Nat) := do
  natList (← getArr j k)

def getIntList (j : Json) (k : String) : Except String (List Int) := do
  intList (← getArr j k)

def jNats (l : List Nat) : Json := Json.arr (l.map (fun (n : Nat) => (n : Json))).toArray
def jInts (l : List Int) : Json := Json.arr (l.map (fun (n : Int) => (n : Json))).toArray
def jOptNat : Option Nat → Json
  | none => Json.null
  | some n => (n : Json)

end Qv.Drv

namespace Qv.Drv
open Lean

def parseRat (s : String) : Except String Rat :=
  match s.splitOn "/" with
  | [n] => match n.toInt? with
    | some i => .ok (i : Rat)
    | none => .error ("bad rational " ++ s)
  | [n, d] => match n.toInt?, d.toNat? with
    | some i, some k => if k = 0 then .error "zero denominator" else .ok ((i : Rat) / (k : Rat))
    | _, _ => .error ("bad rational " ++ s)
  | _ => .error ("bad rational " ++ s)

def showRat (r : Rat) : String :=
  if r.den = 1 then toString r.num else toString r.num ++ "/" ++ toString r.den

def jRat (r : Rat) : Json := Json.str (showRat r)
def jRats (l : List Rat) : Json := Json.arr (l.map jRat).toArray

def getRat (j : Json) (k : String) : Except String Rat := do
  parseRat (← getStr j k)

def getRatList (j : Json) (k : String) : Except String (List Rat) := do
  (← getArr j k).toList.mapM fun v => do parseRat (← v.getStr?)

def getOptRat (j : Json) (k : String) : Except String (Option Rat) :=
  match j.getObjVal? k with
  | .ok .null => .ok none
  | .ok v => do let s ← v.getStr?; let r ← parseRat s; pure (some r)
  | .error _ => .ok none

def getOptBool (j : Json) (k : String) : Except String (Option Bool) :=
  match j.getObjVal? k with
  | .ok .null => .ok none
  | .ok v => do let b ← v.getBool?; pure (some b)
  | .error _ => .ok none

end Qv.Drv
