import Qv.Drv.Util
import Qv.Model.C13
open Lean
namespace Qv.Drv.C13
open Qv.C13 Qv.Drv

def seqJ (s : SeedSeq) : Json := Json.mkObj [("entropy", s.entropy), ("key", jNats s.key)]

def seqOf (j : Json) : Except String SeedSeq := do
  pure { entropy := ← getNat j "entropy", key := ← getNatList j "key",
         spawned := (getNat j "spawned").toOption.getD 0 }

def readSeedJ (j : Json) : Except String Json := do
  let own ← seqOf (← j.getObjVal? "own")
  let ntraj ← getNat j "ntraj"
  let a ← j.getObjVal? "arg"
  let kind ← getStr a "kind"
  let arg ← match kind with
    | "none" => pure SeedArg.none
    | "int" => do pure (SeedArg.int (← getNat a "n"))
    | "seq" => do pure (SeedArg.seq (← seqOf (← a.getObjVal? "s")))
    | "list" => do pure (SeedArg.list (← (← getArr a "l").toList.mapM seqOf))
    | _ => throw "bad kind"
  let r := readSeed own arg ntraj
  pure <| Json.mkObj [("seeds", match r.1 with | some l => Json.arr (l.map seqJ).toArray | none => Json.str "ValueError"),
    ("own_spawned", r.2.spawned)]

/-- `{"seeds": [seq…], "order": [task indices]}` → the seeds the result reports and, for each stored run,
the fingerprint (spawn key) of the seed whose trajectory it is -/
def collectJ (j : Json) : Except String Json := do
  let seeds ← (← getArr j "seeds").toList.mapM seqOf
  let order ← getNatList j "order"
  let r := collect (fun s => s.key) seeds order
  pure <| Json.mkObj [("seeds", Json.arr (r.seeds.map seqJ).toArray), ("runs", Json.arr (r.runs.map jNats).toArray)]

end Qv.Drv.C13
