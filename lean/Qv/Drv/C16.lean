import Qv.Drv.Util
import Qv.Model.C16
open Lean
namespace Qv.Drv.C16
open Qv.C16 Qv.Drv

/-- amplitude a(t): piecewise linear through the knots (t_i, a_i), constant outside; N = a² -/
def ampl (knots : List (Rat × Rat)) (t : Rat) : Rat :=
  match knots with
  | [] => 0
  | (t0, a0) :: rest =>
    if t ≤ t0 then a0 else
      let rec go (p : Rat × Rat) : List (Rat × Rat) → Rat
        | [] => p.2
        | q :: qs => if t ≤ q.1 then p.2 + (q.2 - p.2) * (t - p.1) / (q.1 - p.1) else go q qs
      go (t0, a0) rest

def knotsOf (j : Json) : Except String (List (Rat × Rat)) := do
  (← getArr j "knots").toList.mapM fun k => do
    match k with
    | .arr #[a, b] => pure (← parseRat (← a.getStr?), ← parseRat (← b.getStr?))
    | _ => throw "knot = [t, a]"

def searchJ (j : Json) : Except String Json := do
  let knots ← knotsOf j
  let N := fun t => let a := ampl knots t; a * a
  let o : Opts Rat := ⟨← getNat j "normSteps", ← getRat j "normTol", ← getRat j "normTTol"⟩
  let r := findCollapse N o (← getRat j "target") (← getRat j "tPrev") (← getRat j "tFinal") (← getRatList j "guesses")
  match r with
  | some f => pure <| Json.mkObj [("t", jRat f.t), ("stateAt", jRat f.stateAt), ("tries", (f.tries : Nat))]
  | none => pure <| Json.str "RuntimeError"

def channelJ (j : Json) : Except String Json := do
  let rates ← getRatList j "rates"
  let u ← getRat j "u"
  pure <| Json.mkObj [("which", (channel rates u : Nat)), ("draws", (drawsPerCollapse rates.length : Nat))]

end Qv.Drv.C16
