import Qv.Drv.Util
import Qv.Model.C16
open Lean
namespace Qv.Drv.C16
open Qv.C16 Qv.Drv

/-- amplitude a(t): piecewise linear through the knots (t_i, a_i), constant outside; N = a² -/
def ampl (knots : List (Rat × Rat)) (t : Rat) : Rat :=
  match knots with
  | [] => 0
  | (t0, a0) :: rest =>
    if t ≤ t0 then a0 else
      let rec go (p : Rat × Rat) : List (Rat × Rat) → Rat
        | [] => p.2
        | q :: qs => if t ≤ q.1 then p.2 + (q.2 - p.2) * (t - p.1) / (q.1 - p.1) else go q qs
      go (t0, a0) rest

def knotsOf (j : Json) : Except String (List (Rat × Rat)) := do
  (← getArr j "knots").toList.mapM fun k => do
    match k with
    | .arr #[a, b] => pure (← parseRat (← a.getStr?), ← parseRat (← b.getStr?))
    | _ => throw "knot = [t, a]"

def searchJ (j : Json) : Except String Json := do
  let knots ← knotsOf j
  let N := fun t => let a := ampl knots t; a * a
  let o : Opts Rat := ⟨← getNat j "normSteps", ← getRat j "normTol", ← getRat j "normTTol"⟩
  let r := findCollapse N o (← getRat j "target") (← getRat j "tPrev") (← getRat j "tFinal") (← getRatList j "guesses")
  match r with
  | some f => pure <| Json.mkObj [("t", jRat f.t), ("stateAt", jRat f.stateAt), ("tries", (f.tries : Nat))]
  | none => pure <| Json.str "RuntimeError"

def channelJ (j : Json) : Except String Json := do
  let rates ← getRatList j "rates"
  let u ← getRat j "u"
  pure <| Json.mkObj [("which", (channel rates u : Nat)), ("draws", (drawsPerCollapse rates.length : Nat))]

/-- exact stand-in for the continuous weight: seg a b = g(b) / g(a) with g(t) = 1 + t² (segments compose) -/
def segQ (a b : Rat) : Rat := if a == b then 1 else (1 + b * b) / (1 + a * a)

/-- {"ops": [["init", t0, "clear" | "keep" | [times]], ["value", t], ["collapse", time, factor], ...]} run on a fresh
`InfluenceMartingale`; one output per operation: the value, "ok" or "RuntimeError" -/
def martingaleJ (j : Json) : Except String Json := do
  let ops ← getArr j "ops"
  let mut s : Mart Rat Rat := Mart.fresh
  let mut out : Array Json := #[]
  for op in ops do
    let a ← op.getArr?
    let kind ← (a[0]!).getStr?
    if kind == "init" then
      let t0 ← parseRat (← (a[1]!).getStr?)
      let c : Cache Rat ← match a[2]! with
        | .str "clear" => pure Cache.clear
        | .str "keep" => pure Cache.keep
        | .arr ts => do pure (Cache.times (← ts.toList.mapM fun x => do parseRat (← x.getStr?)))
        | _ => throw "cache"
      s := s.initialize segQ t0 c
      out := out.push "ok"
    else if kind == "value" then
      let t ← parseRat (← (a[1]!).getStr?)
      match s.value segQ t with
      | none => out := out.push "RuntimeError"
      | some (v, s') => s := s'; out := out.push (jRat v)
    else
      let t ← parseRat (← (a[1]!).getStr?)
      let f ← parseRat (← (a[2]!).getStr?)
      match s.addCollapse t f with
      | none => out := out.push "RuntimeError"
      | some s' => s := s'; out := out.push "ok"
  pure (Json.arr out)

end Qv.Drv.C16
