import Qv.Drv.Util
import Qv.Model.C10
open Lean
namespace Qv.Drv.C10
open Qv.C10 Qv.Drv

/-- complex rationals (driver only) -/
structure CQ where
  re : Rat
  im : Rat

instance : Add CQ := ⟨fun a b => ⟨a.re + b.re, a.im + b.im⟩⟩
instance : Mul CQ := ⟨fun a b => ⟨a.re * b.re - a.im * b.im, a.re * b.im + a.im * b.re⟩⟩
instance : SMul Rat CQ := ⟨fun r a => ⟨r * a.re, r * a.im⟩⟩

def cqJ (c : CQ) : Json := Json.arr #[jRat c.re, jRat c.im]
def cqOf (j : Json) : Except String CQ := do
  match j with
  | .arr #[a, b] => pure ⟨← parseRat (← a.getStr?), ← parseRat (← b.getStr?)⟩
  | _ => throw "complex = [re, im]"

def ratRows (j : Json) (k : String) : Except String (List (List Rat)) := do
  (← getArr j k).toList.mapM fun r => do (← r.getArr?).toList.mapM fun x => do parseRat (← x.getStr?)

def tabOf (j : Json) : Except String (Tableau Rat) := do
  pure { a := ← ratRows j "a", b := ← getRatList j "b", c := ← getRatList j "c",
         e := (getRatList j "e").toOption.getD [], order := (getNat j "order").toOption.getD 0 }

/-- {tab, lam:[re,im], dt, y:[re,im], t} -> one step of y' = lam*y, the stability polynomial, defects -/
def stepJ (j : Json) : Except String Json := do
  let tab ← tabOf (← j.getObjVal? "tab")
  let lam ← cqOf (← j.getObjVal? "lam")
  let y ← cqOf (← j.getObjVal? "y")
  let dt ← getRat j "dt"
  let out := rkStep tab (fun (_ : Rat) (v : CQ) => lam * v) 0 dt y
  pure <| Json.mkObj [("y", cqJ out), ("stab", jRats (stabPoly tab)), ("order_defect", jRat (orderDefect tab)),
    ("rowsum_defect", jRat (rowSumDefect tab)), ("errsum_defect", jRat (errSumDefect tab))]

/-- {small: [bool…] (beyond the list: false), kd, N} -> vectors built and the step decision -/
def krylovDecisionJ (j : Json) : Except String Json := do
  let sm ← (← getArr j "small").toList.mapM fun x => x.getBool?
  let kd ← getNat j "kd"
  let N ← getNat j "N"
  let small := fun (i : Nat) => sm.getD i false
  pure <| Json.mkObj [("count", (lanczosCount small kd : Nat)), ("unbounded", Json.bool (stepUnbounded small kd N)),
    ("unbounded_old_rule", Json.bool (stepUnboundedOld small kd N))]

end Qv.Drv.C10
