import Qv.Drv.C14
import Qv.Drv.C15
import Qv.Drv.C11
import Qv.Drv.C03
import Qv.Drv.C05
import Qv.Drv.C09
import Qv.Drv.C12
import Qv.Drv.C02
import Qv.Drv.C07
import Qv.Drv.C08
import Qv.Drv.C13
import Qv.Drv.C06
import Qv.Drv.C04
import Qv.Drv.C20
import Qv.Drv.C18
import Qv.Drv.C17
import Qv.Drv.C16
import Qv.Drv.C19
import Qv.Drv.C10
import Qv.Drv.C01
/-! Line protocol: `<op> <json>` per line in, one JSON document per line out. -/
open Lean

def handlers : List (String × (Json → Except String Json)) := [
  ("C14.pmap", Qv.Drv.C14.pmap),
  ("C14.serial", Qv.Drv.C14.serial),
  ("C15.history", Qv.Drv.C15.history),
  ("C15.dict_merge", Qv.Drv.C15.dictMergeJ),
  ("C11.prop", Qv.Drv.C11.prop),
  ("C11.options", Qv.Drv.C11.optionsJ),
  ("C03.overclaims", Qv.Drv.C03.overclaimsJ),
  ("C05.tree", Qv.Drv.C05.tree),
  ("C09.ptrace", Qv.Drv.C09.ptraceJ),
  ("C09.permute", Qv.Drv.C09.permuteJ),
  ("C12.result", Qv.Drv.C12.result),
  ("C02.dims", Qv.Drv.C02.dims),
  ("C02.matmul", Qv.Drv.C02.matmul),
  ("C02.matrix_element", Qv.Drv.C02.matrixElement),
  ("C07.super", Qv.Drv.C07.superJ),
  ("C07.liouvillian", Qv.Drv.C07.liouvJ),
  ("C08.shuffle", Qv.Drv.C08.shuffleJ),
  ("C13.read_seed", Qv.Drv.C13.readSeedJ),
  ("C13.collect", Qv.Drv.C13.collectJ),
  ("C06.call", Qv.Drv.C06.callJ),
  ("C06.inter", Qv.Drv.C06.interJ),
  ("C06.func_args", Qv.Drv.C06.funcArgsJ),
  ("C04.analyze", Qv.Drv.C04.analyzeJ),
  ("C20.ladder", Qv.Drv.C20.ladderJ),
  ("C20.spin", Qv.Drv.C20.spinJ),
  ("C20.gates", Qv.Drv.C20.gatesJ),
  ("C20.hadamard", Qv.Drv.C20.hadamardJ),
  ("C20.basis", Qv.Drv.C20.basisJ),
  ("C18.scatter", Qv.Drv.C18.scatterJ),
  ("C18.scatter_mat", Qv.Drv.C18.scatterMatJ),
  ("C18.constraint", Qv.Drv.C18.constraintJ),
  ("C17.wiener", Qv.Drv.C17.wienerJ),
  ("C17.wiener_calls", Qv.Drv.C17.wienerCallsJ),
  ("C17.coarsen", Qv.Drv.C17.coarsenJ),
  ("C17.meas", Qv.Drv.C17.measJ),
  ("C16.search", Qv.Drv.C16.searchJ),
  ("C16.channel", Qv.Drv.C16.channelJ),
  ("C16.martingale", Qv.Drv.C16.martingaleJ),
  ("C19.labels", Qv.Drv.C19.labelsJ),
  ("C19.signs", Qv.Drv.C19.signsJ),
  ("C19.combine", Qv.Drv.C19.combineJ),
  ("C10.step", Qv.Drv.C10.stepJ),
  ("C10.krylov_decision", Qv.Drv.C10.krylovDecisionJ),
  ("C01.csr_of_dense", Qv.Drv.C01.csrOfDenseJ),
  ("C01.dense_of_csr", Qv.Drv.C01.denseOfCsrJ),
  ("C01.add_csr", Qv.Drv.C01.addCsrJ),
  ("C01.transpose_csr", Qv.Drv.C01.transposeCsrJ),
  ("C01.kron_csr", Qv.Drv.C01.kronCsrJ),
  ("C01.matmul_csr", Qv.Drv.C01.matmulCsrJ),
  ("C01.dia_abs", Qv.Drv.C01.diaAbsJ),
  ("C01.matmul_dia", Qv.Drv.C01.matmulDiaJ),
  ("C01.transpose_dia", Qv.Drv.C01.transposeDiaJ),
  ("C01.iadd_dense", Qv.Drv.C01.iaddDenseJ),
  ("C01.matmul_csr_dense", Qv.Drv.C01.matmulCsrDenseJ),
  ("C01.matmul_dia_dense", Qv.Drv.C01.matmulDiaDenseJ),
  ("C01.matmul_dense_dia", Qv.Drv.C01.matmulDenseDiaJ),
  ("C01.add_dia", Qv.Drv.C01.addDiaJ),
  ("C01.inner_dia", Qv.Drv.C01.innerDiaJ),
  ("C01.isherm_dia", Qv.Drv.C01.ishermDiaJ),
  ("C01.trace_dia", Qv.Drv.C01.traceDiaJ),
  ("C01.expect_dia", Qv.Drv.C01.expectDiaJ),
  ("C01.expect_csr", Qv.Drv.C01.expectCsrJ),
  ("C01.inner_csr", Qv.Drv.C01.innerCsrJ),
  ("C01.inner_op_csr", Qv.Drv.C01.innerOpCsrJ),
  ("C01.expect_super_csr", Qv.Drv.C01.expectSuperCsrJ),
  ("C01.inner_op_dia", Qv.Drv.C01.innerOpDiaJ),
  ("C01.dia_of_dense", Qv.Drv.C01.diaOfDenseJ)
]

def handle (line : String) : String :=
  let line := line.trimAscii.toString
  match line.splitOn " " with
  | op :: rest =>
    let arg := " ".intercalate rest
    match handlers.lookup op with
    | none => "{\"error\":\"bad-op\"}"
    | some f =>
      match Json.parse arg with
      | .error e => (Json.mkObj [("error", "parse: " ++ e)]).compress
      | .ok j => match f j with
        | .error e => (Json.mkObj [("error", e)]).compress
        | .ok r => r.compress
  | [] => "{\"error\":\"empty\"}"

partial def loop (h : IO.FS.Stream) (out : IO.FS.Stream) : IO Unit := do
  let line ← h.getLine
  if line.isEmpty then return ()
  out.putStrLn (handle line)
  loop h out

def main : IO Unit := do
  loop (← IO.getStdin) (← IO.getStdout)
