#!/usr/bin/env python3
"""Confirm a seeded change produced by a sub-agent, in a scratch worktree of /repo's HEAD:
   demo passes without the patch, patch applies and builds, demo fails with it, the pinned test suite
   (BASELINE stable_pass) still passes with it.  On success the seed is stored under /verif/seeded/<id>_<v>/.
usage: verify_seed.py C14 A [--skip-tests]"""
import json, os, shutil, subprocess, sys, time

pid, v = sys.argv[1], sys.argv[2]
skip_tests = "--skip-tests" in sys.argv
src = f"/tmp/seedjobs/{pid}/{v}"
wt = f"/tmp/wt/vs_{pid}{v}"
env = dict(os.environ, PYTHONPATH=wt, OMP_NUM_THREADS="1", OPENBLAS_NUM_THREADS="1", MKL_NUM_THREADS="1")
meta = {"property": pid, "variant": v, "base_commit": subprocess.check_output(["git", "-C", "/repo", "rev-parse", "--short", "HEAD"], text=True).strip()}


def sh(cmd, **kw):
    return subprocess.run(cmd, shell=True, cwd=wt, env=env, stdout=subprocess.PIPE, stderr=subprocess.STDOUT, text=True, **kw)


subprocess.run(["/verif/tools/mkwt.sh", wt], check=True, stdout=subprocess.DEVNULL)
try:
    shutil.copy(f"{src}/demo.py", f"{wt}/_demo.py")
    r = sh("/venv/bin/python _demo.py", timeout=3600)
    meta["demo_without_patch"] = r.returncode
    r = sh(f"git apply {src}/patch.diff")
    meta["patch_applies"] = r.returncode == 0
    if r.returncode != 0:
        meta["apply_error"] = r.stdout[-500:]
        raise SystemExit
    patch = open(f"{src}/patch.diff").read()
    meta["files"] = sorted({l.split(" b/")[1].strip() for l in patch.splitlines() if l.startswith("diff --git")})
    if any(f.endswith((".pyx", ".pxd", ".hpp", ".cpp")) for f in meta["files"]):
        r = sh("/venv/bin/python setup.py build_ext --inplace -j8", timeout=3600)
        meta["build"] = r.returncode
    r = sh("/venv/bin/python _demo.py", timeout=3600)
    meta["demo_with_patch"] = r.returncode
    meta["demo_tail"] = r.stdout[-400:]
    if not skip_tests:
        t0 = time.time()
        r = subprocess.run(["/verif/tools/run_tests.py", wt, "-n", "6"], stdout=subprocess.PIPE, stderr=subprocess.STDOUT, text=True)
        meta["tests_exit"] = r.returncode
        meta["tests_tail"] = r.stdout[-1500:]
        meta["tests_wall_s"] = round(time.time() - t0)
finally:
    subprocess.run(["git", "-C", "/repo", "worktree", "remove", "--force", wt])
    subprocess.run(["git", "-C", "/repo", "worktree", "prune"])
ok = meta.get("demo_without_patch") == 0 and meta.get("patch_applies") and meta.get("demo_with_patch", 0) != 0 and (skip_tests or meta.get("tests_exit") == 0)
meta["confirmed"] = bool(ok)
print(json.dumps(meta, indent=1))
out = f"/verif/seeded/{pid}_{v}"
os.makedirs(out, exist_ok=True)
shutil.copy(f"{src}/patch.diff", out)
shutil.copy(f"{src}/demo.py", out)
if os.path.exists(f"{src}/notes.md"):
    shutil.copy(f"{src}/notes.md", out)
json.dump(meta, open(f"{out}/verify.json", "w"), indent=1)
sys.exit(0 if ok else 1)
