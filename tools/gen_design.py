#!/usr/bin/env python3
"""Assemble DESIGN.md: sections 1-3 (kept from the file itself), 4 from tools/manifest_src.json,
5 from known_findings.json, 6-8 from tools/design_tail.md with the seed table from seeded/*/meta.json."""
import glob
import json
import os
import re

V = "/verif"
cur = open(f"{V}/DESIGN.md").read()
top = cur[:cur.index("## 4. ")]
man = json.load(open(f"{V}/tools/manifest_src.json"))["checks"]
kf = json.load(open(f"{V}/known_findings.json"))["findings"]
titles = {json.loads(l)["id"]: json.loads(l)["title"] for l in open(f"{V}/properties.jsonl")}
body = """## 4. What was built, per property

For each property: the Lean model (lean/Qv/Model), the theorems (lean/Qv/Props, all
proved; axioms audited on every run), how the model is tied to /repo on every run,
the independent failing-input search, and the sentences of the property that are
validated on the real code only.  The same text, machine-readable, is in
MANIFEST.json (`level_note`, `technique`) and in each evidence file.

"""
for pid in sorted(man):
    e = man[pid]
    body += f"### {pid} — {titles[pid]}\n\n{e['text']}\n\n*Limits / trusted:* {e['note']}\n\n"
body += """--------------------------------------------------------------------------------
## 5. Genuine defects found on the pinned tree

Every entry below was reported by a check as a violation on the unchanged tree,
replayed against the real code, and judged to be a defect of qutip/qutip (the
property's own words decide; section 6 lists the alarms that were *not*).  All but
three (the known findings, marked in the table) were repaired by a minimal unguarded commit in /repo whose message starts with
`fix:`; the pinned test-suite passes with them.  They are recorded in
`known_findings.json` as `fixed: property=<id> <commit> <what failed>` — a fixed
entry suppresses nothing: reverting the commit makes the check report the violation
again.

| property | commit | what failed |
|---|---|---|
"""
for f in kf:
    what = re.sub(r"^fixed: property=C\d\d \S+ ", "", f["what"]).replace("|", "\\|")
    body += f"| {f['property']} | {f.get('commit', '—') if f['status'] == 'fixed' else '*known finding*'} | {what} |\n"
body += """
**Known finding (recorded, not repaired)** — C20: constructors that multiply two
objects internally crash on a one-dimensional space (`squeeze(1, z)`: TypeError;
`projection(1, 0, 0)`, `coherent(1, a)`, `spin_coherent(0, θ, φ)`: AttributeError)
because products and powers of objects with dims `[[1],[1]]` are of type 'scalar'
and collapse to Python numbers (`Qobj.__matmul__`, `Qobj.__pow__`).  That is a
design decision of the dimension algebra, not a small repair: the C20 check prints
`KNOWN-FINDING: property=C20 …` for exactly these four signatures and exits 0; any
other violation of C20 still exits 1.

Looked at and *not* claimed as defects: `IntegratorScipylsoda` under `mcsolve`
raising `(34, 'Numerical result out of range')`, and `_find_collapse_time` refusing
when it converges on its last allowed try, are refusals (an exception, not a wrong
answer) and are counted in the evidence of C16; `Solver.__init__` builds a
`TypeError` without raising it (harmless: the next statement raises).

"""
rows = []
for d in sorted(glob.glob(f"{V}/seeded/*/meta.json")):
    m = json.load(open(d))
    rows.append(f"| {os.path.basename(os.path.dirname(d))} | {m['property']} | {m.get('summary', '')} | {m.get('needs', '')} | {m.get('caught_by', '')} |")
table = "| seed | property | change | needs to manifest | caught by |\n|---|---|---|---|---|\n" + "\n".join(rows)
tail = open(f"{V}/tools/design_tail.md").read().replace("@SEEDTABLE@", table)
open(f"{V}/DESIGN.md", "w").write(top + body + tail)
print("DESIGN.md written:", len((top + body + tail).splitlines()), "lines;", len(rows), "seeds in the table")
