#!/usr/bin/env python3
"""Regenerate MANIFEST.json from tools/manifest_src.json (per-property texts) + the list of built checks."""
import json, os
V = os.path.dirname(os.path.dirname(os.path.abspath(__file__)))
src = json.load(open(os.path.join(V, "tools", "manifest_src.json")))
props = [json.loads(l)["id"] for l in open(os.path.join(V, "properties.jsonl"))]
checks, na = [], []
for pid in props:
    e = src["checks"].get(pid)
    if e and os.path.exists(os.path.join(V, "harness", pid.lower() + ".py")):
        checks.append({
            "property_id": pid,
            "quick_cmd": f"./check {pid} quick",
            "thorough_cmd": f"./check {pid} thorough",
            "evidence_file": f"evidence/{pid}.json",
            "replay_cmd_template": f"./check {pid} quick --replay {{path}}",
            "engine": "lean4-proof+correspondence",
            "level_claimed": {"category": "proof", "text": e["text"], "design_ref": e.get("design_ref", f"DESIGN.md section 4, {pid}")},
            "level_note": e["note"],
            "technique": e["technique"],
        })
    else:
        na.append({"property_id": pid, "reason": src["not_applicable"].get(pid, "check not built yet in this session; see DESIGN.md section 4 for the planned Lean model and tie")})
m = {
    "version": 1,
    "setup_cmd": "./setup.sh",
    "hooks": {"guard": "QUTIP_VERIF", "enable": "no source hooks are needed: checks run the stock /repo build (python setup.py build_ext --inplace) and instrument from the outside",
              "baseline_off_cmd": "cd /repo && /venv/bin/python -m pytest -q -p no:cacheprovider --timeout=900 --continue-on-collection-errors",
              "source_commits": src.get("source_commits", []), "add_only": True},
    "engines": [{"name": "lean4-proof+correspondence", "path": "lean/ harness/ check",
                 "serves_properties": [c["property_id"] for c in checks],
                 "kind_free_text": "Lean 4 models + kernel-checked theorems (lean/Qv), tied to /repo on every run by translators (harness/translate_*.py -> lean/Qv/Gen) and by a differential correspondence check driving the model (lean/Driver.lean) and the real code on the same inputs"}],
    "checks": checks,
    "not_applicable": na,
    "notes": src.get("notes", ""),
}
json.dump(m, open(os.path.join(V, "MANIFEST.json"), "w"), indent=1)
print(len(checks), "checks,", len(na), "not claimed")
