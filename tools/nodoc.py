import ast,sys
src=open(sys.argv[1]).read()
t=ast.parse(src)
lines=src.splitlines()
drop=set()
for n in ast.walk(t):
    if isinstance(n,(ast.FunctionDef,ast.ClassDef,ast.Module,ast.AsyncFunctionDef)):
        b=n.body
        if b and isinstance(b[0],ast.Expr) and isinstance(getattr(b[0],'value',None),ast.Constant) and isinstance(b[0].value.value,str):
            for i in range(b[0].lineno,b[0].end_lineno+1): drop.add(i)
for i,l in enumerate(lines,1):
    if i not in drop and l.strip() and not l.strip().startswith('#'):
        print(f"{i}:{l}")
