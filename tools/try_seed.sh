#!/bin/bash
# usage: try_seed.sh <patch.diff> <Cxx> [<Cyy> ...]   -- apply a seeded change to /repo, run the quick checks, undo it, rebuild
patch=$1; shift
[ -z "$(git -C /repo status --porcelain --untracked-files=no)" ] || { echo "/repo not clean"; exit 3; }
git -C /repo apply "$patch" || { echo "does not apply"; exit 3; }
for c in "$@"; do
  out=$(cd /verif && VERIF_SEED=${VERIF_SEED:-1} ./check $c ${TIER:-quick} 2>&1)
  rc=$?
  echo "$c rc=$rc $(echo "$out" | grep -c '^VIOLATION')"
  echo "$out" | grep "^\[check\] violation" | cut -c1-220 | head -${SHOW:-4}
done
git -C /repo checkout -- .
if grep -q "\.pyx\|\.pxd" "$patch"; then (cd /verif && /venv/bin/python -c "
import sys; sys.path.insert(0,'/verif/harness'); import core; core.build_repo()" >/dev/null 2>&1); fi
git -C /repo status --porcelain --untracked-files=no
