#!/bin/bash
# usage: mkwt.sh <dir>   -- scratch git worktree of /repo with compiled extensions copied in.
# /repo must be clean (no seed applied) and its compiled modules are first brought in sync with its
# sources (a seed tested earlier may have left a stale .so behind), under the harness's build lock.
set -e
d="$1"
exec 9>/tmp/.qv_build.lock
n=0
while true; do
  flock 9
  if [ -z "$(git -C /repo status --porcelain --untracked-files=no)" ]; then break; fi
  flock -u 9
  n=$((n+1))
  if [ $n -gt 180 ]; then echo "mkwt.sh: /repo has local changes; refusing to copy its build" >&2; exit 3; fi
  sleep 10
done
(cd /repo && QUTIP_VERIF=1 /venv/bin/python setup.py build_ext --inplace -j16 >/tmp/.qv_mkwt_build.log 2>&1) || { echo "mkwt.sh: build failed" >&2; exit 3; }
git -C /repo worktree add --detach "$d" HEAD >/dev/null 2>&1
cd /repo
find qutip -name "*.so" -o -name "*.cpp" | grep -v "/src/" | while read f; do
  mkdir -p "$d/$(dirname $f)"; cp -p "$f" "$d/$f"
done
find "$d/qutip" -name "*.cpp" | grep -v "/src/" | xargs touch; sleep 1; find "$d/qutip" -name "*.so" | xargs touch
# version file etc.
[ -f /repo/qutip/version.py ] && cp -p /repo/qutip/version.py "$d/qutip/version.py" || true
flock -u 9
echo "$d"
