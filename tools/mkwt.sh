#!/bin/bash
# usage: mkwt.sh <dir>   -- scratch git worktree of /repo with compiled extensions copied in
set -e
d="$1"
git -C /repo worktree add --detach "$d" HEAD >/dev/null 2>&1
cd /repo
find qutip -name "*.so" -o -name "*.cpp" | grep -v "/src/" | while read f; do
  mkdir -p "$d/$(dirname $f)"; cp -p "$f" "$d/$f"
done
find "$d/qutip" -name "*.cpp" | grep -v "/src/" | xargs touch; sleep 1; find "$d/qutip" -name "*.so" | xargs touch
# version file etc.
[ -f /repo/qutip/version.py ] && cp -p /repo/qutip/version.py "$d/qutip/version.py" || true
echo "$d"
