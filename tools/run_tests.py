#!/usr/bin/env python3
"""Run the pinned test suite in a checkout (default /repo), sharded by file over N processes (no xdist),
and compare with BASELINE.json's stable_pass set.
usage: run_tests.py [dir] [-n N]      exit 0 iff every stable_pass test passed."""
import glob, json, os, subprocess, sys, tempfile, xml.etree.ElementTree as ET
d = sys.argv[1] if len(sys.argv) > 1 and not sys.argv[1].startswith("-") else "/repo"
n = int(sys.argv[sys.argv.index("-n") + 1]) if "-n" in sys.argv else 12
base = json.load(open("/root/.vp/BASELINE.json"))
def norm(x):
    return x[len("qutip.tests."):] if x.startswith("qutip.tests.") else x
stable = set(norm(x) for x in base["stable_pass"])
files = sorted(glob.glob(os.path.join(d, "qutip/tests/**/test_*.py"), recursive=True))
# weight = number of stable tests in the file's module
def modname(f):
    return os.path.relpath(f, d)[:-3].replace("/", ".")
cnt = {}
for s in stable:
    m = s.split("::")[0]
    for f in files:
        pass
weights = {}
for f in files:
    mn = modname(f)
    mnn = norm(mn)
    weights[f] = sum(1 for s in stable if s.startswith(mnn + ".") or s.startswith(mnn + "::")) + 1
shards = [[] for _ in range(n)]
load = [0] * n
for f in sorted(files, key=lambda f: -weights[f]):
    k = load.index(min(load))
    shards[k].append(f)
    load[k] += weights[f]
env = dict(os.environ, PYTHONPATH=d, OMP_NUM_THREADS="1", OPENBLAS_NUM_THREADS="1", MKL_NUM_THREADS="1")
env.pop("QUTIP_VERIF", None)
tmp = tempfile.mkdtemp()
procs = []
for k, sh in enumerate(shards):
    if not sh:
        continue
    xml = os.path.join(tmp, f"s{k}.xml")
    e = dict(env)
    procs.append((xml, subprocess.Popen(
        ["/venv/bin/python", "-m", "pytest", "-q", "-p", "no:cacheprovider", "--timeout=900",
         "--continue-on-collection-errors", f"--junitxml={xml}"] + sh, cwd=d, env=e,
        stdout=open(os.path.join(tmp, f"s{k}.log"), "w"), stderr=subprocess.STDOUT)))
passed = set()
for xml, p in procs:
    p.wait()
    try:
        for tc in ET.parse(xml).getroot().iter("testcase"):
            if not any(c.tag in ("failure", "error", "skipped") for c in tc):
                passed.add(norm(f"{tc.get('classname')}::{tc.get('name')}"))
    except Exception as ex:
        print("shard failed:", xml, ex, open(xml.replace(".xml", ".log")).read()[-500:])
missing = sorted(stable - passed)
# tests that draw unseeded random data fail now and then on the untouched tree too (see DESIGN section 6): a test that is
# missing is re-run, with its file, up to two more times and counts as passing when it passes in one of them
retried = []
for attempt in range(2):
    if not missing or len(missing) > 10:
        break
    fs = sorted({os.path.join(d, "qutip/tests", m.split("::")[0].split(".Test")[0].replace(".", "/") + ".py") for m in missing})
    fs = [f for f in fs if os.path.exists(f)]
    if not fs:
        break
    xml = os.path.join(tmp, f"retry{attempt}.xml")
    subprocess.run(["/venv/bin/python", "-m", "pytest", "-q", "-p", "no:cacheprovider", "--timeout=900", f"--junitxml={xml}"] + fs,
                   cwd=d, env=env, stdout=subprocess.DEVNULL, stderr=subprocess.STDOUT)
    try:
        for tc in ET.parse(xml).getroot().iter("testcase"):
            nm = norm(f"{tc.get('classname')}::{tc.get('name')}")
            if nm in missing and not any(c.tag in ("failure", "error", "skipped") for c in tc):
                passed.add(nm)
                retried.append(nm)
    except Exception as ex:
        print("retry failed:", ex)
    missing = sorted(stable - passed)
for r in retried:
    print("  PASSED ON RETRY:", r)
print(f"stable_pass={len(stable)} passed_now={len(passed)} missing={len(missing)}")
print("sample passed:", sorted(passed)[:3])
for m in missing[:40]:
    print("  NOT PASSING:", m)
sys.exit(1 if missing else 0)
