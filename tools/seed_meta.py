#!/usr/bin/env python3
"""Write seeded/<id>/meta.json for every confirmed seed (verify.json says confirmed) from the table below."""
import glob
import json
import os

S = {
 "C01_A": ("permute.pyx _dimensions_csr_sparse copies a row's values after sorting its columns: values end up in the wrong columns", "square CSR (or Dia -> CSR) operand with < 0.5 stored elements per row, a row with >= 2 unequal values, non-identity subsystem order", "C01 (tensor-permutation cases on very sparse operators; added after the first run missed it)"),
 "C01_B": ("tidyup_dia slices the cached SciPy view with the wrong counter: the view keeps stale duplicated diagonals", "Dia that already has a SciPy view + in-place tidyup removing a diagonal other than the last + an operation implemented on the view (expm, reshape, ptrace, extract)", "C01 (operations after in-place tidy-up)"),
 "C02_A": ("memoised Dimensions.__matmul__ looks up its cache before the compatibility check", "an illegal product after a legal product with the same left dims and right input space, in one process", "C02"),
 "C02_B": ("Qobj.__truediv__ keeps the cached Hermitian flag for complex divisors", "Hermitian-flagged dividend, divisor with imaginary part, then an operation that trusts the flag (dag, tr, diag)", "C02, C03"),
 "C03_A": ("Qobj.ptrace inherits the cached Hermitian flag of its input", "operator with a cached flag whose partial trace has a different Hermiticity", "C03"),
 "C03_B": ("tensor() lets a cached 'not unitary' absorb the product instead of becoming unknown", "tensor of factors where one is flagged non-unitary and the product is unitary", "C03"),
 "C04_A": ("SDE steppers copy their input state only for more than two sub-steps", "smesolve with milstein / taylor1.5 / pred_corr, dt = half the tlist spacing, initial state given as a dense operator-ket", "C04"),
 "C04_B": ("MCSolver keeps the caller's QobjEvo collapse operators; arguments() later rewrites them in place", "MCSolver(H, time-dependent QobjEvo c_ops) then run / step with args=", "C04"),
 "C05_A": ("add_inter compares the time grids of two sampled coefficients loosely and merges different grids", "sum of two array coefficients on slightly different grids", "C05"),
 "C05_B": ("_FuncElement.replace_arguments cache keyed on the function only", "an operator-valued function appearing twice with different arguments in one expression", "C05"),
 "C06_B": ("FunctionCoefficient.replace_arguments returns self when the update shares no key with the construction arguments", "function parameter with a default that was not given at construction, updated later on its own", "C06"),
 "C06b_A": ("spline breakpoints of order >= 2 deduplicated with np.isclose (absolute 1e-8 in time)", "interpolation order 2..5 on a grid that is small in absolute scale, fine relative to its offset, or very long", "C06"),
 "C06b_B": ("coefficient_function_parameters keeps positional-or-keyword parameters only", "pythonic function with keyword-only parameters", "C06 (keyword-only signature shapes; added after the first run missed it)"),
 "C07_A": ("new fast path of liouvillian(H=None, c_ops) applies the counting field chi to the whole dissipator", "liouvillian without Hamiltonian, constant collapse operators, non-zero chi", "C07"),
 "C07_B": ("_EigenBasisTransform keeps a stale inverse eigenvector matrix across times", "time-dependent Bloch-Redfield tensor evaluated at several times", "C07"),
 "C08_A": ("to_stinespring uses eigenvectors for both operators of the pair when the Choi matrix is Hermitian: the sign of negative eigenvalues is lost", "Hermiticity-preserving map that is not completely positive (Hermitian Choi matrix with a negative eigenvalue)", "C08"),
 "C08_B_ported": ("_super_tofrom_choi forwards a cached Hermitian flag from the supermatrix to the Choi matrix", "supermatrix flagged Hermitian whose Choi matrix is inspected through ishp / iscp", "C08"),
 "C09_A": ("stale column index on a cache miss in the very-sparse CSR subsystem permutation", "very sparse CSR operator, column index first seen as a column", "C09"),
 "C09_B": ("reshuffle of a tensor of superoperators whose factors act on composite spaces uses the wrong index groups", "factors on composite spaces", "C09"),
 "C10_A": ("'diag' integrator reuses the cached exp(diag dt) when the new step is np.isclose to the old one", "nearly equal but different consecutive steps, or all steps below 1e-8 (GHz generator, nanosecond times)", "C10"),
 "C10_B": ("Krylov integrator keeps an infinite max_step after a happy breakdown", "solver object reused: eigenstate (or invariant-subspace state) first, generic state next, krylov_dim smaller than the system", "C10 (Krylov reuse cases; added after the first run missed it), C11"),
 "C11_A": ("Propagator memoises the inverse used for U(t, t_start) and keeps it after an args update", "U(t, t_start) queries before and after changing args", "C11"),
 "C11_B": ("Krylov integrator keeps an infinite max_step after a happy breakdown", "same solver used for an eigenstate, then another state", "C11"),
 "C12_A": ("lazily computed average_final_state bypasses the subclass hook", "keep_runs_results=True on a solver whose result class overrides the final-state reduction", "C12"),
 "C12_B": ("HEOM _restore_state honours copy=False with a view on the integrator buffer", "HEOM run with stored ADO states: earlier entries show the last state", "C12"),
 "C13_A": ("result.seeds overwritten with the seeds in submission order", "worker processes finishing out of submission order", "C13"),
 "C13_B": ("nm_mcsolve keeps precomputed martingale values across runs", "same solver: run(tlist) then run over a later part of tlist", "C13"),
 "C14_A": ("errors of straggler tasks dropped once the reducer has signalled completion", "a task failing after the reducer returned <= 0 while it was in flight", "C14"),
 "C14_B": ("serial_map ignores a completion signal that is exactly zero", "reducer returning exactly 0", "C14"),
 "C15_A": ("_TrajectorySum.merge keeps stale state sums of the first operand", "merge where only one operand stores states", "C15"),
 "C15_B": ("average_final_state divides the deterministic part by the number of sampled trajectories", "improved sampling / deterministic trajectory present", "C15"),
 "C16_A": ("nm_mcsolve run(args=...) precomputes the martingale before the new args reach the rate shift", "NonMarkovianMCSolver.run with args that change the sign of a rate", "C16"),
 "C16_B": ("jump search treats exhausting its tries as success", "searches that run out of tries: large-step integrators, coarse tlist, small norm_steps", "C16"),
 "C17_A": ("PreSetWiener keeps a view on the caller's record for a single homodyne channel", "run_from_experiment(measurement=True) with exactly one monitored operator", "C17"),
 "C17_B_ported": ("Rouchon scheme advances its clock once per output interval", "time-dependent system, rouchon, several sub-steps per interval", "C17"),
 "C18_A": ("solution un-permuted with the composed WBM and RCM permutation", "direct / power method with use_rcm and use_wbm on a Liouvillian with structural zeros on its diagonal", "C18"),
 "C18_B_ported": ("pseudo_inverse applies its frequency shift to the caller's Liouvillian in place", "input already in the storage the method wants (to() returns self)", "C18, C04"),
 "C19_A": ("fermionic sign factors assume the fermionic exponents are contiguous", "bosonic bath listed between two fermionic baths", "C19 (dynamics of a mixed environment under reordering; the sign correspondence alone gave no-failing-input-found)"),
 "C19_B": ("restart from an ADO array flattened in memory order", "F-ordered or strided array of ADOs as initial state", "C19"),
 "C20_A": ("rx / ry / qrot fold their angle into [0, 2pi)", "angle outside [0, 2pi) with odd floor(angle / 2pi)", "C20"),
 "C20_B": ("rand_ket('fill') retry draws from NumPy's global generator", "distribution='fill' with density x N < 0.5 and an explicit seed", "C20"),
 "C01c_A": ("inner_op_dia indexes the operator's diagonals with the wrong row stride", "matrix element <l|op|r> with Dia operands and a rectangular operator (bra/ket of different lengths) or several diagonals", "C01 (rectangular inner_op cases over all storage forms; added after the first run missed it)"),
 "C01c_B": ("add_csr hands back its left operand, not a copy, when there is nothing to add", "CSR sum with an empty right operand (or scale 0) followed by an in-place operation on the result", "C01 (results must not alias their operands; added after the first run missed it), C04"),
 "C05c_A": ("replacement cache of function elements accepts an entry for another instance wrapping the same function", "one operator-valued function used in two elements with different arguments", "C05"),
 "C05c_B": ("SumCoefficient / MulCoefficient replace their arguments in place and return self", "a sum or product of coefficients evaluated with call-time arguments, replaced, or wrapped in a QobjEvo with args; the original is read again afterwards", "C05, C06 (original unchanged after evaluation with other arguments; added after the first run caught it only through C04), C04"),
 "C10c_A": ("explicit Runge-Kutta work buffers always allocated Fortran-ordered", "state given as a C-ordered dense operator (density matrix / propagator) with a non-adaptive or adaptive explicit method", "C10 (operator states in C / Fortran / CSR storage; added after the first run missed it)"),
 "C10c_B": ("output normalisation decided from the shape of the state instead of its type", "operator-ket initial state with normalize_output on a Schrödinger-type solver", "C10 (operator-ket states; added after the first run missed it)"),
 "C12c_A": ("_QobjExpectEop decides the real cast of an e_op once, from the first state", "Hermitian e_op whose expectation is real on the first state only (operator / non-Hermitian states later), or the reverse", "C12 (operator-valued states and non-Hermitian intermediates; added after the first run missed it)"),
 "C12c_B": ("NmmcResult final state of the no-jump trajectory loses its martingale factor", "nm_mcsolve with improved sampling, final state compared with the last stored state", "C12 (final state against last stored state for every multi-trajectory solver; added after the first run missed it)"),
 "C17c_A": ("Explicit15 supporting drift evaluated at t + dt instead of t + dt / num_ops", "explicit1.5 with two or more monitored channels and a time-dependent drift", "C17 (order-1.5 schemes against each other on fixed noise; added after the first run missed it)"),
 "C17c_B": ("trajectory measurement divides every Wiener increment by the first output interval", "store_measurement with an unevenly spaced tlist", "C17 (measurement identity on uneven tlist; added after the first run missed it)"),
 "C19c_A": ("CFExponent._combine merges an 'I' exponent that comes first as if it were real", "two exponents of equal rate, imaginary one listed first, combine=True", "C19 (merged-kinds rewriting plus the Lean combine model; added after the first run missed it)"),
 "C19c_B": ("stored ADO states are views of the integrator's buffer", "HEOM run storing ADO states with an integrator that reuses its buffer (vern7 / vern9 / adams)", "C19 (ADO alignment over integrators; added after the first run missed it), C12"),
 "C04c_A": ("_eigs_dense passes overwrite_a=True to LAPACK on a view of the operator's data", "Dense non-Hermitian operator in column-major order (or the transposed view of a row-major one), eigenenergies / eigenstates", "C04 (general operands and transposed views through eigenvalue routines; added after the first run missed it)"),
 "C04c_B": ("QobjEvo copies share their feedback tables; replacing a feedback argument by a value deletes it from the shared table", "QobjEvo with a solver-feedback argument, used once with a plain value for that key", "C04 (operators carrying feedback arguments, repr in the snapshot; added after the first run missed it)"),
 "C07c_A": ("Bloch-Redfield basis transform keeps the inverse eigenvectors of the previous time", "time-dependent H with rotating eigenvectors, tensor in the input basis, second evaluation at another time", "C07"),
 "C07c_B": ("'matrix' Bloch-Redfield method assumes a symmetric coupling operator", "br_computation_method='matrix', coupling complex in the eigenbasis, secular cutoff off or loose", "C07"),
 "C11c_A": ("Propagator memoises inverses in a list that the memo eviction does not keep in step", "time-dependent system, U(t, t_start) with t_start != 0, more distinct times than the memo holds", "C11"),
 "C11c_B": ("MESolver keeps the caller's Liouvillian QobjEvo as its rhs when there are no c_ops", "two solvers built from one time-dependent superoperator QobjEvo, one of them given new args", "C11 (two solvers from one generator object; added after the first run gave no-failing-input-found through C04's translator only), C04"),
 "C13c_A": ("influence-martingale table of nm_mcsolve kept across runs over the same tlist", "same NonMarkovianMCSolver, same tlist, run(args=) changing a rate that goes negative", "C13 (runs with other arguments in between; added after the first run missed it), C16"),
 "C13c_B": ("measurement-record flag of the stochastic steppers outlives a replay", "run_from_experiment(measurement=True) followed by run / step on the same solver", "C13 (replay in between; added after the first run missed it), C17"),
 "C16c_A": ("jump search loop rewritten as for-range: running out of tries is taken as success", "searches that do not converge within norm_steps: method='diag', small norm_steps with a coarse tlist", "C16"),
 "C16c_B": ("influence-martingale integrals reused across runs with different args", "one NonMarkovianMCSolver, run(args=A) then run(args=B) over the same tlist, negative rates", "C16 (a run with other args on a used solver against a fresh solver; added after the first run missed it), C13"),
 "C18c_A": ("trace row written in place into a view of the caller's dense Liouvillian", "Liouvillian Qobj in Dense storage, direct method with a dense solver, object used again", "C18, C04"),
 "C18c_B": ("pseudo_inverse(use_rcm=True) permutes only half of the projector", "use_rcm=True with a CSR Liouvillian", "C18 (reordering options of pseudo_inverse; added after the first run missed it)"),
 "C02d_A": ("Dimensions.__ne__ shortcut for square objects compares the row space only", "left operand square, right operand of the same shape and row space with another column space: + and - accepted, == True", "C02 (relabelled near-miss pairs, == / != consistency; added after the first run missed it)"),
 "C02d_B": ("Qobj.overlap of an operator with a pure state computed as <psi|A|psi> for both orders", "operator on the left, ket or bra on the right, non-Hermitian operator", "C02 (overlap oracle; added after the first run missed it)"),
 "C03d_A": ("solver state metadata (dims and Hermitian flag) rebuilt only when the dims change", "one solver object run twice with states of equal dims and different Hermiticity", "C03 (outputs of re-used solver objects; added after the first run missed it)"),
 "C03d_B": ("Qobj.transform keeps the cached unitary flag for a list of kets without checking orthonormality", "operator with a cached unitary flag transformed by a non-orthonormal list of kets", "C03 (basis changes by lists of kets; added after the first run missed it)"),
 "C06d_A": ("coefficient_function_parameters keeps positional-or-keyword parameters only", "pythonic function with keyword-only parameters", "C06"),
 "C06d_B": ("InterCoefficient keeps the caller's arrays when their dtype already matches", "complex128 samples or float64 tlist, order 0 or 1, arrays modified in place afterwards", "C06 (coefficients do not alias the caller's arrays; added after the first run missed it)"),
 "C08d_A": ("_super_tofrom_choi forwards a cached Hermitian flag", "Hermitian supermatrix with its flag set (spre / spost / sprepost of Hermitian operators)", "C08, C03"),
 "C08d_B": ("Qobj.istp of a plain operator answered by isunitary", "conjugation by a non-square isometry given as a plain operator", "C08 (conjugations given as plain rectangular operators; borderline handling split per predicate; added after the first run missed it)"),
 "C09d_A": ("tensor_swap composes several pairs into the inverse permutation", "one call with overlapping pairs that compose to a non-involution", "C09 (several pairs per call; added after the first run missed it)"),
 "C09d_B": ("reshuffle of a tensor of superoperators uses the interleaved index layout for factors on composite spaces", "factor acting on two or more subsystems", "C09"),
 "C14d_A": ("results arriving after the reducer's stop signal are not handed to the reducer", "parallel map with a reducer that stops early while other tasks are in flight", "C14"),
 "C14d_B": ("a task's own TimeoutError / CancelledError is mistaken for an aborted future", "parallel_map with a task raising the builtin TimeoutError", "C14 (parallel_map front-end driven with four exception classes; added after the first run missed it)"),
 "C15d_A": ("trajectories folded into already built state sums bypass NmmcResult's trace weighting", "NmmcResult with keep_runs_results, states polled while trajectories are still being added", "C15 (McResult / NmmcResult polled between adds; added after the first run missed it)"),
 "C15d_B": ("average_final_state rebuilds only the missing sum but reduces every trajectory", "merge of an operand that was read before (with a deterministic trajectory) with one that was not", "C15 (systematic merge family; added after the first run missed it)"),
 "C20d_A": ("coherent(..., offset) restores the phase of alpha with one power instead of offset powers", "offset >= 2 with a complex or negative amplitude", "C20 (coherent states with offsets against the closed form; added after the first run missed it)"),
 "C20d_B": ("retry of rand_ket(distribution='fill') loses random_state=generator", "distribution='fill' with density x N < 0.5 and an explicit seed", "C20"),
}
for d in sorted(glob.glob("/verif/seeded/*/")):
    name = os.path.basename(os.path.dirname(d))
    vj = os.path.join(d, "verify.json")
    if not os.path.exists(vj) or name not in S:
        continue
    ver = json.load(open(vj))
    if not ver.get("confirmed"):
        continue
    summary, needs, caught = S[name]
    meta = {"property": ver["property"], "summary": summary, "needs": needs,
            "what_i_ran": f"tools/verify_seed.py on a scratch worktree of /repo at {ver['base_commit']}: demo without the patch exits {ver['demo_without_patch']}, patch applies"
                          f"{' and builds' if 'build' in ver else ''}, demo with the patch exits {ver['demo_with_patch']}, pinned test-suite (14636 stable tests) exit {ver['tests_exit']}; "
                          "then `git -C /repo apply patch.diff`, `./check <id> quick`, `git -C /repo checkout -- .`",
            "caught_by": caught, "files": ver.get("files", [])}
    json.dump(meta, open(os.path.join(d, "meta.json"), "w"), indent=1)
    print("meta", name)
