"""C19 — the hierarchy solver reduces to known limits and ignores how a bath is written.

Correspondence (exact): `HierarchyADOs` labels / idx / next / prev for random exponent dimensions and
depths, and the fermionic signs decoded from the blocks `_grad_next_fermionic` / `_grad_prev_fermionic`
return for hierarchies whose bosonic and fermionic exponents are interleaved, against the Lean model;
the assembled generator (`_GatherHEOMRHS` / `_from_csr_blocks` / kron with the system Liouvillian)
against a dense assembly of the same blocks at the positions the model's `idx` gives.
Oracle on real runs: reordering exponents, splitting a bath into several with the same coupling,
merging exponents of equal rate leave the system state unchanged at every stored time and depth; depth
zero and zero coupling reproduce the system's own evolution; pure dephasing reproduces the closed-form
decoherence function; the even-parity generator conserves the trace of the system block; a run
restarted from stored ADOs (state object, C- and F-ordered arrays, views) continues the original run.
"""
import json
import os
import sys
import warnings

import numpy as np

sys.path.insert(0, os.path.dirname(os.path.abspath(__file__)))
import core

PID = "C19"
OPT = {"progress_bar": "", "nsteps": 50000, "atol": 1e-11, "rtol": 1e-9, "store_ados": True}


def run(tier, seed, replay):
    rep = core.Report(PID, tier, seed)
    rep.rule = ("labels: random exponent dimensions (1-4 exponents, dims 2-4 or depth+1) x depths 0-4; signs: every label x fermionic exponent of interleaved "
                "boson/fermion hierarchies x both parities; runs: random two-level and three-level systems x 2-4 exponents (R, I, RI) x depths 0-3; non-trivial = hierarchy with at least 3 ADOs")
    rep.assumptions = ["bath rewriting is compared to 1e-7 (reorder / split, solver tolerance 1e-11) and 1e-6 (merging equal rates, which changes the hierarchy)",
                       "pure dephasing is exact only for an untruncated hierarchy: compared at depth 8 with weak coupling, tolerance 1e-5"]
    core.build_repo()
    proved = core.prove(rep, ["Qv.Model.C19", "Qv.Props.C19"], "Qv.Props.C19")
    if tier == "thorough":
        core.leanchecker(rep, ["Qv.Props.C19"])
    import qutip
    from qutip import data as _data
    from qutip.solver.heom import BathExponent, FermionicBath, BosonicBath, DrudeLorentzBath, HEOMSolver
    from qutip.solver.heom.bofin_solvers import HierarchyADOs
    rng = np.random.default_rng(seed)
    viol = {}

    def v(sig, what, data=None):
        if sig not in viol:
            viol[sig] = (what, data or {"what": what})
    # ------------------------------------------------------------------ correspondence: labels, neighbours
    lines, expect = [], []
    Q = qutip.sigmaz()
    for _ in range(40 if tier == "quick" else 300):
        ne = int(rng.integers(1, 5))
        depth = int(rng.integers(0, 5))
        dims_arg = [None if rng.random() < 0.5 else int(rng.integers(2, 5)) for _ in range(ne)]
        exps = [BathExponent("R", d, Q, 0.1, 1.0 + k) for k, d in enumerate(dims_arg)]
        ados = HierarchyADOs(exps, depth)
        dims = [int(d) for d in ados.dims]
        lines.append("C19.labels " + json.dumps({"dims": dims, "depth": depth}))
        labs = [list(l) for l in ados.labels]
        expect.append(("labels", {"labels": labs,
                                  "next": [[(list(ados.next(tuple(l), k)) if ados.next(tuple(l), k) is not None else None) for k in range(ne)] for l in labs],
                                  "prev": [[(list(ados.prev(tuple(l), k)) if ados.prev(tuple(l), k) is not None else None) for k in range(ne)] for l in labs],
                                  "idx": [ados.idx(tuple(l)) for l in labs]}, {"dims": dims, "depth": depth}))
        rep.case({"dims": dims, "depth": depth}, len(labs) >= 3)
        rep.count("labels-exponents=%d" % ne)
    # ------------------------------------------------------------------ correspondence: fermionic signs, generator assembly
    sm = qutip.sigmam()
    sys2 = qutip.tensor(qutip.sigmaz(), qutip.qeye(2)) * 0.5 + 0.3 * qutip.tensor(qutip.sigmax(), qutip.sigmax())
    d1 = qutip.tensor(qutip.sigmam(), qutip.qeye(2))
    d2 = qutip.tensor(qutip.sigmaz(), qutip.sigmam())
    qb = qutip.tensor(qutip.sigmaz(), qutip.sigmaz())
    for odd in (False, True):
        for order in range(3 if tier == "quick" else 6):
            f1 = FermionicBath(d1, [0.11, 0.07], [0.9, 1.4], [0.12, 0.05], [0.8, 1.3])
            f2 = FermionicBath(d2, [0.09], [1.1], [0.08], [1.2])
            b1 = BosonicBath(qb, [0.05], [0.7], [0.02], [0.7], combine=False)
            b2 = BosonicBath(qb, [0.03], [1.9], [], [], combine=False)
            arrangements = [[f1, b1, f2], [b1, f1, b2, f2], [f1, f2, b1], [b2, f2, b1, f1], [f2, b1, b2, f1], [b1, b2, f1, f2]]
            baths = arrangements[order % len(arrangements)]
            depth = 3 if (tier != "quick" or order == 0) else 2       # signs with two and more excitations before the exponent need depth 3
            try:
                with warnings.catch_warnings():
                    warnings.simplefilter("ignore")
                    hs = HEOMSolver(sys2, baths, max_depth=depth, odd_parity=odd, options=OPT)
            except Exception as e:
                v("mixed-hierarchy-raises", f"HEOMSolver with interleaved baths: {type(e).__name__}: {e}"[:200])
                continue
            ferm = [bool(e.fermionic) for e in hs.ados.exponents]
            types = [e.type.name for e in hs.ados.exponents]
            rep.count("mixed-hierarchy")
            for lab in hs.ados.labels:
                for k, isf in enumerate(ferm):
                    if not isf:
                        continue
                    nxt = hs.ados.next(lab, k)
                    if nxt is not None:
                        op = hs._grad_next_fermionic(lab, k).to_array()
                        if types[k] == "+":
                            minus, plus = hs._s_pre_minus_post_Q[k].to_array(), hs._s_pre_plus_post_Q[k].to_array()
                        else:
                            minus, plus = hs._s_pre_minus_post_Qdag[k].to_array(), hs._s_pre_plus_post_Qdag[k].to_array()
                        dec = None
                        for s1, M in ((-1, minus), (1, plus)):
                            for s2 in (1, -1):
                                if np.abs(op - (-1j * s2) * M).max() < 1e-14:
                                    dec = (s1, s2)
                        lines.append("C19.signs " + json.dumps({"label": [int(x) for x in lab], "ferm": ferm, "odd": odd, "k": k}))
                        expect.append(("signs", dec, {"label": list(map(int, lab)), "k": k, "odd": odd, "types": types}))
                    prv = hs.ados.prev(lab, k)
                    if prv is not None:
                        op = hs._grad_prev_fermionic(lab, k).to_array()
                        ck = hs.ados.ck
                        sb = k + hs.ados.sigma_bar_k_offset[k]
                        pre, post = (hs._spreQdag[k], hs._spostQdag[k]) if types[k] == "+" else (hs._spreQ[k], hs._spostQ[k])
                        pre, post = pre.to_array(), post.to_array()
                        dec = None
                        for s1 in (1, -1):
                            for s2 in (1, -1):
                                want = (-1j * s2 * ck[k]) * pre - (-1j * s2 * s1 * np.conj(ck[sb])) * post
                                if np.abs(op - want).max() < 1e-14:
                                    dec = (s1, s2)
                        lines.append("C19.signs " + json.dumps({"label": [int(x) for x in lab], "ferm": ferm, "odd": odd, "k": k}))
                        expect.append(("signs", dec, {"label": list(map(int, lab)), "k": k, "odd": odd, "types": types, "prev": True}))
            # generator assembly: dense placement of the blocks
            n_ados, blk = hs._n_ados, hs._sup_shape
            dense = np.zeros((n_ados * blk, n_ados * blk), dtype=complex)
            Lsys = hs.L_sys(0).full()
            for lab in hs.ados.labels:
                i = hs.ados.idx(lab)
                dense[i * blk:(i + 1) * blk, i * blk:(i + 1) * blk] += hs._grad_n(lab).to_array() + Lsys
                for k in range(len(ferm)):
                    nxt = hs.ados.next(lab, k)
                    if nxt is not None:
                        j = hs.ados.idx(nxt)
                        dense[i * blk:(i + 1) * blk, j * blk:(j + 1) * blk] += hs._grad_next(lab, k).to_array()
                    prv = hs.ados.prev(lab, k)
                    if prv is not None:
                        j = hs.ados.idx(prv)
                        dense[i * blk:(i + 1) * blk, j * blk:(j + 1) * blk] += hs._grad_prev(lab, k).to_array()
            gen = hs.rhs(0).full()
            rep.evaluations += 1
            if np.abs(gen - dense).max() > 1e-13:
                v("generator-assembly", f"the assembled hierarchy generator differs from the dense placement of its blocks by {np.abs(gen - dense).max():.2e} (arrangement {order}, odd_parity={odd})", {"arrangement": order, "odd": odd})
            # trace of the system block: rows of the system block summed over the diagonal positions
            tr = np.eye(int(np.sqrt(blk))).reshape(-1, order="F")
            row = tr @ gen[:blk, :]
            if not odd and np.abs(row).max() > 1e-12:
                v("trace-conservation", f"even-parity generator does not conserve the trace of the system block: {np.abs(row).max():.2e} (arrangement {order})", {"arrangement": order})
            if odd and np.abs(row).max() < 1e-12:
                rep.count("odd-parity-trace-conserved")
    # the same fermionic + bosonic environment, listed in different orders, gives the same system state
    rho_f = qutip.ket2dm(qutip.tensor(qutip.basis(2, 0), (qutip.basis(2, 0) + qutip.basis(2, 1)).unit()))
    tlf = np.linspace(0, 1.5, 4)
    ref_f = None
    for order in range(4 if tier == "quick" else 6):
        f1 = FermionicBath(d1, [0.11, 0.07], [0.9, 1.4], [0.12, 0.05], [0.8, 1.3])
        f2 = FermionicBath(d2, [0.09], [1.1], [0.08], [1.2])
        b1 = BosonicBath(qb, [0.05], [0.7], [0.02], [0.7], combine=False)
        b2 = BosonicBath(qb, [0.03], [1.9], [], [], combine=False)
        arrangements = [[f1, f2, b1, b2], [f1, b1, f2, b2], [b1, f1, b2, f2], [b2, f2, b1, f1], [f2, b1, b2, f1], [b1, b2, f1, f2]]
        try:
            with warnings.catch_warnings():
                warnings.simplefilter("ignore")
                with core.time_limit(600):
                    out = HEOMSolver(sys2, arrangements[order], max_depth=2, options=OPT).run(rho_f, tlf)
        except core.CaseTimeout:
            raise
        except Exception as e:
            v("mixed-run-raises", f"{type(e).__name__}: {e}"[:200])
            continue
        st = [x.full() for x in out.states]
        rep.evaluations += 1
        rep.count("mixed-environment-order")
        if ref_f is None:
            ref_f = st
        else:
            dd = max(np.abs(a - b).max() for a, b in zip(ref_f, st))
            if dd > 1e-7:
                v("rewriting:mixed-order", f"listing the same fermionic and bosonic baths in another order (arrangement {order}) changes the system state by {dd:.2e}", {"arrangement": order})
    # two interacting fermionic levels with two leads at depths 3 (and 4): the order of the baths, the split of one lead
    # into two baths with the same coupling operator and both parities of the state
    n1, n2 = d1.dag() * d1, d2.dag() * d2
    Hff = 0.4 * n1 - 0.2 * n2 + 0.35 * (d1.dag() * d2 + d2.dag() * d1) + 0.5 * n1 * n2
    for odd in (False, True):
        rho_e = qutip.ket2dm(qutip.tensor(qutip.basis(2, 0), (qutip.basis(2, 0) + qutip.basis(2, 1)).unit())) if not odd else d1 * 0.5 + d2 * 0.25
        for depth in ((3,) if tier == "quick" else (3, 4)):
            La = FermionicBath(d1, [0.11], [0.9], [0.12], [0.8])
            Lb = FermionicBath(d1, [0.07], [1.4], [0.05], [1.3])
            Lab = FermionicBath(d1, [0.11, 0.07], [0.9, 1.4], [0.12, 0.05], [0.8, 1.3])
            Lba = FermionicBath(d1, [0.07, 0.11], [1.4, 0.9], [0.05, 0.12], [1.3, 0.8])
            Rr = FermionicBath(d2, [0.09], [1.1], [0.08], [1.2])
            reff = None
            def grouped(fb):
                """the same exponents and pairing with all '+' exponents listed before all '-' ones"""
                from qutip.solver.heom import Bath
                plus = [e for e in fb.exponents if e.type == BathExponent.types["+"]]
                minus = [e for e in fb.exponents if e.type == BathExponent.types["-"]]
                n_ = len(plus)
                return Bath([BathExponent("+", e.dim, e.Q, e.ck, e.vk, sigma_bar_k_offset=n_) for e in plus]
                            + [BathExponent("-", e.dim, e.Q, e.ck, e.vk, sigma_bar_k_offset=-n_) for e in minus])
            for nm, baths in (("[L, R]", [Lab, Rr]), ("[R, L]", [Rr, Lab]), ("[L pairs reversed, R]", [Lba, Rr]), ("[La, R, Lb]", [La, Rr, Lb]), ("[Lb, La, R]", [Lb, La, Rr]),
                              ("[L with '+' exponents before '-' ones, R]", [grouped(Lab), Rr]), ("[R, L grouped]", [Rr, grouped(Lab)])):
                try:
                    with warnings.catch_warnings():
                        warnings.simplefilter("ignore")
                        with core.time_limit(600):
                            out = HEOMSolver(Hff, baths, max_depth=depth, odd_parity=odd, options=OPT).run(rho_e, [0, 0.7, 1.5])
                except core.CaseTimeout:
                    raise
                except Exception as e:
                    v("fermionic-run-raises", f"{type(e).__name__}: {e}"[:200])
                    continue
                stf = [x.full() for x in out.states]
                rep.evaluations += 1
                rep.count("fermionic-leads-order")
                if reff is None:
                    reff = stf
                else:
                    dd = max(np.abs(a - b).max() for a, b in zip(reff, stf))
                    if dd > 1e-7:
                        v("rewriting:fermionic-leads", f"two fermionic levels with two leads at depth {depth} (odd_parity={odd}): writing the leads as {nm} instead of [L, R] changes the system state by {dd:.2e}", {"depth": depth, "odd": odd, "arrangement": nm})
    # merging two exponents of equal rate: every pair of kinds, in both orders
    from qutip.core.environment import CFExponent
    for ka in ("R", "I", "RI"):
        for kb in ("R", "I", "RI"):
            for _ in range(2 if tier == "quick" else 10):
                a = {"kind": ka, "ck": int(rng.integers(-9, 10)), "ck2": int(rng.integers(-9, 10)) if ka == "RI" else 0}
                b = {"kind": kb, "ck": int(rng.integers(-9, 10)), "ck2": int(rng.integers(-9, 10)) if kb == "RI" else 0}
                ea = CFExponent(ka, a["ck"], 1.5, ck2=a["ck2"] if ka == "RI" else None)
                eb_ = CFExponent(kb, b["ck"], 1.5, ck2=b["ck2"] if kb == "RI" else None)
                try:
                    ec = ea._combine(eb_)
                    got = {"kind": ec.type.name, "ck": int(np.real(ec.ck)), "ck2": int(np.real(ec.ck2 or 0))}
                except Exception as e:      # noqa
                    got = {"error": repr(e)}
                lines.append("C19.combine " + json.dumps({"a": a, "b": b}))
                expect.append(("combine", got, {"a": a, "b": b}))
                rep.count("combine-kinds")
    model = core.run_driver(lines)
    ndis, first = 0, None
    for line, ex, m in zip(lines, expect, model):
        bad = None
        if isinstance(m, dict) and "error" in m:
            bad = {"model": m}
        elif ex[0] == "combine":
            if m != ex[1]:
                bad = {"model": m, "impl": ex[1], "case": ex[2]}
        elif ex[0] == "labels":
            if m != ex[1]:
                diff = [k for k in ex[1] if m.get(k) != ex[1][k]]
                bad = {"differs": diff, "case": ex[2], "model": str(m)[:300], "impl": str(ex[1])[:300]}
        else:
            dec = ex[1]
            if dec is None or (m["sign1"], m["sign2"]) != dec:
                bad = {"model": m, "impl_decoded": dec, "case": ex[2]}
        if bad:
            ndis += 1
            if first is None:
                first = dict(bad, op=line.split(" ", 1)[0])
    rep.notes["correspondence_disagreements"] = ndis
    rep.notes["correspondence_lines"] = len(lines)
    if ndis:
        rep.broken.append({"kind": "correspondence", "count": ndis, "first": first})
    # ------------------------------------------------------------------ oracle: rewriting the bath
    tl = np.linspace(0, 2.0, 5)
    nsys = 3 if tier == "quick" else 12
    for si in range(nsys):
        d = 2 if si % 2 == 0 else 3
        H = qutip.rand_herm(d, seed=int(rng.integers(1 << 30)))
        Qc = qutip.rand_herm(d, seed=int(rng.integers(1 << 30)))
        rho0 = qutip.rand_dm(d, seed=int(rng.integers(1 << 30)))
        nr, ni = int(rng.integers(1, 3)), int(rng.integers(0, 2))
        ckr = [complex(x) for x in rng.uniform(0.02, 0.12, nr)]
        vkr = [float(x) for x in rng.uniform(0.5, 2.0, nr)]
        cki = [complex(x) for x in rng.uniform(-0.05, 0.05, ni)]
        vki = [float(x) for x in rng.uniform(0.5, 2.0, ni)]
        for depth in ((0, 1, 2, 3) if tier == "thorough" else (0, 2)):
            cfg = {"dim": d, "depth": depth, "ck_real": [str(x) for x in ckr], "vk_real": vkr, "ck_imag": [str(x) for x in cki], "vk_imag": vki}
            rep.case({"run": [d, depth, nr, ni]}, depth >= 1)

            def solve(baths, dep=depth, rho=rho0, times=tl):
                with warnings.catch_warnings():
                    warnings.simplefilter("ignore")
                    with core.time_limit(300):
                        return HEOMSolver(H, baths, max_depth=dep, options=OPT).run(rho, times)
            try:
                base = solve(BosonicBath(Qc, ckr, vkr, cki, vki, combine=False))
                ref = [s.full() for s in base.states]
                variants = {}
                perm_r, perm_i = rng.permutation(nr), rng.permutation(ni)
                variants["reordered"] = BosonicBath(Qc, [ckr[i] for i in perm_r], [vkr[i] for i in perm_r], [cki[i] for i in perm_i], [vki[i] for i in perm_i], combine=False)
                variants["split-baths"] = [BosonicBath(Qc, [ckr[i]], [vkr[i]], [], [], combine=False) for i in range(nr)] + [BosonicBath(Qc, [], [], [cki[i]], [vki[i]], combine=False) for i in range(ni)]
                variants["split-reversed"] = list(reversed(variants["split-baths"]))
                # an exponent written as two halves of equal rate: merged by `combine`, kept apart otherwise
                halves = BosonicBath(Qc, [ckr[0] / 2, ckr[0] / 2] + ckr[1:], [vkr[0], vkr[0]] + vkr[1:], cki, vki, combine=False)
                merged = BosonicBath(Qc, [ckr[0] / 2, ckr[0] / 2] + ckr[1:], [vkr[0], vkr[0]] + vkr[1:], cki, vki, combine=True)
                for name, b in variants.items():
                    out = solve(b)
                    dd = max(np.abs(a - s.full()).max() for a, s in zip(ref, out.states))
                    rep.evaluations += 1
                    rep.count("rewrite=" + name)
                    if dd > 1e-7:
                        v(f"rewriting:{name}", f"{name}: the system state changes by {dd:.2e} (depth {depth})", cfg)
                if depth <= 1 or True:
                    o1, o2 = solve(halves), solve(merged)
                    dd = max(np.abs(a.full() - b.full()).max() for a, b in zip(o1.states, o2.states))
                    d0 = max(np.abs(a - b.full()).max() for a, b in zip(ref, o2.states))
                    rep.count("rewrite=merge")
                    if d0 > 1e-6:
                        v("rewriting:merged-vs-single", f"an exponent written as two equal-rate halves and merged differs from the single exponent by {d0:.2e} (depth {depth})", cfg)
                    if depth <= 1 and dd > 1e-6:
                        v("rewriting:merge", f"merging exponents of equal rate changes the system state by {dd:.2e} (depth {depth})", cfg)
                # exponents of equal rate of different kinds (real / imaginary part), listed in every order, merged or not
                if depth >= 1:
                    from qutip.solver.heom import Bath
                    vshared = vkr[0]
                    eb = BosonicBath(Qc, ckr, vkr, [0.03 + 0j] + cki, [vshared] + vki, combine=False)
                    exps = list(eb.exponents)
                    ref_m = [x.full() for x in solve(Bath(exps)).states]
                    orders = [list(rng.permutation(len(exps))) for _ in range(2)] + [list(range(len(exps)))[::-1]]
                    for od in orders:
                        pe = [exps[i] for i in od]
                        for merged_ in (False, True):
                            try:
                                lst = BosonicBath.combine(pe) if merged_ else pe
                                out = solve(Bath(list(lst)))
                            except core.CaseTimeout:
                                raise
                            except Exception as e:
                                v("combine-raises", f"combining / running a reordered exponent list raises {type(e).__name__}: {e}"[:200], cfg)
                                continue
                            dd = max(np.abs(a - x.full()).max() for a, x in zip(ref_m, out.states))
                            rep.evaluations += 1
                            rep.count("rewrite=order+merge-kinds")
                            if dd > (1e-6 if merged_ else 1e-7):
                                v(f"rewriting:{'merged' if merged_ else 'reordered'}-kinds", f"exponents of equal rate and different kinds listed as {[exps[i].type.name for i in od]}{' and merged' if merged_ else ''}: the system state changes by {dd:.2e} (depth {depth})", cfg)
                # limits
                if depth == 0:
                    me = qutip.mesolve(H, rho0, tl, options={"atol": 1e-11, "rtol": 1e-9}).states
                    dd = max(np.abs(a - s.full()).max() for a, s in zip(ref, me))
                    if dd > 1e-7:
                        v("limit:zero-depth", f"depth 0 differs from the system's own evolution by {dd:.2e}", cfg)
                else:
                    zero = solve(BosonicBath(Qc, [0.0 * c for c in ckr], vkr, [0.0 * c for c in cki], vki, combine=False))
                    me = qutip.mesolve(H, rho0, tl, options={"atol": 1e-11, "rtol": 1e-9}).states
                    dd = max(np.abs(a.full() - s.full()).max() for a, s in zip(zero.states, me))
                    if dd > 1e-7:
                        v("limit:zero-coupling", f"vanishing coupling differs from the system's own evolution by {dd:.2e} (depth {depth})", cfg)
                # trace and restart
                for k, a in enumerate(ref):
                    if abs(np.trace(a) - 1) > 1e-8:
                        v("trace-drift", f"trace of the system state at stored time {k}: {np.trace(a)} (depth {depth})", cfg)
                if depth >= 1:
                    # stored hierarchy states belong to their own time, whatever the integrator
                    for method in ("adams", "vern7", "lsoda", "bdf", "dop853"):
                        try:
                            with warnings.catch_warnings():
                                warnings.simplefilter("ignore")
                                with core.time_limit(300):
                                    rm = HEOMSolver(H, BosonicBath(Qc, ckr, vkr, cki, vki, combine=False), max_depth=depth, options=dict(OPT, method=method)).run(rho0, tl)
                                    sys_states = [x.full() for x in rm.states]
                                    ados = list(rm.ado_states)
                                    worst = max(np.abs(a.extract(0).full() - b).max() for a, b in zip(ados, sys_states))
                                    rr = HEOMSolver(H, BosonicBath(Qc, ckr, vkr, cki, vki, combine=False), max_depth=depth, options=dict(OPT, method=method)).run(ados[2], tl[2:])
                                    dd = max(np.abs(a - x.full()).max() for a, x in zip(sys_states[2:], rr.states))
                        except core.CaseTimeout:
                            raise
                        except Exception as e:
                            v(f"ado-states-raises:{method}", f"{type(e).__name__}: {e}"[:200], cfg)
                            continue
                        rep.count("ado-states/" + method)
                        if worst > 1e-10:
                            v(f"ado-alignment:{method}", f"method {method}: the system block of a stored hierarchy state differs from the state stored at the same time by {worst:.2e} (depth {depth})", cfg)
                        if dd > 1e-6:
                            v(f"restart:{method}", f"method {method}: a run restarted from the hierarchy state stored at an intermediate time differs from the original by {dd:.2e} (depth {depth})", cfg)
                    mid = 2
                    ado_mid = base.ado_states[mid]
                    arr = np.array(ado_mid._ado_state)
                    n_ad = arr.shape[0]
                    forms = {"state-object": ado_mid, "c-array": arr.copy(), "f-array": np.asfortranarray(arr.copy()),
                             "view": np.ascontiguousarray(np.transpose(arr, (0, 2, 1))).transpose(0, 2, 1)}
                    for name, st in forms.items():
                        try:
                            out = solve(None if False else BosonicBath(Qc, ckr, vkr, cki, vki, combine=False), rho=st, times=tl[mid:])
                        except Exception as e:
                            v(f"restart-raises:{name}", f"restart from {name}: {type(e).__name__}: {e}"[:200], cfg)
                            continue
                        dd = max(np.abs(a - s.full()).max() for a, s in zip(ref[mid:], out.states))
                        rep.count("restart=" + name)
                        if dd > 1e-7:
                            v(f"restart:{name}", f"a run restarted from the stored ADOs ({name}) differs from the original by {dd:.2e} (depth {depth})", cfg)
            except core.CaseTimeout:
                raise
            except Exception as e:
                v("heom-raises", f"{type(e).__name__}: {e}"[:240], cfg)
    # ------------------------------------------------------------------ bath-constructor helpers and environment objects
    # A helper-built bath, the environment object's expansion handed over as (environment, Q), and a bath written out
    # from the exponents of that expansion describe one correlation function: same reduced dynamics; and the
    # correlation function an expansion reports is the sum over its exponents.
    try:
        from qutip.solver.heom import DrudeLorentzBath, DrudeLorentzPadeBath, UnderDampedBath, LorentzianBath, LorentzianPadeBath
        from qutip.core.environment import DrudeLorentzEnvironment, UnderDampedEnvironment, LorentzianEnvironment
        Hs = 0.5 * qutip.sigmaz() + 0.3 * qutip.sigmax()
        Qs = qutip.sigmaz() + 0.2 * qutip.sigmax()
        rho_s = qutip.ket2dm((qutip.basis(2, 0) + 0.5j * qutip.basis(2, 1)).unit())
        tls = np.linspace(0, 2.0, 5)

        def dyn(bath, depth=2, H_=Hs, rho_=rho_s):
            with warnings.catch_warnings():
                warnings.simplefilter("ignore")
                with core.time_limit(600):
                    return [x.full() for x in HEOMSolver(H_, bath, max_depth=depth, options=OPT).run(rho_, tls).states]

        def written_out(envx, Q):
            ckr, vkr, cki, vki = [], [], [], []
            for e in envx.exponents:
                nm = e.type.name
                if nm in ("R", "RI"):
                    ckr.append(e.ck)
                    vkr.append(e.vk)
                if nm == "I":
                    cki.append(e.ck)
                    vki.append(e.vk)
                if nm == "RI":
                    cki.append(e.ck2)
                    vki.append(e.vk)
            return BosonicBath(Q, ckr, vkr, cki, vki, combine=False)
        lam, gam, Tb, w0 = float(rng.choice([0.05, 0.1])), float(rng.choice([0.8, 1.5])), float(rng.choice([0.7, 1.5])), 1.2
        Nk = int(rng.choice([1, 2, 3]))
        families = [("drude-matsubara", lambda: DrudeLorentzBath(Qs, lam, gam, Tb, Nk), lambda: DrudeLorentzEnvironment(Tb, lam, gam).approx_by_matsubara(Nk)),
                    ("drude-pade", lambda: DrudeLorentzPadeBath(Qs, lam, gam, Tb, Nk), lambda: DrudeLorentzEnvironment(Tb, lam, gam).approx_by_pade(Nk)),
                    ("underdamped", lambda: UnderDampedBath(Qs, lam, gam, w0, Tb, Nk), lambda: UnderDampedEnvironment(Tb, lam, gam, w0).approx_by_matsubara(Nk))]
        for fam, mk_bath, mk_env in families:
            try:
                ref_d = dyn(mk_bath())
                envx = mk_env()
                routes = {"(environment, Q)": dyn((envx, Qs)), "written out from the exponents": dyn(written_out(envx, Qs)),
                          "helper bath with combine=False": None}
                for nm_, st_ in routes.items():
                    if st_ is None:
                        continue
                    rep.evaluations += 1
                    rep.count("helper-route=" + fam)
                    dd = max(np.abs(a - b).max() for a, b in zip(ref_d, st_))
                    if dd > 1e-7:
                        v(f"helpers:{fam}", f"{fam} (lam={lam}, gamma={gam}, T={Tb}, Nk={Nk}): the helper-built bath and the same expansion given as {nm_} give system states differing by {dd:.2e}", {"family": fam, "lam": lam, "gamma": gam, "T": Tb, "Nk": Nk})
                # the expansion's correlation function is the sum over its exponents
                tt = np.linspace(0, 3, 13)
                want = np.zeros_like(tt, dtype=complex)
                for e in envx.exponents:
                    nm = e.type.name
                    if nm == "R":
                        want += e.ck * np.exp(-e.vk * tt)
                    elif nm == "I":
                        want += 1j * e.ck * np.exp(-e.vk * tt)
                    elif nm == "RI":
                        want += (e.ck + 1j * e.ck2) * np.exp(-e.vk * tt)
                got = np.array(envx.correlation_function(tt))
                if np.abs(got - want).max() > 1e-10 * (1 + np.abs(want).max()):
                    v(f"helpers-cf:{fam}", f"{fam}: the correlation function reported by the expansion differs from the sum over its exponents by {np.abs(got - want).max():.2e}", {"family": fam})
                # more terms approach the exact correlation function
                exact_env = DrudeLorentzEnvironment(Tb, lam, gam) if fam.startswith("drude") else UnderDampedEnvironment(Tb, lam, gam, w0)
                tpos = np.linspace(0.3, 3, 10)
                errs = []
                for nk in (1, 4, 16):
                    ap = exact_env.approx_by_pade(nk) if fam == "drude-pade" else exact_env.approx_by_matsubara(nk)
                    errs.append(np.abs(np.array(ap.correlation_function(tpos)) - np.array(exact_env.correlation_function(tpos))).max())
                if not (errs[2] <= errs[0] + 1e-12 and errs[2] < 1e-3 * (1 + lam)):
                    v(f"helpers-convergence:{fam}", f"{fam}: expansions with 1, 4, 16 terms miss the exact correlation function by {errs}", {"family": fam})
            except core.CaseTimeout:
                raise
            except Exception as e:
                v(f"helpers-raises:{fam}", f"{fam}: {type(e).__name__}: {e}"[:200])
        # fermionic helpers: Lorentzian bath against the environment object's expansion, both parities of the state
        dq = qutip.destroy(2)
        Hf = 0.4 * dq.dag() * dq
        for fam, mk_bath, mk_env in (("lorentzian-matsubara", lambda: LorentzianBath(dq, 0.2, 1.5, 0.3, Tb, Nk), lambda: LorentzianEnvironment(Tb, 0.3, 0.2, 1.5).approx_by_matsubara(Nk)),
                                     ("lorentzian-pade", lambda: LorentzianPadeBath(dq, 0.2, 1.5, 0.3, Tb, Nk), lambda: LorentzianEnvironment(Tb, 0.3, 0.2, 1.5).approx_by_pade(Nk))):
            try:
                rf = qutip.ket2dm(qutip.basis(2, 1))
                a1 = dyn(mk_bath(), depth=2, H_=Hf, rho_=rf)
                a2 = dyn((mk_env(), dq), depth=2, H_=Hf, rho_=rf)
                rep.evaluations += 1
                rep.count("helper-route=" + fam)
                dd = max(np.abs(a - b).max() for a, b in zip(a1, a2))
                if dd > 1e-7:
                    v(f"helpers:{fam}", f"{fam}: the helper-built bath and the environment object's expansion give system states differing by {dd:.2e}", {"family": fam, "T": Tb, "Nk": Nk})
            except core.CaseTimeout:
                raise
            except Exception as e:
                v(f"helpers-raises:{fam}", f"{fam}: {type(e).__name__}: {e}"[:200])
    except ImportError as e:
        rep.notes["helpers_skipped"] = str(e)
    # ------------------------------------------------------------------ pure dephasing: closed form
    for w0, lam in ((1.0, 0.02), (0.5, 0.04)):
        ck, vk = [lam * (1.0 - 0.3j), 0.5 * lam], [1.0, 2.3]
        Hs = 0.5 * w0 * qutip.sigmaz()
        bath = BosonicBath(qutip.sigmaz(), [complex(np.real(ck[0])), ck[1]], vk, [complex(np.imag(ck[0]))], [vk[0]], combine=False)
        psi = (qutip.basis(2, 0) + qutip.basis(2, 1)).unit()
        tls = np.linspace(0, 3, 7)
        try:
            with warnings.catch_warnings():
                warnings.simplefilter("ignore")
                out = HEOMSolver(Hs, bath, max_depth=8, options=OPT).run(qutip.ket2dm(psi), tls)
        except Exception as e:
            v("dephasing-raises", f"{type(e).__name__}: {e}"[:200])
            continue
        C = [(complex(np.real(ck[0])) + 1j * complex(np.imag(ck[0])), vk[0]), (ck[1], vk[1])]

        def g(t):
            return sum(c * (np.exp(-nu * t) + nu * t - 1) / nu ** 2 for c, nu in C)
        rep.evaluations += 1
        rep.count("pure-dephasing")
        for t, s in zip(tls, out.states):
            want = 0.5 * np.exp(-1j * w0 * t) * np.exp(-4 * np.real(g(t)))
            got = s.full()[0, 1]
            if abs(got - want) > 1e-5:
                v("limit:pure-dephasing", f"pure dephasing: coherence {got} at t={t}, closed form {want}", {"w0": w0, "lam": lam})
                break
            if abs(s.full()[0, 0] - 0.5) > 1e-8:
                v("limit:pure-dephasing-populations", f"pure dephasing changes the populations: {s.full()[0, 0]}", {"w0": w0})
                break
    # ------------------------------------------------------------------ entry points and initial operators
    # Zero depth / vanishing coupling reproduce the system's own evolution also (a) through heomsolve with call-time args,
    # whatever form the time-dependent Hamiltonian is written in, and (b) for an initial operator that is not Hermitian
    # (a coherence, an odd-parity operator, A rho of a correlation function); pure dephasing of a single coherence.
    try:
        import scipy.linalg as _sl
        from qutip.solver.heom import heomsolve
        sz, sx, sy = qutip.sigmaz(), qutip.sigmax(), qutip.sigmay()
        tls = [0.0, 0.4, 1.1, 1.7]
        old_args, new_args = {"A": 0.2, "w": 1.0}, {"A": float(rng.choice([1.3, -0.9])), "w": float(rng.choice([2.0, 0.6]))}
        Hlist = [0.5 * sz, [0.4 * sx, "A*cos(w*t)"], [0.3 * sy, lambda t, A: A * t]]
        rho_t = qutip.ket2dm((qutip.basis(2, 0) + (0.3 + 0.4j) * qutip.basis(2, 1)).unit())
        mopt = {"progress_bar": "", "nsteps": 50000, "atol": 1e-11, "rtol": 1e-9}
        ref = [x.full() for x in qutip.mesolve(qutip.liouvillian(qutip.QobjEvo(Hlist, args=new_args)), rho_t, tls, options=mopt).states]
        forms = {"list": lambda: Hlist, "QobjEvo": lambda: qutip.QobjEvo(Hlist, args=old_args),
                 "liouvillian-QobjEvo": lambda: qutip.liouvillian(qutip.QobjEvo(Hlist, args=old_args))}
        for depth, ck in ((0, 0.07), (2, 0.0)):
            for fname, mkH in forms.items():
                bath = BosonicBath(sz + 0.1 * sx, [ck], [1.0], [], [], combine=False)
                routes = {"heomsolve(args=)": lambda: heomsolve(mkH(), bath, depth, rho_t, tls, args=new_args, options=OPT),
                          "HEOMSolver.run(args=)": lambda: HEOMSolver(qutip.QobjEvo(mkH(), args=old_args) if fname == "list" else mkH(), bath, depth, options=OPT).run(rho_t, tls, args=new_args)}
                for rname, fn in routes.items():
                    try:
                        with warnings.catch_warnings():
                            warnings.simplefilter("ignore")
                            with core.time_limit(300):
                                got = [x.full() for x in fn().states]
                    except core.CaseTimeout:
                        raise
                    except Exception as e:      # noqa
                        v(f"entry-raises:{rname}:{fname}", f"{rname} with H given as {fname}: {type(e).__name__}: {e}"[:240])
                        continue
                    rep.evaluations += 1
                    rep.count("entry-point-args")
                    dd = max(np.abs(a - b).max() for a, b in zip(ref, got))
                    if dd > 1e-6:
                        v(f"limit:args:{rname}:{fname}", f"{rname}, H(t) given as {fname} with arguments {old_args} and args={new_args} at the call, {'zero depth' if depth == 0 else 'vanishing coupling'}: "
                          f"states differ from mesolve with the new arguments by {dd:.2e}", {"form": fname, "route": rname, "depth": depth, "args": new_args})
        # (b) initial operators that are not Hermitian
        Hc = 0.5 * sz + 0.3 * sx + 0.2 * sy
        Lc = qutip.liouvillian(Hc, [0.3 * qutip.sigmam()]).full()
        Xs = {"coherence": qutip.Qobj(np.array([[0, 1.0], [0, 0]], dtype=complex)), "A-rho": qutip.sigmam() * rho_t, "complex": qutip.Qobj(np.array([[0.2, 1j], [0.5, 0.1j]]))}
        for xname, X0 in Xs.items():
            for depth, ck, odd in ((0, 0.07, False), (2, 0.0, False), (0, 0.07, True)):
                try:
                    with warnings.catch_warnings():
                        warnings.simplefilter("ignore")
                        with core.time_limit(300):
                            if odd:
                                fb = FermionicBath(qutip.sigmam(), [ck], [1.0], [ck], [1.0])
                                hs = HEOMSolver(qutip.liouvillian(Hc, [0.3 * qutip.sigmam()]), fb, depth, odd_parity=True, options=OPT)
                            else:
                                hs = HEOMSolver(qutip.liouvillian(Hc, [0.3 * qutip.sigmam()]), BosonicBath(sz, [ck], [1.0], [], [], combine=False), depth, options=OPT)
                            res = hs.run(X0, tls)
                except core.CaseTimeout:
                    raise
                except Exception as e:      # noqa
                    v(f"nonherm-raises:{xname}", f"initial operator {xname}: {type(e).__name__}: {e}"[:240])
                    continue
                rep.evaluations += 1
                rep.count("non-hermitian-initial-operator")
                for t, st, ado in zip(tls, res.states, res.ado_states):
                    want = (_sl.expm(Lc * t) @ X0.full().reshape(-1, order="F")).reshape(2, 2, order="F")
                    dd = np.abs(st.full() - want).max()
                    d2 = np.abs(ado.extract(0).full() - want).max()
                    if max(dd, d2) > 1e-6:
                        v(f"limit:non-hermitian:{xname}", f"initial operator {xname} (not Hermitian), {'zero depth' if depth == 0 else 'vanishing coupling'}{', odd parity' if odd else ''}: the "
                          f"{'state' if dd > 1e-6 else 'system block of the stored hierarchy'} at t={t} differs from exp(Lt) X0 by {max(dd, d2):.2e}", {"operator": xname, "depth": depth, "odd": odd})
                        break
    except core.CaseTimeout:
        raise
    except Exception as e:      # noqa
        v("entry-block-raises", f"{type(e).__name__}: {e}"[:240])
    for sig, (what, data) in viol.items():
        rep.violation(core.Violation("C19:" + sig, what, data))
    if (ndis or not proved) and not rep.violations:
        rep.violation(core.Violation("C19:unverified", "model/proof no longer matches the code and no failing input was found",
                                     {"broken": rep.broken}, failing_input_found=False))
    return rep.finish()


if __name__ == "__main__":
    core.main(run, PID)
