"""C15 — ensemble statistics equal the weighted statistics of the trajectories added.

Correspondence: random histories of new / add / add_deterministic / read / merge on real
MultiTrajResult objects (trajectories are real `Result` objects with dyadic data) against the Lean
model Qv.Model.C15, run per component (e_op, time).  The property's own oracle (weighted means
recomputed from the history with exact fractions; operand snapshots around merge) is evaluated on
the real objects and is the failing-input search.
"""
import os
for _v in ("OMP_NUM_THREADS", "OPENBLAS_NUM_THREADS", "MKL_NUM_THREADS"):
    os.environ.setdefault(_v, "1")
import copy
import itertools
import json
import math
import os
import sys
from fractions import Fraction as F

import numpy as np

sys.path.insert(0, os.path.dirname(os.path.abspath(__file__)))
import core

PID = "C15"
TOL = 1e-9


def fstr(x):
    x = F(x)
    return str(x.numerator) if x.denominator == 1 else f"{x.numerator}/{x.denominator}"


# ---------------------------------------------------------------------------
# history generation
def gen_history(rng, tier):
    T = int(rng.integers(1, 4))
    ops = []
    objs = {}          # k -> opts
    nxt = 0

    def new_obj():
        nonlocal nxt
        o = {"keep": bool(rng.integers(0, 2)), "ss": [None, True, False][int(rng.integers(0, 3))],
             "sf": bool(rng.integers(0, 2)), "eops": bool(rng.random() < 0.8)}
        k = nxt
        nxt += 1
        objs[k] = {"opts": o, "n": 0}
        ops.append({"op": "new", "k": k, **o})
        return k

    def traj():
        vals = [[fstr(F(int(rng.integers(0, 9)), 8)) for _ in range(T)] for _ in range(2)]
        return vals

    same = rng.random() < 0.6
    base = None
    nobj = int(rng.integers(1, 4))
    for _ in range(nobj):
        k = new_obj()
        if same and base is not None:
            ops[-1].update(base)
            objs[k]["opts"] = dict(base)
        elif base is None:
            base = dict(objs[k]["opts"])
    L = int(rng.integers(3, 14 if tier == "quick" else 30))
    seed = 100
    for _ in range(L):
        r = rng.random()
        k = int(rng.choice(list(objs)))
        if r < 0.45:
            seed += 1
            ops.append({"op": "add", "k": k, "seed": seed, "vals": traj(),
                        "w": fstr(F(int(rng.choice([1, 1, 1, 2, 3, 4, 8])), 4))})
            objs[k]["n"] += 1
        elif r < 0.55:
            ops.append({"op": "add_det", "k": k, "vals": traj(), "w": fstr(F(int(rng.choice([1, 2, 4])), 8))})
            objs[k]["n"] += 1
        elif r < 0.85:
            if objs[k]["n"] > 0:
                ops.append({"op": str(rng.choice(["avg", "avg", "states", "final", "info"])), "k": k})
        else:
            a, b = int(rng.choice(list(objs))), int(rng.choice(list(objs)))
            if a != b and len(objs) < 6 and objs[a]["n"] > 0 and objs[b]["n"] > 0:
                p = [None, None, F(1, 4), F(1, 2), F(3, 4), F(1, 8)][int(rng.integers(0, 6))]
                kk = nxt
                nxt += 1
                objs[kk] = {"opts": dict(objs[a]["opts"]), "n": objs[a]["n"] + objs[b]["n"]}
                ops.append({"op": "merge", "k": kk, "a": a, "b": b, "p": None if p is None else fstr(p)})
    for k in list(objs):
        if objs[k]["n"] > 0:
            for rd in ("avg", "states", "final", "info"):
                ops.append({"op": rd, "k": k})
    return {"T": T, "ops": ops}


def systematic_histories():
    """two operands with the same options, every option set x who was read before the merge x who holds a deterministic
    trajectory x merge weight: the lazily built sums are in every combination of built / not built when merge runs"""
    vals = lambda a: [[fstr(F(a + t, 8)) for t in range(2)], [fstr(F(8 - a - t, 8)) for t in range(2)]]      # noqa: E731
    for keep, ss, sf in itertools.product((False, True), (None, True, False), (False, True)):
        for askx, asky in itertools.product((False, True), repeat=2):
            for detx, dety in itertools.product((False, True), repeat=2):
                for pw in (None, F(1, 4)):
                    o = {"keep": keep, "ss": ss, "sf": sf, "eops": True}
                    ops = [{"op": "new", "k": 0, **o}, {"op": "new", "k": 1, **o}]
                    sd = 100
                    for k, det, ask, base in ((0, detx, askx, 1), (1, dety, asky, 3)):
                        for j in range(2):
                            sd += 1
                            ops.append({"op": "add", "k": k, "seed": sd, "vals": vals(base + j), "w": fstr(F(1 + j, 2))})
                        if det:
                            ops.append({"op": "add_det", "k": k, "vals": vals(base + 2), "w": fstr(F(1, 4))})
                        if ask:
                            ops += [{"op": "final", "k": k}, {"op": "states", "k": k}, {"op": "avg", "k": k}]
                    ops.append({"op": "merge", "k": 2, "a": 0, "b": 1, "p": None if pw is None else fstr(pw)})
                    ops.append({"op": "merge", "k": 3, "a": 1, "b": 0, "p": None if pw is None else fstr(pw)})
                    for k in (2, 3, 0, 1):
                        for rd in ("final", "states", "avg", "info"):
                            ops.append({"op": rd, "k": k})
                    yield {"T": 2, "ops": ops}


DICT_CASES = []      # (keys of the first operand, keys of the second, merge accepted) for Qv.C15.mergeable


def subclass_polling(rep, rng, tier):
    """McResult / NmmcResult (every trajectory enters with its weight times its time-dependent trace): averages polled
    while trajectories are still being added, after merges, and on a fresh object fed in another order, against the
    weighted mean straight from the definition"""
    import qutip
    from qutip.solver.result import Result
    from qutip.solver.multitrajresult import MultiTrajResult, McResult, NmmcResult
    viol = []
    TL = [0.0, 0.3, 1.0]          # unequal steps
    eops = [qutip.Qobj(np.diag([1., 0., 0.])), qutip.Qobj(np.diag([0., 1., 2.]))]

    def collapses_of(j):
        return [(round(0.05 + (0.17 * j) % 0.9, 6), j % 2), (0.8, 0)] if j % 3 else [(0.29, 1)]

    def photo_ref(sam):
        """weighted mean of the per-trajectory photocurrents: counts per output interval / its length"""
        n = max(len(sam), 1)
        out = np.zeros((2, len(TL) - 1))
        for j, w in sam:
            for t, which in collapses_of(j):
                k = int(np.searchsorted(TL, t, side="right") - 1)
                if 0 <= k < len(TL) - 1:
                    out[which, k] += (w / n) / (TL[k + 1] - TL[k])
        return out

    def trace_ref(det, sam):
        n = max(len(sam), 1)
        m1, m2 = np.zeros(len(TL)), np.zeros(len(TL))
        for j, w in det:
            tr_ = np.array(mk(None, j, trace_only=True))
            m1 += w * tr_
            m2 += w * tr_ ** 2
        for j, w in sam:
            tr_ = np.array(mk(None, j, trace_only=True))
            m1 += (w / n) * tr_
            m2 += (w / n) * tr_ ** 2
        return m1, m2

    def mk(opts, j, trace_only=False):
        if trace_only:
            return [[0.5, 1.0, 1.5, 2.0, 0.25][(j + i) % 5] for i in range(len(TL))]
        tr = Result(eops, opts)
        for i, t in enumerate(TL):
            d = np.array([((3 * j + i) % 8) / 8.0, ((5 * j + 2 * i + 1) % 8) / 8.0, ((j + i) % 4) / 4.0])
            tr.add(t, qutip.Qobj(np.diag(d)))
        tr.collapse = collapses_of(j)
        tr.trace = [[0.5, 1.0, 1.5, 2.0, 0.25][(j + i) % 5] for i in range(len(TL))]
        return tr

    def diag(q):
        return np.real(np.diag(q.full()))

    def ref(det, sam, with_trace):
        n = max(len(sam), 1)
        st = np.zeros((len(TL), 3))
        ex = np.zeros((2, len(TL)))
        for lst, div in ((det, 1), (sam, n)):
            for tr, w in lst:
                for i in range(len(TL)):
                    mu = tr.trace[i] if with_trace else 1.0
                    st[i] += (w / div) * mu * diag(tr.states[i]) if tr.states else 0
                    for e in range(2):
                        ex[e, i] += (w / div) * mu * np.real(tr.expect[e][i])
        return st, ex

    def ref_states_from(det, sam, with_trace, opts):
        # states may not be stored on the trajectories: rebuild the data from the generator formula instead
        return ref(det, sam, with_trace)

    for cls in (MultiTrajResult, McResult, NmmcResult):
        with_trace = cls is NmmcResult
        for keep, ss, sf in itertools.product((True, False), (True, False), (True, False)):
            opts = {"store_states": ss, "store_final_state": sf, "keep_runs_results": keep, "normalize_output": False, "progress_bar": "", "progress_kwargs": {}}
            full = dict(opts, store_states=True, store_final_state=True)
            stats = {"num_collapse": 2, "run time": 0.0}

            def fresh():
                return cls(eops, opts, stats=dict(stats))

            def check(obj, det, sam, label):
                # the reference uses fully stored copies of the same trajectories
                st, ex = ref([(mk(full, j), w) for j, w in det], [(mk(full, j), w) for j, w in sam], with_trace)
                rep.evaluations += 1
                rep.count("subclass-poll=" + cls.__name__)
                try:
                    got_e = np.real(np.array(obj.average_expect))
                    if got_e.shape != ex.shape or np.abs(got_e - ex).max() > 1e-9:
                        viol.append((f"poll-expect:{cls.__name__}", f"{label}: average_expect is not the weighted mean of the trajectories added so far (off by {np.abs(got_e - ex).max():.2e})"))
                    if ss:
                        got_s = np.array([diag(x) for x in obj.average_states])
                        if np.abs(got_s - st).max() > 1e-9:
                            viol.append((f"poll-states:{cls.__name__}", f"{label}: average_states is not the weighted mean of the trajectories added so far (off by {np.abs(got_s - st).max():.2e})"))
                    if ss or sf:
                        got_f = diag(obj.average_final_state)
                        if np.abs(got_f - st[-1]).max() > 1e-9:
                            viol.append((f"poll-final:{cls.__name__}", f"{label}: average_final_state is not the weighted mean of the trajectories added so far (off by {np.abs(got_f - st[-1]).max():.2e})"))
                    if with_trace:
                        n = max(len(sam), 1)
                        wt = np.zeros(len(TL))
                        for j, w in det:
                            wt += w * np.array(mk(full, j).trace)
                        for j, w in sam:
                            wt += (w / n) * np.array(mk(full, j).trace)
                        if np.abs(np.array(obj.average_trace) - wt).max() > 1e-9:
                            viol.append((f"poll-trace:{cls.__name__}", f"{label}: average_trace is not the weighted mean of the traces added so far"))
                        m1, m2 = trace_ref(det, sam)
                        if np.abs(np.array(obj.std_trace) - np.sqrt(np.abs(m2 - m1 ** 2))).max() > 1e-9:
                            viol.append((f"poll-std-trace:{cls.__name__}", f"{label}: std_trace is not the weighted spread of the traces added so far"))
                    if cls is McResult and sam:
                        ph = np.array(obj.photocurrent)
                        if ph.shape != (2, len(TL) - 1) or np.abs(ph - photo_ref(sam)).max() > 1e-9:
                            viol.append((f"poll-photocurrent:{cls.__name__}", f"{label}: photocurrent on the time list {TL} is not the weighted mean of the trajectories' photocurrents (counts per interval / its length): {ph.tolist()} against {photo_ref(sam).tolist()}"))
                        if keep:
                            rp = np.array(obj.runs_photocurrent)
                            wr = np.asarray(obj.runs_weights, dtype=float).ravel()
                            if rp.shape[0] == len(wr) and np.abs(np.tensordot(wr, rp, axes=(0, 0)) - ph).max() > 1e-9:
                                viol.append((f"poll-photocurrent-runs:{cls.__name__}", f"{label}: photocurrent is not the mean of runs_photocurrent with the reported weights"))
                except Exception as e:      # noqa
                    viol.append((f"poll-raises:{cls.__name__}", f"{label}: {type(e).__name__}: {e}"[:200]))

            lab = f"{cls.__name__}(keep={keep}, store_states={ss}, store_final_state={sf})"
            obj, det, sam = fresh(), [], []
            plan = [("det", 0, 0.25), ("add", 1, 0.5), ("add", 2, 1.5), ("poll",), ("add", 3, 1.0), ("add", 4, 0.75), ("poll",),
                    ("det", 6, 0.125), ("add", 5, 1.25), ("poll",), ("poll",)]
            if rng.random() < 0.5:
                plan = [plan[1], plan[3], plan[0]] + plan[4:]
            for step in plan:
                if step[0] == "det":
                    obj.add_deterministic(mk(opts, step[1]), step[2])
                    det.append((step[1], step[2]))
                elif step[0] == "add":
                    obj.add((step[1], mk(opts, step[1]), step[2]))
                    sam.append((step[1], step[2]))
                else:
                    check(obj, det, sam, f"{lab} polled after {len(det)} deterministic and {len(sam)} sampled trajectories")
            # a fresh object fed in another order, never polled in between
            other = fresh()
            for j, w in reversed(sam):
                other.add((j, mk(opts, j), w))
            for j, w in reversed(det):
                other.add_deterministic(mk(opts, j), w)
            check(other, det, sam, f"{lab} fed in reverse order")
            # merge of two polled / unpolled halves: p x first + (1 - p) x second
            for polled_a, polled_b in itertools.product((False, True), repeat=2):
                A, B = fresh(), fresh()
                da, sa_, db, sb = [(0, 0.25)], [(1, 0.5), (2, 1.5)], [], [(3, 1.0), (4, 0.75), (5, 1.25)]
                for j, w in da:
                    A.add_deterministic(mk(opts, j), w)
                for j, w in sa_:
                    A.add((j, mk(opts, j), w))
                for j, w in sb:
                    B.add((j, mk(opts, j), w))
                try:
                    if polled_a:
                        A.average_final_state if (ss or sf) else None
                        A.average_states if ss else None
                    if polled_b:
                        B.average_final_state if (ss or sf) else None
                        B.average_states if ss else None
                    for X, Y, dx, sx, dy, sy in ((A, B, da, sa_, db, sb), (B, A, db, sb, da, sa_)):
                        for pw in (None, 0.25):
                            M_ = X.merge(Y, pw)
                            pe = len(sx) / (len(sx) + len(sy)) if pw is None else pw
                            stx, exx = ref([(mk(full, j), w) for j, w in dx], [(mk(full, j), w) for j, w in sx], with_trace)
                            sty, exy = ref([(mk(full, j), w) for j, w in dy], [(mk(full, j), w) for j, w in sy], with_trace)
                            st, ex = pe * stx + (1 - pe) * sty, pe * exx + (1 - pe) * exy
                            rep.evaluations += 1
                            got_e = np.real(np.array(M_.average_expect))
                            what = f"{lab}: merge(p={pw}) of operands (first polled: {polled_a}, second polled: {polled_b})"
                            if np.abs(got_e - ex).max() > 1e-9:
                                viol.append((f"merge-expect:{cls.__name__}", f"{what}: average_expect is not the p : 1-p mixture (off by {np.abs(got_e - ex).max():.2e})"))
                            if ss and np.abs(np.array([diag(x) for x in M_.average_states]) - st).max() > 1e-9:
                                viol.append((f"merge-states:{cls.__name__}", f"{what}: average_states is not the p : 1-p mixture"))
                            if (ss or sf) and np.abs(diag(M_.average_final_state) - st[-1]).max() > 1e-9:
                                viol.append((f"merge-final:{cls.__name__}", f"{what}: average_final_state is not the p : 1-p mixture (off by {np.abs(diag(M_.average_final_state) - st[-1]).max():.2e})"))
                            if with_trace:
                                ax, a2x = trace_ref(dx, sx)
                                ay, a2y = trace_ref(dy, sy)
                                m1, m2 = pe * ax + (1 - pe) * ay, pe * a2x + (1 - pe) * a2y
                                if np.abs(np.array(M_.average_trace) - m1).max() > 1e-9:
                                    viol.append((f"merge-trace:{cls.__name__}", f"{what} with {len(sx)} and {len(sy)} sampled trajectories: average_trace is not the p : 1-p mixture (off by {np.abs(np.array(M_.average_trace) - m1).max():.2e})"))
                                elif np.abs(np.array(M_.std_trace) - np.sqrt(np.abs(m2 - m1 ** 2))).max() > 1e-9:
                                    viol.append((f"merge-std-trace:{cls.__name__}", f"{what}: std_trace is not the spread of the p : 1-p mixture"))
                            if cls is McResult:
                                php = pe * photo_ref(sx) + (1 - pe) * photo_ref(sy)
                                if np.abs(np.array(M_.photocurrent) - php).max() > 1e-9:
                                    viol.append((f"merge-photocurrent:{cls.__name__}", f"{what}: photocurrent is not the p : 1-p mixture"))
                except Exception as e:      # noqa
                    viol.append((f"merge-raises:{cls.__name__}", f"{lab}: merge raises {type(e).__name__}: {e}"[:200]))
    # values of other types: a callback returning Python integers, and one whose values are real on some trajectories and
    # complex on others, in both insertion orders - the averages are the weighted means, whatever came first
    for cls in (MultiTrajResult,):
        for order in ([0, 1, 2], [2, 1, 0], [1, 2, 0]):
            o = {"store_states": False, "store_final_state": False, "keep_runs_results": False}
            vals = {0: (3, 1.0), 1: (2, 0.25 + 0.5j), 2: (5, 2.0)}        # per trajectory: (integer value, real or complex value)
            wts = {0: 0.5, 1: 1.5, 2: 1.0}
            cur = [0]
            e_int = lambda t, st: vals[cur[0]][0]          # noqa: E731
            e_mix = lambda t, st: vals[cur[0]][1]          # noqa: E731
            try:
                r = cls([e_int, e_mix], o, stats={"run time": 0.0})
                for j in order:
                    cur[0] = j
                    tr = Result([e_int, e_mix], o)
                    for i, t in enumerate(TL):
                        tr.add(t, qutip.Qobj(np.diag([1.0, 0.0, 0.0])))
                    tr.collapse = []
                    r.add((j, tr, wts[j]))
                rep.evaluations += 1
                rep.count("value-types")
                want_int = sum(wts[j] * vals[j][0] for j in order) / 3
                want_mix = sum(wts[j] * vals[j][1] for j in order) / 3
                got_int, got_mix = np.asarray(r.average_expect[0]), np.asarray(r.average_expect[1])
                if np.abs(got_int - want_int).max() > 1e-12 or np.abs(got_mix - want_mix).max() > 1e-12:
                    viol.append(("value-types", f"{cls.__name__}: trajectories added in the order {order} with integer-valued and real-then-complex-valued e_ops: averages {got_int[0]}, {got_mix[0]} are not the weighted means {want_int}, {want_mix}"))
            except Exception as e:      # noqa
                viol.append(("value-types-raises", f"{cls.__name__}: e_ops with integer / real-or-complex values, insertion order {order}: {type(e).__name__}: {e}"[:240]))
    # expectation operators given as dictionaries: the merged result reports every key's own mixture, whatever the order in
    # which the two operands list their (equal) keys - or the merge is refused
    for cls in (MultiTrajResult, McResult):
        for keep in (False, True):
            o = {"store_states": False, "store_final_state": False, "keep_runs_results": keep}
            names = ["a", "b", "c"]
            ops = {"a": eops[0], "b": eops[1], "c": qutip.Qobj(np.diag([1., 1., 1.]))}
            for perm in ([0, 1, 2], [2, 0, 1], [1, 0, 2]):
                e1 = {k: ops[k] for k in names}
                e2 = {names[i]: ops[names[i]] for i in perm}
                try:
                    r1, r2 = cls(e1, o, stats={"num_collapse": 2, "run time": 0.0}), cls(e2, o, stats={"num_collapse": 2, "run time": 0.0})
                    trs = []
                    for r, eo, js in ((r1, e1, (1, 2)), (r2, e2, (3, 4, 5))):
                        for j in js:
                            tr = Result(eo, o)
                            for i, t in enumerate(TL):
                                d = np.array([((3 * j + i) % 8) / 8.0, ((5 * j + 2 * i + 1) % 8) / 8.0, ((j + i) % 4) / 4.0])
                                tr.add(t, qutip.Qobj(np.diag(d)))
                            tr.collapse = collapses_of(j)
                            tr.trace = [1.0] * len(TL)
                            r.add((j, tr, 1.0) if cls is MultiTrajResult else (j, tr))
                    rep.evaluations += 1
                    rep.count("merge-dict-e_ops")
                    try:
                        m = r1 + r2
                        DICT_CASES.append((list(e1), list(e2), True))
                    except ValueError:
                        DICT_CASES.append((list(e1), list(e2), False))
                        rep.count("merge-dict-e_ops-refused")
                        if perm == [0, 1, 2]:
                            viol.append((f"merge-dict-refused:{cls.__name__}", f"{cls.__name__}: merging two results whose e_ops are the same dictionary is refused"))
                        continue
                    for k in names:
                        want = (2 * np.asarray(r1.average_e_data[k]) + 3 * np.asarray(r2.average_e_data[k])) / 5
                        if np.abs(np.asarray(m.average_e_data[k]) - want).max() > 1e-9:
                            viol.append((f"merge-dict-e_ops:{cls.__name__}", f"{cls.__name__}(keep={keep}): operands list the keys of their e_ops as {list(e1)} and {list(e2)}; merged average_e_data[{k!r}] is not the mixture of the operands' average_e_data[{k!r}] (off by {np.abs(np.asarray(m.average_e_data[k]) - want).max():.3g})"))
                            break
                except Exception as e:      # noqa
                    viol.append((f"merge-dict-raises:{cls.__name__}", f"{cls.__name__}: merge with dictionary e_ops raises {type(e).__name__}: {e}"[:200]))
    return viol


def nontrivial(h):
    adds = sum(1 for o in h["ops"] if o["op"] in ("add", "add_det"))
    return adds >= 2


# ---------------------------------------------------------------------------
# model lines: one per component (c = matrix entry / e_op, i = time index)
def model_ops(h, c, i, objopts):
    out = []
    for o in h["ops"]:
        if o["op"] in ("add", "add_det"):
            opts = objopts[o["k"]]
            has_states = opts["ss"] is True or (opts["ss"] is None and not opts["eops"])
            has_final = opts["sf"] or has_states
            vals = o["vals"][c]
            d = {"op": o["op"], "k": o["k"], "x": vals[i], "s": vals if has_states else [],
                 "f": vals[-1] if has_final else None, "w": o["w"]}
            if o["op"] == "add":
                d["seed"] = o["seed"]
            out.append(d)
        else:
            out.append(o)
    return out


def traj_opts_table(h):
    """options governing the trajectories handed to each object (those of the object, or of `a` for merges)"""
    t = {}
    for o in h["ops"]:
        if o["op"] == "new":
            t[o["k"]] = {"keep": o["keep"], "ss": o["ss"], "sf": o["sf"], "eops": o["eops"]}
        elif o["op"] == "merge" and o["a"] in t and o["b"] in t:
            a, b = t[o["a"]], t[o["b"]]
            ss = a["ss"] and b["ss"]                      # Python `and` on None/True/False, as in merge
            sf = bool((a["sf"] or a["ss"]) and (b["sf"] or b["ss"]))
            t[o["k"]] = {"keep": a["keep"] and b["keep"], "ss": ss, "sf": sf, "eops": a["eops"]}
    return t


# ---------------------------------------------------------------------------
# real implementation
def run_real(h):
    import qutip
    from qutip.solver.result import Result
    from qutip.solver.multitrajresult import MultiTrajResult
    T = h["T"]
    times = [float(t) for t in range(T)]
    eops = [qutip.Qobj(np.diag([1., 0.])), qutip.Qobj(np.diag([0., 1.]))]
    tab = traj_opts_table(h)
    objs = {}
    outs = []
    for o in h["ops"]:
        if o["op"] in ("add", "add_det") and o["k"] not in tab:
            tab[o["k"]] = {"keep": False, "ss": None, "sf": False, "eops": True}
    snaps = []     # operand snapshots around merge (property: merge leaves operands unchanged)

    def mkopts(o):
        return {"keep_runs_results": o["keep"], "store_states": o["ss"], "store_final_state": o["sf"],
                "normalize_output": False, "progress_bar": "", "progress_kwargs": {}}

    def mktraj(o, vals):
        r = Result(eops if o["eops"] else [], {"store_states": o["ss"], "store_final_state": o["sf"],
                                               "normalize_output": False, "progress_bar": "", "progress_kwargs": {}})
        for i, t in enumerate(times):
            r.add(t, qutip.Qobj(np.diag([float(F(vals[0][i])), float(F(vals[1][i]))])))
        return r

    def observe(m):
        d = {"num": m.num_trajectories, "seeds": list(m.seeds), "rw": list(m.runs_weights),
             "dw": list(m.deterministic_weights), "stats": copy.deepcopy(m.stats),
             "options": dict(m.options), "ntraj": len(m.trajectories)}
        return d

    for o in h["ops"]:
        op = o["op"]
        if (op not in ("new", "merge") and o["k"] not in objs) or \
                (op == "merge" and (o["a"] not in objs or o["b"] not in objs)):
            outs.append("NoObject")
            continue
        try:
            if op == "new":
                objs[o["k"]] = MultiTrajResult(eops if o["eops"] else [], mkopts(o), stats={"run time": 1.0})
                outs.append("ok")
            elif op == "add":
                objs[o["k"]].add((o["seed"], mktraj(tab[o["k"]], o["vals"]), float(F(o["w"]))))
                outs.append("ok")
            elif op == "add_det":
                objs[o["k"]].add_deterministic(mktraj(tab[o["k"]], o["vals"]), float(F(o["w"])))
                outs.append("ok")
            elif op == "avg":
                m = objs[o["k"]]
                if not tab[o["k"]]["eops"]:
                    outs.append(None)
                else:
                    outs.append({"avg": [list(map(float, np.real(a))) for a in m.average_expect],
                                 "std": [list(map(float, np.real(a))) for a in m.std_expect]})
            elif op == "states":
                st = objs[o["k"]].average_states
                outs.append(None if st is None else [[float(np.real(s.full()[c, c])) for s in st] for c in (0, 1)])
            elif op == "final":
                fs = objs[o["k"]].average_final_state
                outs.append(None if fs is None else [float(np.real(fs.full()[c, c])) for c in (0, 1)])
            elif op == "info":
                m = objs[o["k"]]
                outs.append({"num": m.num_trajectories, "seeds": list(m.seeds),
                             "runs_weights": [float(w) for w in m.runs_weights],
                             "det_weights": [float(w) for w in m.deterministic_weights],
                             "runs_e": [np.real(np.array(v)).tolist() for v in m.runs_e_data.values()],
                             "has_runs": bool(m.runs_e_data), "ntraj_kept": len(m.trajectories)})
            elif op == "merge":
                a, b = objs[o["a"]], objs[o["b"]]
                before = (observe(a), observe(b))
                new = a.merge(b, None if o["p"] is None else float(F(o["p"])))
                after = (observe(a), observe(b))
                snaps.append({"op": o, "before": before, "after": after})
                objs[o["k"]] = new
                outs.append("ok")
        except KeyError as e:
            outs.append("NoObject" if e.args and e.args[0] in (o.get("k"), o.get("a"), o.get("b")) else "KeyError")
        except (TypeError, AttributeError):
            outs.append("TypeError")      # canonical: operation on a missing (None) operand
        except (ZeroDivisionError, ValueError) as e:
            outs.append(type(e).__name__)
    return outs, snaps


# ---------------------------------------------------------------------------
# the property's own oracle: exact weighted statistics recomputed from the history
class Ens:
    def __init__(self, opts):
        self.opts = opts
        self.rel = []   # (weight, vals)
        self.det = []
        self.seeds = []

    @property
    def n(self):
        return len(self.rel)


def oracle(h, outs, snaps):
    problems = []
    ens = {}
    T = h["T"]
    for o, out in zip(h["ops"], outs):
        op = o["op"]
        if out == "NoObject":
            continue
        if isinstance(out, str) and out != "ok":
            if op == "new" or out == "KeyError":
                problems.append(("crash:" + op, out))
            continue    # rejected operation: no state change expected
        if op == "new":
            ens[o["k"]] = Ens({k: o[k] for k in ("keep", "ss", "sf", "eops")})
        elif op == "add":
            ens[o["k"]].rel.append((F(o["w"]), o["vals"]))
            ens[o["k"]].seeds.append(o["seed"])
        elif op == "add_det":
            ens[o["k"]].det.append((F(o["w"]), o["vals"]))
        elif op == "merge":
            a, b = ens[o["a"]], ens[o["b"]]
            n = a.n + b.n
            pe = F(a.n, n)
            p = pe if o["p"] is None else F(o["p"])
            e = Ens(dict(a.opts))
            e.det = [(w * p, v) for w, v in a.det] + [(w * (1 - p), v) for w, v in b.det]
            e.rel = [(w * p / pe, v) for w, v in a.rel] + [(w * (1 - p) / (1 - pe), v) for w, v in b.rel]
            e.seeds = a.seeds + b.seeds
            ens[o["k"]] = e
        elif op in ("avg", "states", "final", "info"):
            e = ens[o["k"]]
            if out is None:
                continue
            n = e.n

            def mean(c, i, power=1):
                tot = sum(w * F(v[c][i]) ** power for w, v in e.det)
                if n:
                    tot += sum(w * F(v[c][i]) ** power for w, v in e.rel) / n
                return tot
            if op == "avg":
                for c in (0, 1):
                    for i in range(T):
                        want = float(mean(c, i))
                        if abs(out["avg"][c][i] - want) > TOL:
                            problems.append(("average", f"average_expect[{c}][{i}]={out['avg'][c][i]} but weighted mean of the added trajectories is {want}"))
                        v2 = float(mean(c, i, 2))
                        wstd = math.sqrt(abs(v2 - abs(want ** 2)))
                        if abs(out["std"][c][i] - wstd) > 1e-7:
                            problems.append(("std", f"std_expect[{c}][{i}]={out['std'][c][i]} expected {wstd}"))
            elif op == "states":
                for c in (0, 1):
                    if len(out[c]) == 0:
                        continue      # nothing reported (heterogeneous merge): same as None
                    if len(out[c]) != T:
                        problems.append(("states-length", f"{len(out[c])} averaged states for {T} times"))
                        continue
                    for i in range(T):
                        want = float(mean(c, i))
                        if abs(out[c][i] - want) > TOL:
                            problems.append(("average-states", f"average_states[{i}][{c},{c}]={out[c][i]} but weighted mean is {want}"))
            elif op == "final":
                for c in (0, 1):
                    want = float(mean(c, T - 1))
                    if abs(out[c] - want) > TOL:
                        problems.append(("average-final", f"average_final_state[{c},{c}]={out[c]} but weighted mean is {want}"))
            else:
                if out["num"] != n or out["seeds"] != e.seeds:
                    problems.append(("alignment", f"num/seeds {out['num']} {out['seeds']} expected {n} {e.seeds}"))
                rw = [float(w / n) for w, _ in e.rel] if n else []
                if len(out["runs_weights"]) != len(rw) or any(abs(x - y) > TOL for x, y in zip(out["runs_weights"], rw)):
                    problems.append(("weights", f"runs_weights {out['runs_weights']} expected {rw}"))
                dw = [float(w) for w, _ in e.det]
                if len(out["det_weights"]) != len(dw) or any(abs(x - y) > TOL for x, y in zip(out["det_weights"], dw)):
                    problems.append(("weights", f"deterministic_weights {out['det_weights']} expected {dw}"))
                if out["runs_e"] and out["runs_e"][0]:
                    # per-trajectory data must stay aligned with seeds / weights
                    for c in (0, 1):
                        if len(out["runs_e"][c]) != n:
                            problems.append(("alignment", f"{len(out['runs_e'][c])} per-run expectation rows for {n} trajectories"))
                        else:
                            for (w, v), row in zip(e.rel, out["runs_e"][c]):
                                if any(abs(float(F(x)) - y) > TOL for x, y in zip(v[c], row)):
                                    problems.append(("alignment", "runs_e_data row does not belong to its trajectory"))
                                    break
    for s in snaps:
        for which, (b, a) in zip(("self", "other"), zip(s["before"], s["after"])):
            for key in b:
                if b[key] != a[key]:
                    problems.append((f"merge-mutates-{which}-{key}", f"merge changed operand ({which}).{key}: {b[key]} -> {a[key]}"))
    return problems


def compare(h, outs, model_runs):
    """model_runs[(c,i)] = list of model outputs aligned with ops. Returns list of disagreement strings."""
    dis = []
    T = h["T"]

    def close(x, fr):
        return abs(x - float(F(fr))) <= TOL * (1 + abs(x))
    for idx, (o, out) in enumerate(zip(h["ops"], outs)):
        for (c, i), mo in model_runs.items():
            m = mo[idx]
            op = o["op"]
            if isinstance(m, dict) and "error" in m:
                dis.append(f"op {idx} {op}: model error {m}")
                continue
            STATUS = ("ok", "NoObject", "TypeError", "ZeroDivisionError", "ValueError", "AttributeError", "KeyError")
            if op in ("new", "add", "add_det", "merge") or out in STATUS or (isinstance(m, str) and m in STATUS):
                if m != out:
                    dis.append(f"op {idx} {op}: impl {out} model {m}")
            elif op == "avg":
                if (m is None) != (out is None):
                    dis.append(f"op {idx} avg: impl {out} model {m}")
                elif m is not None:
                    if not close(out["avg"][c][i], m[0]):
                        dis.append(f"op {idx} avg[{c}][{i}]: impl {out['avg'][c][i]} model {m[0]}")
                    v2, av = float(F(m[1])), float(F(m[0]))
                    if abs(out["std"][c][i] - math.sqrt(abs(v2 - abs(av ** 2)))) > 1e-7:
                        dis.append(f"op {idx} std[{c}][{i}]: impl {out['std'][c][i]} model var {v2 - av**2}")
            elif op == "states":
                if isinstance(out, str) or (m is None) != (out is None):
                    dis.append(f"op {idx} states: impl {out} model {m}")
                elif m is not None:
                    if len(m) != len(out[c]) or any(not close(x, y) for x, y in zip(out[c], m)):
                        dis.append(f"op {idx} states[{c}]: impl {out[c]} model {m}")
            elif op == "final":
                if isinstance(out, str) or isinstance(m, str) and m in ("TypeError",):
                    if out != m:
                        dis.append(f"op {idx} final: impl {out} model {m}")
                elif (m is None) != (out is None):
                    dis.append(f"op {idx} final: impl {out} model {m}")
                elif m is not None and not close(out[c], m):
                    dis.append(f"op {idx} final[{c}]: impl {out[c]} model {m}")
            elif op == "info":
                if isinstance(out, str):
                    dis.append(f"op {idx} info: impl {out}")
                    continue
                if out["num"] != m["num"] or out["seeds"] != m["seeds"] or out["has_runs"] != m["has_runs"] \
                        or out["ntraj_kept"] != m["ntraj_kept"]:
                    dis.append(f"op {idx} info: impl {out} model {m}")
                elif len(out["runs_weights"]) != len(m["runs_weights"]) or any(
                        not close(x, y) for x, y in zip(out["runs_weights"], m["runs_weights"])):
                    dis.append(f"op {idx} runs_weights: impl {out['runs_weights']} model {m['runs_weights']}")
                elif len(out["det_weights"]) != len(m["det_weights"]) or any(
                        not close(x, y) for x, y in zip(out["det_weights"], m["det_weights"])):
                    dis.append(f"op {idx} det_weights: impl {out['det_weights']} model {m['det_weights']}")
                elif out["has_runs"]:
                    col = [row[i] for row in out["runs_e"][c]]
                    if len(col) != len(m["runs_e"]) or any(not close(x, y) for x, y in zip(col, m["runs_e"])):
                        dis.append(f"op {idx} runs_e[{c}][:, {i}]: impl {col} model {m['runs_e']}")
    return dis


def shrink(h, still_bad):
    cur = h
    changed = True
    while changed:
        changed = False
        for j in range(len(cur["ops"]) - 1, -1, -1):
            o = cur["ops"][j]
            if o["op"] == "new":
                continue
            # do not drop an op that creates an object used later
            if o["op"] == "merge" and any(x.get("k") == o["k"] or x.get("a") == o["k"] or x.get("b") == o["k"]
                                          for x in cur["ops"][j + 1:]):
                continue
            cand = {"T": cur["T"], "ops": cur["ops"][:j] + cur["ops"][j + 1:]}
            try:
                if still_bad(cand):
                    cur, changed = cand, True
                    break
            except Exception:
                pass
    return cur


def corpus_cases():
    d = os.path.join(core.VERIF, "corpus", PID)
    out = []
    if os.path.isdir(d):
        for f in sorted(os.listdir(d)):
            if f.endswith(".json"):
                out.append(json.load(open(os.path.join(d, f)))["case"])
    return out


def run(tier, seed, replay):
    rep = core.Report(PID, tier, seed)
    rep.rule = ("random histories of new/add/add_deterministic/read(avg,states,final,info)/merge on up to 6 result "
                "objects with all option sets, dyadic data and weights; non-trivial = at least two trajectories added")
    rep.assumptions = ["trajectories handed to one result object are uniform (built with that object's options), as in the solvers",
                       "values compared to 1e-9 (division by a trajectory count that is not a power of two rounds)"]
    core.build_repo()
    proved = core.prove(rep, ["Qv.Model.C15", "Qv.Proofs.C15", "Qv.Props.C15"], "Qv.Props.C15")
    if tier == "thorough":
        core.leanchecker(rep, ["Qv.Props.C15"])
    rng = np.random.default_rng(seed)
    if replay:
        cases = [json.load(open(replay))["replay"]["case"]]
    else:
        sysh = list(systematic_histories())
        if tier == "quick":
            sysh = [sysh[int(i)] for i in rng.choice(len(sysh), size=96, replace=False)]
        cases = corpus_cases() + sysh + [gen_history(rng, tier) for _ in range(300 if tier == "quick" else 2500)]
    # run the implementation first; a history ends at the first add that raises (the object is then
    # only partly updated and nothing is claimed about it)
    reals = []
    for n, h in enumerate(cases):
        try:
            with core.time_limit(30):
                outs, snaps = run_real(h)
            for j, (o, out) in enumerate(zip(h["ops"], outs)):
                if o["op"] in ("add", "add_det") and out != "ok" and out != "NoObject":
                    h = {"T": h["T"], "ops": h["ops"][:j + 1]}
                    cases[n] = h
                    with core.time_limit(30):
                        outs, snaps = run_real(h)
                    rep.count("history-cut-at-raising-add")
                    break
            reals.append((outs, snaps))
        except Exception as e:
            rep.violation(core.Violation("C15:crash", repr(e), {"case": h}))
            reals.append(None)
    lines, index = [], []
    for n, h in enumerate(cases):
        tab = traj_opts_table(h)
        for o in h["ops"]:
            if o["op"] in ("add", "add_det") and o["k"] not in tab:
                tab[o["k"]] = {"keep": False, "ss": None, "sf": False, "eops": True}
        for c in (0, 1):
            for i in range(h["T"]):
                lines.append("C15.history " + json.dumps({"ops": model_ops(h, c, i, tab)}))
                index.append((n, c, i))
    mouts = core.run_driver(lines)
    per_case = {}
    for (n, c, i), mo in zip(index, mouts):
        per_case.setdefault(n, {})[(c, i)] = mo
    ndis = 0
    first_dis = None
    for n, h in enumerate(cases):
        if reals[n] is None:
            continue
        outs, snaps = reals[n]
        rep.case(h, nontrivial(h))
        for o in h["ops"]:
            rep.count("op=" + o["op"])
        probs = oracle(h, outs, snaps)
        for sig, what in probs:
            def bad(hh, sig=sig):
                oo, ss = run_real(hh)
                return any(s == sig for s, _ in oracle(hh, oo, ss))
            small = shrink(h, bad)
            oo, _ = run_real(small)
            rep.violation(core.Violation("C15:" + sig, what, {"case": small, "impl_outputs": oo}))
        mr = per_case[n]
        if any(isinstance(v, dict) and "error" in v for v in mr.values()):
            d = [f"model error {v}" for v in mr.values() if isinstance(v, dict)]
        else:
            d = compare(h, outs, mr)
        if d:
            ndis += 1
            if first_dis is None:
                first_dis = {"case": h, "disagreements": d[:5]}
    if not replay:
        seen_sig = set()
        for sig, what in subclass_polling(rep, rng, tier):
            if sig not in seen_sig:
                seen_sig.add(sig)
                rep.violation(core.Violation("C15:" + sig, what, {"what": what}))
    # which pairs of key orders `merge` accepts, against Qv.C15.mergeable
    if DICT_CASES:
        dm = core.run_driver(["C15.dict_merge " + json.dumps({"a": a_, "b": b_}) for a_, b_, _ in DICT_CASES])
        for (a_, b_, acc_), m_ in zip(DICT_CASES, dm):
            rep.count("dict-merge-correspondence")
            if not isinstance(m_, dict) or m_.get("mergeable") != acc_:
                ndis += 1
                if first_dis is None:
                    first_dis = {"op": "C15.dict_merge", "keys": [a_, b_], "model": m_, "impl_accepts": acc_}
        del DICT_CASES[:]
    rep.notes["correspondence_disagreements"] = ndis
    if ndis:
        rep.broken.append({"kind": "correspondence", "which": "C15.history", "count": ndis, "first": first_dis})
    if (ndis or not proved) and not rep.violations:
        rep.violation(core.Violation("C15:unverified", "model/proof no longer matches the code and no failing input was found",
                                     {"broken": rep.broken}, failing_input_found=False))
    return rep.finish()


if __name__ == "__main__":
    core.main(run, PID)
