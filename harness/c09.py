"""C09 — tensor-structure operations act on the subsystem indices they name.

Correspondence (exact): partial trace and subsystem permutation of integer matrices whose entries
identify their position, for random lists of subsystem dimensions (repeated, unequal, 1-dimensional
factors), all selections / orders, operators, kets, bras, operator-kets and superoperators, CSR /
Dense / Dia storage (incl. the very sparse CSR path) — real qutip vs the Lean model Qv.Model.C09.
The property's own oracle views the array as a multi-index tensor with NumPy (reshape / transpose /
einsum) for: tensor, ptrace, permute, tensor_swap, tensor_contract, expand_operator, reshuffle
(super-of-tensor <-> tensor-of-super), partial_transpose, subsystem_apply; dims labels included.
"""
import itertools
import json
import os
import sys

import numpy as np

sys.path.insert(0, os.path.dirname(os.path.abspath(__file__)))
import core

PID = "C09"
FMTS = ["csr", "dense", "dia"]


def ident_matrix(n, rng, sparse=0.0):
    """integer matrix with distinct entries (identify the position); optionally sparsified"""
    m = (np.arange(n * n).reshape(n, n) + 1).astype(complex)
    m = m + 1j * (np.arange(n * n).reshape(n, n)[::-1, ::-1] % 7)
    if sparse > 0:
        mask = rng.random((n, n)) < sparse
        m = m * mask
    return m


def gen_dims(rng, tier):
    k = int(rng.integers(1, 5))
    dims = [int(rng.choice([1, 2, 2, 3, 2, 3, 4])) for _ in range(k)]
    while int(np.prod(dims)) > (24 if tier == "quick" else 64):
        dims[int(rng.integers(0, k))] = 1
    return dims


def to_int_rows(a):
    return [[int(round(x.real)) for x in row] for row in a]


def np_ptrace(m, dims, sel):
    k = len(dims)
    t = m.reshape(dims + dims)
    sel = sorted(sel)
    rest = [i for i in range(k) if i not in sel]
    t = t.transpose(sel + rest + [k + i for i in sel] + [k + i for i in rest])
    ks = int(np.prod([dims[i] for i in sel])) if sel else 1
    ts = int(np.prod([dims[i] for i in rest])) if rest else 1
    t = t.reshape(ks, ts, ks, ts)
    return np.einsum("atbt->ab", t)


def np_permute(m, dims, order):
    k = len(dims)
    t = m.reshape(dims + dims)
    t = t.transpose(list(order) + [k + o for o in order])
    n = int(np.prod(dims))
    return t.reshape(n, n)


def collapse_ones(d):
    """labels modulo the documented auto_tidyup_dims rule: a space whose factors are all 1 is the scalar field"""
    return d


def check(rep, name, got, want, detail, sigs):
    if got is None:
        return
    if np.shape(got) != np.shape(want) or np.abs(np.asarray(got) - np.asarray(want)).max() > 1e-9:
        sigs.append((name, detail))


def run_case(case, rng):
    """runs the real operations for one dims list; returns (model_lines, expected_from_impl, oracle_violations)"""
    import qutip
    dims = case["dims"]
    k = len(dims)
    n = int(np.prod(dims))
    viol = []
    lines, impl = [], []
    M = ident_matrix(n, rng)
    Ms = ident_matrix(n, rng, sparse=case["sparse"])
    for fmt in FMTS:
        for mat, tag in ((M, "full"), (Ms, "sparse")):
            Q = qutip.Qobj(mat, dims=[dims, dims]).to(fmt)
            # --- ptrace
            for sel in case["sels"]:
                out = Q.ptrace(sel)
                want = np_ptrace(mat, dims, sel)
                if np.abs(out.full() - want).max() > 1e-9:
                    viol.append((f"ptrace:{fmt}", f"ptrace(dims={dims}, sel={sel}, {fmt}, {tag}) differs from the tensor-index partial trace"))
                wd = [dims[i] for i in sorted(sel)]
                if out.dims != [wd, wd] and not all(d == 1 for d in wd):
                    viol.append((f"ptrace-dims:{fmt}", f"ptrace(dims={dims}, sel={sel}) labelled {out.dims}, expected {[wd, wd]}"))
                if fmt == "csr" and tag == "full":
                    lines.append("C09.ptrace " + json.dumps({"dims": dims, "sel": sorted(sel), "m": to_int_rows(mat)}))
                    impl.append(("ptrace", to_int_rows(out.full())))
            # --- permute
            for order in case["orders"]:
                out = Q.permute(order)
                want = np_permute(mat, dims, order)
                if np.abs(out.full() - want).max() > 1e-9:
                    viol.append((f"permute:{fmt}", f"permute(dims={dims}, order={order}, {fmt}, {tag}) differs from the index permutation"))
                wd = [dims[o] for o in order]
                if out.dims != [wd, wd] and not all(d == 1 for d in wd):
                    viol.append((f"permute-dims:{fmt}", f"permute(dims={dims}, order={order}) labelled {out.dims}"))
                inv = list(np.argsort(order))
                back = out.permute([int(i) for i in inv])
                if np.abs(back.full() - mat).max() > 1e-9:
                    viol.append((f"permute-inverse:{fmt}", f"permute({order}) then permute({inv}) is not the identity for dims={dims} ({fmt}, {tag})"))
                if fmt == "csr":
                    lines.append("C09.permute " + json.dumps({"dims": dims, "order": list(order), "m": to_int_rows(mat.real)}))
                    impl.append(("permute", to_int_rows(out.full().real)))
            # kets / bras
            if tag == "full":
                v = (np.arange(n) + 1 + 1j * (np.arange(n) % 3)).reshape(n, 1)
                ket = qutip.Qobj(v, dims=[dims, [1] * k]).to(fmt)
                for order in case["orders"]:
                    want = v.reshape(dims).transpose(order).reshape(n, 1)
                    if np.abs(ket.permute(order).full() - want).max() > 1e-9:
                        viol.append((f"permute-ket:{fmt}", f"ket.permute({order}) wrong for dims={dims}"))
                    if np.abs(ket.dag().permute(order).full() - want.conj().T).max() > 1e-9:
                        viol.append((f"permute-bra:{fmt}", f"bra.permute({order}) wrong for dims={dims}"))
                for sel in case["sels"]:
                    want = np_ptrace(v @ v.conj().T, dims, sel)
                    if np.abs(ket.ptrace(sel).full() - want).max() > 1e-9:
                        viol.append((f"ptrace-ket:{fmt}", f"ket.ptrace({sel}) wrong for dims={dims}"))
    # --- product structure, tensor, expand, swap, contract, partial transpose, reshuffle (numpy oracle)
    facs = [qutip.Qobj(ident_matrix(d, rng) + d, dims=[[d], [d]]) for d in dims]
    T = qutip.tensor(*facs)
    want = facs[0].full()
    for f in facs[1:]:
        want = np.kron(want, f.full())
    if np.abs(T.full() - want).max() > 1e-9 or (T.dims != [dims, dims] and not all(d == 1 for d in dims)):
        viol.append(("tensor", f"tensor of factors with dims {dims} is not the Kronecker product / wrong labels {T.dims}"))
    for sel in case["sels"]:
        keep = sorted(sel)
        wantp = np.array([[1.0]])
        for i in keep:
            wantp = np.kron(wantp, facs[i].full())
        scale = np.prod([facs[i].tr() for i in range(k) if i not in keep]) if len(keep) < k else 1.0
        if np.abs(T.ptrace(sel).full() - scale * wantp).max() > 1e-7 * (1 + abs(scale)) * (1 + np.abs(wantp).max()):
            viol.append(("ptrace-product", f"ptrace of a product (dims={dims}, sel={sel}) is not kept factors x traces of the others"))
    if k >= 2:
        for targets in case["targets"]:
            sub = [dims[t] for t in targets]
            if all(d == 1 for d in sub):
                continue        # an all-1 operator space collapses to the scalar field (documented rule)
            op = qutip.Qobj(ident_matrix(int(np.prod(sub)), rng), dims=[sub, sub])
            E = qutip.expand_operator(op, dims, targets)
            rest = [i for i in range(k) if i not in targets]
            full = qutip.tensor(op, *[qutip.qeye(dims[i]) for i in rest]) if rest else op
            order_now = list(targets) + rest
            perm = [order_now.index(i) for i in range(k)]
            wantE = np_permute(full.full(), [dims[i] for i in order_now], perm)
            if np.abs(E.full() - wantE).max() > 1e-9:
                viol.append(("expand_operator", f"expand_operator(dims={dims}, targets={list(targets)}) is not the operator tensored with identities in those positions"))
        i, j = case["swap"]          # indices into the flattened dims (row indices, then column indices)
        Mq = qutip.Qobj(M, dims=[dims, dims])
        try:
            sw = qutip.tensor_swap(Mq, (i, j))
            flat = dims + dims
            t = np.swapaxes(M.reshape(flat), i, j)
            flat[i], flat[j] = flat[j], flat[i]
            wsw = t.reshape(int(np.prod(flat[:k])), int(np.prod(flat[k:])))
            if sw.full().shape != wsw.shape or np.abs(sw.full() - wsw).max() > 1e-9:
                viol.append(("tensor_swap", f"tensor_swap(dims={dims}, {(i, j)}) is not the swap of tensor indices {i} and {j}"))
            elif sw.dims != [flat[:k], flat[k:]] and not (all(d == 1 for d in flat[:k]) or all(d == 1 for d in flat[k:])):
                viol.append(("tensor_swap-dims", f"tensor_swap(dims={dims}, {(i, j)}) labelled {sw.dims}"))
        except Exception as e:
            viol.append(("tensor_swap-raises", f"tensor_swap(dims={dims}, {(i, j)}): {type(e).__name__}: {e}"[:200]))
        # several pairs in one call (overlapping ones included) act one after the other
        if k >= 2:
            for npairs in (2, 3):
                prs = [tuple(int(x) for x in rng.choice(2 * k, size=2, replace=False)) for _ in range(npairs)]
                try:
                    sw = qutip.tensor_swap(Mq, *prs)
                    flat = dims + dims
                    t = M.reshape(flat)
                    for (a_, b_) in prs:
                        t = np.swapaxes(t, a_, b_)
                        flat[a_], flat[b_] = flat[b_], flat[a_]
                    wsw = t.reshape(int(np.prod(flat[:k])), int(np.prod(flat[k:])))
                    if sw.full().shape != wsw.shape or np.abs(sw.full() - wsw).max() > 1e-9:
                        viol.append(("tensor_swap-pairs", f"tensor_swap(dims={dims}, {prs}) is not the succession of the swaps of tensor indices"))
                    elif sw.dims != [flat[:k], flat[k:]] and not (all(d == 1 for d in flat[:k]) or all(d == 1 for d in flat[k:])):
                        viol.append(("tensor_swap-pairs-dims", f"tensor_swap(dims={dims}, {prs}) labelled {sw.dims}"))
                    one = Mq
                    for pr in (prs if 1 not in dims else []):      # an intermediate all-1 side collapses to the scalar field (documented)
                        one = qutip.tensor_swap(one, pr)
                    if 1 in dims:
                        one = sw
                    if one.dims != sw.dims or np.abs(one.full() - sw.full()).max() > 1e-9:
                        viol.append(("tensor_swap-pairs-sequence", f"tensor_swap(dims={dims}, {prs}) differs from the same swaps applied in separate calls"))
                except Exception as e:
                    viol.append(("tensor_swap-raises", f"tensor_swap(dims={dims}, {prs}): {type(e).__name__}: {e}"[:200]))
            # product kets: swapping the factors' row indices reorders the factors
            if k >= 3:
                fs = [qutip.Qobj((np.arange(d) + 1 + 1j * (np.arange(d) % 2) + 10 * (i + 1)).reshape(-1, 1)) for i, d in enumerate(dims)]
                prod = qutip.tensor(*fs)
                got = qutip.tensor_swap(prod, (0, 1), (1, 2))
                order = list(range(k))
                order[0], order[1] = order[1], order[0]
                order[1], order[2] = order[2], order[1]
                want = qutip.tensor(*[fs[o] for o in order])
                if got.full().shape != want.full().shape or np.abs(got.full() - want.full()).max() > 1e-9:
                    viol.append(("tensor_swap-product-ket", f"tensor_swap(tensor of kets on {dims}, (0,1), (1,2)) is not the tensor of the reordered factors"))
        # subsystem_apply: a map given as an operator (conjugation) or as a supermatrix acts on every masked subsystem
        cand = [d for d in set(dims) if d > 1]
        if cand and n <= 36:
            d0 = int(rng.choice(sorted(cand)))
            pos = [i for i, d in enumerate(dims) if d == d0]
            chosen = [p_ for p_ in pos if rng.random() < 0.6] or [pos[0]]
            smask = [i in chosen for i in range(k)]
            U = rng.integers(-2, 3, size=(d0, d0)) + 1j * rng.integers(-2, 3, size=(d0, d0))
            As = [rng.integers(-2, 3, size=(d0, d0)) + 1j * rng.integers(-1, 2, size=(d0, d0)) for _ in range(2)]
            Bs = [rng.integers(-2, 3, size=(d0, d0)) + 1j * rng.integers(-1, 2, size=(d0, d0)) for _ in range(2)]
            cp_map = bool(rng.random() < 0.5)
            if cp_map:                      # completely positive: sum_j A_j rho A_j+
                Bs = [a_.conj().T for a_ in As]
            Sq = sum(qutip.sprepost(qutip.Qobj(a_), qutip.Qobj(b_)) for a_, b_ in zip(As, Bs))

            def lift(op, pos_):
                mats = [np.eye(dd) for dd in dims]
                mats[pos_] = op
                out_ = np.array([[1.0 + 0j]])
                for m_ in mats:
                    out_ = np.kron(out_, m_)
                return out_
            psi_np = (np.arange(n) + 1 + 1j * (np.arange(n) % 3)).reshape(-1, 1)
            for sname, st_np, stq in (("dm", M, Mq), ("ket", psi_np @ psi_np.conj().T, qutip.Qobj(psi_np, dims=[dims, [1] * k]))):
                wantU, wantS = st_np.astype(complex), st_np.astype(complex)
                for p_ in chosen:
                    Ul = lift(U, p_)
                    wantU = Ul @ wantU @ Ul.conj().T
                    wantS = sum(lift(a_, p_) @ wantS @ lift(b_, p_) for a_, b_ in zip(As, Bs))
                for cname, chan, want in (("oper", qutip.Qobj(U), wantU), ("super", Sq, wantS)):
                    for refflag in (False, True):
                        if refflag and cname == "super" and not cp_map:
                            continue            # the reference route goes through Kraus operators: completely positive maps only
                        try:
                            got = qutip.subsystem_apply(stq, chan, smask, reference=refflag)
                        except Exception as e:
                            viol.append(("subsystem_apply-raises", f"subsystem_apply({sname}, {cname}, dims={dims}, mask={smask}, reference={refflag}): {type(e).__name__}: {e}"[:200]))
                            continue
                        scale = 1 + np.abs(want).max()
                        if got.full().shape != want.shape or np.abs(got.full() - want).max() > 1e-9 * scale:
                            viol.append((f"subsystem_apply:{cname}", f"subsystem_apply({sname}, {cname} map, dims={dims}, mask={smask}, reference={refflag}) is not the map applied to the masked subsystems"))
                        elif got.dims != [dims, dims]:
                            viol.append(("subsystem_apply-dims", f"subsystem_apply(..., dims={dims}) labelled {got.dims}"))
        # tensor_contract of a pair (row index a, column index a): the partial trace over subsystem a
        a = case["swap"][0] % k
        tc = qutip.tensor_contract(Mq, (a, k + a))
        keep = [x for x in range(k) if x != a]
        wtc = np_ptrace(M, dims, keep) if keep else np.array([[np.trace(M)]])
        if tc.full().shape != wtc.shape or np.abs(tc.full() - wtc).max() > 1e-9:
            viol.append(("tensor_contract", f"tensor_contract(dims={dims}, ({a},{k + a})) is not the contraction of subsystem {a}"))
        # any two tensor indices of equal dimension, in either order (rows with rows, rows with columns, adjacent or not)
        flat_ = dims + dims
        Tn = M.reshape(flat_)
        cands = [(x, y) for x in range(2 * k) for y in range(2 * k) if x != y and flat_[x] == flat_[y]]
        for x, y in [cands[int(ii)] for ii in rng.choice(len(cands), size=min(6, len(cands)), replace=False)] if cands else []:
            rest_rows = [flat_[z] for z in range(k) if z not in (x, y)]
            rest_cols = [flat_[z] for z in range(k, 2 * k) if z not in (x, y)]
            want_t = np.trace(Tn, axis1=x, axis2=y).reshape(int(np.prod(rest_rows)) if rest_rows else 1, int(np.prod(rest_cols)) if rest_cols else 1)
            try:
                got_t = qutip.tensor_contract(Mq, (x, y)).full()
                if got_t.shape != want_t.shape or np.abs(got_t - want_t).max() > 1e-9:
                    viol.append(("tensor_contract-any-pair", f"tensor_contract(dims={dims}, ({x},{y})) is not the trace over tensor indices {x} and {y}"))
            except Exception as e:
                viol.append(("tensor_contract-raises", f"tensor_contract(dims={dims}, ({x},{y})): {type(e).__name__}: {e}"[:200]))
        # several contraction pairs in one call, in any order of the pairs and within a pair: the einsum over those pairs
        if k >= 3:
            for npairs in (2, 3):
                subs = [int(x) for x in rng.choice(k, size=min(npairs, k - 1), replace=False)]
                pairs_c = [(a_, k + a_) if rng.random() < 0.7 else (k + a_, a_) for a_ in subs]
                keep_c = [x for x in range(k) if x not in subs]
                want_c = np_ptrace(M, dims, keep_c) if keep_c else np.array([[np.trace(M)]])
                try:
                    got_c = qutip.tensor_contract(Mq, *pairs_c)
                    if got_c.full().shape != want_c.shape or np.abs(got_c.full() - want_c).max() > 1e-9:
                        viol.append(("tensor_contract-pairs", f"tensor_contract(dims={dims}, {pairs_c}) is not the contraction of subsystems {subs}"))
                except Exception as e:
                    viol.append(("tensor_contract-raises", f"tensor_contract(dims={dims}, {pairs_c}): {type(e).__name__}: {e}"[:200]))
        # pure states with complex amplitudes: ket, bra and projector have the same reduced state
        if k >= 2 and n <= 48:
            amp = (np.arange(n) + 1) * np.exp(1j * 0.37 * np.arange(n) ** 2)
            amp = amp / np.linalg.norm(amp)
            ketq = qutip.Qobj(amp.reshape(-1, 1), dims=[dims, [1] * k])
            for sel_ in case["sels"][:2]:
                want_r = np_ptrace(np.outer(amp, amp.conj()), dims, sel_)
                for nm_, obj_ in (("ket", ketq), ("bra", ketq.dag()), ("projector", ketq.proj())):
                    for fmt_ in ("dense", "csr"):
                        try:
                            got_r = obj_.to(fmt_).ptrace(sel_).full()
                        except Exception as e:
                            viol.append(("ptrace-pure-raises", f"ptrace of a {nm_} on {dims}, sel={sel_}: {type(e).__name__}: {e}"[:200]))
                            continue
                        if got_r.shape != want_r.shape or np.abs(got_r - want_r).max() > 1e-12:
                            viol.append((f"ptrace-pure:{nm_}", f"ptrace(sel={sel_}) of a {nm_} with complex amplitudes on {dims} ({fmt_}) is not the reduced density matrix of the state"))
        # operator-kets and operator-bras of a generic (non-Hermitian) operator: the partial trace of the vectorised operator is
        # the vectorised partial trace
        if k >= 2 and n <= 36:
            for sel_ in case["sels"][:2]:
                keep_ = sorted(set(int(x) for x in (sel_ if isinstance(sel_, (list, tuple)) else [sel_])))
                if not keep_ or int(np.prod([dims[i] for i in keep_])) == 1:
                    continue
                want_x = np_ptrace(M, dims, keep_)
                for nm_, mk_ in (("operator-ket", lambda q_: qutip.operator_to_vector(q_)), ("operator-bra", lambda q_: qutip.operator_to_vector(q_).dag())):
                    for fmt_ in ("dense", "csr"):
                        try:
                            got_v = mk_(Mq.to(fmt_)).ptrace(keep_)
                            back = qutip.vector_to_operator(got_v if got_v.type == "operator-ket" else got_v.dag()).full()
                        except Exception as e:
                            viol.append(("ptrace-vectorised-raises", f"ptrace of an {nm_} on {dims}, sel={keep_}: {type(e).__name__}: {e}"[:200]))
                            continue
                        if got_v.type != nm_:
                            viol.append((f"ptrace-vectorised-type:{nm_}", f"ptrace of an {nm_} returns a {got_v.type}"))
                        elif back.shape != want_x.shape or np.abs(back - want_x).max() > 1e-9:
                            viol.append((f"ptrace-vectorised:{nm_}", f"ptrace(sel={keep_}) of the {nm_} of a non-Hermitian operator on {dims} ({fmt_}) is not the {nm_} of its partial trace"))
        # partial transpose
        mask = case["mask"]
        pt = qutip.partial_transpose(Mq, mask)
        t = M.reshape(dims + dims)
        axes = list(range(2 * k))
        for a, mflag in enumerate(mask):
            if mflag:
                axes[a], axes[k + a] = axes[k + a], axes[a]
        wantpt = t.transpose(axes).reshape(n, n)
        if np.abs(pt.full() - wantpt).max() > 1e-9:
            viol.append(("partial_transpose", f"partial_transpose(dims={dims}, mask={mask}) is not the transposition of the masked indices"))
        for meth in ("sparse", "dense"):
            try:
                pt2 = qutip.partial_transpose(Mq.to("csr"), mask, method=meth)
                if np.abs(pt2.full() - wantpt).max() > 1e-9:
                    viol.append((f"partial_transpose:{meth}", f"partial_transpose method={meth} differs (dims={dims}, mask={mask})"))
            except Exception:
                pass
    # --- reshuffle: tensor of superoperators <-> superoperator of the tensor; the factors may act on
    #     composite spaces themselves (split the dims list in two groups)
    nontriv = [d for d in dims if d > 1]
    if len(nontriv) >= 2 and int(np.prod(nontriv)) <= 12:
        cut = int(rng.integers(1, len(nontriv)))
        groups = [nontriv[:cut], nontriv[cut:]]
        sups = []
        for g in groups:
            dg = int(np.prod(g))
            sups.append(qutip.sprepost(qutip.Qobj(ident_matrix(dg, rng), dims=[g, g]),
                                       qutip.Qobj(ident_matrix(dg, rng).T + 1, dims=[g, g])))
        St = qutip.tensor(*sups)
        R = qutip.reshuffle(St)
        d0, d1 = int(np.prod(groups[0])), int(np.prod(groups[1]))
        t = St.full().reshape([d0, d0, d1, d1, d0, d0, d1, d1])
        wantR = t.transpose([0, 2, 1, 3, 4, 6, 5, 7]).reshape((d0 * d1) ** 2, (d0 * d1) ** 2)
        if R.full().shape != wantR.shape or np.abs(R.full() - wantR).max() > 1e-9:
            viol.append(("reshuffle", f"reshuffle(tensor of superoperators on {groups}) is not the index regrouping"))
        allg = groups[0] + groups[1]
        if R.dims != [[allg, allg], [allg, allg]]:
            viol.append(("reshuffle-dims", f"reshuffle(tensor of superoperators on {groups}) labelled {R.dims}"))
        # going back regroups per *subsystem*: it is the inverse only when every factor is a single subsystem
        if all(len(g) == 1 for g in groups) and np.abs(qutip.reshuffle(R).full() - St.full()).max() > 1e-9:
            viol.append(("reshuffle-involution", f"reshuffle twice is not the identity (factors on {groups})"))
        ops = [qutip.Qobj(ident_matrix(int(np.prod(g)), rng) + 1j, dims=[g, g]) for g in groups]
        lhs = qutip.super_tensor(*[qutip.to_super(o) for o in ops])
        rhs = qutip.to_super(qutip.tensor(*ops))
        if np.abs(lhs.full() - rhs.full()).max() > 1e-8 * (1 + np.abs(rhs.full()).max()):
            viol.append(("super_tensor", f"super_tensor(to_super(A), to_super(B)) != to_super(tensor(A,B)) for factors on {groups}"))
        # operator-ket route: reshuffle(tensor of operator-kets) = operator-ket of the tensor
        kets = [qutip.operator_to_vector(o) for o in ops]
        lhsk = qutip.reshuffle(qutip.tensor(*kets))
        rhsk = qutip.operator_to_vector(qutip.tensor(*ops))
        if lhsk.full().shape != rhsk.full().shape or np.abs(lhsk.full() - rhsk.full()).max() > 1e-9:
            viol.append(("reshuffle-operket", f"reshuffle(tensor of operator-kets) != operator_to_vector(tensor) for factors on {groups}"))
    return lines, impl, viol


def gen_case(rng, tier):
    dims = gen_dims(rng, tier)
    while all(d == 1 for d in dims):      # an all-1 space collapses to the scalar field (documented): nothing to index
        dims = gen_dims(rng, tier)
    k = len(dims)
    sels = []
    for _ in range(3):
        m = int(rng.integers(1, k + 1))
        s = [int(x) for x in rng.choice(k, size=m, replace=False)]
        if rng.random() < 0.5:
            s = sorted(s)
        sels.append(s)
    orders = [[int(x) for x in rng.permutation(k)] for _ in range(2)]
    targets = []
    if k >= 2:
        for _ in range(2):
            m = int(rng.integers(1, k))
            targets.append([int(x) for x in rng.choice(k, size=m, replace=False)])
    swap = [int(x) for x in rng.choice(2 * k, size=2, replace=False)] if k >= 2 else [0, 1]
    mask = [int(rng.integers(0, 2)) for _ in range(k)]
    return {"dims": dims, "sels": sels, "orders": orders, "targets": targets, "swap": swap, "mask": mask,
            "sparse": float(rng.choice([0.05, 0.15, 0.3, 0.6]))}


def run(tier, seed, replay):
    rep = core.Report(PID, tier, seed)
    rep.rule = ("random lists of 1-4 subsystem dimensions in {1,2,3,4} (total <= 48/96), 3 selections, 2 orders, targets, "
                "swap pair and transposition mask each; operators (full and sparsified), kets, bras; csr/dense/dia; "
                "non-trivial = at least 2 subsystems of dimension > 1")
    rep.assumptions = ["integer-valued entries: all comparisons exact (1e-9)",
                       "dims labels are compared modulo the documented auto_tidyup_dims rule (all-1 spaces collapse)"]
    core.build_repo()
    proved = core.prove(rep, ["Qv.Model.C09", "Qv.Proofs.C09", "Qv.Props.C09"], "Qv.Props.C09")
    if tier == "thorough":
        core.leanchecker(rep, ["Qv.Props.C09"])
    rng = np.random.default_rng(seed)
    if replay:
        cases = [json.load(open(replay))["replay"]["case"]]
    else:
        cases = []
        d = os.path.join(core.VERIF, "corpus", PID)
        if os.path.isdir(d):
            for f in sorted(os.listdir(d)):
                cases.append(json.load(open(os.path.join(d, f)))["case"])
        cases += [gen_case(rng, tier) for _ in range(50 if tier == "quick" else 500)]
    all_lines, all_impl, owner = [], [], []
    for ci, c in enumerate(cases):
        try:
            with core.time_limit(120):
                lines, impl, viol = run_case(c, np.random.default_rng(seed + ci))
        except core.CaseTimeout:
            raise
        except Exception as e:
            rep.violation(core.Violation("C09:raises", f"{type(e).__name__}: {e}"[:300], {"case": c}))
            continue
        rep.case(c, sum(1 for d in c["dims"] if d > 1) >= 2)
        rep.count("k=%d" % len(c["dims"]))
        seen = set()
        for sig, what in viol:
            if sig in seen:
                continue
            seen.add(sig)
            rep.violation(core.Violation("C09:" + sig, what, {"case": c}))
        all_lines += lines
        all_impl += impl
        owner += [ci] * len(lines)
    # ------------------------------------------------------------------ tensor products of superoperators (the reshuffled form
    # [[[d1],[d1],[d2],[d2]]]*2): index swaps and contractions act on the subsystem index they name.  Index labels of
    # T = tensor(S1, S2): (to1, from1, to2, from2; primed for the input side); the matrix index of a column-stacked operator
    # is to + d * from, so the memory order of the rows is (from1, to1, from2, to2).
    try:
        import qutip

        def rand_super(dims_):
            n_ = int(np.prod(dims_)) ** 2
            return qutip.Qobj(rng.integers(-3, 4, (n_, n_)) + 1j * rng.integers(-3, 4, (n_, n_)), dims=[[list(dims_), list(dims_)]] * 2)
        for d1, d2 in ((2, 3), (3, 2), (2, 2)):
            S1, S2 = rand_super([d1]), rand_super([d2])
            T = qutip.tensor(S1, S2)
            rep.evaluations += 1
            rep.count("tensor-of-supers")
            if T.dims != [[[d1], [d1], [d2], [d2]]] * 2 or np.abs(qutip.reshuffle(qutip.super_tensor(S1, S2)).full() - T.full()).max() > 1e-12:
                rep.violation(core.Violation("C09:tensor-of-supers:form", f"tensor(S1, S2) of superoperators on {d1} and {d2} levels is not the reshuffled super_tensor / labelled {T.dims}", {"d": [d1, d2]}))
                continue
            sw_all = qutip.tensor_swap(T, (0, 2), (1, 3), (4, 6), (5, 7))
            if sw_all.dims != qutip.tensor(S2, S1).dims or np.abs(sw_all.full() - qutip.tensor(S2, S1).full()).max() > 1e-12:
                rep.violation(core.Violation("C09:tensor-of-supers:swap-factors", f"swapping every index of the first factor with the one of the second does not give tensor(S2, S1) (levels {d1}, {d2})", {"d": [d1, d2]}))
            sw = qutip.tensor_swap(T, (0, 2))
            full = T.full().reshape(d1, d1, d2, d2, -1)
            want = full.transpose(0, 3, 2, 1, 4).reshape(T.shape)
            if sw.dims != [[[d2], [d1], [d1], [d2]], [[d1], [d1], [d2], [d2]]] or np.abs(sw.full() - want).max() > 1e-12:
                rep.violation(core.Violation("C09:tensor-of-supers:swap-to1-to2", f"tensor_swap(T, (0, 2)) on a tensor of superoperators (levels {d1}, {d2}) does not exchange the row indices of the two output operators (labels {sw.dims})", {"d": [d1, d2]}))
            sw = qutip.tensor_swap(T, (0, 1))
            A1 = S1.full().reshape(d1, d1, d1, d1).transpose(1, 0, 3, 2)            # (to, from, to', from')
            S1s = qutip.Qobj(A1.transpose(1, 0, 2, 3).transpose(1, 0, 3, 2).reshape(d1 * d1, d1 * d1), dims=S1.dims)
            if np.abs(sw.full() - qutip.tensor(S1s, S2).full()).max() > 1e-12:
                rep.violation(core.Violation("C09:tensor-of-supers:swap-to1-from1", f"tensor_swap(T, (0, 1)) does not transpose the output operator of the first factor (levels {d1}, {d2})", {"d": [d1, d2]}))
        for d2 in (2, 3):
            S1, S2 = rand_super([2, 2]), rand_super([d2])
            T = qutip.tensor(S1, S2)
            M1 = S1.full().reshape(2, 2, 2, 2, 16)       # (from a, from b, to a, to b; input)
            rep.evaluations += 1
            rep.count("tensor-of-supers-contract")
            for pair, sub in (((0, 2), "xcxbi->cbi"), ((0, 3), "axxbi->abi")):
                con = qutip.tensor_contract(T, pair)
                want = np.kron(np.einsum(sub, M1).reshape(4, 16), S2.full())
                if con.dims != [[[2], [2], [d2], [d2]], [[2, 2], [2, 2], [d2], [d2]]] or np.abs(con.full() - want).max() > 1e-12:
                    rep.violation(core.Violation(f"C09:tensor-of-supers:contract{pair[0]}{pair[1]}", f"tensor_contract(T, {pair}) on tensor(S1 on two qubits, S2 on {d2} levels) does not contract the named indices of the first factor's output operator (labels {con.dims})", {"d2": d2, "pair": list(pair)}))
    except core.CaseTimeout:
        raise
    except Exception as e:
        rep.violation(core.Violation("C09:tensor-of-supers:raises", f"{type(e).__name__}: {e}"[:300], {}))
    # ------------------------------------------------------------------ Qobj.permute with a nested order on operator-kets: the data
    # moves with the labels (the index named in `order` is the one that is permuted), as tensor_swap does
    try:
        import qutip
        Xa = qutip.Qobj(np.arange(6.).reshape(2, 3) + 1j * np.arange(6.).reshape(2, 3)[::-1], dims=[[2], [3]])
        pa = qutip.operator_to_vector(Xa).permute([[1], [0]])
        Xb = qutip.Qobj(np.arange(36.).reshape(6, 6), dims=[[2, 3], [2, 3]])
        vb = qutip.operator_to_vector(Xb)
        pb = vb.permute([[1, 0], [2, 3]])
        want_b = Xb.full().reshape(2, 3, 2, 3).transpose(1, 0, 2, 3).reshape(6, 6)
        rep.evaluations += 1
        rep.count("permute-operator-ket")
        bad_ = []
        if pa.dims != [[[3], [2]], [1]] or not np.allclose(qutip.vector_to_operator(pa).full(), Xa.full().T):
            bad_.append("exchanging the two indices of the operator-ket of a 2x3 operator does not give the operator-ket of its transpose")
        if not np.allclose(qutip.vector_to_operator(pb).full(), want_b):
            bad_.append("permute([[1, 0], [2, 3]]) on the operator-ket of an operator on [2, 3] relabels the row subsystems but moves other data "
                        f"(tensor_swap(v, (0, 1)) {'agrees with the labels' if np.allclose(qutip.vector_to_operator(qutip.tensor_swap(vb, (0, 1))).full(), want_b) else 'disagrees too'})")
        if bad_:
            rep.violation(core.Violation("C09:permute-operator-ket", "Qobj.permute on operator-kets: " + "; ".join(bad_), {"cases": bad_}))
    except core.CaseTimeout:
        raise
    except Exception as e:
        rep.violation(core.Violation("C09:permute-operator-ket-raises", f"{type(e).__name__}: {e}"[:300], {}))
    model = core.run_driver(all_lines)
    ndis, first = 0, None
    for line, (kind, want), m, ci in zip(all_lines, all_impl, model, owner):
        rep.evaluations += 1
        if m.get("out") != want:
            ndis += 1
            if first is None:
                first = {"line": line[:600], "model": str(m)[:600], "impl": str(want)[:600]}
    rep.notes["correspondence_disagreements"] = ndis
    rep.notes["model_lines"] = len(all_lines)
    if ndis:
        rep.broken.append({"kind": "correspondence", "which": "C09.ptrace/permute", "count": ndis, "first": first})
    if (ndis or not proved) and not rep.violations:
        rep.violation(core.Violation("C09:unverified", "model/proof no longer matches the code and no failing input was found",
                                     {"broken": rep.broken}, failing_input_found=False))
    return rep.finish()


if __name__ == "__main__":
    core.main(run, PID)
