"""C13 — a trajectory is a function of the problem and its seed alone.

Correspondence (exact): `MultiTrajSolver._read_seed` for every seed form (None / int / SeedSequence /
list) and ensemble size against the Lean model Qv.Model.C13 (entropy and spawn_key of every seed
handed out, state of the solver's own sequence).
Relational oracle on the real mc / nm_mc / sse / sme solvers: the trajectory of a given seed is the
same run serially, on worker processes (completion order forced out of submission order), in a small
or large ensemble, at another position of the seed list, after other trajectories / other runs on the
same solver object (other time ranges), with and without kept per-trajectory results; the seeds a
result reports regenerate its trajectories, aligned by index.
"""
import json
import os
import sys
import tempfile
import time

import numpy as np

sys.path.insert(0, os.path.dirname(os.path.abspath(__file__)))
import core

PID = "C13"
TL = [0.0, 0.4, 0.8, 1.2, 1.6]


class SlowFirst:
    """e_ops callable that makes the trajectory which first grabs a lock file finish last (forces the
    completion order of worker processes out of submission order); value = <sigma_z>"""

    def __init__(self, path, delay):
        self.path, self.delay = path, delay

    def __call__(self, t, state):
        import qutip
        if t >= TL[-1] - 1e-9:
            try:
                fd = os.open(self.path, os.O_CREAT | os.O_EXCL | os.O_WRONLY)
                os.close(fd)
                time.sleep(self.delay)
            except FileExistsError:
                pass
        return float(np.real(qutip.expect(qutip.sigmaz(), state)))


class _SlowFor:
    """expectation callback (picklable) that takes its time for states close to one given state"""
    def __init__(self, ket, delay):
        self.v = ket.full().ravel()
        self.delay = delay

    def __call__(self, t, state):
        import time
        x = state.full()
        x = x.ravel() if x.shape[1] == 1 else None
        if x is not None and t == 0 and abs(np.vdot(self.v, x)) > 0.999:
            time.sleep(self.delay)
        return 0.0


COLLECT = []      # runs with a chosen arrival order, compared with the Lean model after the relational pass


def _perm_map(order):
    """a map function that runs the tasks one after the other and hands the results to the reducer in the given order"""
    def perm_map(task, values, task_args=None, task_kwargs=None, reduce_func=None, map_kw=None, progress_bar=None, progress_bar_kwargs={}):
        task_args = task_args or ()
        task_kwargs = task_kwargs or {}
        values = list(values)
        out = {}
        for i in order:
            if i < len(values):
                r = task(values[i], *task_args, **task_kwargs)
                if reduce_func is not None:
                    reduce_func(r)
                else:
                    out[i] = r
        return None if reduce_func is not None else [out[i] for i in sorted(out)]
    return perm_map


def _which_task(ref, sig, seeds, reported):
    """the task whose (alone-run) trajectory this is: the one of the reported seed when that fits (two seeds may give the
    same trajectory, e.g. without jumps), else any other that fits, else None"""
    keys = [seed_key(s) for s in seeds]
    first = keys.index(seed_key(reported)) if seed_key(reported) in keys else None
    cands = ([first] if first is not None else []) + [i for i in range(len(seeds)) if i != first]
    return next((i for i in cands if same(ref[i], sig) is None), None)


def narrow_pulse(t):
    return 12.0 if 0.50 <= t < 0.56 else 0.0


def nm_rate(t, amp):
    return 0.5 - amp * np.sin(2.5 * t)


def wiener_coupling(t, W):
    return 1.0 + 0.8 * np.tanh(3 * W(t)[0])


def h_mod(t, w):
    return 1.0 + (w - 1.0) * np.sin(t)


ARGS0 = {"w": 1.0, "amp": 0.9}


def problem():
    import qutip
    H = 0.6 * qutip.sigmax() + 0.3 * qutip.sigmaz()
    c = [0.9 * qutip.sigmam(), 0.4 * qutip.sigmaz()]
    psi0 = (qutip.basis(2, 0) + 0.4j * qutip.basis(2, 1)).unit()
    return H, c, psi0


def make_solver(name, **opt):
    import qutip
    H, c, psi0 = problem()
    # the Hamiltonian and the non-Markovian rate take arguments (at their default values the problem is the constant one)
    H = qutip.QobjEvo([0.6 * qutip.sigmax(), [0.3 * qutip.sigmaz(), h_mod]], args={"w": ARGS0["w"]})
    o = {"progress_bar": "", "keep_runs_results": True, "store_states": True}
    o.update(opt)
    if name == "mc":
        return qutip.MCSolver(H, c, options=o), psi0
    if name == "nm_mc":
        return qutip.NonMarkovianMCSolver(H, [(qutip.sigmam(), qutip.coefficient(nm_rate, args={"amp": ARGS0["amp"]}))], options=o), psi0
    o["dt"] = 0.02
    o["store_measurement"] = True
    if name == "smefb":
        # the strength of the monitored channel follows the Wiener process of the trajectory itself
        scf = [qutip.QobjEvo([c[0], wiener_coupling], args={"W": qutip.SMESolver.WienerFeedback()})]
        return qutip.SMESolver(H, sc_ops=scf, heterodyne=False, c_ops=c[1:], options=o), qutip.ket2dm(psi0)
    if name == "smefbH":
        # the feedback sits in the Hamiltonian
        Hfb = qutip.QobjEvo([0.6 * qutip.sigmax(), [0.3 * qutip.sigmaz(), h_mod], [0.2 * qutip.sigmay(), wiener_coupling]],
                            args={"w": ARGS0["w"], "W": qutip.SMESolver.WienerFeedback()})
        return qutip.SMESolver(Hfb, sc_ops=c[:1], heterodyne=False, c_ops=c[1:], options=o), qutip.ket2dm(psi0)
    if name == "sse":
        return qutip.SSESolver(H, sc_ops=c[:1], heterodyne=False, options=o), psi0
    return qutip.SMESolver(H, sc_ops=c[:1], heterodyne=False, c_ops=c[1:], options=o), qutip.ket2dm(psi0)


def traj_sig(res, j):
    """everything that identifies trajectory j of a kept-runs result"""
    out = {"states": np.array([s.full() for s in res.runs_states[j]])}
    if hasattr(res, "col_times"):
        out["col_times"] = np.array(res.col_times[j], dtype=float)
        out["col_which"] = np.array(res.col_which[j], dtype=float)
    if getattr(res, "runs_trace", None):
        out["trace"] = np.array(res.runs_trace[j], dtype=float)
    if hasattr(res, "dW") and res.dW is not None:
        out["dW"] = np.array(res.dW[j])
        out["measurement"] = np.array(res.measurement[j])
    for k, e in enumerate(res.runs_expect):
        out[f"expect{k}"] = np.array(e[j])
    return out


def same(a, b, tol=1e-10):
    for k in a:
        if k not in b:
            return f"{k} missing"
        x, y = np.asarray(a[k]), np.asarray(b[k])
        if x.shape != y.shape:
            return f"{k}: shape {x.shape} vs {y.shape}"
        if x.size and np.abs(x - y).max() > tol:
            return f"{k} differs by {np.abs(x - y).max():.2e}"
    return None


def seed_key(s):
    return (int(s.entropy) if not isinstance(s.entropy, (list, tuple)) else tuple(s.entropy), tuple(int(x) for x in s.spawn_key))


def relational(rep, tier, rng):
    import qutip
    from numpy.random import SeedSequence
    viol = []
    eops = [qutip.sigmaz(), qutip.sigmax()]
    names = ["mc", "nm_mc", "sse", "sme", "mc:vern7", "nm_mc:vern9", "smefb:rouchon", "smefb:platen", "smefbH:platen",
             # schemes of order 1.5 draw a second family of random numbers per step
             "sme:taylor1.5", "sse:explicit1.5"]

    def make_solver2(nm, **kw):
        # "solver:method" runs the solver with that integration method (explicit Runge-Kutta integrators keep step-size state)
        if ":" in nm:
            kw = dict(kw, method=nm.split(":")[1])
        return make_solver(nm.split(":")[0], **kw)
    for name in names:
        base = 1000 + names.index(name)
        # reference: each seed on a fresh solver, alone
        seeds = SeedSequence(base).spawn(5)
        ref = {}
        for i, sd in enumerate(seeds):
            sol, st = make_solver2(name)
            r = sol.run(st, TL, ntraj=1, e_ops=eops, seeds=[sd])
            ref[i] = traj_sig(r, 0)
        rep.evaluations += 5

        def compare(tag, res, order):
            for pos, i in enumerate(order):
                d = same(ref[i], traj_sig(res, pos))
                rep.evaluations += 1
                rep.count("relational-" + tag)
                if d:
                    viol.append((f"{tag}:{name}", f"{name}: the trajectory of seed {i} {tag} differs from the same seed run alone ({d})"))
                    return
        # (1) one ensemble, serial, in list order and permuted positions
        sol, st = make_solver2(name)
        compare("in-a-larger-ensemble", sol.run(st, TL, ntraj=5, e_ops=eops, seeds=list(seeds)), [0, 1, 2, 3, 4])
        perm = [3, 0, 4, 1, 2]
        sol, st = make_solver2(name)
        compare("at-another-list-position", sol.run(st, TL, ntraj=5, e_ops=eops, seeds=[seeds[i] for i in perm]), perm)
        # (2) same solver object after other runs: other seeds, another time range, then these seeds
        sol, st = make_solver2(name)
        sol.run(st, TL, ntraj=3, e_ops=eops, seeds=77)
        sol.run(st, TL[2:], ntraj=2, e_ops=eops, seeds=78)
        compare("after-other-runs-on-the-same-solver", sol.run(st, TL, ntraj=3, e_ops=eops, seeds=list(seeds[:3])), [0, 1, 2])
        # (2c) after runs with other arguments over the same time list, the step interface and (stochastic solvers) a
        #      replay from a measurement record, the original arguments give the original trajectories again
        sol, st = make_solver2(name)
        other = {"w": 1.7, "amp": 0.2} if name.startswith("nm_mc") else {"w": 1.7}
        back = dict(ARGS0) if name.startswith("nm_mc") else {"w": ARGS0["w"]}
        try:
            sol.start(st, float(TL[0]), seed=5)
            sol.step(float(TL[1]))
            sol.run(st, TL, ntraj=2, e_ops=eops, seeds=79, args=other)
            if name.split(":")[0] in ("sse", "sme", "smefb", "smefbH"):
                r0 = sol.run(st, TL, ntraj=1, e_ops=eops, seeds=81, args=back)
                try:
                    sol.run_from_experiment(st, TL, np.array(r0.measurement[0]), e_ops=eops, measurement=True)
                except (ValueError, NotImplementedError, TypeError):
                    pass
            compare("after-other-arguments-and-interfaces", sol.run(st, TL, ntraj=3, e_ops=eops, seeds=list(seeds[:3]), args=back), [0, 1, 2])
        except core.CaseTimeout:
            raise
        except Exception as e:      # noqa
            viol.append((f"reuse-raises:{name}", f"{name}: reuse with other arguments raises {type(e).__name__}: {e}"[:200]))
        # (2b) a run over a later time range after a run over the whole range, vs a fresh solver
        solA, st = make_solver2(name)
        solA.run(st, TL, ntraj=2, e_ops=eops, seeds=list(seeds[:2]))
        rA = solA.run(st, TL[2:], ntraj=2, e_ops=eops, seeds=list(seeds[:2]))
        solB, _ = make_solver2(name)
        rB = solB.run(st, TL[2:], ntraj=2, e_ops=eops, seeds=list(seeds[:2]))
        for j in range(2):
            d = same(traj_sig(rB, j), traj_sig(rA, j))
            rep.evaluations += 1
            if d:
                viol.append((f"later-range-after-earlier-run:{name}", f"{name}: a run over tlist[2:] on a solver that had run over the whole tlist differs from a fresh solver ({d})"))
                break
        # (3) int seed vs SeedSequence vs list of its children
        sol, st = make_solver2(name)
        r_int = sol.run(st, TL, ntraj=3, e_ops=eops, seeds=base)
        compare("from-an-integer-seed", r_int, [0, 1, 2])
        # (4) reported seeds regenerate the trajectories, aligned by index
        sol2, st = make_solver2(name)
        r_back = sol2.run(st, TL, ntraj=3, e_ops=eops, seeds=list(r_int.seeds))
        for j in range(3):
            d = same(traj_sig(r_int, j), traj_sig(r_back, j))
            if d:
                viol.append((f"reported-seeds:{name}", f"{name}: seeds reported by a result do not regenerate trajectory {j} ({d})"))
                break
        # (5) keep_runs_results off: averages equal those of the kept runs (summation rounding only)
        sol3, st = make_solver2(name, keep_runs_results=False)
        r_avg = sol3.run(st, TL, ntraj=5, e_ops=eops, seeds=list(seeds))
        sol4, st = make_solver2(name)
        r_keep = sol4.run(st, TL, ntraj=5, e_ops=eops, seeds=list(seeds))
        for k in range(2):
            if np.abs(np.asarray(r_avg.average_expect[k]) - np.asarray(r_keep.average_expect[k])).max() > 1e-10:
                viol.append((f"keep-runs:{name}", f"{name}: ensemble averages differ with / without keep_runs_results"))
                break
        # (5b) final state only (states not stored): with and without kept trajectories, and again from the reported seeds
        try:
            fo = {"store_states": False, "store_final_state": True}
            sk, st = make_solver2(name, keep_runs_results=True, **fo)
            rk = sk.run(st, TL, ntraj=5, e_ops=eops, seeds=list(seeds))
            sn, st = make_solver2(name, keep_runs_results=False, **fo)
            rn = sn.run(st, TL, ntraj=5, e_ops=eops, seeds=list(seeds))
            sr, st = make_solver2(name, keep_runs_results=True, **fo)
            rr = sr.run(st, TL, ntraj=5, e_ops=eops, seeds=list(rk.seeds))
            sfull, st = make_solver2(name, keep_runs_results=True, store_states=True)
            rfull = sfull.run(st, TL, ntraj=5, e_ops=eops, seeds=list(seeds))
            fk, fn, fr = rk.average_final_state.full(), rn.average_final_state.full(), rr.average_final_state.full()
            fl = rfull.average_states[-1].full()
            rep.evaluations += 1
            rep.count("relational-final-state")
            for tag, other in (("without kept trajectories", fn), ("re-run from the reported seeds", fr), ("the last averaged state of a run that stores states", fl)):
                if np.abs(fk - other).max() > 1e-9:
                    viol.append((f"final-state:{name}", f"{name}: the averaged final state with kept trajectories differs from {tag} by {np.abs(fk - other).max():.2e}"))
                    break
        except core.CaseTimeout:
            raise
        except Exception as e:      # noqa
            viol.append((f"final-state-raises:{name}", f"{name}: {type(e).__name__}: {e}"[:200]))
        # (6) worker processes, completion order forced out of submission order
        for workers in ((2,) if tier == "quick" else (2, 3)):
            lock = tempfile.mktemp(prefix="qv_c13_")
            slow = SlowFirst(lock, 1.0)
            sol5, st = make_solver2(name, map="parallel", num_cpus=workers)
            try:
                with core.time_limit(300):
                    rp = sol5.run(st, TL, ntraj=4, e_ops=[qutip.sigmaz(), qutip.sigmax(), slow], seeds=list(seeds[:4]))
            except core.CaseTimeout:
                raise
            except Exception as e:
                viol.append((f"parallel-raises:{name}", f"{name} parallel: {type(e).__name__}: {e}"[:200]))
                continue
            finally:
                if os.path.exists(lock):
                    os.unlink(lock)
            got_order = []
            keys = [seed_key(s) for s in seeds[:4]]
            for s in rp.seeds:
                got_order.append(keys.index(seed_key(s)) if seed_key(s) in keys else None)
            rep.notes.setdefault("parallel_completion_orders", []).append({"solver": name, "workers": workers, "order": got_order})
            if sorted(x for x in got_order if x is not None) != [0, 1, 2, 3]:
                viol.append((f"parallel-seeds:{name}", f"{name}: seeds reported by the parallel run {got_order} are not the seeds handed in"))
                continue
            for pos, i in enumerate(got_order):
                sig = traj_sig(rp, pos)
                sig.pop("expect2", None)
                d = same(ref[i], sig)
                rep.evaluations += 1
                rep.count("relational-parallel")
                if d:
                    viol.append((f"parallel:{name}", f"{name}: trajectory reported under seed {i} by the {workers}-worker run (completion order {got_order}) is not that seed's trajectory ({d})"))
                    break
        # (6b) correspondence with the Lean model of what the reducer keeps (Qv.C13.collect): a map function that hands
        #      the results over in a chosen order; the seeds reported and the trajectory stored at each position must be
        #      the model's
        import qutip.solver.parallel as _par
        orders = [[2, 0, 3, 1], [3, 2, 1, 0], [1, 0, 2]] if tier == "quick" else [[2, 0, 3, 1], [3, 2, 1, 0], [1, 0, 2], [0, 3, 1, 2], [4, 0, 3, 1, 2]]
        for order in orders:
            ntr = len(order)
            _par._maps["qv_perm"] = _perm_map(order)
            try:
                solp, st = make_solver2(name, map="qv_perm")
                with core.time_limit(300):
                    rq = solp.run(st, TL, ntraj=ntr, e_ops=eops, seeds=list(seeds[:ntr]))
            except core.CaseTimeout:
                raise
            except Exception as e:      # noqa
                viol.append((f"ordered-map-raises:{name}", f"{name} with results arriving in the order {order}: {type(e).__name__}: {e}"[:200]))
                continue
            finally:
                _par._maps.pop("qv_perm", None)
            COLLECT.append({"name": name, "order": order,
                            "line": "C13.collect " + json.dumps({"seeds": [{"entropy": int(sd.entropy), "key": [int(x) for x in sd.spawn_key]} for sd in seeds[:ntr]], "order": order}),
                            "seeds": [[int(x) for x in sd.spawn_key] for sd in rq.seeds],
                            "runs": [_which_task(ref, traj_sig(rq, pos), seeds[:ntr], rq.seeds[pos]) for pos in range(len(rq.seeds))],
                            "keys": [[int(x) for x in sd.spawn_key] for sd in seeds[:ntr]]})
    # (6c) mixed initial ensemble with results arriving out of submission order: the seeds a result reports, handed back,
    #      regenerate each trajectory (same member state, same record)
    try:
        import qutip.solver.parallel as _par2
        Nm = 4
        am = qutip.destroy(Nm)
        ics_ = [(qutip.basis(Nm, 3), 0.5), (qutip.basis(Nm, 1), 0.5)]
        sds_ = SeedSequence(4321).spawn(4)
        for improved_ in (False, True):
            _par2._maps["qv_perm"] = _perm_map([2, 0, 3, 1])
            try:
                with core.time_limit(300):
                    o_ = {"progress_bar": "", "keep_runs_results": True, "map": "qv_perm", "improved_sampling": improved_}
                    r1_ = qutip.MCSolver(am.dag() * am, [np.sqrt(0.8) * am], options=o_).run(ics_, np.linspace(0, 2, 5), ntraj=[2, 2], e_ops=[am.dag() * am], seeds=list(sds_))
                    r2_ = qutip.MCSolver(am.dag() * am, [np.sqrt(0.8) * am], options=dict(o_, map="serial")).run(ics_, np.linspace(0, 2, 5), ntraj=[2, 2], e_ops=[am.dag() * am], seeds=list(r1_.seeds))
            finally:
                _par2._maps.pop("qv_perm", None)
            rep.evaluations += 1
            rep.count("mixed-ensemble-reported-seeds")
            n1_ = {seed_key(s_): float(np.real(tr_.expect[0][0])) for s_, tr_ in zip(r1_.seeds, r1_.trajectories)}
            n2_ = {seed_key(s_): float(np.real(tr_.expect[0][0])) for s_, tr_ in zip(r2_.seeds, r2_.trajectories)}
            if n1_ != n2_:
                viol.append(("mixed-ensemble-reported-seeds", f"mcsolve on a mixed initial ensemble (improved_sampling={improved_}) whose results arrive in the order [2, 0, 3, 1]: handing result.seeds back starts "
                             f"the trajectories of {sum(1 for k_ in n1_ if n1_[k_] != n2_.get(k_))} of 4 seeds from another member state (initial <n> per seed {list(n1_.values())} in the run, {list(n2_.values())} when regenerated)"))
    except core.CaseTimeout:
        raise
    except Exception as e:      # noqa
        viol.append(("mixed-ensemble-reported-seeds-raises", f"{type(e).__name__}: {e}"[:200]))
    # (7) mixed initial ensemble: a trajectory is a function of its seed and of the member state it starts from
    try:
        H, c, psi0 = problem()
        a_ = psi0
        b_ = (qutip.basis(2, 1) - a_.overlap(qutip.basis(2, 1)) * a_).unit()
        rho0 = 0.375 * a_.proj() + 0.625 * b_.proj()
        seeds = SeedSequence(4242).spawn(9)
        o = {"progress_bar": "", "keep_runs_results": True, "store_states": True}

        def table(res):
            out = {}
            for j in range(len(res.seeds)):
                s0 = res.runs_states[j][0]
                member = int(abs(s0.overlap(b_)) > abs(s0.overlap(a_)))
                out[(seed_key(res.seeds[j]), member)] = traj_sig(res, j)
            return out
        r6 = table(qutip.MCSolver(H, c, options=o).run(rho0, TL, ntraj=6, e_ops=eops, seeds=list(seeds[:6])))
        r9 = table(qutip.MCSolver(H, c, options=o).run(rho0, TL, ntraj=9, e_ops=eops, seeds=list(seeds)))
        sol = qutip.MCSolver(H, c, options=o)
        sol.run(rho0, TL, ntraj=4, e_ops=eops, seeds=77)
        r6b = table(sol.run(rho0, TL, ntraj=6, e_ops=eops, seeds=list(seeds[:6])))
        with core.time_limit(300):
            rp = table(qutip.MCSolver(H, c, options=dict(o, map="parallel", num_cpus=2)).run(rho0, TL, ntraj=6, e_ops=eops, seeds=list(seeds[:6])))
        for tag, other in (("a larger mixed ensemble", r9), ("a used solver object", r6b), ("worker processes", rp)):
            common = [k for k in r6 if k in other]
            rep.count("relational-mixed")
            if tag != "a larger mixed ensemble" and len(common) != len(r6):
                viol.append(("mixed-allocation:mc", f"mixed initial state: the same seeds are started from other member states when run on {tag}"))
                continue
            for k in common:
                rep.evaluations += 1
                d = same(r6[k], other[k])
                if d:
                    viol.append(("mixed:mc", f"mixed initial state: the trajectory of a (seed, member state) pair differs on {tag} ({d})"))
                    break
    except core.CaseTimeout:
        raise
    except Exception as e:      # noqa
        viol.append(("mixed-raises:mc", f"mixed initial state: {type(e).__name__}: {e}"[:200]))
    # ---- improved sampling of a mixed initial state with worker processes: the no-jump run of each member state finishes in
    #      whatever order (the first member's is made the slowest), the weights and every (seed, member) trajectory are those of
    #      the serial run
    try:
        H, c, psi0 = problem()
        a_ = psi0
        b_ = (qutip.basis(2, 1) - a_.overlap(qutip.basis(2, 1)) * a_).unit()
        rho0 = 0.375 * a_.proj() + 0.625 * b_.proj()
        seeds_i = SeedSequence(777).spawn(6)
        oi = {"progress_bar": "", "keep_runs_results": True, "store_states": True, "improved_sampling": True}
        slow = _SlowFor(a_, 0.4)
        with core.time_limit(600):
            rs = qutip.MCSolver(H, c, options=oi).run(rho0, TL, ntraj=6, e_ops=[qutip.sigmaz(), slow], seeds=list(seeds_i))
            rp = qutip.MCSolver(H, c, options=dict(oi, map="parallel", num_cpus=3)).run(rho0, TL, ntraj=6, e_ops=[qutip.sigmaz(), slow], seeds=list(seeds_i))
        rep.count("relational-improved-mixed-parallel")
        rep.evaluations += 1
        ws, wp = np.asarray(rs.deterministic_weights, dtype=float), np.asarray(rp.deterministic_weights, dtype=float)
        if ws.shape != wp.shape or np.abs(ws - wp).max() > 1e-10:
            viol.append(("improved-mixed-parallel:weights", f"improved sampling of a mixed state: the no-jump weights are {wp.tolist()} with worker processes and {ws.tolist()} serially"))
        else:
            def keyed(res):
                out = {}
                for j in range(len(res.seeds)):
                    out[seed_key(res.seeds[j])] = ({"ct": np.array(res.col_times[j], dtype=float), "e": np.array(res.runs_expect[0][j]),
                                                    "s0": np.array(res.runs_states[j][0].full())}, float(np.asarray(res.runs_weights, dtype=float).ravel()[j]))
                return out
            ks, kp = keyed(rs), keyed(rp)
            if set(ks) != set(kp):
                viol.append(("improved-mixed-parallel:seeds", "improved sampling of a mixed state: the serial run and worker processes report different seeds"))
            else:
                for key in ks:
                    d = same(ks[key][0], kp[key][0])
                    if d:
                        viol.append(("improved-mixed-parallel:trajectory", f"improved sampling of a mixed state: the trajectory of seed {key} differs between the serial run and worker processes ({d})"))
                        break
                    if abs(ks[key][1] - kp[key][1]) > 1e-10:
                        viol.append(("improved-mixed-parallel:weights", f"improved sampling of a mixed state: the weight of the trajectory of seed {key} is {kp[key][1]} with worker processes and {ks[key][1]} serially"))
                        break
    except core.CaseTimeout:
        raise
    except Exception as e:      # noqa
        viol.append(("improved-mixed-parallel:raises", f"{type(e).__name__}: {e}"[:200]))
    # ---- integrator options travel with the solver into the worker processes: a narrow pulse that only a bounded step
    #      (`max_step`) resolves gives the same trajectories serially and in workers, for every integration method
    for meth in (("vern7", "vern9", "adams") if tier == "quick" else ("vern7", "vern9", "adams", "dop853", "lsoda", "bdf")):
        try:
            Hp = qutip.QobjEvo([0.2 * qutip.sigmaz(), [qutip.sigmax(), narrow_pulse]])
            op_ = {"progress_bar": "", "keep_runs_results": True, "store_states": True, "method": meth, "max_step": 0.01, "atol": 1e-8, "rtol": 1e-6, "nsteps": 100000}
            tlp = [0.0, 0.4, 1.2]
            seeds_p = SeedSequence(4321).spawn(4)
            with core.time_limit(600):
                rs = qutip.MCSolver(Hp, [0.5 * qutip.sigmam()], options=op_).run(qutip.basis(2, 1), tlp, ntraj=4, seeds=list(seeds_p))
                rp = qutip.MCSolver(Hp, [0.5 * qutip.sigmam()], options=dict(op_, map="parallel", num_cpus=2)).run(qutip.basis(2, 1), tlp, ntraj=4, seeds=list(seeds_p))
        except core.CaseTimeout:
            raise
        except Exception as e:      # noqa
            if type(e).__name__ != "IntegratorException":
                viol.append((f"options-in-workers:raises:{meth}", f"{type(e).__name__}: {e}"[:200]))
            continue
        rep.count("relational-options-in-workers")
        ks = {seed_key(rs.seeds[j]): traj_sig(rs, j) for j in range(4)}
        kp = {seed_key(rp.seeds[j]): traj_sig(rp, j) for j in range(4)}
        for key in ks:
            rep.evaluations += 1
            d = same(ks[key], kp.get(key, {}), tol=1e-5) if key in kp else "seed missing"
            if d:
                viol.append((f"options-in-workers:{meth}", f"mcsolve with {meth} and max_step=0.01 on a Hamiltonian with a narrow pulse: the trajectory of a seed differs between the serial run and worker processes ({d})"))
                break
    # ---- a returned result is a value: what the solver object does afterwards (other measurement settings, other runs)
    #      does not change it, and the later run is what a fresh solver with those settings gives
    for nm, het in (("sse", False), ("sme", False), ("sme", True)):
        try:
            H, c, psi0 = problem()
            o = {"progress_bar": "", "keep_runs_results": True, "store_states": True, "store_measurement": True, "dt": 0.02}

            def mk():
                if nm == "sse":
                    return qutip.SSESolver(H, sc_ops=c[:1], heterodyne=het, options=o), psi0
                return qutip.SMESolver(H, sc_ops=c[:1], heterodyne=het, c_ops=c[1:], options=o), qutip.ket2dm(psi0)
            nfac = 2 if het else 1
            fac2 = [2.5, -0.5][:nfac]
            mop2 = [qutip.sigmax(), qutip.sigmay()][:nfac]
            with core.time_limit(300):
                sol, st = mk()
                r1 = sol.run(st, TL, ntraj=2, e_ops=eops, seeds=[5, 6])
                sig1 = [traj_sig(r1, j) for j in range(2)]
                exp1 = [np.array(e) for e in r1.average_expect]
                sol.dW_factors = fac2
                sol.m_ops = mop2
                r2 = sol.run(st, TL, ntraj=2, e_ops=eops, seeds=[5, 6])
                sig1b = [traj_sig(r1, j) for j in range(2)]
                fresh, _ = mk()
                fresh.dW_factors = fac2
                fresh.m_ops = mop2
                rf = fresh.run(st, TL, ntraj=2, e_ops=eops, seeds=[5, 6])
                plain, _ = mk()
                rp1 = plain.run(st, TL, ntraj=2, e_ops=eops, seeds=[5, 6])
            tag = nm + ("-heterodyne" if het else "")
            rep.count("relational-result-is-a-value")
            for j in range(2):
                rep.evaluations += 3
                d = same(sig1[j], sig1b[j])
                if d:
                    viol.append((f"result-aliases-solver:{tag}", f"{tag}: a result already returned changed after the solver's measurement settings were changed and it ran again ({d})"))
                    break
                d = same(traj_sig(r2, j), traj_sig(rf, j))
                if d:
                    viol.append((f"measurement-settings:{tag}", f"{tag}: a run after changing dW_factors / m_ops on a used solver differs from a fresh solver with the same settings ({d})"))
                    break
                d = same(sig1[j], traj_sig(rp1, j))
                if d:
                    viol.append((f"measurement-settings-leak:{tag}", f"{tag}: two solvers built the same way give different trajectories for the same seed once another solver had its measurement settings changed ({d})"))
                    break
        except core.CaseTimeout:
            raise
        except Exception as e:      # noqa
            viol.append((f"result-value-raises:{nm}", f"{nm}: {type(e).__name__}: {e}"[:200]))
    return viol


def run(tier, seed, replay):
    rep = core.Report(PID, tier, seed)
    rep.rule = ("_read_seed: every seed form x ensemble sizes 0..6 x own-sequence states; relational: 4 solvers x 8 reuse / position "
                "/ ensemble-size / parallel patterns with 5 seeds each; non-trivial = every configuration")
    rep.assumptions = ["a trajectory is compared through states, expectation values, collapse records, noise and measurement records (1e-10)",
                       "worker processes: completion order is perturbed by delaying one trajectory; the orders seen are in the evidence"]
    core.build_repo()
    proved = core.prove(rep, ["Qv.Model.C13", "Qv.Props.C13"], "Qv.Props.C13")
    if tier == "thorough":
        core.leanchecker(rep, ["Qv.Props.C13"])
    import qutip
    from numpy.random import SeedSequence
    rng = np.random.default_rng(seed)
    # --- exact correspondence of _read_seed
    lines, impl = [], []
    sol, _ = make_solver("mc")
    for _ in range(150 if tier == "quick" else 1500):
        ent = int(rng.integers(0, 10 ** 6))
        spawned = int(rng.integers(0, 4))
        own = SeedSequence(ent)
        if spawned:
            own.spawn(spawned)
        sol.seed_sequence = own
        ntraj = int(rng.integers(0, 7))
        kind = str(rng.choice(["none", "int", "seq", "list", "list_short", "list_int"]))
        if kind == "none":
            arg, marg = None, {"kind": "none"}
        elif kind == "int":
            n = int(rng.integers(0, 10 ** 6))
            arg, marg = n, {"kind": "int", "n": n}
        elif kind == "seq":
            n = int(rng.integers(0, 10 ** 6))
            s = SeedSequence(n)
            pre = int(rng.integers(0, 3))
            if pre:
                s.spawn(pre)
            arg, marg = s, {"kind": "seq", "s": {"entropy": n, "key": [], "spawned": pre}}
        elif kind == "list_int":
            ns = [int(x) for x in rng.integers(0, 10 ** 6, ntraj + int(rng.integers(0, 3)))]
            arg, marg = list(ns), {"kind": "list", "l": [{"entropy": n, "key": []} for n in ns]}
        else:
            n = int(rng.integers(0, 10 ** 6))
            L = ntraj + (2 if kind == "list" else -1)
            kids = SeedSequence(n).spawn(max(L, 0))
            arg = list(kids)
            marg = {"kind": "list", "l": [{"entropy": n, "key": [i]} for i in range(max(L, 0))]}
        try:
            out = sol._read_seed(arg, ntraj)
            got = {"seeds": [{"entropy": int(s.entropy), "key": [int(x) for x in s.spawn_key]} for s in out],
                   "own_spawned": int(sol.seed_sequence.n_children_spawned)}
        except ValueError:
            got = {"seeds": "ValueError", "own_spawned": int(sol.seed_sequence.n_children_spawned)}
        case = {"own": {"entropy": ent, "key": [], "spawned": spawned}, "ntraj": ntraj, "arg": marg}
        lines.append("C13.read_seed " + json.dumps(case))
        impl.append(got)
        rep.case(case, True)
        rep.count("seedform=" + kind)
    model = core.run_driver(lines)
    ndis, first = 0, None
    for line, want, m in zip(lines, impl, model):
        if m != want:
            ndis += 1
            if first is None:
                first = {"line": line, "model": m, "impl": want}
    rep.notes["correspondence_disagreements"] = ndis
    if ndis:
        rep.broken.append({"kind": "correspondence", "which": "C13.read_seed", "count": ndis, "first": first})
    seen = set()
    for sig, what in relational(rep, tier, rng):
        if sig not in seen:
            seen.add(sig)
            rep.violation(core.Violation("C13:" + sig, what, {"what": what}))
    # what the reducer keeps, under a chosen arrival order: real solvers against Qv.C13.collect
    if COLLECT:
        cm = core.run_driver([c["line"] for c in COLLECT])
        ncd, firstc = 0, None
        for c, m in zip(COLLECT, cm):
            rep.count("arrival-order-correspondence")
            rep.evaluations += 1
            # the property itself: the run stored at a position is the trajectory of the seed reported there
            paired = [c["keys"].index(k) if k in c["keys"] else None for k in c["seeds"]]
            if paired != c["runs"] and ("C13:arrival-order-pairing:" + c["name"]) not in {v.signature for v in rep.violations}:
                rep.violation(core.Violation("C13:arrival-order-pairing:" + c["name"],
                                             f"{c['name']}: with results arriving in the order {c['order']} the result reports the seeds of tasks {paired} "
                                             f"but stores the trajectories of tasks {c['runs']} at these positions",
                                             {"solver": c["name"], "arrival_order": c["order"], "reported_seed_tasks": paired, "stored_trajectory_tasks": c["runs"]}))
            want_seeds = [x.get("key") for x in m.get("seeds", [])] if isinstance(m, dict) else None
            want_runs = [c["keys"].index(k) if k in c["keys"] else None for k in m.get("runs", [])] if isinstance(m, dict) else None
            if want_seeds != c["seeds"] or want_runs != c["runs"]:
                ncd += 1
                if firstc is None:
                    firstc = {"line": c["line"], "solver": c["name"], "model": m, "impl": {"seeds": c["seeds"], "runs": c["runs"]}}
        rep.notes["arrival_order_disagreements"] = ncd
        if ncd:
            ndis += ncd
            rep.broken.append({"kind": "correspondence", "which": "C13.collect", "count": ncd, "first": firstc})
        del COLLECT[:]
    if (ndis or not proved) and not rep.violations:
        rep.violation(core.Violation("C13:unverified", "model/proof no longer matches the code and no failing input was found",
                                     {"broken": rep.broken}, failing_input_found=False))
    return rep.finish()


if __name__ == "__main__":
    core.main(run, PID)
