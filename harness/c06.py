"""C06 — coefficients reproduce the data / expression / function they were built from.

Correspondence: `InterCoefficient._call` (all orders, table read back through `__reduce__`) and the
order-0 / order-1 tables against the Lean model in exact rational arithmetic on the floats actually
used (order 0 exactly, others to rounding); `FunctionCoefficient` argument plumbing (signature styles x
update paths) against the model.
Oracle (independent): samples at sample times, step / linear interpolant / continuity / constant
outside, for grids of every scale, offset and (non-)uniformity; pickling and copies; sums; function and
string coefficients against direct evaluation; originals untouched by replacement; the parsed form of a
string (what would be compiled) evaluates like the string.
"""
import json
import os
import pickle
import sys
import warnings
from fractions import Fraction

import numpy as np

sys.path.insert(0, os.path.dirname(os.path.abspath(__file__)))
import core

PID = "C06"


def fr(x):
    f = Fraction(float(x))
    return str(f.numerator) if f.denominator == 1 else f"{f.numerator}/{f.denominator}"


def cq(z):
    z = complex(z)
    return [fr(z.real), fr(z.imag)]


def parse_fr(s):
    return Fraction(s)


def cval(pair):
    return complex(float(parse_fr(pair[0])), float(parse_fr(pair[1])))


def gen_grid(rng, kind=None):
    """increasing grid; every spacing lies in [1e-12, 1e6] (the range the property quantifies over)"""
    n = int(rng.choice([1, 2, 3, 4, 5, 7, 12, 25, 60]))
    kind = kind or str(rng.choice(["uniform", "linspace", "nearly", "nonuniform", "wild"]))
    dyn = 6.0 if kind == "wild" else 1.0
    scale = 10.0 ** rng.uniform(-12 + 0.7, 6 - dyn - 0.7)     # smallest spacing of the grid, roughly
    offset = 0.0 if rng.random() < 0.4 else float(rng.choice([-1, 1])) * scale * 10.0 ** rng.uniform(0, 4)
    m = max(n - 1, 0)
    if kind == "uniform":
        t = offset + scale * np.arange(n)
    elif kind == "linspace":
        t = np.linspace(offset, offset + scale * m * float(rng.uniform(1.0, 3.0)), n)
    elif kind == "nearly":
        jit = 10.0 ** rng.uniform(-9, -3)
        t = offset + scale * np.cumsum(np.concatenate([[0], 1 + jit * rng.standard_normal(m)]))
    elif kind == "nonuniform":
        t = offset + scale * np.cumsum(np.concatenate([[0], rng.uniform(1.0, 5.0, m)]))
    else:
        t = offset + scale * np.cumsum(np.concatenate([[0], 10.0 ** rng.uniform(0, dyn, m)]))
    t = np.asarray(t, dtype=float)
    if len(t) > 1 and np.diff(t).min() <= 0:          # offset swallowed the spacing: fall back to no offset
        t = t - offset
    return t, kind, scale


SPLINE_DIS = []


def gen_samples(rng, n):
    re = rng.integers(-8, 9, n) / float(rng.choice([1, 2, 4]))
    im = rng.integers(-8, 9, n) / float(rng.choice([1, 2, 4])) if rng.random() < 0.7 else np.zeros(n)
    return re + 1j * im


def query_times(rng, t):
    qs = list(t)
    for a, b in zip(t[:-1], t[1:]):
        qs += [0.5 * (a + b), a + (b - a) * rng.random(), np.nextafter(b, -np.inf), np.nextafter(a, np.inf)]
    span = (t[-1] - t[0]) if len(t) > 1 else max(abs(t[0]), 1.0)
    qs += [t[0] - span, t[0] - 1e-3 * span, t[-1] + span, np.nextafter(t[0], -np.inf), np.nextafter(t[-1], np.inf)]
    return [float(q) for q in qs]


def table_of(coeff):
    _, (tl, poly, dt) = coeff.__reduce__()
    return np.asarray(tl, float), np.asarray(poly, complex), float(dt)


def horner_scale(poly, tl, idx):
    h = (tl[idx + 1] - tl[idx]) if idx + 1 < len(tl) else 0.0
    k = poly.shape[0]
    idx = min(idx, poly.shape[1] - 1)
    return sum(abs(poly[i, idx]) * abs(h) ** (k - 1 - i) for i in range(k))


# ---------------------------------------------------------------- function coefficients
def make_func(params, defaults, has_kw, log, kwonly_from=None):
    """build `def f(<params with defaults>, **kw)` that records what it was called with;
    parameters from index `kwonly_from` on are keyword-only"""
    parts = []
    for i, p in enumerate(params):
        if kwonly_from is not None and i == kwonly_from:
            parts.append("*")
        parts.append(p if i == 0 or p not in defaults else f"{p}={defaults[p]!r}")
    if has_kw:
        parts.append("**kw")
    items = [f"{p}={p}" for p in params[1:]] + (["**kw"] if has_kw else [])
    body = "    _log.append(dict(" + ", ".join(items) + "))\n"
    body += "    return 0.0\n"
    ns = {"_log": log}
    exec("def f(" + ", ".join(parts) + "):\n" + body, ns)
    return ns["f"]


def func_cases(rng, count):
    import qutip
    from qutip.core.cy.coefficient import FunctionCoefficient
    names = ["w", "phase", "amp", "args", "k"]
    out = []
    for _ in range(count):
        shape = str(rng.choice(["t_args", "named", "named_kw", "kw_only", "t_args_extra", "x_args", "t_only", "named_kwonly", "named_kwonly"]))
        has_kw = shape in ("named_kw", "kw_only")
        if shape == "t_args":
            params = ["t", "args"]
        elif shape == "x_args":
            params = ["x", "args"]
        elif shape == "t_args_extra":
            params = ["t", "args", "w"]
        elif shape in ("kw_only", "t_only"):
            params = ["t"]
        else:
            params = ["t"] + [str(x) for x in rng.permutation(["w", "phase", "amp"])[: int(rng.integers(1, 4))]]
        defaults = {p: -1 for p in params[1:]}
        kwonly_from = None
        if shape == "named_kwonly" and len(params) >= 2:
            kwonly_from = int(rng.integers(1, len(params)))
        style = str(rng.choice(["auto", "pythonic", "dict"]))
        mk = lambda: [[str(k), int(rng.integers(0, 50))] for k in rng.permutation(names)[: int(rng.integers(0, 4))]]
        args, dargs, kwargs = mk(), mk(), mk()
        out.append({"params": params, "hasKw": has_kw, "style": style, "args": args, "dargs": dargs, "kwargs": kwargs,
                    "_defaults": defaults, "_shape": shape, "_kwonly_from": kwonly_from})
    return out


def run_func_case(case):
    from qutip.core.cy.coefficient import FunctionCoefficient
    log = []
    style = case["style"]
    params = case["params"]
    pyth_expected_dict = False
    f = make_func(params, case["_defaults"], case["hasKw"], log, case.get("_kwonly_from"))
    # a dict-style call hands the dictionary as the second positional parameter
    args = dict((k, v) for k, v in case["args"])
    c = FunctionCoefficient(f, dict(args), style=style)
    stored = dict(c.args)
    dargs = dict((k, v) for k, v in case["dargs"])
    kwargs = dict((k, v) for k, v in case["kwargs"])
    try:
        c2 = c.replace_arguments(dict(dargs) if dargs else None, **kwargs)
    except TypeError as e:
        return {"error": "TypeError"}
    same = c2 is c
    called = dict(c2.args)
    return {"stored": stored, "called": called, "same": same, "after": dict(c.args), "orig": stored}


# ---------------------------------------------------------------- strings
VOCAB1 = ["sin", "cos", "exp", "sinh", "cosh", "tanh", "real", "imag", "conj", "abs", "norm", "sqrt", "atan", "erf"]


def gen_expr(rng, argnames, depth=0):
    r = rng.random()
    if depth > 3 or r < 0.25:
        k = rng.random()
        if k < 0.3:
            return "t"
        if k < 0.55 and argnames:
            return str(rng.choice(argnames))
        if k < 0.7:
            return str(int(rng.integers(0, 30)))
        if k < 0.85:
            return str(rng.choice(["0.5", "1.25", ".5", "2.", "1e-2", "2.5e1", "3e0", "1.e1", "0.125"]))
        if k < 0.95:
            return str(rng.choice(["1j", "0.5j", "2.j", "1e-1j", "3j"]))
        return "pi"
    if r < 0.5:
        f = str(rng.choice(VOCAB1))
        inner = gen_expr(rng, argnames, depth + 1)
        if f == "sqrt":
            inner = f"abs({inner})"
        if f in ("erf",):
            inner = f"real({inner})"
        if f in ("exp", "sinh", "cosh"):
            inner = f"0.1*({inner})"
        return f"{f}({inner})"
    op = str(rng.choice(["+", "-", "*", "*", " + ", " * ", "  -  "]))
    a, b = gen_expr(rng, argnames, depth + 1), gen_expr(rng, argnames, depth + 1)
    if rng.random() < 0.3:
        return f"({a}{op}{b})"
    return f"{a}{op}{b}"


def run(tier, seed, replay):
    rep = core.Report(PID, tier, seed)
    rep.rule = ("grids: 5 kinds x scale 1e-12..1e6 x offset up to 1e4 spacings x 1..60 points; orders 0..5; queries at every knot, "
                "neighbouring floats, midpoints, random and outside points; non-trivial = grid with >= 3 points")
    rep.assumptions = ["values are compared exactly for order 0, to 1e-11 x scale for order 1 and to 1e-9 x (sum |coef| h^i) for order >= 2",
                       "spline tables are built by SciPy: the interpolation accuracy of order >= 2 at the samples is SciPy's (checked to 1e-6 relative on grids with spacing ratio <= 100)",
                       "string coefficients: the Cython compilation cannot run in this sandbox; the interpreted path and the parsed (pre-compilation) form are exercised"]
    core.build_repo()
    proved = core.prove(rep, ["Qv.Model.C06", "Qv.Proofs.C06", "Qv.Props.C06", "Qv.Props.C06Spline"], ["Qv.Props.C06", "Qv.Props.C06Spline"])
    if tier == "thorough":
        core.leanchecker(rep, ["Qv.Props.C06", "Qv.Props.C06Spline"])
    import qutip
    from qutip.core.cy.coefficient import InterCoefficient, FunctionCoefficient
    rng = np.random.default_rng(seed)
    ncase = 120 if tier == "quick" else 1200
    viol = {}

    def v(sig, what, data):
        if sig not in viol:
            viol[sig] = (what, data)

    lines, expect = [], []
    # a long grid whose spacing drifts within the tolerance of the uniformity detection: the index formula is several
    # intervals off near the end and the walk must bring it back (orders 0 and 1, values known in closed form)
    try:
        with core.time_limit(300):
            nlong = 1200000
            h0 = float(10.0 ** rng.integers(-9, 3))
            sign_ = float(rng.choice([1.0, -1.0]))
            tlong = np.concatenate([[0.0], np.cumsum(h0 * (1 + sign_ * 0.9e-5 * np.arange(nlong - 1) / nlong))]) + float(rng.uniform(-5, 5)) * h0
            slong = (np.arange(nlong) % 97) * 0.125 + 1j * (np.arange(nlong) % 13)
            for order_ in (0, 1):
                cl = qutip.coefficient(slong, tlist=tlong, order=order_)
                ks = np.unique(np.concatenate([rng.integers(1, nlong - 2, 6), nlong - 2 - rng.integers(0, 2000, 20), [nlong // 2, nlong - 3]]))
                rep.count("long-drifting-grid")
                for k_ in ks:
                    for frac in (0.0, 0.25, 0.999):
                        q_ = float(tlong[k_] + frac * (tlong[k_ + 1] - tlong[k_]))
                        kk = int(np.searchsorted(tlong, q_, side="right")) - 1
                        want_ = slong[kk] if order_ == 0 else slong[kk] + (slong[kk + 1] - slong[kk]) * ((q_ - tlong[kk]) / (tlong[kk + 1] - tlong[kk]))
                        got_ = complex(cl(q_))
                        rep.evaluations += 1
                        if abs(got_ - want_) > (0.0 if order_ == 0 else 1e-6):
                            v(f"long-grid:order{order_}", f"order {order_} coefficient on a grid of {nlong} points whose spacing drifts by 9e-6 (relative) over its length returns {got_} at t between samples {kk} and {kk + 1}, expected {want_}",
                              {"n": nlong, "h0": h0, "drift_sign": sign_, "k": int(kk), "t": q_, "order": order_})
                            break
    except core.CaseTimeout:
        raise
    except Exception as e:
        v("long-grid-raises", f"{type(e).__name__}: {e}"[:240], {})
    for ci in range(ncase):
        t, kind, scale = gen_grid(rng)
        n = len(t)
        s = gen_samples(rng, n)
        order = int(rng.integers(0, 6))
        bc = None
        if order >= 2 and n > order and rng.random() < 0.5:
            bc = str(rng.choice(["natural", "clamped", "not-a-knot", "periodic"])) if order == 3 else ("periodic" if rng.random() < 0.5 else None)
            if bc == "periodic":
                s = np.array(s, dtype=complex)
                s[-1] = s[0]
        try:
            with core.time_limit(60):
                c = qutip.coefficient(s, tlist=t, order=order, boundary_conditions=bc)
        except core.CaseTimeout:
            raise
        except Exception as e:
            rep.count("construct-error:" + type(e).__name__)
            v(f"construct-raises:order{order}:{bc}", f"coefficient(samples, tlist=, order={order}, boundary_conditions={bc!r}) on a {kind} grid of {n} points raises {type(e).__name__}: {e}"[:240],
              {"tlist": t.tolist(), "samples": [str(x) for x in s], "order": order, "boundary_conditions": bc})
            continue
        eff_order = min(order, n - 1)
        rep.case({"kind": kind, "n": n, "order": order, "scale_exp": int(np.floor(np.log10(scale)))}, n >= 3)
        rep.count(f"grid={kind}")
        rep.count(f"order={eff_order}")
        qs = query_times(rng, t)
        vals = []
        try:
            with core.time_limit(60):
                for q in qs:
                    vals.append(complex(c(q)))
        except core.CaseTimeout:
            raise
        except Exception as e:
            v(f"call-raises:order{eff_order}", f"order {eff_order} coefficient on a {kind} grid raises {type(e).__name__} at t={q!r}: {e}"[:240],
              {"tlist": t.tolist(), "samples": [str(x) for x in s], "order": order, "t": q})
            continue
        tl2, poly, dt = table_of(c)
        if poly.ndim != 2 or poly.shape[1] != len(tl2) or len(tl2) < len(t) or np.any(np.diff(tl2) <= 0):
            # the table the object holds is not one polynomial per breakpoint on an increasing grid containing the samples
            v(f"table-shape:order{eff_order}", f"order {eff_order} coefficient on a {kind} grid of {len(t)} samples holds {len(tl2)} breakpoints and a table of shape {poly.shape}", {"tlist": t.tolist(), "samples": [str(x) for x in s], "order": order})
            continue
        guess = int(rng.integers(0, 2 * len(tl2) + 3))
        smax = max(1.0, float(np.abs(s).max()))
        # (0) the table against the model of its construction (Props/C06Spline, taylorColumn): column k holds the derivatives
        #     of the piece that starts at break point k, divided by factorials.  The pieces are SciPy's (trusted); a
        #     disagreement is a broken correspondence, the oracles below look for a failing input.
        if eff_order >= 2:
            import scipy.interpolate as si
            sarr = np.asarray(s, dtype=complex)
            if bc == "periodic":
                parts = [(1.0, si.make_interp_spline(t, sarr.real, k=eff_order, bc_type=bc)), (1j, si.make_interp_spline(t, sarr.imag, k=eff_order, bc_type=bc))]
            else:
                parts = [(1.0, si.make_interp_spline(t, sarr, k=eff_order, bc_type=bc))]
            fact = 1.0
            worst = 0.0
            for i in range(eff_order + 1):
                fact = fact * i if i else 1.0
                col = sum(f_ * sp(tl2, i, extrapolate=False) for f_, sp in parts) / fact
                sc_ = np.maximum(np.abs(col), smax)
                worst = max(worst, float(np.max(np.abs(poly[eff_order - i] - col) / sc_)))
            rep.count("spline-table-correspondence")
            if not worst <= 1e-9:
                SPLINE_DIS.append({"tlist": t.tolist(), "samples": [str(x) for x in s], "order": order, "boundary_conditions": bc, "relative_deviation": worst})
        # (a) model on the samples (orders 0 and 1)
        if eff_order <= 1:
            lines.append("C06.inter " + json.dumps({"grid": [fr(x) for x in t], "samples": [cq(x) for x in s], "order": order,
                                                   "uniform": dt != 0, "guess": guess, "ts": [fr(q) for q in qs]}))
            expect.append(("inter", eff_order, vals, 0.0 if eff_order == 0 else 1e-11 * smax, {"grid": t.tolist(), "samples": [str(x) for x in s], "order": order, "qs": qs}))
        # (b) model on the table the object holds (every order)
        tol_tab = [1e-9 * max(horner_scale(poly, tl2, min(max(int(np.searchsorted(tl2, q, side="right")) - 1, 0), len(tl2) - 1)), smax * 1e-3) for q in qs]
        lines.append("C06.call " + json.dumps({"grid": [fr(x) for x in tl2], "poly": [[cq(x) for x in row] for row in poly],
                                              "uniform": dt != 0, "guess": guess, "ts": [fr(q) for q in qs]}))
        expect.append(("call", eff_order, vals, tol_tab if eff_order > 0 else 0.0, {"grid": t.tolist(), "samples": [str(x) for x in s], "order": order, "qs": qs}))
        # ---- oracle on the real object, independent of the model
        data = {"tlist": t.tolist(), "samples": [str(x) for x in s], "order": order, "boundary_conditions": bc}
        ratio = (np.diff(t).max() / np.diff(t).min()) if n > 2 else 1.0
        for k in range(n):
            got = vals[k]
            if eff_order <= 1:
                ok = got == s[k] if eff_order == 0 else abs(got - s[k]) <= 1e-11 * smax
            else:
                ok = abs(got - s[k]) <= 1e-6 * smax if ratio <= 100 else True
            rep.evaluations += 1
            if not ok:
                v(f"sample-at-knot:order{eff_order}", f"order {eff_order} coefficient on a {kind} grid returns {got} at sample time t[{k}]={t[k]!r}, sample is {s[k]}", dict(data, k=k, got=str(got)))
        for q, got in zip(qs, vals):
            if q <= t[0]:
                want = s[0]
            elif q >= t[-1]:
                want = s[-1]
            elif eff_order == 0:
                want = s[int(np.searchsorted(t, q, side="right")) - 1]
            elif eff_order == 1:
                k = int(np.searchsorted(t, q, side="right")) - 1
                want = s[k] + (s[k + 1] - s[k]) * ((q - t[k]) / (t[k + 1] - t[k]))
            else:
                continue
            tol = 0.0 if (eff_order == 0 or q <= t[0] or q >= t[-1]) and eff_order <= 1 else 1e-11 * smax
            if eff_order >= 2:
                tol = 1e-6 * smax if ratio <= 100 else np.inf
            if abs(got - want) > tol:
                v(f"value:order{eff_order}", f"order {eff_order} coefficient on a {kind} grid returns {got} at t={q!r}, expected {want}", dict(data, t=q, got=str(got), want=str(want)))
        # continuity for order >= 1: the value just left of a knot equals the value at the knot (to table scale)
        if eff_order >= 1:
            for k in range(1, len(tl2)):
                ql = float(np.nextafter(tl2[k], -np.inf))
                sc = max(horner_scale(poly, tl2, k - 1), smax * 1e-3)
                if abs(complex(c(ql)) - complex(c(float(tl2[k])))) > 1e-7 * sc and (eff_order == 1 or ratio <= 100):
                    v(f"continuity:order{eff_order}", f"order {eff_order} coefficient on a {kind} grid jumps at t={tl2[k]!r}", dict(data, k=k))
        # copies / pickles give the same function
        for name, c2 in (("copy", c.copy()), ("pickle", pickle.loads(pickle.dumps(c)))):
            for q, got in zip(qs[:: max(1, len(qs) // 12)], vals[:: max(1, len(qs) // 12)]):
                if complex(c2(q)) != got:
                    v(f"{name}:order{eff_order}", f"{name} of an order {eff_order} coefficient differs at t={q!r}", dict(data, t=q))
        # the coefficient owns its samples: what the caller does to the arrays afterwards does not reach it
        sb = np.ascontiguousarray(np.asarray(s, dtype=complex))
        tb = np.ascontiguousarray(np.asarray(t, dtype=float))
        ca = qutip.coefficient(sb, tlist=tb, order=order, boundary_conditions=bc)
        before = [complex(ca(q)) for q in qs[:: max(1, len(qs) // 12)]]
        sb *= 3.0
        sb += 1.0
        tb += 0.37 * (tb[-1] - tb[0] + 1.0)
        after = [complex(ca(q)) for q in qs[:: max(1, len(qs) // 12)]]
        rep.evaluations += 1
        if before != after:
            v(f"aliases-input:order{eff_order}", f"an order {eff_order} coefficient built from arrays changes when the caller's arrays are modified afterwards", dict(data))
        # sum with another coefficient on the same grid and on a shifted grid
        s2 = np.array(gen_samples(rng, n), dtype=complex)
        if bc == "periodic":
            s2[-1] = s2[0]
        cb = qutip.coefficient(s2, tlist=t, order=order, boundary_conditions=bc)
        csum = c + cb
        for q, got in zip(qs[:: max(1, len(qs) // 12)], vals[:: max(1, len(qs) // 12)]):
            want = got + complex(cb(q))
            tlb, polyb, _ = table_of(cb)
            kq = min(max(int(np.searchsorted(tl2, q, side="right")) - 1, 0), len(tl2) - 1)
            kqb = min(max(int(np.searchsorted(tlb, q, side="right")) - 1, 0), len(tlb) - 1)
            if abs(complex(csum(q)) - want) > 1e-9 * max(abs(want), smax, horner_scale(poly, tl2, kq), horner_scale(polyb, tlb, kqb)):
                v(f"sum:order{eff_order}", f"sum of two order {eff_order} coefficients on one grid differs from the sum of their values at t={q!r}", dict(data, t=q, samples2=[str(x) for x in s2]))
        if n >= 3:
            t3 = t.copy()
            t3[1:-1] = t3[1:-1] + 0.25 * np.diff(t).min()
            cc = qutip.coefficient(s2, tlist=t3, order=min(order, 1))
            c1 = qutip.coefficient(s, tlist=t, order=min(order, 1))
            cs = c1 + cc
            for q in qs[:: max(1, len(qs) // 12)]:
                want = complex(c1(q)) + complex(cc(q))
                if abs(complex(cs(q)) - want) > 1e-9 * max(abs(want), smax):
                    v("sum-different-grids", f"sum of two coefficients on different grids differs from the sum of their values at t={q!r}", dict(data, t=q, tlist2=t3.tolist(), samples2=[str(x) for x in s2]))
    # PPoly / BSpline entry points
    import scipy.interpolate as si
    for _ in range(10 if tier == "quick" else 60):
        t, kind, scale = gen_grid(rng, "nonuniform")
        if len(t) < 5:
            continue
        s = gen_samples(rng, len(t)).real
        spl = si.make_interp_spline(t, s, k=3)
        pp = si.PPoly.from_spline(spl)
        for name, obj in (("BSpline", spl), ("PPoly", pp), ("CubicSpline", si.CubicSpline(t, s)), ("PchipInterpolator", si.PchipInterpolator(t, s)),
                          ("Akima1DInterpolator", si.Akima1DInterpolator(t, s)), ("BSpline-order2", si.make_interp_spline(t, s, k=2)),
                          ("CubicSpline-complex", si.CubicSpline(t, s + 1j * s[::-1]))):
            c = qutip.coefficient(obj)
            for q in list(query_times(rng, t)) + [t[-1], t[0], t[-1] + (t[-1] - t[0]), t[0] - (t[-1] - t[0]), np.nextafter(t[-1], np.inf)]:
                # inside the range the object itself; outside, the coefficient is constant: the value at the nearest end
                want = complex(obj(min(max(q, t[0]), t[-1])))
                if abs(complex(c(q)) - want) > 1e-8 * max(1.0, abs(want), np.abs(s).max()):
                    v(f"from-{name.split('-')[0]}", f"coefficient built from a {name} is {complex(c(q))} at t={q!r} (range {t[0]!r} .. {t[-1]!r}), the object gives {want}", {"tlist": t.tolist(), "samples": s.tolist(), "t": float(q)})
                    break
            rep.count("from-" + name)
    # ---- function coefficients
    fcases = func_cases(rng, 150 if tier == "quick" else 1500)
    fimpl = []
    for case in fcases:
        mcase = {k: v_ for k, v_ in case.items() if not k.startswith("_")}
        lines.append("C06.func_args " + json.dumps(mcase))
        r = run_func_case(case)
        expect.append(("func", case, r, None, None))
        rep.count("func-shape=" + case["_shape"] + "/" + case["style"])
        rep.case({"f": mcase}, True)
        if "error" not in r and r["after"] != r["orig"]:
            v("replace-mutates-original", f"replace_arguments changed the original coefficient's arguments: {r['orig']} -> {r['after']}", mcase)
    # values of function coefficients through every path
    def f_named(t, w, phase=0.25):
        return np.exp(1j * (w * t + phase))

    def f_dict(t, args):
        return args["w"] * t + args.get("phase", 0.25)

    def f_kw(t, **kw):
        return kw["w"] * t + kw.get("phase", 0.25)

    def f_mixed(t, w, **kw):
        return w * t + kw.get("phase", 0.25)

    def f_kwonly(t, w, *, phase=0.25):
        return w * t + phase
    for f, ref in ((f_named, lambda t, w, p: np.exp(1j * (w * t + p))), (f_dict, lambda t, w, p: w * t + p),
                   (f_kw, lambda t, w, p: w * t + p), (f_mixed, lambda t, w, p: w * t + p), (f_kwonly, lambda t, w, p: w * t + p)):
        for style in (None, "auto", "pythonic", "dict"):
            if (f is f_dict) != (style == "dict" or (style in (None, "auto") and f is f_dict)):
                if f is f_dict or style == "dict":
                    continue
            for _ in range(6):
                w, p, tt = float(rng.integers(1, 9)), float(rng.integers(1, 9)) / 4, float(rng.uniform(-2, 2))
                w0 = float(rng.integers(1, 9))
                paths = {}
                paths["construction"] = lambda: qutip.coefficient(f, args={"w": w, "phase": p}, function_style=style)(tt)
                paths["call-kw"] = lambda: qutip.coefficient(f, args={"w": w0}, function_style=style)(tt, w=w, phase=p)
                paths["call-dict"] = lambda: qutip.coefficient(f, args={"w": w0}, function_style=style)(tt, {"w": w, "phase": p})
                paths["call-phase-only"] = lambda: qutip.coefficient(f, args={"w": w}, function_style=style)(tt, phase=p)
                paths["replace-kw"] = lambda: qutip.coefficient(f, args={"w": w0}, function_style=style).replace_arguments(w=w, phase=p)(tt)
                paths["replace-dict"] = lambda: qutip.coefficient(f, args={"w": w0}, function_style=style).replace_arguments({"w": w, "phase": p})(tt)
                paths["replace-phase-only"] = lambda: qutip.coefficient(f, args={"w": w}, function_style=style).replace_arguments({"phase": p})(tt)
                paths["replace-twice"] = lambda: qutip.coefficient(f, args={"w": w0}, function_style=style).replace_arguments(w=w).replace_arguments(phase=p)(tt)
                paths["qobjevo-call"] = lambda: (qutip.QobjEvo([qutip.qeye(1), qutip.coefficient(f, args={"w": w}, function_style=style)])(tt, phase=p)).full()[0, 0]
                want = ref(tt, w, p)
                for name, fn in paths.items():
                    rep.evaluations += 1
                    rep.count("func-path=" + name)
                    try:
                        got = complex(fn())
                    except Exception as e:
                        v(f"function-path-raises:{name}", f"{f.__name__} style={style} path {name}: {type(e).__name__}: {e}"[:200], {"f": f.__name__, "style": style, "path": name})
                        continue
                    if abs(got - want) > 1e-12 * max(1, abs(want)):
                        v(f"function-path:{name}", f"{f.__name__} style={style}: arguments given by {name} give {got}, the function value is {want}", {"f": f.__name__, "style": style, "path": name, "w": w, "phase": p, "t": tt})
                c0 = qutip.coefficient(f, args={"w": w0, "phase": 0.5}, function_style=style)
                before = complex(c0(tt))
                c0.replace_arguments(w=w, phase=p)
                c0(tt, w=w)
                if complex(c0(tt)) != before:
                    v("replace-changes-original", f"{f.__name__}: the original coefficient changed value after replace_arguments / call-time arguments", {"f": f.__name__, "style": style})
    # explicitly chosen signature styles that automatic detection would not pick: the style chosen at construction
    # (keyword or the global setting then in force) is the coefficient's style for good
    def e_dict(t, params):
        return params["w"] * t + params.get("phase", 0.25)

    def e_pyargs(t, args, phase=0.25):
        return args * t + phase

    def e_dict_named(t, w):
        return w["w"] * t + w.get("phase", 0.25)
    for f, wk, style, how in ((e_dict, "w", "dict", "keyword"), (e_pyargs, "args", "pythonic", "keyword"), (e_dict_named, "w", "dict", "keyword"),
                              (e_dict, "w", "dict", "setting"), (e_pyargs, "args", "pythonic", "setting")):
        for _ in range(4):
            w, p, tt, w0 = float(rng.integers(1, 9)), float(rng.integers(1, 9)) / 4, float(rng.uniform(-2, 2)), float(rng.integers(1, 9))

            def mk(a):
                if how == "keyword":
                    return qutip.coefficient(f, args=a, function_style=style)
                with qutip.CoreOptions(function_coefficient_style=style):
                    return qutip.coefficient(f, args=a)
            paths = {"construction": lambda: mk({wk: w, "phase": p})(tt),
                     "call-kw": lambda: mk({wk: w0})(tt, **{wk: w, "phase": p}),
                     "call-dict": lambda: mk({wk: w0})(tt, {wk: w, "phase": p}),
                     "replace-kw": lambda: mk({wk: w0}).replace_arguments(**{wk: w, "phase": p})(tt),
                     "replace-dict": lambda: mk({wk: w0}).replace_arguments({wk: w, "phase": p})(tt),
                     "replace-twice": lambda: mk({wk: w0}).replace_arguments({wk: w}).replace_arguments(phase=p)(tt),
                     "copy-replace": lambda: mk({wk: w0}).copy().replace_arguments({wk: w, "phase": p})(tt),
                     "qobjevo-call": lambda: (qutip.QobjEvo([qutip.qeye(1), mk({wk: w})])(tt, phase=p)).full()[0, 0]}
            want = w * tt + p
            for name, fn in paths.items():
                rep.evaluations += 1
                rep.count("func-explicit-style-path=" + name)
                try:
                    got = complex(fn())
                except Exception as e:
                    v(f"function-path-raises:{name}", f"{f.__name__} style={style} (by {how}) path {name}: {type(e).__name__}: {e}"[:200], {"f": f.__name__, "style": style, "path": name})
                    continue
                if abs(got - want) > 1e-12 * max(1, abs(want)):
                    v(f"function-path:{name}", f"{f.__name__} style={style} (by {how}): arguments given by {name} give {got}, the function value is {want}", {"f": f.__name__, "style": style, "path": name, "w": w, "phase": p, "t": tt})
    # composite coefficients: replacement and call-time arguments give new values and leave the composite alone
    # functions that went through one and the same signature-preserving decorator share a code object but not a signature:
    # each is analysed by its own signature, in whatever order they are used
    import functools

    def scaled(func):
        @functools.wraps(func)
        def wrapper(*a_, **k_):
            return 2.0 * func(*a_, **k_)
        return wrapper

    @scaled
    def w_named(t, w):
        return np.exp(-1j * w * t)

    @scaled
    def w_defaults(t, rate=1.0, offset=0.0):
        return rate * t + offset

    @scaled
    def w_dict(t, args):
        return args["w"] * t + args.get("phase", 0.25)

    @scaled
    def w_kwonly(t, *, w, **kw):
        return w * t + kw.get("phase", 0.5)
    wrapped = [("named", w_named, {"w": 1.5}, lambda t, a: 2.0 * np.exp(-1j * a["w"] * t)),
               ("defaults", w_defaults, {"rate": 0.5, "offset": 2.0}, lambda t, a: 2.0 * (a["rate"] * t + a["offset"])),
               ("dict", w_dict, {"w": 0.75, "phase": 1.0}, lambda t, a: 2.0 * (a["w"] * t + a["phase"])),
               ("keyword-only", w_kwonly, {"w": 2.0, "phase": 0.125}, lambda t, a: 2.0 * (a["w"] * t + a["phase"]))]
    for order_ in ([0, 1, 2, 3], [3, 2, 1, 0], [1, 0, 3, 2]):
        for idx_ in order_:
            nm_, f_, a_, ref_ = wrapped[idx_]
            for tt in (0.0, 0.3, -0.7, 2.5):
                try:
                    c1_ = qutip.coefficient(f_, args=dict(a_))
                    a2_ = {k_: x_ * 2 + 1 for k_, x_ in a_.items()}
                    got_ = {"construction": complex(c1_(tt)), "call-time": complex(qutip.coefficient(f_, args=dict(a_))(tt, **a2_)),
                            "replacement": complex(c1_.replace_arguments(a2_)(tt)), "original-after-replacement": complex(c1_(tt))}
                    want_ = {"construction": ref_(tt, a_), "call-time": ref_(tt, a2_), "replacement": ref_(tt, a2_), "original-after-replacement": ref_(tt, a_)}
                except Exception as e:
                    v(f"decorated-raises:{nm_}", f"a function with the signature style '{nm_}' that went through a functools.wraps decorator (used after {[wrapped[i][0] for i in order_[:order_.index(idx_)]]}): {type(e).__name__}: {e}"[:300], {"style": nm_})
                    break
                rep.evaluations += 1
                rep.count("decorated-function")
                bad_ = [k_ for k_ in want_ if abs(got_[k_] - want_[k_]) > 1e-12 * max(1, abs(want_[k_]))]
                if bad_:
                    v(f"decorated:{nm_}", f"a decorated (functools.wraps) function with the signature style '{nm_}', used after {[wrapped[i][0] for i in order_[:order_.index(idx_)]]}: {bad_[0]} gives {got_[bad_[0]]}, the function gives {want_[bad_[0]]} at t={tt}", {"style": nm_, "path": bad_[0]})
                    break

    def g1(t, w):
        return np.cos(w * t)

    def g2(t, w2=0.5):
        return 1 + w2 * t
    comps = {"sum": lambda: qutip.coefficient(g1, args={"w": 1.5}) + qutip.coefficient(g2, args={"w2": 0.25}),
             "mul": lambda: qutip.coefficient(g1, args={"w": 1.5}) * qutip.coefficient(g2, args={"w2": 0.25}),
             "conj": lambda: qutip.coefficient(lambda t, w: np.exp(1j * w * t), args={"w": 1.5}).conj(),
             "norm": lambda: qutip.coefficient(lambda t, w: np.exp(1j * w * t) * (1 + t), args={"w": 1.5})._cdc(),
             "sum-str": lambda: qutip.coefficient("cos(w*t)", args={"w": 1.5}) + qutip.coefficient(g2, args={"w2": 0.25}),
             "sum-of-sum": lambda: (qutip.coefficient(g1, args={"w": 1.5}) + qutip.coefficient(g2, args={"w2": 0.25})) + qutip.coefficient(g1, args={"w": 0.5})}
    for nm, mk in comps.items():
        for tt in (0.3, 1.1):
            try:
                c0 = mk()
                before = complex(c0(tt))
                c0(tt, w2=5.0)
                c0(tt, {"w": 2.0})
                c1 = c0.replace_arguments(w=3.0, w2=4.0)
                c1(tt)
                qutip.QobjEvo([qutip.qeye(1), c0], args={"w2": 9.0})(tt)
                after = complex(c0(tt))
                fresh = complex(mk()(tt))
            except Exception as e:
                v(f"composite-raises:{nm}", f"{nm} coefficient: {type(e).__name__}: {e}"[:200])
                continue
            rep.evaluations += 1
            rep.count("composite=" + nm)
            if abs(after - before) > 1e-13 or abs(before - fresh) > 1e-13:
                v(f"composite-changed:{nm}", f"a {nm} coefficient changed value ({before} -> {after}) after being evaluated / replaced with other arguments", {"kind": nm, "t": tt})
    # ---- string coefficients
    import importlib
    cmod = importlib.import_module('qutip.core.coefficient')
    nstr = 120 if tier == "quick" else 1200
    copt = cmod.CompilationOptions()
    for _ in range(nstr):
        argnames = [str(x) for x in rng.permutation(["w", "a", "b2", "t0", "e", "j1"])[: int(rng.integers(0, 4))]]
        argvals = {}
        for a in argnames:
            k = rng.random()
            argvals[a] = int(rng.integers(1, 5)) if k < 0.4 else (float(rng.integers(1, 9)) / 4 if k < 0.8 else complex(rng.integers(1, 4), rng.integers(1, 4)) / 2)
        expr = gen_expr(rng, argnames)
        env = dict(cmod.str_env)
        rep.count("string")
        tts = [float(x) for x in rng.uniform(-1.5, 1.5, 3)]
        try:
            with warnings.catch_warnings():
                warnings.simplefilter("ignore")
                wants = [complex(eval(expr, env, dict(argvals, t=tt))) for tt in tts]
        except Exception:
            rep.count("string-invalid")
            continue
        if not all(np.isfinite(w) for w in wants):
            continue
        rep.case({"expr": expr, "args": {k: str(x) for k, x in argvals.items()}}, True)
        with warnings.catch_warnings():
            warnings.simplefilter("ignore")
            try:
                caller_dict = dict(argvals)
                c = qutip.coefficient(expr, args=caller_dict)
                gots = [complex(c(tt)) for tt in tts]
                # a coefficient is a value: what the caller does to its dictionary afterwards does not reach it
                for k_ in list(caller_dict):
                    caller_dict[k_] = caller_dict[k_] * 3 + 2
                caller_dict["t0_unused"] = 1.0
                if [complex(c(tt)) for tt in tts] != gots:
                    v("string-aliases-args", f"string coefficient {expr!r} changes when the caller modifies the args dictionary it was built from", {"expr": expr, "args": {k: str(x) for k, x in argvals.items()}})
                newvals = {k: (x + 1) for k, x in argvals.items()}
                c2 = c.replace_arguments(newvals) if newvals else c
                gots2 = [complex(c2(tt)) for tt in tts]
                wants2 = [complex(eval(expr, env, dict(newvals, t=tt))) for tt in tts]
                gots_after = [complex(c(tt)) for tt in tts]
            except Exception as e:
                v("string-raises", f"string coefficient {expr!r} raises {type(e).__name__}: {e}"[:200], {"expr": expr, "args": {k: str(x) for k, x in argvals.items()}})
                continue
        for tt, g, w_, g2, w2, ga in zip(tts, gots, wants, gots2, wants2, gots_after):
            rep.evaluations += 1
            if abs(g - w_) > 1e-12 * max(1, abs(w_)):
                v("string-value", f"string coefficient {expr!r} gives {g} at t={tt}, the expression evaluates to {w_}", {"expr": expr, "args": {k: str(x) for k, x in argvals.items()}, "t": tt})
            if np.isfinite(w2) and abs(g2 - w2) > 1e-12 * max(1, abs(w2)):
                v("string-replace", f"string coefficient {expr!r} with replaced arguments gives {g2}, expected {w2}", {"expr": expr, "t": tt})
            if ga != g:
                v("string-replace-changes-original", f"string coefficient {expr!r} changed after replace_arguments", {"expr": expr})
        # the same expression built several times in one process with different argument dictionaries - a larger one shared
        # with other coefficients (holding names the expression does not use, some of them substrings of it) first, its own
        # arguments next, then other values: every object evaluates its own expression with its own arguments
        try:
            with warnings.catch_warnings():
                warnings.simplefilter("ignore")
                spare = {nm_: 7 + k_ for k_, nm_ in enumerate(["a", "n", "s", "co", "si", "ex", "x", "w2", "q", "rea", "an"]) if nm_ not in argvals}
                shared = dict(argvals, **spare)
                expr_p = "(" + expr + ")"           # a text this process has not built a coefficient from yet
                c_shared = qutip.coefficient(expr_p, args=shared)
                c_own = qutip.coefficient(expr_p, args=dict(argvals))
                other_vals = {k: (x + 2) for k, x in argvals.items()}
                c_other = qutip.coefficient(expr_p, args=dict(other_vals))
                c_shared_again = qutip.coefficient(expr_p, args=dict(shared))
                for tt, w_ in zip(tts, wants):
                    rep.evaluations += 1
                    w_o = complex(eval(expr, env, dict(other_vals, t=tt)))
                    for nm_, co_, ww_ in (("a larger shared dictionary", c_shared, w_), ("its own arguments after a larger dictionary", c_own, w_),
                                          ("other values", c_other, w_o), ("the larger dictionary again", c_shared_again, w_)):
                        g_ = complex(co_(tt))
                        if np.isfinite(ww_) and abs(g_ - ww_) > 1e-12 * max(1, abs(ww_)):
                            v("string-rebuilt", f"string coefficient {expr!r} built with {nm_} gives {g_} at t={tt}, the expression evaluates to {ww_}", {"expr": expr, "args": {k: str(x) for k, x in argvals.items()}})
                            break
        except Exception as e:
            v("string-rebuilt-raises", f"string coefficient {expr!r} built again with other argument dictionaries: {type(e).__name__}: {e}"[:200], {"expr": expr, "args": {k: str(x) for k, x in argvals.items()}})
        # call-time arguments: keywords, a dictionary, and the same dictionary object again after the caller changed it in place
        if argvals:
            with warnings.catch_warnings():
                warnings.simplefilter("ignore")
                try:
                    tt = tts[0]
                    dct = dict(argvals)
                    seq = []
                    for step in range(3):
                        for k_ in dct:
                            dct[k_] = dct[k_] + (step + 1)
                        want_c = complex(eval(expr, env, dict(dct, t=tt)))
                        if not np.isfinite(want_c):
                            break
                        seq.append((complex(c(tt, dct)), complex(c(tt, **dct)), complex(c(tt, dict(dct))), want_c, dict(dct)))
                    for g_same, g_kw, g_fresh, want_c, used in seq:
                        rep.evaluations += 1
                        for nm_, g_ in (("the caller's dictionary, changed in place since the last call", g_same), ("keywords", g_kw), ("a fresh dictionary", g_fresh)):
                            if abs(g_ - want_c) > 1e-12 * max(1, abs(want_c)):
                                v("string-call-args", f"string coefficient {expr!r} called with {nm_} gives {g_}, the expression evaluates to {want_c}", {"expr": expr, "args": {k: str(x) for k, x in used.items()}, "t": tt})
                    if complex(c(tt)) != gots[0]:
                        v("string-call-changes-original", f"string coefficient {expr!r} changed after calls with other arguments", {"expr": expr})
                except Exception as e:
                    v("string-raises", f"string coefficient {expr!r} with call-time arguments raises {type(e).__name__}: {e}"[:200], {"expr": expr})
        # the parsed form (what is handed to the compiler) evaluates like the string
        try:
            with warnings.catch_warnings():
                warnings.simplefilter("ignore")
                parsed, variables, constants, raw = cmod.try_parse(expr, argvals, {}, copt)
        except Exception as e:
            v("parse-raises", f"try_parse({expr!r}) raises {type(e).__name__}: {e}"[:200], {"expr": expr})
            continue

        class Dummy:
            pass
        for cte in constants:
            setattr(Dummy, cte[0][5:], cmod.fromstr(cte[1]))
        for var in variables:
            setattr(Dummy, var[0][5:], argvals[var[1]])
        rep.count("string-parsed-raw" if raw else "string-parsed")
        for tt, w_ in zip(tts, wants):
            try:
                with warnings.catch_warnings():
                    warnings.simplefilter("ignore")
                    loc = dict(argvals, t=tt, self=Dummy) if raw else {"t": tt, "self": Dummy}
                    g = complex(eval(parsed, env, loc))
            except Exception as e:
                v("parsed-raises", f"parsed form {parsed!r} of {expr!r} raises {type(e).__name__}: {e}"[:200], {"expr": expr, "parsed": parsed})
                break
            if abs(g - w_) > 1e-12 * max(1, abs(w_)):
                v("parsed-value", f"parsed form {parsed!r} of {expr!r} evaluates to {g}, the string to {w_}", {"expr": expr, "parsed": parsed, "t": tt})
    # arguments whose names are also names of the vocabulary (constants and functions): an argument is an argument
    for expr_v, args_v in (("sin(pi*t)", {"pi": 3}), ("arg*t + real", {"arg": 2.0, "real": 0.5}), ("norm*exp(1j*arg*t)", {"norm": 2.0, "arg": 0.5}),
                           ("abs + log*t", {"abs": 1.5, "log": -2.0}), ("imag*t - conj", {"imag": 1 + 2j, "conj": 0.25}), ("cos(w*t) + pi", {"w": 2.0, "pi": 1.0}),
                           ("e*t", {"e": 4.0}), ("sqrt*sqrt + t", {"sqrt": 3.0})):
        env_v = dict(cmod.str_env)
        try:
            with warnings.catch_warnings():
                warnings.simplefilter("ignore")
                c_v = qutip.coefficient(expr_v, args=dict(args_v))
                other_v = {k_: x_ + 1 for k_, x_ in args_v.items()}
                for tt in (-0.7, 0.4, 1.3):
                    rep.evaluations += 1
                    rep.count("string-vocabulary-named-argument")
                    for nm_, got_, av_ in (("construction", complex(c_v(tt)), args_v), ("call time", complex(c_v(tt, **other_v)), other_v),
                                           ("replacement", complex(c_v.replace_arguments(other_v)(tt)), other_v)):
                        want_ = complex(eval(expr_v, env_v, dict(av_, t=tt)))
                        if abs(got_ - want_) > 1e-12 * max(1, abs(want_)):
                            v("string-vocabulary-named-argument", f"string coefficient {expr_v!r} with arguments {av_} (given at {nm_}) gives {got_} at t={tt}, the expression with these arguments evaluates to {want_}", {"expr": expr_v, "args": {k: str(x) for k, x in av_.items()}})
                            break
        except Exception as e:
            v("string-vocabulary-named-argument:raises", f"string coefficient {expr_v!r} with arguments {args_v}: {type(e).__name__}: {e}"[:200], {"expr": expr_v})
    # ---- model correspondence
    model = core.run_driver(lines)
    ndis, first = 0, None
    for line, ex, m in zip(lines, expect, model):
        kind = ex[0]
        bad = None
        if isinstance(m, dict) and "error" in m and kind != "func":
            bad = {"model": m}
        elif kind in ("inter", "call"):
            _, eff_order, vals, tol, info = ex
            for i, (pair, got) in enumerate(zip(m, vals)):
                want = cval(pair)
                tl = tol[i] if isinstance(tol, list) else tol
                if (got != want) if tl == 0.0 else (abs(got - want) > tl):
                    bad = {"t": info["qs"][i], "model": str(want), "impl": str(got), "order": eff_order, "grid": info["grid"], "samples": info["samples"]}
                    break
        else:
            _, case, r, _, _ = ex
            if "error" in r:
                bad = {"impl": r}
            else:
                called = {k: x for k, x in m["called"].items()}
                if m["stored"] != r["stored"] or called != r["called"] or m["same"] != r["same"]:
                    bad = {"model": m, "impl": {k: r[k] for k in ("stored", "called", "same")}, "case": {k: x for k, x in case.items() if not k.startswith("_")}}
        if bad:
            ndis += 1
            if first is None:
                first = dict(bad, op=line.split(" ", 1)[0])
    if SPLINE_DIS:
        ndis += len(SPLINE_DIS)
        if first is None:
            first = {"which": "table of an order >= 2 coefficient vs the Taylor columns of SciPy's pieces (Props/C06Spline)", **SPLINE_DIS[0]}
        del SPLINE_DIS[:]
    rep.notes["correspondence_disagreements"] = ndis
    rep.notes["correspondence_lines"] = len(lines)
    if ndis:
        rep.broken.append({"kind": "correspondence", "count": ndis, "first": first})
    for sig, (what, data) in viol.items():
        rep.violation(core.Violation("C06:" + sig, what, data))
    if (ndis or not proved) and not rep.violations:
        rep.violation(core.Violation("C06:unverified", "model/proof no longer matches the code and no failing input was found",
                                     {"broken": rep.broken}, failing_input_found=False))
    return rep.finish()


if __name__ == "__main__":
    core.main(run, PID)
