"""T3 — regenerate the Butcher tableaux registered in /repo as exact rationals (every float is converted
with Fraction(float): the numbers the integrator really uses) into lean/Qv/Gen/Tableaux.lean, with the
order / consistency obligations for each."""
from fractions import Fraction

import numpy as np


def rat(x):
    f = Fraction(float(x))
    if f.denominator == 1:
        return f"({f.numerator} : Rat)"
    return f"(({f.numerator} : Rat) / {f.denominator})"


def lst(xs):
    return "[" + ", ".join(rat(x) for x in xs) + "]"


def tableaux():
    from qutip.solver.integrator import explicit_rk as er
    out = {}
    for name in ("euler", "rk4", "vern7", "vern9"):
        co = getattr(er, name + "_coeff", None)
        if co is None:
            continue
        b = np.asarray(co["b"], dtype=float)
        s = len(b)
        a = np.asarray(co["a"], dtype=float)
        c = np.asarray(co["c"], dtype=float)
        e = np.asarray(co["e"], dtype=float) if co.get("e") is not None else np.zeros(0)
        bi = np.asarray(co["bi"], dtype=float) if co.get("bi") is not None else np.zeros((0, 0))
        out[name] = {"order": int(co["order"]), "a": [list(a[i, :i]) for i in range(s)], "b": list(b), "c": list(c[:s]), "e": list(e),
                     "bi": [list(r) for r in bi[:s]], "bi_extra_rows": int(bi.shape[0] - s) if bi.size else 0,
                     "bi_extra": [list(r) for r in bi[s:]] if bi.size else []}
    return out


def render(tabs, tol="((1 : Rat) / 100000000000000)"):
    lines = ["import Qv.Model.C10", "/-! Regenerated on every run by harness/translate_tableaux.py from /repo — do not edit. -/",
             "namespace Qv.Gen.Tableaux", "open Qv.C10", ""]
    for name, t in tabs.items():
        lines.append(f"def {name} : Tableau Rat := {{")
        lines.append("  a := [" + ", ".join(lst(r) for r in t["a"]) + "],")
        lines.append(f"  b := {lst(t['b'])},")
        lines.append(f"  c := {lst(t['c'])},")
        lines.append(f"  e := {lst(t['e'])},")
        lines.append("  bi := [" + ", ".join(lst(r) for r in t["bi"]) + "],")
        lines.append(f"  order := {t['order']} }}")
        lines.append(f"theorem {name}_order : orderDefect {name} ≤ {tol} := by decide +kernel")
        lines.append(f"theorem {name}_rowsum : rowSumDefect {name} ≤ {tol} := by decide +kernel")
        if t["e"]:
            lines.append(f"theorem {name}_errsum : errSumDefect {name} ≤ {tol} := by decide +kernel")
        lines.append("")
    lines.append("end Qv.Gen.Tableaux")
    return "\n".join(lines) + "\n"


def catalan(n):
    from math import comb
    return comb(2 * n, n) // (n + 1)


def render_order(tabs, tol="((1 : Rat) / 100000000000000)"):
    """Butcher's order conditions, one kernel-decided obligation per method and tree size; the heavy sizes go to
    modules of their own so that lake checks them in parallel.  Returns {module name: text} and the obligation count."""
    light, heavy, names = [], {}, {}
    for name, t in tabs.items():
        s = len(t["b"])
        names[name] = []
        for n in range(1, t["order"] + 1):
            thm = f"theorem {name}_trees_{n} : treeDefectAt {name} {n} ≤ {tol} := by decide +kernel"
            names[name].append(f"{name}_trees_{n}")
            if s * s * catalan(n - 1) > 100000:
                heavy[f"TreeOrder_{name}_{n}"] = thm
            else:
                light.append(thm)
    head = ["import Qv.Gen.Tableaux", "/-! Regenerated on every run by harness/translate_tableaux.py from /repo — do not edit. -/",
            "set_option maxRecDepth 100000", "namespace Qv.Gen.Tableaux", "open Qv.C10", ""]
    mods = {"Qv.Gen.TreeOrder": "\n".join(head + light + ["", "end Qv.Gen.Tableaux"]) + "\n"}
    for m, thm in heavy.items():
        mods["Qv.Gen." + m] = "\n".join(head + [thm, "", "end Qv.Gen.Tableaux"]) + "\n"
    lines = ["import Qv.Props.C10"] + [f"import {m}" for m in mods] + [
        "/-! Regenerated on every run by harness/translate_tableaux.py from /repo — do not edit. -/",
        "namespace Qv.Gen.Tableaux", "open Qv.C10", ""]
    nobl = 0
    for name, t in tabs.items():
        p_ = t["order"]
        arms = " ".join(f"| {n}, _ => {name}_trees_{n + 1}" for n in range(p_))
        lines.append(f"theorem {name}_shape : shapeOk {name} = true := by decide +kernel")
        lines.append(f"/-- every rooted tree with at most {p_} vertices satisfies the order condition of `{name}` as it stands in the source -/")
        lines.append(f"theorem {name}_order_conditions (t : BTree) (ht : t.order ≤ {p_}) : treeResidual {name} t ≤ {tol} :=")
        lines.append(f"  order_conditions_all_trees {name} {p_} {tol} (fun n hn => match n, hn with {arms} | n + {p_}, h => absurd h (by omega)) t ht")
        lines.append("")
        nobl += p_ + 2
    lines.append("end Qv.Gen.Tableaux")
    mods["Qv.Gen.TreeOrderAll"] = "\n".join(lines) + "\n"
    return mods, nobl


if __name__ == "__main__":
    t = tableaux()
    print({k: (v["order"], len(v["b"])) for k, v in t.items()})
