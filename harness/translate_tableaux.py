"""T3 — regenerate the Butcher tableaux registered in /repo as exact rationals (every float is converted
with Fraction(float): the numbers the integrator really uses) into lean/Qv/Gen/Tableaux.lean, with the
order / consistency obligations for each."""
from fractions import Fraction

import numpy as np


def rat(x):
    f = Fraction(float(x))
    if f.denominator == 1:
        return f"({f.numerator} : Rat)"
    return f"(({f.numerator} : Rat) / {f.denominator})"


def lst(xs):
    return "[" + ", ".join(rat(x) for x in xs) + "]"


def tableaux():
    from qutip.solver.integrator import explicit_rk as er
    out = {}
    for name in ("euler", "rk4", "vern7", "vern9"):
        co = getattr(er, name + "_coeff", None)
        if co is None:
            continue
        b = np.asarray(co["b"], dtype=float)
        s = len(b)
        a = np.asarray(co["a"], dtype=float)
        c = np.asarray(co["c"], dtype=float)
        e = np.asarray(co["e"], dtype=float) if co.get("e") is not None else np.zeros(0)
        bi = np.asarray(co["bi"], dtype=float) if co.get("bi") is not None else np.zeros((0, 0))
        out[name] = {"order": int(co["order"]), "a": [list(a[i, :i]) for i in range(s)], "b": list(b), "c": list(c[:s]), "e": list(e),
                     "bi": [list(r) for r in bi[:s]], "bi_extra_rows": int(bi.shape[0] - s) if bi.size else 0,
                     "bi_extra": [list(r) for r in bi[s:]] if bi.size else []}
    return out


def render(tabs, tol="((1 : Rat) / 100000000000000)"):
    lines = ["import Qv.Model.C10", "/-! Regenerated on every run by harness/translate_tableaux.py from /repo — do not edit. -/",
             "namespace Qv.Gen.Tableaux", "open Qv.C10", ""]
    for name, t in tabs.items():
        lines.append(f"def {name} : Tableau Rat := {{")
        lines.append("  a := [" + ", ".join(lst(r) for r in t["a"]) + "],")
        lines.append(f"  b := {lst(t['b'])},")
        lines.append(f"  c := {lst(t['c'])},")
        lines.append(f"  e := {lst(t['e'])},")
        lines.append("  bi := [" + ", ".join(lst(r) for r in t["bi"]) + "],")
        lines.append(f"  order := {t['order']} }}")
        lines.append(f"theorem {name}_order : orderDefect {name} ≤ {tol} := by decide +kernel")
        lines.append(f"theorem {name}_rowsum : rowSumDefect {name} ≤ {tol} := by decide +kernel")
        if t["e"]:
            lines.append(f"theorem {name}_errsum : errSumDefect {name} ≤ {tol} := by decide +kernel")
        lines.append("")
    lines.append("end Qv.Gen.Tableaux")
    return "\n".join(lines) + "\n"


if __name__ == "__main__":
    t = tableaux()
    print({k: (v["order"], len(v["b"])) for k, v in t.items()})
