"""T1 — behavioural tabulation of the flag-propagation rules of /repo.

For every catalogued operation the real operation is executed on operands whose raw caches
(`_isherm`, `_isunitary`) are forced to each of None / True / False (always consistently with the
operand's matrix) and the raw cache of the result is read.  The tables are written to
lean/Qv/Gen/FlagRules.lean together with one obligation `ruleAllowed op table = true` each, which the
Lean kernel re-checks (`decide`) on every run.
"""
import itertools
import os

import numpy as np

TRI = [None, True, False]


def pool():
    import qutip
    return {
        (True, True): [np.array([[0, 1], [1, 0]], dtype=complex)],
        (True, False): [np.array([[1, 0], [0, 2]], dtype=complex)],
        (False, True): [np.array([[0, 1j], [1j, 0]], dtype=complex)],
        (False, False): [np.array([[1, 1], [0, 1]], dtype=complex)],
    }


def operand(truthH, truthU, cacheH, cacheU):
    import qutip
    arr = pool()[(truthH, truthU)][0]
    q = qutip.Qobj(arr.copy())
    q._isherm = cacheH
    q._isunitary = cacheU
    return q


# site name -> (arity, callable, op for the H flag, op for the U flag)
def sites():
    import qutip
    return {
        "add": (2, lambda a, b: a + b, "addH", None),
        "sub": (2, lambda a, b: a - b, "subH", None),
        "matmul": (2, lambda a, b: a @ b, "matmulH", "matmulU"),
        "mul_qobj": (2, lambda a, b: a * b, "matmulH", "matmulU"),
        "tensor": (2, lambda a, b: qutip.tensor(a, b), "kronH", "kronU"),
        "neg": (1, lambda a: -a, "negH", "negU"),
        "dag": (1, lambda a: a.dag(), "dagH", "dagU"),
        "trans": (1, lambda a: a.trans(), "transH", "transU"),
        "conj": (1, lambda a: a.conj(), "conjH", "conjU"),
        "pow2": (1, lambda a: a ** 2, "powH", "powU"),
        "pow3": (1, lambda a: a ** 3, "powH", "powU"),
        "pow0": (1, lambda a: a ** 0, "pow0H", "pow0U"),
        "inv": (1, lambda a: a.inv(), "invH", "invU"),
        "expm": (1, lambda a: a.expm(), "expmH", None),
        "copy": (1, lambda a: a.copy(), "copyH", "copyU"),
        "to_dense": (1, lambda a: a.to("dense"), "copyH", "copyU"),
        "to_csr": (1, lambda a: a.to("csr"), "copyH", "copyU"),
        "mul_real": (1, lambda a: a * 2.0, "mulRealH", "mulNonUnitU"),
        "rmul_real": (1, lambda a: 0.5 * a, "mulRealH", "mulNonUnitU"),
        "div_real": (1, lambda a: a / 4.0, "mulRealH", "mulNonUnitU"),
        "mul_minus1": (1, lambda a: a * -1.0, "mulRealH", "mulUnitU"),
        "mul_i": (1, lambda a: a * 1j, "mulImagH", "mulUnitU"),
        "mul_complex": (1, lambda a: a * (1 + 1j), "mulImagH", "mulNonUnitU"),
        # a number next to a square object (promoted to a multiple of the identity)
        "sadd_real": (1, lambda a: a + 0.5, "saddRealH", None),
        "rsadd_real": (1, lambda a: -0.5 + a, "saddRealH", None),
        "ssub_real": (1, lambda a: a - 0.5, "saddRealH", None),
        "rssub_real": (1, lambda a: 0.5 - a, "saddRealH", None),
        "sadd_imag_pos": (1, lambda a: a + 0.15j, "saddImagH", None),
        "sadd_imag_neg": (1, lambda a: a + (-0.15j), "saddImagH", None),
        "rsadd_imag_neg": (1, lambda a: (-0.15j) + a, "saddImagH", None),
        "ssub_imag_pos": (1, lambda a: a - 0.15j, "saddImagH", None),
        "rssub_imag_neg": (1, lambda a: (-0.15j) - a, "saddImagH", None),
        "rssub_imag_pos": (1, lambda a: 0.15j - a, "saddImagH", None),
        "sadd_complex": (1, lambda a: a + (1 - 0.25j), "saddImagH", None),
    }


def tabulate():
    """returns list of (name, op, table) with table[a][b] in TRI order (unary: b ignored)."""
    out = []
    for name, (arity, f, opH, opU) in sites().items():
        for flag, op in (("H", opH), ("U", opU)):
            if op is None:
                continue
            seen = []
            # variants: truth of the other flag of each operand, and whether the other cache is populated
            for other_truth in itertools.product([True, False], repeat=arity):
                for other_set in (False, True):
                    table = []
                    for a in TRI:
                        row = []
                        for b in (TRI if arity == 2 else [None]):
                            ops = []
                            for k, c in enumerate((a, b)[:arity]):
                                truth = c if c is not None else True
                                oth = other_truth[k]
                                tH, tU = (truth, oth) if flag == "H" else (oth, truth)
                                cH = c if flag == "H" else (tH if other_set else None)
                                cU = c if flag == "U" else (tU if other_set else None)
                                ops.append(operand(tH, tU, cH, cU))
                            try:
                                res = f(*ops)
                                r = res._isherm if flag == "H" else res._isunitary
                                if r is not None:
                                    r = bool(r)
                            except Exception as e:   # the operation refuses these operands
                                r = None
                            row.append(r)
                        if arity == 1:
                            row = row * 3
                        table.append(row)
                    if table not in seen:
                        seen.append(table)
            for k, t in enumerate(seen):
                out.append((f"{name}_{flag}_{k}", op, t))
    return out


def lean_tri(x):
    return "none" if x is None else ("some true" if x else "some false")


def render(tables):
    lines = ["import Qv.Model.C03",
             "/-! GENERATED by harness/translate_flags.py from the behaviour of /repo — do not edit. -/",
             "namespace Qv.Gen.FlagRules", "open Qv.C03", ""]
    for name, op, t in tables:
        rows = ", ".join("[" + ", ".join(lean_tri(x) for x in row) + "]" for row in t)
        lines.append(f"def t_{name} : List (List Tri) := [{rows}]")
        lines.append(f"theorem ok_{name} : ruleAllowed .{op} (tableRule t_{name}) = true := by decide")
    lines += ["", "end Qv.Gen.FlagRules", ""]
    return "\n".join(lines)
