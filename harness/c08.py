"""C08 — channel representations describe one and the same map.

Oracle on the real conversions (numeric, relational): for random maps — completely positive or not,
trace preserving or not, equal or different input/output dimensions, single and composite systems,
unitary conjugations given as plain operators — every representation (super, Choi, chi, Kraus,
Stinespring) applied to the full operator basis gives the same output, round trips return the
original, shapes / labels / representation tags are those of the target representation, and the
predicates iscp / istp / ishp agree across representations and with their definitions.
Correspondence: the index shuffle between supermatrix and Choi matrix (`_super_tofrom_choi`) and
`kraus_to_choi` / `kraus_to_super` on exact integer data against the Lean model Qv.Model.C08.
"""
import json
import os
import sys

import numpy as np

sys.path.insert(0, os.path.dirname(os.path.abspath(__file__)))
import core

PID = "C08"
TOL = 1e-8


def gi(n, m, rng):
    return (rng.integers(-2, 3, size=(n, m)) + 1j * rng.integers(-2, 3, size=(n, m))).astype(complex)


def vecF(x):
    return np.asarray(x).reshape(-1, order="F")


def gen_case(rng, tier):
    kind = str(rng.choice(["kraus_cptp", "kraus_cp", "kraus_rect", "nonCP", "unitary", "hp_nonCP", "ctor_super", "ctor_super", "oper_square", "oper_rect", "oper_rect", "zero"]))
    dims = [[2], [3], [2, 2], [2], [4]][int(rng.integers(0, 5))]
    din = int(np.prod(dims))
    dout_dims = dims
    if kind in ("kraus_rect", "oper_rect"):
        dout_dims = [[3], [2], [2, 2], [4]][int(rng.integers(0, 4))]
        if dout_dims == dims:
            dout_dims = [3] if dims != [3] else [2]
    return {"kind": kind, "in": dims, "out": dout_dims, "nk": int(rng.integers(1, 4)), "seed": int(rng.integers(1 << 30))}


def build(case):
    """returns (description, apply_fn(X)->Y as numpy, representations dict of Qobj / list)"""
    import qutip
    rng = np.random.default_rng(case["seed"])
    din, dout = int(np.prod(case["in"])), int(np.prod(case["out"]))
    kind = case["kind"]
    if kind in ("kraus_cptp", "kraus_cp", "kraus_rect"):
        Ks = [gi(dout, din, rng) for _ in range(case["nk"])]
        if kind == "kraus_cptp":
            M = sum(k.conj().T @ k for k in Ks)
            w, v = np.linalg.eigh(M)
            if w.min() < 1e-6:
                Ks.append(np.eye(dout, din))
                M = sum(k.conj().T @ k for k in Ks)
                w, v = np.linalg.eigh(M)
            Minvh = v @ np.diag(w ** -0.5) @ v.conj().T
            Ks = [k @ Minvh for k in Ks]
        Kq = [qutip.Qobj(k, dims=[case["out"], case["in"]]) for k in Ks]
        fn = lambda X: sum(k @ X @ k.conj().T for k in Ks)       # noqa: E731
        return fn, {"kraus": Kq}, True
    if kind == "unitary":
        U = qutip.rand_unitary(din, seed=case["seed"], dims=[case["in"], case["in"]]).full() if False else None
        H = gi(din, din, rng)
        H = H + H.conj().T
        w, v = np.linalg.eigh(H)
        U = v @ np.diag(np.exp(1j * w)) @ v.conj().T
        Uq = qutip.Qobj(U, dims=[case["in"], case["in"]])
        return (lambda X: U @ X @ U.conj().T), {"oper": Uq}, True
    if kind in ("oper_square", "oper_rect"):
        # a conjugation X -> V X V+ given as a plain operator: isometry (trace preserving), co-isometry, contraction or arbitrary
        sub = int(rng.choice([0, 0, 0, 1, 2]))
        G = gi(max(din, dout), max(din, dout), rng) + np.eye(max(din, dout)) * 0.5
        Qm, _ = np.linalg.qr(G)
        if sub == 0:
            Vm = Qm[:dout, :din]          # isometry when dout >= din, co-isometry when dout < din
        elif sub == 1:
            Vm = 0.5 * Qm[:dout, :din]
        else:
            Vm = gi(dout, din, rng) / 3.0
        Vq = qutip.Qobj(Vm, dims=[case["out"], case["in"]])
        return (lambda X: Vm @ X @ Vm.conj().T), {"oper": Vq}, True
    if kind == "ctor_super":
        # supermatrices as the library's constructors hand them out (with their cached flags), flags inspected
        A = gi(din, din, rng)
        A = A + A.conj().T
        B = gi(din, din, rng)
        B = B + B.conj().T
        Aq, Bq = qutip.Qobj(A, dims=[case["in"], case["in"]]), qutip.Qobj(B, dims=[case["in"], case["in"]])
        Aq.isherm, Bq.isherm
        which = int(rng.integers(0, 5))
        Sq = [lambda: qutip.spre(Aq), lambda: qutip.spost(Aq), lambda: qutip.sprepost(Aq, Bq),
              lambda: qutip.spre(Aq) + qutip.spost(Bq), lambda: 2.0 * qutip.spre(Aq) - qutip.sprepost(Bq, Bq)][which]()
        if rng.random() < 0.5:
            Sq.isherm
        S = Sq.full()
        return (lambda X: (S @ vecF(X)).reshape(din, din, order="F")), {"super": Sq}, False
    # general linear map given by a random supermatrix
    S = gi(din * din, din * din, rng)
    if kind == "zero":
        S = np.zeros_like(S)      # the zero map (completely positive, not trace preserving)
    if kind == "hp_nonCP":
        # Hermiticity preserving but not CP: difference of two CP maps
        A, B = gi(din, din, rng), gi(din, din, rng)
        S = np.kron(A.conj(), A) - 2 * np.kron(B.conj(), B)
    Sq = qutip.Qobj(S, dims=[[case["in"], case["in"]], [case["in"], case["in"]]], superrep="super")
    return (lambda X: (S @ vecF(X)).reshape(din, din, order="F")), {"super": Sq}, False


def apply_rep(rep, obj, X, case):
    """apply a representation (as returned by the library) to the operator X through the public API"""
    import qutip
    din = X.shape[0]
    Xq = qutip.Qobj(X, dims=[case["in"], case["in"]])
    if rep == "kraus":
        return sum((k @ Xq @ k.dag()).full() for k in obj)
    S = qutip.to_super(obj)
    y = S @ qutip.operator_to_vector(Xq)
    return qutip.vector_to_operator(y).full()


def run_case(case, rep_):
    import qutip
    viol = []
    fn, given, is_cp = build(case)
    din, dout = int(np.prod(case["in"])), int(np.prod(case["out"]))
    tag = f"{case['kind']} in={case['in']} out={case['out']}"

    def V(sig, what):
        viol.append((sig, f"{tag}: {what}"))
    src_name, src = next(iter(given.items()))
    reps = {}
    try:
        if src_name == "kraus":
            reps["kraus"] = src
            reps["choi"] = qutip.kraus_to_choi(src)
            reps["super"] = qutip.kraus_to_super(src)
        elif src_name == "oper":
            reps["oper"] = src
            reps["super"] = qutip.to_super(src)
            reps["choi"] = qutip.to_choi(src)
        else:
            reps["super"] = src
            reps["choi"] = qutip.to_choi(src)
        reps["choi_from_super"] = qutip.to_choi(reps["super"])
        reps["super_from_choi"] = qutip.to_super(reps["choi"])
        if qutip.core.superop_reps.isqubitdims(reps["choi"].dims) and din == dout:
            reps["chi"] = qutip.to_chi(reps["choi"])
            reps["choi_from_chi"] = qutip.to_choi(reps["chi"])
            reps["super_from_chi"] = qutip.to_super(reps["chi"])
        if is_cp:
            reps["kraus_from_choi"] = qutip.to_kraus(reps["choi"])
            reps["kraus_from_super"] = qutip.to_kraus(reps["super"])
        A, B = qutip.to_stinespring(reps["choi"])
        reps["stinespring"] = (A, B)
    except core.CaseTimeout:
        raise
    except Exception as e:
        V("conversion-raises", f"{type(e).__name__}: {e}"[:200])
        return viol
    # --- every representation applies identically
    basis = []
    for i in range(din):
        for j in range(din):
            e = np.zeros((din, din), dtype=complex)
            e[i, j] = 1
            basis.append(e)
    for name, obj in reps.items():
        if name == "stinespring":
            A, B = obj
            for nm_, P_ in (("A", A), ("B", B)):
                if P_.dims[1] != case["in"] or P_.dims[0][:len(case["out"])] != case["out"] or len(P_.dims[0]) != len(case["out"]) + 1:
                    V("dims:stinespring", f"Stinespring operator {nm_} labelled {P_.dims} for a map {case['in']} -> {case['out']}")
            for X in basis:
                # Lambda(X) = Tr_env[A (X) B^dag]
                Xq = qutip.Qobj(X, dims=[case["in"], case["in"]])
                full = A @ Xq @ B.dag()
                got = full.ptrace(list(range(len(case["out"])))).full() if full.dims[0] != case["out"] else full.full()
                want = fn(X)
                if got.shape != want.shape or np.abs(got - want).max() > TOL * (1 + np.abs(want).max()):
                    V("apply:stinespring", "the Stinespring pair does not reproduce the map")
                    break
            continue
        kind = "kraus" if name.startswith("kraus") else "other"
        for X in basis:
            try:
                got = apply_rep(kind, obj, X, case)
            except core.CaseTimeout:
                raise
            except Exception as e:
                V(f"apply-raises:{name}", f"{type(e).__name__}: {e}"[:200])
                break
            want = fn(X)
            if got.shape != want.shape or np.abs(got - want).max() > TOL * (1 + np.abs(want).max()):
                V(f"apply:{name}", f"representation '{name}' applied to a basis operator differs from the map (max dev {np.abs(got - want).max() if got.shape == want.shape else 'shape'})")
                break
    # --- Choi and chi matrices applied by their definitions (not through the library's own conversion back):
    #     J = sum_ij E_ij (x) L(E_ij)  =>  L(X) = Tr_in[(X^T (x) 1) J];   L(X) = sum_ab chi_ab B_a X B_b^dagger with B_a the
    #     Pauli products divided by sqrt(2) per qubit, first qubit most significant (the user guide's formula)
    import itertools
    for X in basis:
        want = fn(X)
        J = reps["choi"].full()
        got = np.einsum("ij,iajb->ab", X, J.reshape(din, dout, din, dout))      # Tr_in[(X^T (x) 1) J]
        rep_.evaluations += 1
        if got.shape != want.shape or np.abs(got - want).max() > TOL * (1 + np.abs(want).max()):
            V("apply-definition:choi", f"the Choi matrix contracted with an operator, Tr_in[(X^T (x) 1) J], differs from the map (max dev {np.abs(got - want).max() if got.shape == want.shape else 'shape'})")
            break
    if "chi" in reps:
        nq = int(round(np.log2(din)))
        pa = [np.eye(2), np.array([[0, 1], [1, 0]]), np.array([[0, -1j], [1j, 0]]), np.array([[1, 0], [0, -1]])]
        Bs = []
        for idx in itertools.product(range(4), repeat=nq):
            m = np.array([[1.0 + 0j]])
            for a_ in idx:
                m = np.kron(m, pa[a_])
            Bs.append(m / np.sqrt(2) ** nq)
        c = reps["chi"].full() / 2 ** nq        # the library normalises tr(chi) = d^2 for a trace-preserving map; the guide's B_a carry 1/sqrt(d)
        for X in basis:
            want = fn(X)
            got = np.zeros((dout, dout), dtype=complex)
            for a_ in range(len(Bs)):
                for b_ in range(len(Bs)):
                    if c[a_, b_] != 0:
                        got = got + c[a_, b_] * Bs[a_] @ X @ Bs[b_].conj().T
            rep_.evaluations += 1
            if np.shape(got) != want.shape or np.abs(got - want).max() > TOL * (1 + np.abs(want).max()):
                V("apply-definition:chi", f"sum_ab chi_ab P_a X P_b^dagger / d (Pauli products, first qubit most significant) differs from the map (max dev {np.abs(got - want).max() if np.shape(got) == want.shape else 'shape'})")
                break
    # --- round trips
    def close(a, b):
        return a.shape == b.shape and np.abs(a.full() - b.full()).max() <= TOL * (1 + np.abs(b.full()).max())
    if not close(reps["choi_from_super"], reps["choi"]):
        V("roundtrip:choi", "to_choi(to_super(J)) != J / kraus_to_choi != to_choi(kraus_to_super)")
    if not close(reps["super_from_choi"], reps["super"]):
        V("roundtrip:super", "to_super(to_choi(S)) != S")
    if "chi" in reps:
        if not close(reps["choi_from_chi"], reps["choi"]):
            V("roundtrip:chi", "to_choi(to_chi(J)) != J")
        if not close(reps["super_from_chi"], reps["super"]):
            V("roundtrip:chi-super", "to_super(to_chi(J)) != S")
    # --- labels and tags
    ind, outd = case["in"], case["out"]
    if reps["super"].dims != [[outd, outd], [ind, ind]] or reps["super"].superrep != "super":
        V("dims:super", f"supermatrix labelled {reps['super'].dims} / {reps['super'].superrep}, expected {[[outd, outd], [ind, ind]]}")
    for nm in ("choi", "choi_from_super"):
        J = reps[nm]
        if J.superrep != "choi":
            V("tag:choi", f"{nm} tagged {J.superrep}")
        if J.dims != [[ind, outd], [ind, outd]]:
            V("dims:choi", f"{nm} labelled {J.dims}, expected {[[ind, outd], [ind, outd]]}")
    if reps["super_from_choi"].dims != reps["super"].dims:
        V("dims:super-from-choi", f"to_super(choi) labelled {reps['super_from_choi'].dims}, the supermatrix of the same map is labelled {reps['super'].dims}")
    if "chi" in reps and reps["chi"].superrep != "chi":
        V("tag:chi", f"chi tagged {reps['chi'].superrep}")
    # --- predicates: same verdict on every representation, equal to the definition
    J = reps["choi"].full()
    herm = np.abs(J - J.conj().T).max() < 1e-9 * (1 + np.abs(J).max())
    ev = np.linalg.eigvalsh((J + J.conj().T) / 2)
    border_h = (not herm) and np.abs(J - J.conj().T).max() < 1e-6
    # a smallest eigenvalue within rounding of zero: positive semidefinite in exact arithmetic (rank-deficient Choi matrices
    # of maps with few Kraus operators), so the definition says CP; only a clearly negative tiny value is left undecided
    border_cp = border_h or (-1e-6 * (1 + abs(ev).max()) < ev.min() < -1e-12 * (1 + abs(ev).max()))
    cp_def = bool(herm and ev.min() >= -1e-12 * (1 + abs(ev).max()))
    # Tr_out J = identity_in  (Choi matrix labelled [in, out])
    Jt = J.reshape(din, dout, din, dout)
    tp_def = bool(np.abs(np.einsum("iaja->ij", Jt) - np.eye(din)).max() < 1e-8)
    for nm in ("super", "choi", "chi", "oper"):
        if nm not in reps:
            continue
        q = reps[nm]
        try:
            got = (bool(q.ishp), bool(q.iscp), bool(q.istp))
        except Exception as e:
            V(f"predicate-raises:{nm}", f"{type(e).__name__}: {e}"[:200])
            continue
        if not border_h and got[0] != bool(herm):
            V(f"ishp:{nm}", f"ishp={got[0]} on '{nm}' but the Choi matrix is {'Hermitian' if herm else 'not Hermitian'}")
        if not border_cp and got[1] != cp_def:
            V(f"iscp:{nm}", f"iscp={got[1]} on '{nm}' but the Choi matrix is {'positive semidefinite' if cp_def else 'not positive semidefinite'}")
        try:
            both = bool(q.iscptp)
            if both != (got[1] and got[2]):
                V(f"iscptp:{nm}", f"iscptp={both} on '{nm}' although iscp={got[1]} and istp={got[2]}")
        except Exception as e:      # noqa
            V(f"predicate-raises:{nm}", f"iscptp: {type(e).__name__}: {e}"[:200])
        if got[2] != tp_def:
            V(f"istp:{nm}", f"istp={got[2]} on '{nm}' but the partial trace of the Choi matrix is {'the identity' if tp_def else 'not the identity'}")
    return viol, reps


def run(tier, seed, replay):
    rep = core.Report(PID, tier, seed)
    rep.rule = ("random maps: CPTP / CP / rectangular Kraus sets (1-3 operators), random and Hermiticity-preserving non-CP "
                "supermatrices, unitaries given as operators; dims [2],[3],[4],[2,2]; each checked on the full operator basis "
                "through every representation; non-trivial = every case (distinct map)")
    rep.assumptions = ["numeric comparisons to 1e-8; predicate verdicts skipped when within 1e-6 of the border"]
    core.build_repo()
    proved = core.prove(rep, ["Qv.Model.C08", "Qv.Props.C08"], "Qv.Props.C08")
    if tier == "thorough":
        core.leanchecker(rep, ["Qv.Props.C08"])
    rng = np.random.default_rng(seed)
    if replay:
        cases = [json.load(open(replay))["replay"]["case"]]
    else:
        cases = []
        d = os.path.join(core.VERIF, "corpus", PID)
        if os.path.isdir(d):
            for f in sorted(os.listdir(d)):
                cases.append(json.load(open(os.path.join(d, f)))["case"])
        cases += [gen_case(rng, tier) for _ in range(60 if tier == "quick" else 600)]
    seen = set()
    lines, impl = [], []
    for c in cases:
        try:
            with core.time_limit(120):
                out = run_case(c, rep)
        except core.CaseTimeout:
            raise
        except Exception as e:
            rep.violation(core.Violation("C08:raises", f"{type(e).__name__}: {e}"[:300], {"case": c}))
            continue
        viol, reps = out if isinstance(out, tuple) else (out, {})
        rep.case(c, True)
        rep.count("kind=" + c["kind"])
        for sig, what in viol:
            if sig not in seen:
                seen.add(sig)
                rep.violation(core.Violation("C08:" + sig, what, {"case": c}))
        # exact correspondence of the index shuffle on an integer matrix with identifiable entries
        if reps and c["in"] == c["out"]:
            import qutip
            n = int(np.prod(c["in"]))
            M = (np.arange(n ** 4).reshape(n * n, n * n) + 1).astype(complex)
            Sq = qutip.Qobj(M, dims=[[c["in"], c["in"]], [c["in"], c["in"]]], superrep="super")
            Jq = qutip.to_choi(Sq)
            lines.append("C08.shuffle " + json.dumps({"n": n, "m": [[int(x.real) for x in row] for row in M]}))
            impl.append([[int(round(x.real)) for x in row] for row in Jq.full()])
    # chi matrices of maps on several qubits: the process matrix of a product of one-qubit maps is the Kronecker product of
    # their process matrices (first qubit most significant), and a Pauli acting on one qubit sits at that qubit's index
    import qutip
    crng = np.random.default_rng([seed, 88])
    for _ in range(6 if tier == "quick" else 40):
        def rnd_map():
            a, b = (qutip.Qobj(crng.standard_normal((2, 2)) + 1j * crng.standard_normal((2, 2))) for _ in range(2))
            return qutip.sprepost(a, a.dag()) + float(crng.uniform(-0.5, 1.0)) * qutip.sprepost(b, b.dag())
        S1, S2 = rnd_map(), rnd_map()
        try:
            with core.time_limit(60):
                chi12 = qutip.to_chi(qutip.super_tensor(S1, S2)).full()
                c1, c2 = qutip.to_chi(S1).full(), qutip.to_chi(S2).full()
                back = qutip.to_super(qutip.Qobj(np.kron(c1, c2), dims=[[[2, 2], [2, 2]], [[2, 2], [2, 2]]], superrep="chi"))
        except Exception as e:
            rep.violation(core.Violation("C08:chi-product-raises", f"{type(e).__name__}: {e}"[:200], {}))
            continue
        rep.evaluations += 1
        rep.count("chi-product")
        if np.abs(chi12 - np.kron(c1, c2)).max() > 1e-9 * (1 + np.abs(chi12).max()):
            rep.violation(core.Violation("C08:chi-product", f"to_chi of a product of two one-qubit maps is not the Kronecker product of their chi matrices (max deviation {np.abs(chi12 - np.kron(c1, c2)).max():.2e})", {}))
            break
        if np.abs(back.full() - qutip.super_tensor(S1, S2).full()).max() > 1e-9 * (1 + np.abs(back.full()).max()):
            rep.violation(core.Violation("C08:chi-product", "a chi matrix written down as the Kronecker product of two one-qubit chi matrices does not convert to the product map", {}))
            break
    for pos, lab in ((0, "X x 1"), (1, "1 x X")):
        P = qutip.tensor(qutip.sigmax(), qutip.qeye(2)) if pos == 0 else qutip.tensor(qutip.qeye(2), qutip.sigmax())
        chiP = qutip.to_chi(qutip.to_super(P)).full()
        idx = 4 * 1 + 0 if pos == 0 else 4 * 0 + 1
        want = np.zeros((16, 16), dtype=complex)
        want[idx, idx] = 16
        rep.evaluations += 1
        if np.abs(chiP - want).max() > 1e-9:
            rep.violation(core.Violation("C08:chi-pauli-index", f"to_chi of the conjugation by {lab} has its weight at {[int(x) for x in np.argwhere(np.abs(chiP) > 1e-9)[0]]}, not at index {idx} of the Pauli products (first qubit most significant)", {"pauli": lab}))
    model = core.run_driver(lines)
    ndis, first = 0, None
    for line, want, m in zip(lines, impl, model):
        rep.evaluations += 1
        if m.get("out") != want:
            ndis += 1
            if first is None:
                first = {"line": line[:300], "model": str(m)[:300], "impl": str(want)[:300]}
    rep.notes["correspondence_disagreements"] = ndis
    if ndis:
        rep.broken.append({"kind": "correspondence", "which": "C08.shuffle", "count": ndis, "first": first})
    if (ndis or not proved) and not rep.violations:
        rep.violation(core.Violation("C08:unverified", "model/proof no longer matches the code and no failing input was found",
                                     {"broken": rep.broken}, failing_input_found=False))
    return rep.finish()


if __name__ == "__main__":
    core.main(run, PID)
