"""Shared pipeline for every property check (DESIGN.md 2.4).

  build /repo -> regenerate Lean files from /repo -> lake build -> axiom audit
  -> correspondence (implementation vs Lean driver) -> verdict (+ failing-input search)

Exit codes: 0 property held on everything explored, 1 violation (a line
"VIOLATION property=<id> replay=<path>" is printed), 2 tool failure / timeout.
"""
import fcntl
import hashlib
import json
import os
import re
import subprocess
import sys
import time
import traceback

VERIF = os.path.dirname(os.path.dirname(os.path.abspath(__file__)))
LEAN = os.path.join(VERIF, "lean")
REPO = os.environ.get("QV_REPO", "/repo")
PY = "/venv/bin/python"
ALLOWED_AXIOMS = {"propext", "Classical.choice", "Quot.sound"}
FORBIDDEN = re.compile(
    r"\b(sorry|admit|native_decide|bv_decide|implemented_by|unsafe)\b|^\s*axiom\s|maxHeartbeats\s+0\b",
    re.M)


class ToolFailure(Exception):
    pass


def log(*a):
    print("[check]", *a, file=sys.stderr, flush=True)


# ----------------------------------------------------------------------------
# step 1: build /repo (Cython extensions) from the current working tree
def build_repo():
    t0 = time.time()
    lock = open("/tmp/.qv_build.lock", "w")
    fcntl.flock(lock, fcntl.LOCK_EX)
    try:
        env = dict(os.environ)
        env["QUTIP_VERIF"] = "1"
        p = subprocess.run([PY, "setup.py", "build_ext", "--inplace", "-j16"], cwd=REPO,
                           stdout=subprocess.PIPE, stderr=subprocess.STDOUT, text=True, env=env)
        if p.returncode != 0:
            raise ToolFailure("repo build failed:\n" + p.stdout[-3000:])
    finally:
        fcntl.flock(lock, fcntl.LOCK_UN)
    return time.time() - t0


# ----------------------------------------------------------------------------
# step 2/3: write generated files, lake build
def write_if_changed(path, content):
    try:
        if open(path).read() == content:
            return False
    except FileNotFoundError:
        pass
    os.makedirs(os.path.dirname(path), exist_ok=True)
    with open(path, "w") as f:
        f.write(content)
    return True


def lake_lock():
    lock = open("/tmp/.qv_lake.lock", "w")
    fcntl.flock(lock, fcntl.LOCK_EX)
    return lock


def lake_build(targets):
    """Build Lean modules. Returns (ok, log_text)."""
    lock = lake_lock()
    try:
        p = subprocess.run(["lake", "build"] + list(targets), cwd=LEAN,
                           stdout=subprocess.PIPE, stderr=subprocess.STDOUT, text=True)
    finally:
        fcntl.flock(lock, fcntl.LOCK_UN)
    return p.returncode == 0, p.stdout


def lean_source_files(modules):
    out = []
    for m in modules:
        out.append(os.path.join(LEAN, m.replace(".", "/") + ".lean"))
    return out


def strip_comments(src):
    # remove /- ... -/ (nested not handled beyond one level) and -- comments
    src = re.sub(r"/-.*?-/", "", src, flags=re.S)
    src = re.sub(r"--.*", "", src)
    return src


def grep_forbidden(modules):
    hits = []
    for f in lean_source_files(modules):
        try:
            src = strip_comments(open(f).read())
        except FileNotFoundError:
            hits.append((f, "missing"))
            continue
        for m in FORBIDDEN.finditer(src):
            hits.append((f, m.group(0).strip()))
    return hits


def theorem_names(props_module):
    """All theorem names declared in a Props file (namespace-qualified)."""
    path = os.path.join(LEAN, props_module.replace(".", "/") + ".lean")
    src = strip_comments(open(path).read())
    ns = []
    names = []
    for line in src.splitlines():
        m = re.match(r"\s*namespace\s+(\S+)", line)
        if m:
            ns.append(m.group(1))
            continue
        m = re.match(r"\s*end\s+(\S+)", line)
        if m and ns and ns[-1] == m.group(1):
            ns.pop()
            continue
        m = re.match(r"\s*(?:@\[[^\]]*\]\s*)?(?:private\s+|protected\s+)?theorem\s+(\S+)", line)
        if m:
            names.append(".".join(ns + [m.group(1)]))
    return names


def axiom_audit(imports, names):
    """#print axioms for each name. Returns dict name -> list of axioms (or None if unknown)."""
    if not names:
        return {}
    src = "".join(f"import {m}\n" for m in imports)
    src += "".join(f"#print axioms {n}\n" for n in names)
    path = os.path.join(LEAN, ".lake", f"audit_{os.getpid()}.lean")
    os.makedirs(os.path.dirname(path), exist_ok=True)
    open(path, "w").write(src)
    try:
        p = subprocess.run(["lake", "env", "lean", path], cwd=LEAN, stdout=subprocess.PIPE,
                           stderr=subprocess.STDOUT, text=True)
    finally:
        os.unlink(path)
    out = p.stdout
    res = {}
    for n in names:
        m = re.search(r"'" + re.escape(n) + r"' depends on axioms: \[([^\]]*)\]", out, re.S)
        if m:
            res[n] = [a.strip() for a in m.group(1).replace("\n", " ").split(",") if a.strip()]
        elif re.search(r"'" + re.escape(n) + r"' does not depend on any axioms", out):
            res[n] = []
        else:
            res[n] = None
    return res, out


# ----------------------------------------------------------------------------
# step 5: drive the Lean model
def run_driver(lines):
    """Send lines to the Lean driver, return list of decoded JSON outputs."""
    if not lines:
        return []
    inp = "\n".join(lines) + "\n"
    p = subprocess.run(["lake", "env", "lean", "--run", "Driver.lean"], cwd=LEAN, input=inp,
                       stdout=subprocess.PIPE, stderr=subprocess.PIPE, text=True)
    if p.returncode != 0:
        raise ToolFailure("driver failed: " + p.stderr[-2000:] + p.stdout[-500:])
    outs = p.stdout.splitlines()
    if len(outs) != len(lines):
        raise ToolFailure(f"driver returned {len(outs)} lines for {len(lines)} inputs: {p.stderr[-500:]}")
    res = []
    for o in outs:
        try:
            res.append(json.loads(o))
        except Exception:
            res.append({"error": "unparsable: " + o[:200]})
    return res


class CaseTimeout(Exception):
    pass


class time_limit:
    """Per-case watchdog: implementation code that loops forever becomes an exception.  The limit is on the CPU time of
    this process (SIGPROF), so that a loaded machine does not turn a slow case into an alarm; a case that merely waits
    (a dead-locked pool) is caught by a wall-clock limit ten times as long (SIGALRM)."""

    def __init__(self, seconds):
        self.seconds = seconds

    def _handler(self, signum, frame):
        raise CaseTimeout(f"no result within {self.seconds}s of CPU time / {10 * self.seconds}s of wall time")

    def __enter__(self):
        import signal
        self._old = signal.signal(signal.SIGALRM, self._handler)
        self._oldp = signal.signal(signal.SIGPROF, self._handler)
        signal.setitimer(signal.ITIMER_REAL, 10 * self.seconds)
        signal.setitimer(signal.ITIMER_PROF, self.seconds)

    def __exit__(self, *a):
        import signal
        signal.setitimer(signal.ITIMER_PROF, 0)
        signal.setitimer(signal.ITIMER_REAL, 0)
        signal.signal(signal.SIGALRM, self._old)
        signal.signal(signal.SIGPROF, self._oldp)
        return False


def canon(x):
    return json.dumps(x, sort_keys=True, separators=(",", ":"))


def chash(x):
    return hashlib.sha1(canon(x).encode()).hexdigest()


# ----------------------------------------------------------------------------
# known findings
def load_known():
    p = os.path.join(VERIF, "known_findings.json")
    try:
        return json.load(open(p))
    except FileNotFoundError:
        return {"findings": []}


class Violation:
    def __init__(self, signature, what, replay, failing_input_found=True):
        self.signature = signature      # stable identifier of the failing site / input class
        self.what = what                # one-line description
        self.replay = replay            # JSON-able replay content
        self.found = failing_input_found


class Report:
    """Collects everything a run learned; writes evidence and replays; decides the exit code."""

    def __init__(self, pid, tier, seed, level="proof"):
        self.pid, self.tier, self.seed, self.level = pid, tier, seed, level
        self.t0 = time.time()
        self.obligations = 0
        self.discharged = 0
        self.broken = []          # names of theorems / obligations / correspondences that no longer check
        self.axioms = {}
        self.evaluations = 0
        self.nontrivial = set()
        self.samples = []
        self.rule = ""
        self.dist = {}
        self.violations = []
        self.notes = {}
        self.assumptions = []
        self.checker_cmd = ""
        self.structure_drift = 0
        self.exhaustive = False

    def count(self, key, n=1):
        self.dist[key] = self.dist.get(key, 0) + n

    def case(self, case, nontrivial):
        self.evaluations += 1
        if nontrivial:
            self.nontrivial.add(chash(case))
        if len(self.samples) < 4:
            self.samples.append(case)

    def violation(self, v):
        self.violations.append(v)

    def finish(self):
        known = load_known()
        kn = [f for f in known.get("findings", []) if f.get("property") == self.pid and f.get("status") == "known"]
        out_lines = []
        new = []
        seen_known = set()
        seen_sig = set()
        for v in self.violations:
            if v.signature in seen_sig:
                continue
            seen_sig.add(v.signature)
            match = None
            for f in kn:
                if v.signature in f.get("signatures", []):
                    match = f
                    break
            if match is not None:
                if match["id"] not in seen_known:
                    seen_known.add(match["id"])
                    out_lines.append(f"KNOWN-FINDING: property={self.pid} {match['what']}")
                continue
            new.append(v)
        os.makedirs(os.path.join(VERIF, "replays"), exist_ok=True)
        for f in os.listdir(os.path.join(VERIF, "replays")):
            if f.startswith(self.pid + "_"):
                os.unlink(os.path.join(VERIF, "replays", f))
        for k, v in enumerate(new):
            name = re.sub(r"[^A-Za-z0-9_.-]+", "_", v.signature)[:80]
            path = os.path.join("replays", f"{self.pid}_{name}.json")
            with open(os.path.join(VERIF, path), "w") as f:
                json.dump({"property": self.pid, "signature": v.signature, "what": v.what,
                           "failing_input_found": v.found, "seed": self.seed, "tier": self.tier,
                           "broken_obligations": self.broken, "replay": v.replay}, f, indent=1, default=str)
            tail = "" if v.found else " no-failing-input-found"
            out_lines.append(f"VIOLATION property={self.pid} replay={path}{tail}")
            log(f"violation {v.signature}: {v.what}")
        ev = {
            "property_id": self.pid, "tier": self.tier, "seed": self.seed, "level": self.level,
            "coverage": {
                "obligations": self.obligations, "discharged": self.discharged,
                "checker_cmd": self.checker_cmd or "lake build (Lean 4 kernel) + #print axioms audit",
                "trusted_base": sorted({a for v in self.axioms.values() if v for a in v}) +
                ["Lean 4.33 kernel", "harness/ (translators + correspondence, Python)"],
                "evaluations": self.evaluations, "distinct_nontrivial": len(self.nontrivial),
                "rule": self.rule, "samples": self.samples, "exhaustive": self.exhaustive,
                "input_distribution": self.dist, "broken": self.broken,
                "theorem_axioms": self.axioms, "structure_drift": self.structure_drift,
                "known_findings_seen": sorted(seen_known), **self.notes,
            },
            "assumptions": self.assumptions,
            "wall_s": round(time.time() - self.t0, 2),
            "violations": len(new),
        }
        os.makedirs(os.path.join(VERIF, "evidence"), exist_ok=True)
        with open(os.path.join(VERIF, "evidence", f"{self.pid}.json"), "w") as f:
            json.dump(ev, f, indent=1, default=str)
        for l in out_lines:
            print(l, flush=True)
        return 1 if new else 0


# ----------------------------------------------------------------------------
def prove(report, prop_modules, props_module, extra_obligations=()):
    """lake build + forbidden-token grep + axiom audit.  Fills report; returns True when all clean."""
    # the property's own modules decide; the driver needs the models and front-ends of every property (not their proofs),
    # so a proof of another property that does not build cannot make this check fail
    ok, out = lake_build(prop_modules)
    drv = re.findall(r"^import\s+(Qv\.Drv\.\S+)", open(os.path.join(LEAN, "Driver.lean")).read(), flags=re.M)
    lake_build(drv)
    props_modules = list(props_module) if isinstance(props_module, (list, tuple)) else [props_module]
    names = [n for m in props_modules for n in theorem_names(m)] + list(extra_obligations)
    report.obligations += len(names)
    clean = True
    if not ok:
        # which declarations failed?
        failed = sorted(set(re.findall(r"error: (\S+\.lean:\d+:\d+)", out)))
        report.broken.append({"kind": "lake build", "where": failed[:20], "log_tail": out[-1500:]})
        report.notes["build_log_tail"] = out[-1500:]
        clean = False
    hits = grep_forbidden(prop_modules)
    if hits:
        report.broken.append({"kind": "forbidden token", "hits": hits[:10]})
        clean = False
    if ok:
        ax, raw = axiom_audit(props_modules + [m for m in prop_modules if ".Gen." in m], names)
        report.axioms = ax
        for n, a in ax.items():
            if a is None:
                report.broken.append({"kind": "theorem missing", "name": n})
                clean = False
            elif not set(a) <= ALLOWED_AXIOMS:
                report.broken.append({"kind": "axiom", "name": n, "axioms": a})
                clean = False
            else:
                report.discharged += 1
    report.checker_cmd = ("cd lean && lake build " + " ".join(prop_modules) +
                          " && #print axioms <each theorem of " + ", ".join(props_modules) + ">")
    return clean


def leanchecker(report, modules):
    p = subprocess.run(["lake", "env", "leanchecker"] + modules, cwd=LEAN, stdout=subprocess.PIPE,
                       stderr=subprocess.STDOUT, text=True)
    report.notes["leanchecker"] = {"modules": modules, "exit": p.returncode, "tail": p.stdout[-300:]}
    if p.returncode != 0:
        report.broken.append({"kind": "leanchecker", "tail": p.stdout[-500:]})
        return False
    return True


def main(run_fn, pid):
    # the tier named on the command line wins; VERIF_TIER is the fallback
    tier = sys.argv[1] if len(sys.argv) > 1 and sys.argv[1] in ("quick", "thorough") else os.environ.get("VERIF_TIER", "quick")
    if tier not in ("quick", "thorough"):
        tier = "quick"
    seed = int(os.environ.get("VERIF_SEED", "0") or 0)
    replay = None
    if "--replay" in sys.argv:
        replay = sys.argv[sys.argv.index("--replay") + 1]
        # a replay file records the seed and tier of the run that produced it: re-run exactly that
        try:
            rj = json.load(open(replay if os.path.isabs(replay) else os.path.join(VERIF, replay)))
            seed = int(rj.get("seed", seed))
            tier = rj.get("tier", tier) if rj.get("tier") in ("quick", "thorough") else tier
        except Exception as e:        # noqa
            log("replay file not readable:", e)
    try:
        rc = run_fn(tier, seed, replay)
    except ToolFailure as e:
        log("tool failure:", e)
        sys.exit(2)
    except Exception as e:
        # The harness itself stumbled over what the implementation returned (an unexpected structure, an exception
        # type it does not expect, a case that never returns): the correspondence between the code and what the
        # model / oracle expects of it is broken.  That is reported like any other broken correspondence — a
        # violation without a failing input — with the traceback as the replay, instead of a tool failure.
        tb = traceback.format_exc()
        sys.stderr.write(tb)
        rep = Report(pid, tier, seed)
        rep.rule = "the run was cut short by an exception inside the harness"
        kind = "hang" if isinstance(e, CaseTimeout) else "harness-exception"
        rep.broken.append({"kind": kind, "exception": f"{type(e).__name__}: {e}"[:300]})
        rep.violation(Violation(f"{pid}:{kind}", f"the check could not run to its end on this tree: {type(e).__name__}: {e}"[:300],
                                {"traceback": tb[-3000:]}, failing_input_found=False))
        rc = rep.finish()
    sys.exit(rc)
